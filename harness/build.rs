//! Generates the module list: every `src/cNN.rs` is a property module exposing `prop()`.
use std::{env, fs, path::Path};
fn main() {
    let src = Path::new(&env::var("CARGO_MANIFEST_DIR").unwrap()).join("src");
    let mut ids: Vec<String> = fs::read_dir(&src)
        .unwrap()
        .filter_map(|e| e.ok())
        .filter_map(|e| e.file_name().into_string().ok())
        .filter(|n| n.len() == 6 && n.starts_with('c') && n.ends_with(".rs") && n[1..3].chars().all(|c| c.is_ascii_digit()))
        .map(|n| n[..3].to_string())
        .collect();
    if let Ok(only) = env::var("KV_ONLY") {
        let keep: Vec<&str> = only.split(',').collect();
        ids.retain(|i| keep.contains(&i.as_str()));
    } else {
        // modules still under construction are left out: a property is built in once its
        // props/Cxx.json says "integrated": true
        let props = Path::new("/verif/props");
        ids.retain(|i| {
            fs::read_to_string(props.join(format!("{}.json", i.to_uppercase())))
                .map(|t| t.contains("\"integrated\": true"))
                .unwrap_or(false)
        });
    }
    ids.sort();
    let mut out = String::new();
    for id in &ids {
        out.push_str(&format!("#[path = \"{}/{}.rs\"]\nmod {};\n", src.display(), id, id));
    }
    out.push_str("pub fn props() -> Vec<Prop> {\n    vec![");
    for id in &ids {
        out.push_str(&format!("{}::prop(), ", id));
    }
    out.push_str("]\n}\n");
    fs::write(Path::new(&env::var("OUT_DIR").unwrap()).join("mods.rs"), out).unwrap();
    println!("cargo:rerun-if-changed=src");
    println!("cargo:rerun-if-changed=/verif/props");
    println!("cargo:rerun-if-env-changed=KV_ONLY");
}
