//! C09 — nearest-point queries (`ParamCurveNearest::nearest` for Line, QuadBez, CubicBez, PathSeg).
//!
//! Correspondence: lines bit-exact; quadratics/cubics on the libm-free paths of `solve_cubic`
//! (delegation to the quadratic/linear solver, d = 0) bit-exact; everything that reaches
//! cbrt/atan2/sin/cos with a tolerance, on inputs whose implementation output is stable under
//! 1e-13 relative perturbations of every argument.
//! Laws: dense-sample (4096) + golden-section oracle for the true minimum distance.
use crate::geom::*;
use crate::util::{Out, Rng};
use crate::{Law, Prop};
use kurbo::common::solve_cubic;
use kurbo::{CubicBez, Line, Nearest, ParamCurve, ParamCurveNearest, PathSeg, Point, QuadBez, Vec2};

pub fn prop() -> Prop {
    Prop { id: "C09", corr, laws, extra, law_budget: (500, 14000) }
}

// ------------------------------------------------------------------ generators

/// a coordinate in the property's domain (extents of order 10)
fn co(r: &mut Rng) -> f64 {
    match r.below(10) {
        0..=2 => r.grid(8, 2.0),
        3..=4 => r.grid(40, 8.0),
        5..=6 => r.uniform(-10.0, 10.0),
        7 => r.generic(-3, 4),
        _ => r.uniform(-5.0, 5.0),
    }
}
fn pt_c(r: &mut Rng) -> Point {
    Point::new(co(r), co(r))
}
fn pt_grid(r: &mut Rng) -> Point {
    Point::new(r.grid(8, 2.0), r.grid(8, 2.0))
}
fn pt_generic(r: &mut Rng) -> Point {
    Point::new(r.uniform(-10.0, 10.0), r.uniform(-10.0, 10.0))
}

fn gen_line9(r: &mut Rng) -> (Line, &'static str) {
    match r.below(8) {
        0 => {
            let p = pt_c(r);
            (Line::new(p, p), "zero-length")
        }
        1 => {
            let p = pt_c(r);
            (Line::new(p, Point::new(p.x, co(r))), "vertical")
        }
        2 => {
            let p = pt_c(r);
            (Line::new(p, Point::new(co(r), p.y)), "horizontal")
        }
        3 => (Line::new(pt_grid(r), pt_grid(r)), "grid"),
        4 => {
            let p = pt_c(r);
            (Line::new(p, p + Vec2::new(r.generic(-30, -10), r.generic(-30, -10))), "tiny")
        }
        _ => (Line::new(pt_c(r), pt_c(r)), "generic"),
    }
}

fn gen_quad9(r: &mut Rng) -> (QuadBez, &'static str) {
    match r.below(16) {
        0 => {
            // p1 is exactly the midpoint: d1 = p0 + p2 - 2 p1 = 0 exactly
            let (a, b) = (pt_grid(r), pt_grid(r));
            (QuadBez::new(a, a.midpoint(b), b), "midpoint-exact")
        }
        1 => {
            let p = pt_c(r);
            (QuadBez::new(p, p, p), "point")
        }
        2 => {
            let p = pt_c(r);
            (QuadBez::new(p, pt_c(r), p), "fold-back")
        }
        3 => {
            let (a, b) = (pt_grid(r), pt_grid(r));
            let t = r.range_i(-4, 12) as f64 / 8.0;
            (QuadBez::new(a, a.lerp(b, t), b), "collinear-dyadic")
        }
        4 => {
            // p1 the rounded midpoint of generic end points: d1 of rounding size
            let (a, b) = (pt_generic(r), pt_generic(r));
            (QuadBez::new(a, a.midpoint(b), b), "midpoint-rounded")
        }
        5 => {
            let (a, b) = (pt_generic(r), pt_generic(r));
            let t = r.uniform(-0.5, 1.5);
            (QuadBez::new(a, a.lerp(b, t), b), "collinear-generic")
        }
        6 => {
            // symmetric parabola on the grid (queries on its axis hit the double-root branch)
            let (a, b) = (r.grid(8, 2.0), r.grid(8, 2.0));
            let (w, h) = (r.range_i(1, 6) as f64 / 2.0, r.range_i(-6, 6) as f64 / 2.0);
            (QuadBez::new((a - w, b + h), (a, b - h), (a + w, b + h)), "parabola-grid")
        }
        7 => {
            let (a, b) = (pt_c(r), pt_c(r));
            if r.bool() {
                (QuadBez::new(a, a, b), "p1=p0")
            } else {
                (QuadBez::new(a, b, b), "p1=p2")
            }
        }
        8 | 9 => (QuadBez::new(pt_grid(r), pt_grid(r), pt_grid(r)), "grid"),
        11 => {
            // exact midpoint of small-integer end points plus a bump far below rounding size relative to
            // the chord, but representable next to the zero coordinate of the midpoint: c3 = |d1|^2 is
            // subnormal or the scaled coefficients overflow (the non-finite tests of the solvers)
            let mut a = Point::new(r.range_i(-4, 4) as f64, r.range_i(-4, 4) as f64);
            if a == Point::ZERO {
                // (a curve of size 1e-160 would only test the underflow of squared lengths)
                a = Point::new(3.0, -1.0);
            }
            let b = Point::new(-a.x, -a.y);
            let e = *r.pick(&[1e-160, 1e-155, 1e-120, 1e-100, 1e-60, 1e-30]) * if r.bool() { 1.0 } else { -1.0 };
            let m = if r.bool() { Point::new(e, 0.0) } else { Point::new(e, -e) };
            (QuadBez::new(a, m, b), "midpoint-tiny-bump")
        }
        10 => {
            // nearly straight: p1 = midpoint + a small bump
            let (a, b) = (pt_generic(r), pt_generic(r));
            let e = 10f64.powf(r.uniform(-14.0, -2.0));
            let m = a.midpoint(b) + Vec2::new(r.uniform(-1.0, 1.0), r.uniform(-1.0, 1.0)) * e;
            (QuadBez::new(a, m, b), "nearly-straight")
        }
        _ => (QuadBez::new(pt_c(r), pt_c(r), pt_c(r)), "generic"),
    }
}

fn gen_cubic9(r: &mut Rng) -> (CubicBez, &'static str) {
    match r.below(20) {
        0 => {
            // a line with its controls exactly at the thirds (coordinates multiples of 3/2)
            let a = Point::new(1.5 * r.range_i(-6, 6) as f64, 1.5 * r.range_i(-6, 6) as f64);
            let d = Vec2::new(1.5 * r.range_i(-6, 6) as f64, 1.5 * r.range_i(-6, 6) as f64);
            (CubicBez::new(a, a + d / 3.0, a + d * (2.0 / 3.0), a + d), "straight-thirds-grid")
        }
        1 | 2 => {
            // the property text's case: a generic line, controls at the (rounded) thirds
            let (a, b) = (pt_generic(r), pt_generic(r));
            (CubicBez::new(a, a.lerp(b, 1.0 / 3.0), a.lerp(b, 2.0 / 3.0), b), "straight-thirds")
        }
        3 => {
            let (a, b) = (pt_grid(r), pt_grid(r));
            let (s, t) = (r.range_i(-4, 12) as f64 / 8.0, r.range_i(-4, 12) as f64 / 8.0);
            (CubicBez::new(a, a.lerp(b, s), a.lerp(b, t), b), "collinear-dyadic")
        }
        4 => {
            let (a, b) = (pt_generic(r), pt_generic(r));
            let (s, t) = (r.uniform(-0.5, 1.5), r.uniform(-0.5, 1.5));
            (CubicBez::new(a, a.lerp(b, s), a.lerp(b, t), b), "collinear-generic")
        }
        5 => {
            // loop: the control polygon crosses itself
            let a = pt_c(r);
            let (w, h) = (r.uniform(2.0, 10.0), r.uniform(2.0, 10.0));
            let e = Vec2::new(r.uniform(-1.0, 1.0), r.uniform(-0.5, 0.5));
            (CubicBez::new(a, a + Vec2::new(w, h), a + Vec2::new(-w, h), a + e), "loop")
        }
        6 => {
            // cusp at t = 1/2
            let (a, b) = (co(r), co(r));
            let (w, h) = (r.range_i(1, 8) as f64 / 2.0, r.range_i(1, 8) as f64 / 2.0);
            (CubicBez::new((a - w, b), (a + w, b + h), (a - w, b + h), (a + w, b)), "cusp")
        }
        7 => {
            // centrally symmetric S: c''(1/2) = 0, so with an odd piece count the middle quadratic is degree-degenerate
            let m = pt_c(r);
            let (u, v) = (Vec2::new(co(r), co(r)), Vec2::new(co(r), co(r)));
            (CubicBez::new(m - u, m - v, m + v, m + u), "s-symmetric")
        }
        8 => {
            let (a, b) = (pt_c(r), pt_c(r));
            (CubicBez::new(a, a, b, b), "line-as-cubic")
        }
        9 => {
            let p = pt_c(r);
            (CubicBez::new(p, p, p, p), "point")
        }
        10 => {
            let q = QuadBez::new(pt_grid(r), pt_grid(r), pt_grid(r));
            (q.raise(), "raised-quad")
        }
        11 => {
            let (a, b) = (pt_c(r), pt_c(r));
            let c = pt_c(r);
            if r.bool() {
                (CubicBez::new(a, a, c, b), "p1=p0")
            } else {
                (CubicBez::new(a, c, b, b), "p2=p3")
            }
        }
        12 | 13 => (CubicBez::new(pt_grid(r), pt_grid(r), pt_grid(r), pt_grid(r)), "grid"),
        14 => {
            let p = pt_c(r);
            (CubicBez::new(p, pt_c(r), pt_c(r), p), "closed")
        }
        _ => (CubicBez::new(pt_c(r), pt_c(r), pt_c(r), pt_c(r)), "generic"),
    }
}

/// an accuracy in the property's domain: (1e-8..1) * extent / 10 (a curve without extent - a single
/// point - takes the magnitude of its coordinates, or 1, in place of the extent)
fn gen_acc(r: &mut Rng, s: &PathSeg) -> f64 {
    let rel = match r.below(4) {
        0 => *r.pick(&[1e-8, 1e-6, 1e-4, 1e-3, 1e-2, 0.1, 0.5, 1.0]),
        _ => 10f64.powf(r.uniform(-8.0, 0.0)),
    };
    let e = extent_of(s);
    let e = if e > 0.0 && e.is_finite() { e } else { scale_of(s, Point::ZERO).max(1.0) };
    rel * e / 10.0
}

fn ctrl(s: &PathSeg) -> Vec<Point> {
    match s {
        PathSeg::Line(l) => vec![l.p0, l.p1],
        PathSeg::Quad(q) => vec![q.p0, q.p1, q.p2],
        PathSeg::Cubic(c) => vec![c.p0, c.p1, c.p2, c.p3],
    }
}

/// first and second derivative of the segment at t (from the control points)
fn derivs(s: &PathSeg, t: f64) -> (Vec2, Vec2) {
    let c = s.to_cubic();
    let (a, b, d) = (c.p1 - c.p0, c.p2 - c.p1, c.p3 - c.p2);
    let mt = 1.0 - t;
    let d1 = (a * (mt * mt) + b * (2.0 * mt * t) + d * (t * t)) * 3.0;
    let d2 = ((b - a) * mt + (d - b) * t) * 6.0;
    (d1, d2)
}

/// query points: up to 3 extents away, on the curve, at end points, at centres of curvature
fn gen_query(r: &mut Rng, s: &PathSeg) -> (Point, &'static str) {
    let ps = ctrl(s);
    let (mut x0, mut x1, mut y0, mut y1) = (f64::INFINITY, f64::NEG_INFINITY, f64::INFINITY, f64::NEG_INFINITY);
    for p in &ps {
        x0 = x0.min(p.x);
        x1 = x1.max(p.x);
        y0 = y0.min(p.y);
        y1 = y1.max(p.y);
    }
    let ext = (x1 - x0).max(y1 - y0).max(1e-3);
    let centre = Point::new(0.5 * (x0 + x1), 0.5 * (y0 + y1));
    let tt = |r: &mut Rng| if r.bool() { r.unit() } else { r.range_i(0, 16) as f64 / 16.0 };
    match r.below(12) {
        0 | 1 => (s.eval(tt(r)), "on-curve"),
        2 => (if r.bool() { ps[0] } else { ps[ps.len() - 1] }, "end-point"),
        3 | 4 => {
            let t = tt(r);
            let (d1, d2) = derivs(s, t);
            let cr = d1.cross(d2);
            let k = d1.hypot2() / cr;
            let c = s.eval(t) + Vec2::new(-d1.y, d1.x) * k;
            if cr != 0.0 && c.is_finite() && (c - centre).hypot() <= 3.5 * ext {
                (c, "centre-of-curvature")
            } else {
                (pt_c(r), "generic")
            }
        }
        5 => {
            let th = r.uniform(0.0, std::f64::consts::TAU);
            (centre + Vec2::new(th.cos(), th.sin()) * (ext * r.uniform(2.0, 3.0)), "far")
        }
        6 => (pt_grid(r), "grid"),
        7 => {
            // close to the curve, off it along the normal
            let t = tt(r);
            let (d1, _) = derivs(s, t);
            let n = Vec2::new(-d1.y, d1.x);
            let l = n.hypot();
            let e = 10f64.powf(r.uniform(-6.0, 0.0)) * if r.bool() { 1.0 } else { -1.0 };
            if l > 0.0 {
                (s.eval(t) + n * (e / l), "near-curve")
            } else {
                (s.eval(t), "on-curve")
            }
        }
        8 => {
            // beyond an end point along the end tangent (the end point must win)
            let (t, sg) = if r.bool() { (0.0, -1.0) } else { (1.0, 1.0) };
            let (d1, _) = derivs(s, t);
            (s.eval(t) + d1 * (sg * r.uniform(0.0, 1.0)), "beyond-end")
        }
        _ => (
            Point::new(r.uniform(x0 - 3.0 * ext, x1 + 3.0 * ext), r.uniform(y0 - 3.0 * ext, y1 + 3.0 * ext)),
            "within-3-extents",
        ),
    }
}

// ------------------------------------------------------------------ branch tags (replicate only the tests)

/// which path of `solve_cubic` the coefficients take (same arithmetic as common.rs, tests only)
fn cubic_branch(c0: f64, c1: f64, c2: f64, c3: f64) -> &'static str {
    let c3_recip = c3.recip();
    const ONETHIRD: f64 = 1. / 3.;
    let s2 = c2 * (ONETHIRD * c3_recip);
    let s1 = c1 * (ONETHIRD * c3_recip);
    let s0 = c0 * c3_recip;
    if !(s0.is_finite() && s1.is_finite() && s2.is_finite()) {
        let q0 = c0 * c2.recip();
        let q1 = c1 * c2.recip();
        if !q0.is_finite() || !q1.is_finite() {
            let root = -c0 / c1;
            return if root.is_finite() {
                "linear:root"
            } else if c0 == 0.0 && c1 == 0.0 {
                "linear:all-zero"
            } else {
                "linear:none"
            };
        }
        return "quadratic";
    }
    let (c0, c1, c2) = (s0, s1, s2);
    let d0 = (-c2).mul_add(c2, c1);
    let d1 = (-c1).mul_add(c2, c0);
    let d2 = c2 * c0 - c1 * c1;
    let d = 4.0 * d0 * d2 - d1 * d1;
    if d < 0.0 {
        "d<0"
    } else if d == 0.0 {
        "d=0"
    } else if d > 0.0 {
        "d>0"
    } else {
        "d-nan"
    }
}

/// The one-real-root branch of `solve_cubic` exists in two versions while
/// proposed_fixes/C15-cubic-one-root-cancellation.diff is pending: cbrt(r+sq)+cbrt(r-sq) (pinned) and
/// u - d0/u (repaired; what coq/model/Solvers.v mirrors). They are the same real function; on
/// binary64 they differ when r-sq cancels. A tolerance comparison uses only inputs on which the two
/// agree to 1e-11, so that the correspondence holds against either tree.
fn one_root_versions_agree(c: &[f64; 4]) -> bool {
    let c3_recip = c[3].recip();
    const ONETHIRD: f64 = 1. / 3.;
    let (c0, c1, c2) = (c[0] * c3_recip, c[1] * (ONETHIRD * c3_recip), c[2] * (ONETHIRD * c3_recip));
    if !(c0.is_finite() && c1.is_finite() && c2.is_finite()) {
        return true;
    }
    let d0 = (-c2).mul_add(c2, c1);
    let d1 = (-c1).mul_add(c2, c0);
    let d2 = c2 * c0 - c1 * c1;
    let d = 4.0 * d0 * d2 - d1 * d1;
    let de = (-2.0 * c2).mul_add(d0, d1);
    if !(d < 0.0) {
        return true;
    }
    let sq = (-0.25 * d).sqrt();
    let r = -0.5 * de;
    let pinned = (r + sq).cbrt() + (r - sq).cbrt() - c2;
    let u = (r + sq.copysign(r)).cbrt();
    let v = if u == 0.0 { 0.0 } else { -d0 / u };
    let fixed = u + v - c2;
    close(pinned, fixed, 1e-11)
}

fn quad_coeffs(q: &QuadBez, p: Point) -> [f64; 4] {
    let d0 = q.p1 - q.p0;
    let d1 = q.p0.to_vec2() + q.p2.to_vec2() - 2.0 * q.p1.to_vec2();
    let d = q.p0 - p;
    [d.dot(d0), 2.0 * d0.hypot2() + d.dot(d1), 3.0 * d1.dot(d0), d1.hypot2()]
}

/// Does the implementation carry proposed_fixes/C09-nearest-degenerate-quad.diff? Decided on an input
/// where only that patch makes a difference: a quadratic whose control point is off the midpoint by
/// 1e-120 (scaled coefficients overflow inside `solve_cubic`, so the pinned code sees NaN roots and
/// answers with an end point at distance^2 3.25; the repaired code takes the quadratic branch: 0.01).
/// The correspondence then runs against the repaired model (operation numbers + 20).
fn repaired() -> bool {
    let q = QuadBez::new((4.0, 3.0), (1e-120, -1e-120), (-4.0, -3.0));
    std::panic::catch_unwind(|| q.nearest(Point::new(2.5, 2.0), 1e-6).distance_sq < 1.0).unwrap_or(false)
}

/// the Newton polish of the repaired code (same operations)
fn polish(c: &[f64; 4], t: f64) -> f64 {
    let poly = |t: f64| c[0] + t * (c[1] + t * (c[2] + t * c[3]));
    let mut t = t;
    let mut g = poly(t);
    for _ in 0..4 {
        let dg = c[1] + t * (2.0 * c[2] + t * (3.0 * c[3]));
        let t_new = t - g / dg;
        let g_new = poly(t_new);
        if !(g_new.abs() < g.abs()) {
            break;
        }
        t = t_new;
        g = g_new;
    }
    t
}

struct QInfo {
    branch: &'static str,
    libm_free: bool,
    tag: String,
}

fn quad_info(q: &QuadBez, p: Point, n: &Nearest, rep: bool) -> QInfo {
    let c = quad_coeffs(q, p);
    let mut branch = cubic_branch(c[0], c[1], c[2], c[3]);
    let mut roots: Vec<f64> = solve_cubic(c[0], c[1], c[2], c[3]).to_vec();
    if rep {
        if c[3] <= f64::EPSILON * f64::EPSILON * (q.p1 - q.p0).hypot2() {
            branch = "repaired:quadratic";
            roots = kurbo::common::solve_quadratic(c[0], c[1], c[2]).to_vec();
        }
        roots = roots.iter().map(|t| polish(&c, *t)).collect();
    }
    let inr = roots.iter().filter(|t| (0.0..=1.0).contains(*t)).count();
    let need_ends = roots.is_empty() || inr < roots.len();
    let win = if need_ends && (n.t == 0.0 || n.t == 1.0) && !roots.iter().any(|t| *t == n.t) { "end" } else { "root" };
    QInfo {
        branch,
        libm_free: !matches!(branch, "d<0" | "d>0"),
        tag: format!("{}/roots{}in{}/{}/win:{}", branch, roots.len(), inr, if need_ends { "ends" } else { "noends" }, win),
    }
}

fn close(a: f64, b: f64, tol: f64) -> bool {
    (a.is_nan() && b.is_nan()) || a == b || (a - b).abs() <= tol * 1f64.max(a.abs()).max(b.abs())
}

/// the implementation's own output is stable under 1e-13 relative perturbations of every argument
/// (so a 1e-15 difference in libm cannot flip a decision or move a root by more than the tolerance)
fn stable(args: &[f64], first: usize, nvar: usize, f: &dyn Fn(&[f64]) -> Nearest) -> bool {
    let base = f(args);
    if !base.t.is_finite() || !base.distance_sq.is_finite() {
        return false;
    }
    for i in first..nvar {
        for s in [-1.0, 1.0] {
            let mut p = args.to_vec();
            p[i] = p[i] * (1.0 + s * 1e-13);
            let n = f(&p);
            if !close(base.t, n.t, 1e-10) || !close(base.distance_sq, n.distance_sq, 1e-11) {
                return false;
            }
        }
    }
    true
}

fn q_of(a: &[f64]) -> QuadBez {
    QuadBez::new((a[0], a[1]), (a[2], a[3]), (a[4], a[5]))
}
fn c_of(a: &[f64]) -> CubicBez {
    CubicBez::new((a[0], a[1]), (a[2], a[3]), (a[4], a[5]), (a[6], a[7]))
}

// ------------------------------------------------------------------ correspondence

fn corr(r: &mut Rng, thorough: bool, o: &mut Out) {
    // a panic inside the implementation (e.g. `unwrap` of an empty best-so-far) must not take the run
    // down: the laws, each under catch_unwind, then report it with the failing input
    if std::panic::catch_unwind(std::panic::AssertUnwindSafe(|| corr_inner(r, thorough, o))).is_err() {
        o.notes.push("the implementation panicked while the correspondence cases were generated; the cases written before the panic are kept".into());
    }
}

fn corr_inner(r: &mut Rng, thorough: bool, o: &mut Out) {
    let n = if thorough { 8000 } else { 600 };
    let rep = repaired();
    let v: i64 = if rep { 20 } else { 0 };
    o.notes.push(format!("implementation variant detected: {}", if rep { "repaired (proposed_fixes/C09-nearest-degenerate-quad.diff); correspondence against quad_nearest_repaired" } else { "pinned; correspondence against quad_nearest" }));
    // ---- lines: exact
    for _ in 0..n {
        let (l, kind) = gen_line9(r);
        let (p, _) = gen_query(r, &PathSeg::Line(l));
        let p = if r.chance(1, 8) { l.eval(r.range_i(-2, 10) as f64 / 8.0) } else { p };
        let res = l.nearest(p, 1e-6);
        let d = l.p1 - l.p0;
        let dotp = d.dot(p - l.p0);
        let br = if dotp <= 0.0 {
            "t=0"
        } else if dotp >= d.dot(d) {
            "t=1"
        } else {
            "interior"
        };
        o.case(1, "line", vec![l.p0.x, l.p0.y, l.p1.x, l.p1.y, p.x, p.y], vec![res.t, res.distance_sq], br == "interior", &format!("{}/{}", kind, br));
    }
    // ---- quadratics
    let mut skipped_q = 0u64;
    for _ in 0..2 * n {
        let (q, kind) = gen_quad9(r);
        let (p, _) = gen_query(r, &PathSeg::Quad(q));
        let res = q.nearest(p, 1e-6);
        let info = quad_info(&q, p, &res, rep);
        let args = vec![q.p0.x, q.p0.y, q.p1.x, q.p1.y, q.p2.x, q.p2.y, p.x, p.y];
        if info.libm_free {
            o.case(4 + v, "quad:exact-paths", args, vec![res.t, res.distance_sq], true, &format!("{}/{}", kind, info.tag));
        } else if !degree_degenerate(&q) && one_root_versions_agree(&quad_coeffs(&q, p)) && stable(&args, 0, 8, &|a| q_of(a).nearest(Point::new(a[6], a[7]), 1e-6)) {
            o.case(2 + v, "quad:t", args.clone(), vec![res.t], true, &info.tag);
            o.case(3 + v, "quad:distance_sq", args, vec![res.distance_sq], true, &info.tag);
        } else {
            skipped_q += 1;
        }
    }
    o.notes.push(format!("quad correspondence: {} generated inputs left out (libm path, output not stable under 1e-13 perturbation)", skipped_q));
    // ---- cubics
    let mut skipped_c = 0u64;
    for _ in 0..n {
        let (c, kind) = gen_cubic9(r);
        let (p, _) = gen_query(r, &PathSeg::Cubic(c));
        // keep the piece count small: the Coq evaluation of the libm class is slow
        let acc = 10f64.powf(r.uniform(-4.0, 0.0));
        let pieces: Vec<(f64, f64, QuadBez)> = c.to_quads(acc).collect();
        let np = pieces.len();
        if np > 24 {
            continue;
        }
        let res = c.nearest(p, acc);
        let all_free = pieces.iter().all(|(_, _, q)| quad_info(q, p, &q.nearest(p, acc), rep).libm_free);
        let base = vec![c.p0.x, c.p0.y, c.p1.x, c.p1.y, c.p2.x, c.p2.y, c.p3.x, c.p3.y];
        let with = |e: &[f64]| -> Vec<f64> { base.iter().cloned().chain(e.iter().cloned()).collect() };
        let generic = matches!(kind, "generic" | "loop" | "closed" | "p1=p0" | "p2=p3" | "collinear-generic");
        // the piece count goes through powf: compared only where err/max_hypot2 is not a perfect sixth power
        if generic {
            o.case(8, "cubic:count", with(&[acc]), vec![np as f64], np > 1, &format!("n={}", np.min(9)));
        }
        if all_free {
            o.case(7 + v, "cubic:exact-paths", with(&[p.x, p.y, np as f64]), vec![res.t, res.distance_sq], true, &format!("{}/n={}", kind, np.min(9)));
        } else if !pieces.iter().any(|(_, _, q)| degree_degenerate(q) || !one_root_versions_agree(&quad_coeffs(q, p)))
            && stable(&with(&[p.x, p.y, acc]), 0, 10, &|a| c_of(a).nearest(Point::new(a[8], a[9]), a[10]))
            && c_of(&with(&[p.x, p.y, acc])).to_quads(acc * (1.0 + 1e-9)).count() == np
            && c.to_quads(acc * (1.0 - 1e-9)).count() == np
        {
            if generic {
                o.case(5 + v, "cubic:t", with(&[p.x, p.y, acc]), vec![res.t], true, &format!("{}/n={}", kind, np.min(9)));
                o.case(6 + v, "cubic:distance_sq", with(&[p.x, p.y, acc]), vec![res.distance_sq], true, &format!("{}/n={}", kind, np.min(9)));
            } else {
                o.case(11 + v, "cubic-n:t", with(&[p.x, p.y, np as f64]), vec![res.t], true, &format!("{}/n={}", kind, np.min(9)));
                o.case(12 + v, "cubic-n:distance_sq", with(&[p.x, p.y, np as f64]), vec![res.distance_sq], true, &format!("{}/n={}", kind, np.min(9)));
            }
        } else {
            skipped_c += 1;
        }
    }
    o.notes.push(format!("cubic correspondence: {} generated inputs left out (not stable under 1e-13 perturbation)", skipped_c));
    // ---- PathSeg dispatch
    for _ in 0..n / 2 {
        let (s, kind) = match r.below(3) {
            0 => (PathSeg::Line(gen_line9(r).0), "line"),
            1 => (PathSeg::Quad(QuadBez::new(pt_c(r), pt_c(r), pt_c(r))), "quad"),
            _ => (PathSeg::Cubic(CubicBez::new(pt_c(r), pt_c(r), pt_c(r), pt_c(r))), "cubic"),
        };
        let (p, _) = gen_query(r, &s);
        let acc = 10f64.powf(r.uniform(-3.0, 0.0));
        if let PathSeg::Cubic(c) = s {
            let np = c.to_quads(acc).count();
            if np > 16 || c.to_quads(acc * (1.0 + 1e-9)).count() != np || c.to_quads(acc * (1.0 - 1e-9)).count() != np {
                continue;
            }
        }
        let mut args = enc_seg(&s);
        let k = args.len();
        args.extend_from_slice(&[p.x, p.y, acc]);
        let res = s.nearest(p, acc);
        let agree = match s {
            PathSeg::Line(_) => true,
            PathSeg::Quad(q) => one_root_versions_agree(&quad_coeffs(&q, p)),
            PathSeg::Cubic(c) => c.to_quads(acc).all(|(_, _, q)| !degree_degenerate(&q) && one_root_versions_agree(&quad_coeffs(&q, p))),
        };
        if agree && stable(&args, 1, k + 2, &|a| {
            let (s, rest) = dec_seg(a);
            s.nearest(Point::new(rest[0], rest[1]), rest[2])
        }) {
            o.case(9 + v, "pathseg:t", args.clone(), vec![res.t], true, kind);
            o.case(10 + v, "pathseg:distance_sq", args, vec![res.distance_sq], true, kind);
        }
    }
}

// ------------------------------------------------------------------ oracle

fn dist(a: Point, b: Point) -> f64 {
    (a - b).hypot()
}

fn golden(ev: &dyn Fn(f64) -> Point, p: Point, mut lo: f64, mut hi: f64) -> (f64, f64) {
    const G: f64 = 0.618_033_988_749_894_9;
    let mut x1 = hi - G * (hi - lo);
    let mut x2 = lo + G * (hi - lo);
    let (mut f1, mut f2) = (dist(ev(x1), p), dist(ev(x2), p));
    let mut best = if f1 < f2 { (f1, x1) } else { (f2, x2) };
    for _ in 0..70 {
        if f1 <= f2 {
            hi = x2;
            x2 = x1;
            f2 = f1;
            x1 = hi - G * (hi - lo);
            f1 = dist(ev(x1), p);
            if f1 < best.0 {
                best = (f1, x1);
            }
        } else {
            lo = x1;
            x1 = x2;
            f1 = f2;
            x2 = lo + G * (hi - lo);
            f2 = dist(ev(x2), p);
            if f2 < best.0 {
                best = (f2, x2);
            }
        }
    }
    best
}

/// minimum distance from p to {ev(t) : t in [0,1]}: 4097 samples, every sampled local minimum
/// (the 12 lowest) and every seed refined by golden-section search. Returns (distance, t).
fn oracle(ev: &dyn Fn(f64) -> Point, p: Point, seeds: &[f64]) -> (f64, f64) {
    const N: usize = 4096;
    let h = 1.0 / N as f64;
    let ds: Vec<f64> = (0..=N).map(|i| dist(ev(i as f64 * h), p)).collect();
    let mut cand: Vec<usize> = (0..=N).filter(|&i| (i == 0 || ds[i] <= ds[i - 1]) && (i == N || ds[i] <= ds[i + 1])).collect();
    cand.sort_by(|a, b| ds[*a].partial_cmp(&ds[*b]).unwrap_or(std::cmp::Ordering::Equal));
    cand.truncate(12);
    let mut best = (f64::INFINITY, 0.0);
    let mut consider = |v: (f64, f64)| {
        if v.0 < best.0 {
            best = v;
        }
    };
    for &i in &cand {
        let t = i as f64 * h;
        consider((ds[i], t));
        consider(golden(ev, p, (t - h).max(0.0), (t + h).min(1.0)));
    }
    for &s in seeds {
        if (0.0..=1.0).contains(&s) {
            consider((dist(ev(s), p), s));
            consider(golden(ev, p, (s - h).max(0.0), (s + h).min(1.0)));
        }
    }
    best
}

// ------------------------------------------------------------------ laws

fn fail(class: &str, d: String) -> Option<(String, String)> {
    Some((class.to_string(), d))
}

fn kind_of(s: &PathSeg) -> &'static str {
    match s {
        PathSeg::Line(_) => "line",
        PathSeg::Quad(_) => "quad",
        PathSeg::Cubic(_) => "cubic",
    }
}

/// largest coordinate magnitude among the control points and the query point
fn scale_of(s: &PathSeg, p: Point) -> f64 {
    ctrl(s).iter().chain(std::iter::once(&p)).fold(f64::MIN_POSITIVE, |m, q| m.max(q.x.abs()).max(q.y.abs()))
}

/// extent of the segment: the larger side of the bounding box of its control points
fn extent_of(s: &PathSeg) -> f64 {
    let ps = ctrl(s);
    let (mut x0, mut x1, mut y0, mut y1) = (f64::INFINITY, f64::NEG_INFINITY, f64::INFINITY, f64::NEG_INFINITY);
    for q in &ps {
        x0 = x0.min(q.x);
        x1 = x1.max(q.x);
        y0 = y0.min(q.y);
        y1 = y1.max(q.y);
    }
    (x1 - x0).max(y1 - y0)
}

/// The property quantifies over "accuracies 1e-8..1 relative to an extent of order 10", i.e.
/// accuracy / extent in [1e-9, 0.1]. An accuracy below 1e-9 of the extent is raised to it (the
/// implementation is then called with the in-domain accuracy), whatever the magnitude of the curve.
const REL_ACC_MIN: f64 = 1e-9;
fn domain_acc(s: &PathSeg, acc: f64) -> f64 {
    acc.max(REL_ACC_MIN * extent_of(s))
}

/// "plus rounding": the allowance added to `accuracy` in every comparison, C_ROUND times the largest
/// coordinate magnitude M (control points and query point; at least the extent). binary64 resolves a
/// coordinate to 1.1e-16 M; the critical-point cubic is built from products of coordinate differences
/// (magnitude M^2 and M^4/...), and a simple root t* of g is determined by its rounded coefficients only
/// to about eps * sum|c_i| / |g'(t*)|, which for a query point on the curve is a displacement of about
/// 2 eps M^2 / |q'(t*)| along it. C_ROUND = 4e-9 covers that conditioning down to speeds |q'| of 1e-6 of
/// the extent (hairpins, near-cusps), with a factor ~10 for the solver's own arithmetic. Losses beyond it
/// are reported; they are filed under a known class only when `solve_cubic` is demonstrably the cause.
const C_ROUND: f64 = 4e-9;
/// ... plus 1e-150: `distance_sq` (and every squared length in the computation) underflows for
/// lengths below the square root of the smallest normal binary64 number (1.5e-154).
const UNDERFLOW_FLOOR: f64 = 1e-150;
fn rounding_allowance(s: &PathSeg, p: Point) -> f64 {
    C_ROUND * scale_of(s, p).max(extent_of(s)) + UNDERFLOW_FLOOR
}

/// the leading coefficients of the critical-point cubic are of rounding size relative to the
/// linear one: |d1| <= 1e-6 |d0| (the quadratic is a uniformly parametrised straight line to 1e-6)
fn degree_degenerate(q: &QuadBez) -> bool {
    let d0 = q.p1 - q.p0;
    let d1 = q.p0.to_vec2() + q.p2.to_vec2() - 2.0 * q.p1.to_vec2();
    d1.hypot2() <= 1e-12 * d0.hypot2()
}

/// the roots of g(t) = c0 + c1 t + c2 t^2 + c3 t^3 in [0,1] that a 64-cell grid brackets, bisected
fn bracket_roots(c: &[f64; 4]) -> Vec<f64> {
    let g = |t: f64| c[0] + t * (c[1] + t * (c[2] + t * c[3]));
    let mut out = Vec::new();
    const M: usize = 64;
    for i in 0..M {
        let (mut a, mut b) = (i as f64 / M as f64, (i + 1) as f64 / M as f64);
        let (ga, gb) = (g(a), g(b));
        if ga == 0.0 {
            out.push(a);
        }
        if gb == 0.0 && i + 1 == M {
            out.push(b);
        }
        if ga != 0.0 && gb != 0.0 && (ga < 0.0) != (gb < 0.0) {
            for _ in 0..80 {
                let m = 0.5 * (a + b);
                if (g(m) < 0.0) == (ga < 0.0) {
                    a = m;
                } else {
                    b = m;
                }
            }
            out.push(0.5 * (a + b));
        }
    }
    out
}

/// nearest on a quadratic without the cubic solver: end points plus the bracketed roots of g
fn robust_quad_nearest(q: &QuadBez, p: Point) -> Nearest {
    let mut best = Nearest { t: 0.0, distance_sq: (q.p0 - p).hypot2() };
    let mut consider = |t: f64| {
        let d = (q.eval(t) - p).hypot2();
        if d < best.distance_sq {
            best = Nearest { t, distance_sq: d };
        }
    };
    consider(1.0);
    for t in bracket_roots(&quad_coeffs(q, p)) {
        consider(t);
    }
    best
}

/// Reference transcription of common.rs::solve_quadratic / solve_cubic (same operations, same order).
/// `fixed_one_root`: the one-real-root branch as repaired by proposed_fixes/C15-cubic-one-root-cancellation.diff;
/// `clamp_d0`: with the repair fd4a7ab of /repo (d0 clamped to <= 0 when d >= 0).
fn ref_solve_quadratic(c0: f64, c1: f64, c2: f64) -> Vec<f64> {
    let sc0 = c0 * c2.recip();
    let sc1 = c1 * c2.recip();
    if !sc0.is_finite() || !sc1.is_finite() {
        let root = -c0 / c1;
        return if root.is_finite() {
            vec![root]
        } else if c0 == 0.0 && c1 == 0.0 {
            vec![0.0]
        } else {
            vec![]
        };
    }
    let arg = sc1 * sc1 - 4. * sc0;
    let root1 = if !arg.is_finite() {
        -sc1
    } else {
        if arg < 0.0 {
            return vec![];
        } else if arg == 0.0 {
            return vec![-0.5 * sc1];
        }
        -0.5 * (sc1 + arg.sqrt().copysign(sc1))
    };
    let root2 = sc0 / root1;
    if root2.is_finite() {
        if root2 > root1 {
            vec![root1, root2]
        } else {
            vec![root2, root1]
        }
    } else {
        vec![root1]
    }
}

fn ref_solve_cubic(c0: f64, c1: f64, c2: f64, c3: f64, fixed_one_root: bool, clamp_d0: bool) -> Vec<f64> {
    let c3_recip = c3.recip();
    const ONETHIRD: f64 = 1. / 3.;
    let scaled_c2 = c2 * (ONETHIRD * c3_recip);
    let scaled_c1 = c1 * (ONETHIRD * c3_recip);
    let scaled_c0 = c0 * c3_recip;
    if !(scaled_c0.is_finite() && scaled_c1.is_finite() && scaled_c2.is_finite()) {
        return ref_solve_quadratic(c0, c1, c2);
    }
    let (c0, c1, c2) = (scaled_c0, scaled_c1, scaled_c2);
    let d0 = (-c2).mul_add(c2, c1);
    let d1 = (-c1).mul_add(c2, c0);
    let d2 = c2 * c0 - c1 * c1;
    let d = 4.0 * d0 * d2 - d1 * d1;
    let de = (-2.0 * c2).mul_add(d0, d1);
    // fix fd4a7ab ("solve_cubic returns finite roots near a triple root")
    let d0 = if clamp_d0 && d >= 0.0 { d0.min(0.0) } else { d0 };
    if d < 0.0 {
        let sq = (-0.25 * d).sqrt();
        let r = -0.5 * de;
        let t1 = if fixed_one_root {
            let u = (r + sq.copysign(r)).cbrt();
            let v = if u == 0.0 { 0.0 } else { -d0 / u };
            u + v
        } else {
            (r + sq).cbrt() + (r - sq).cbrt()
        };
        vec![t1 - c2]
    } else if d == 0.0 {
        let t1 = (-d0).sqrt().copysign(de);
        vec![t1 - c2, -2.0 * t1 - c2]
    } else {
        let th = d.sqrt().atan2(-de) * ONETHIRD;
        let (th_sin, th_cos) = th.sin_cos();
        let r0 = th_cos;
        let ss3 = th_sin * 3.0f64.sqrt();
        let r1 = 0.5 * (-th_cos + ss3);
        let r2 = 0.5 * (-th_cos - ss3);
        let t = 2.0 * (-d0).sqrt();
        vec![t.mul_add(r0, -c2), t.mul_add(r1, -c2), t.mul_add(r2, -c2)]
    }
}

fn same_bits(a: &[f64], b: &[f64]) -> bool {
    a.len() == b.len() && a.iter().zip(b).all(|(x, y)| x.to_bits() == y.to_bits() || (x.is_nan() && y.is_nan()))
}

/// the implementation's `solve_cubic` answers these coefficients bit for bit like the reference
/// algorithm (pinned, with or without the C15 repairs of /repo): wrong roots are then a numerical defect of
/// that algorithm, not a change of the code
fn solver_is_reference(c: &[f64; 4]) -> bool {
    let got = solve_cubic(c[0], c[1], c[2], c[3]).to_vec();
    [(false, false), (false, true), (true, false), (true, true)]
        .iter()
        .any(|(one_root, clamp)| same_bits(&got, &ref_solve_cubic(c[0], c[1], c[2], c[3], *one_root, *clamp)))
}

/// `solve_cubic`, called on the coefficients of the critical-point cubic of (q, p) as the harness
/// computes them (the same expressions as quadbez.rs), returns demonstrably wrong roots: it loses a
/// critical point (some bracketed root of g in [0,1] has no returned root within 1e-10), or it
/// returns a value in [0,1] that is not a root (residual above 1e-9 times the coefficient sum; such
/// a value makes `nearest` skip the end points) - while computing exactly what the reference
/// algorithm computes (`solver_is_reference`), so that a changed solver is never excused
fn solver_lost_root(q: &QuadBez, p: Point) -> bool {
    let c = quad_coeffs(q, p);
    let g = |t: f64| c[0] + t * (c[1] + t * (c[2] + t * c[3]));
    let roots = solve_cubic(c[0], c[1], c[2], c[3]);
    let size = c[0].abs() + c[1].abs() + c[2].abs() + c[3].abs();
    solver_is_reference(&c)
        && (bracket_roots(&c).iter().any(|t| !roots.iter().any(|r| (r - t).abs() <= 1e-10))
            || roots.iter().any(|r| (0.0..=1.0).contains(r) && g(*r).abs() > 1e-9 * size))
}

/// `CubicBez::nearest` with the pieces on which `solve_cubic` loses a root answered by
/// `robust_quad_nearest`; returns also (pieces swapped, degree-degenerate pieces among them)
fn cubic_nearest_solver_swapped(c: &CubicBez, p: Point, acc: f64) -> (Nearest, usize, usize) {
    let mut best: Option<Nearest> = None;
    let (mut nswap, mut ndeg) = (0, 0);
    for (t0, t1, q) in c.to_quads(acc) {
        let n = if solver_lost_root(&q, p) {
            nswap += 1;
            if degree_degenerate(&q) {
                ndeg += 1;
            }
            robust_quad_nearest(&q, p)
        } else {
            q.nearest(p, acc)
        };
        if best.map(|b| n.distance_sq < b.distance_sq).unwrap_or(true) {
            best = Some(Nearest { t: t0 + n.t * (t1 - t0), distance_sq: n.distance_sq });
        }
    }
    (best.unwrap(), nswap, ndeg)
}

/// None when (t, distance_sq) meets the property for the segment; otherwise what is wrong
fn judge(s: &PathSeg, p: Point, acc: f64, n: &Nearest) -> Option<(&'static str, String)> {
    if !(n.t >= 0.0 && n.t <= 1.0) {
        return Some(("t-out-of-range", format!("t = {}", n.t)));
    }
    if !(n.distance_sq.is_finite() && n.distance_sq >= 0.0) {
        return Some(("distance-not-finite", format!("distance_sq = {}", n.distance_sq)));
    }
    let (truth, tt) = oracle(&|t| s.eval(t), p, &[n.t]);
    let slack = rounding_allowance(s, p);
    let got = n.distance_sq.sqrt();
    let at = dist(s.eval(n.t), p);
    if (got - truth).abs() > acc + slack {
        return Some(("distance", format!("sqrt(distance_sq) = {} but the minimum distance is {} (at t = {}); accuracy {}", got, truth, tt, acc)));
    }
    if at > truth + 2.0 * acc + slack {
        return Some(("point", format!("the point at the returned t = {} is at distance {}, the minimum is {} (at t = {}); accuracy {}", n.t, at, truth, tt, acc)));
    }
    None
}

/// known classes (both rooted in common.rs::solve_cubic, finding C15-cubic-tiny-leading and the
/// cancellation in its one-real-root branch): a violation is put in one of them only if the root
/// cause is demonstrated on the failing input itself: `solve_cubic` loses an in-range root on some
/// quadratic (piece), and the violation disappears when exactly those pieces are answered without it
const KNOWN_CLASS: &str = "nearest:cubic-solver-tiny-leading-coefficient";
const KNOWN_CLASS2: &str = "nearest:cubic-solver-cancellation";
/// the driver keeps the first 200 violations of a run: violations of the known class beyond the
/// first few per run are only counted (reported in the notes), so that they cannot crowd out others
static KNOWN_HITS: std::sync::atomic::AtomicU64 = std::sync::atomic::AtomicU64::new(0);
const KNOWN_REPORTED: u64 = 8;

/// args: enc_seg ++ [px, py, accuracy]
fn law_nearest(a: &[f64]) -> Option<(String, String)> {
    let (s, rest) = dec_seg(a);
    let (p, acc) = (Point::new(rest[0], rest[1]), domain_acc(&s, rest[2]));
    let k = kind_of(&s);
    let n = match s {
        PathSeg::Line(l) => l.nearest(p, acc),
        PathSeg::Quad(q) => q.nearest(p, acc),
        PathSeg::Cubic(c) => c.nearest(p, acc),
    };
    let nd = s.nearest(p, acc);
    if nd.t.to_bits() != n.t.to_bits() || nd.distance_sq.to_bits() != n.distance_sq.to_bits() {
        return fail(&format!("nearest:pathseg-dispatch:{}", k), format!("PathSeg::nearest = {:?}, {}::nearest = {:?} for {:?} p={:?}", nd, k, n, s, p));
    }
    let (what, desc) = judge(&s, p, acc, &n)?;
    let known: Option<&str> = match s {
        PathSeg::Line(_) => None,
        PathSeg::Quad(q) => {
            if solver_lost_root(&q, p) && judge(&s, p, acc, &robust_quad_nearest(&q, p)).is_none() {
                Some(if degree_degenerate(&q) { KNOWN_CLASS } else { KNOWN_CLASS2 })
            } else {
                None
            }
        }
        PathSeg::Cubic(c) => {
            let (r, nswap, ndeg) = cubic_nearest_solver_swapped(&c, p, acc);
            if nswap > 0 && judge(&s, p, acc, &r).is_none() {
                Some(if ndeg > 0 { KNOWN_CLASS } else { KNOWN_CLASS2 })
            } else {
                None
            }
        }
    };
    if known.is_some() && KNOWN_HITS.fetch_add(1, std::sync::atomic::Ordering::Relaxed) >= KNOWN_REPORTED {
        return None;
    }
    let class = match known {
        Some(kc) => format!("{}:{}:{}", kc, k, what),
        None => format!("nearest:{}:{}", k, what),
    };
    fail(&class, format!("{:?} p={:?}: {}", s, p, desc))
}

/// lines and quadratics ignore `accuracy`: their answer must be the minimum to rounding
fn law_exact_kinds(a: &[f64]) -> Option<(String, String)> {
    let (s, rest) = dec_seg(a);
    let p = Point::new(rest[0], rest[1]);
    let mut b = a.to_vec();
    let last = b.len() - 1;
    b[last] = 0.0;
    match s {
        PathSeg::Cubic(_) => None,
        _ => law_nearest(&b).map(|(c, d)| (c.replace("nearest:", "nearest-exact:").replace("nearest-exact:cubic-solver", "nearest:cubic-solver"), format!("{} p={:?}", d, p))),
    }
}

fn g_line(r: &mut Rng) -> Vec<f64> {
    let s = PathSeg::Line(gen_line9(r).0);
    let (p, _) = gen_query(r, &s);
    let mut v = enc_seg(&s);
    v.extend_from_slice(&[p.x, p.y, gen_acc(r, &s)]);
    v
}
fn g_quad(r: &mut Rng) -> Vec<f64> {
    let s = PathSeg::Quad(gen_quad9(r).0);
    let (p, _) = gen_query(r, &s);
    let mut v = enc_seg(&s);
    v.extend_from_slice(&[p.x, p.y, gen_acc(r, &s)]);
    v
}
fn g_cubic(r: &mut Rng) -> Vec<f64> {
    let s = PathSeg::Cubic(gen_cubic9(r).0);
    let (p, _) = gen_query(r, &s);
    let mut v = enc_seg(&s);
    v.extend_from_slice(&[p.x, p.y, gen_acc(r, &s)]);
    v
}
fn g_shared(r: &mut Rng) -> Vec<f64> {
    // the framework's shared structured generators (wider magnitudes)
    let s = gen_seg(r);
    let (p, _) = gen_query(r, &s);
    let mut v = enc_seg(&s);
    v.extend_from_slice(&[p.x, p.y, gen_acc(r, &s)]);
    v
}

fn laws() -> Vec<Law> {
    vec![
        Law { name: "nearest_line", gen: g_line, check: law_nearest, weight: 2 },
        Law { name: "nearest_quad", gen: g_quad, check: law_nearest, weight: 4 },
        Law { name: "nearest_cubic", gen: g_cubic, check: law_nearest, weight: 4 },
        Law { name: "nearest_shared_gen", gen: g_shared, check: law_nearest, weight: 2 },
        Law { name: "nearest_line_quad_exact", gen: g_quad, check: law_exact_kinds, weight: 1 },
    ]
}

// ------------------------------------------------------------------ extra: known-finding replay, sweep

fn extra(r: &mut Rng, thorough: bool, o: &mut Out) {
    if std::panic::catch_unwind(std::panic::AssertUnwindSafe(|| extra_inner(r, thorough, o))).is_err() {
        o.notes.push("the implementation panicked during the known-finding replays / sweep".into());
    }
}

fn extra_inner(r: &mut Rng, thorough: bool, o: &mut Out) {
    o.notes.push(format!(
        "law evaluations failing in the known classes {} / {} (root cause confirmed per input: solve_cubic loses an in-range root on some quadratic piece and the violation disappears when those pieces are answered without it): {}; only the first {} are listed as violations",
        KNOWN_CLASS,
        KNOWN_CLASS2,
        KNOWN_HITS.load(std::sync::atomic::Ordering::Relaxed),
        KNOWN_REPORTED
    ));
    KNOWN_HITS.store(0, std::sync::atomic::Ordering::Relaxed);
    // witness of the known finding (a straight cubic with its controls at the thirds)
    let w = [
        3.0,
        -7.8084278802901075,
        -4.692294081645243,
        -2.634791969070206,
        -0.8899466565649607,
        2.538843942149695,
        2.9124007685153215,
        7.712479853369597,
        6.714748193595604,
        -10.462136296871375,
        3.6283338338055913,
        1e-3,
    ];
    let res = law_nearest(&w);
    let still = matches!(&res, Some((c, _)) if c.starts_with(KNOWN_CLASS));
    o.known(
        "C09-straight-cubic",
        still,
        match res {
            Some((c, d)) => format!("{}: {}", c, d),
            None => "the witness now satisfies the property".into(),
        },
    );
    // witness of the second known finding: an ordinary quadratic, query point on the curve
    let w2 = [
        2.0,
        -2.0672327765396563,
        -3.0443827332356888,
        -2.5606037626474643,
        -5.18400814395859,
        -3.2085062974090617,
        -7.450598118519838,
        -2.927561661075864,
        -6.447235809314052,
        1e-9,
    ];
    let res = law_nearest(&w2);
    let still = matches!(&res, Some((c, _)) if c.starts_with(KNOWN_CLASS2));
    o.known(
        "C09-solver-cancellation",
        still,
        match res {
            Some((c, d)) => format!("{}: {}", c, d),
            None => "the witness now satisfies the property".into(),
        },
    );
    // how often and by how much: generic straight cubics, queries within 3 extents
    let n = if thorough { 20000 } else { 2000 };
    let (mut bad, mut worst) = (0u64, 0.0f64);
    for _ in 0..n {
        let (a, b) = (pt_generic(r), pt_generic(r));
        let c = CubicBez::new(a, a.lerp(b, 1.0 / 3.0), a.lerp(b, 2.0 / 3.0), b);
        let p = Point::new(r.uniform(-30.0, 30.0), r.uniform(-30.0, 30.0));
        let got = c.nearest(p, 1e-3).distance_sq.sqrt();
        let want = Line::new(a, b).nearest(p, 1e-3).distance_sq.sqrt();
        if (got - want).abs() > 2e-3 {
            bad += 1;
            worst = worst.max((got - want).abs());
        }
    }
    o.notes.push(format!("straight cubics (controls at the thirds), accuracy 1e-3: {} of {} queries off by more than 2e-3, worst error {:.3}", bad, n, worst));
}
