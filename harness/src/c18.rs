//! C18 — curve fitting, offsetting and simplification stay near the source.
//!
//! corr: CubicOffset sampling, moment_integrals, PathSeg::tangents, SimplifyBezPath as a source,
//!       Line::nearest, try_fit_line, and the STRUCTURE of fit_to_bezpath / simplify_bezpath: the real
//!       functions are run on instrumented sources; the answers of the source and of the real
//!       `fit_to_cubic` are handed to the Coq model as tables and the model must reproduce the real
//!       output path (and the number of `fit_to_bezpath_rec` calls) exactly.
//! laws: the accuracy claims themselves (no theorem reaches them): end points, continuity,
//!       two-sided Hausdorff distance <= 2*accuracy, offset distance, simplify structure.
use crate::geom::*;
use crate::util::{Out, Rng};
use crate::{Law, Prop};
use kurbo::offset::CubicOffset;
use kurbo::simplify::{moment_integrals, simplify_bezpath, SimplifyBezPath, SimplifyOptLevel, SimplifyOptions};
use kurbo::{
    fit_to_bezpath, fit_to_bezpath_opt, fit_to_cubic, BezPath, CubicBez, CurveFitSample, Line, ParamCurve, ParamCurveDeriv, ParamCurveFit,
    ParamCurveNearest, PathEl, PathSeg, Point, QuadBez, Vec2,
};
use std::cell::RefCell;
use std::f64::consts::PI;
use std::ops::Range;

// ---------------------------------------------------------------- time guard
// A change to the fitter can make it run (practically) forever, e.g. when no cubic is ever accepted
// and everything is cut into accuracy-sized lines. Every call into the fitter runs on a worker thread
// with a time limit; after three time-outs the remaining evaluations are skipped.
static TIMEOUTS: std::sync::atomic::AtomicU32 = std::sync::atomic::AtomicU32::new(0);
/// law evaluations that returned without a verdict because the input was outside the property's domain
static SKIPS: [std::sync::atomic::AtomicU32; 4] = [std::sync::atomic::AtomicU32::new(0), std::sync::atomic::AtomicU32::new(0), std::sync::atomic::AtomicU32::new(0), std::sync::atomic::AtomicU32::new(0)];
fn skip(k: usize) -> Option<(String, String)> {
    SKIPS[k].fetch_add(1, std::sync::atomic::Ordering::Relaxed);
    None
}
const TIME_LIMIT_S: u64 = 20;

/// Ok(Ok(r)); Ok(Err(message)): the call panicked; Err(true): timed out (report it); Err(false): skipped
/// because of earlier time-outs
fn guarded_raw<R: Send + 'static>(f: impl FnOnce() -> R + Send + 'static) -> Result<Result<R, String>, bool> {
    use std::sync::atomic::Ordering;
    if TIMEOUTS.load(Ordering::Relaxed) >= 3 {
        return Err(false);
    }
    let (tx, rx) = std::sync::mpsc::channel();
    let h = std::thread::Builder::new().stack_size(256 << 20).spawn(move || {
        let r = std::panic::catch_unwind(std::panic::AssertUnwindSafe(f));
        let _ = tx.send(r);
    });
    if h.is_err() {
        return Err(false);
    }
    match rx.recv_timeout(std::time::Duration::from_secs(TIME_LIMIT_S)) {
        Ok(Ok(r)) => Ok(Ok(r)),
        Ok(Err(p)) => Ok(Err(p.downcast_ref::<&str>().map(|s| s.to_string()).or_else(|| p.downcast_ref::<String>().cloned()).unwrap_or_else(|| "panic".into()))),
        Err(_) => {
            TIMEOUTS.fetch_add(1, Ordering::Relaxed);
            Err(true)
        }
    }
}

/// for the correspondence generators: a panic is passed on
fn guarded<R: Send + 'static>(f: impl FnOnce() -> R + Send + 'static) -> Result<R, bool> {
    match guarded_raw(f) {
        Ok(Ok(r)) => Ok(r),
        Ok(Err(msg)) => panic!("{}", msg),
        Err(b) => Err(b),
    }
}

/// for the laws: Err(verdict) when there is no result. A panic of the optimising fitter at its
/// `fit_to_cubic(..).unwrap()` (fit.rs, fit_to_bezpath_opt_inner) gets its own class: that defect is a
/// known finding (C14-fit-opt-unwrap, here C18-opt-unwrap); every other panic is `<what>:panic`.
fn guarded_law<R: Send + 'static>(what: &str, f: impl FnOnce() -> R + Send + 'static) -> Result<R, Option<(String, String)>> {
    match guarded_raw(f) {
        Ok(Ok(r)) => Ok(r),
        Ok(Err(msg)) => {
            if what.ends_with("-opt") && msg.contains("Option::unwrap()") {
                Err(Some((format!("opt-panic-unwrap:{}", what), format!("fit_to_bezpath_opt panicked: {}", msg))))
            } else {
                Err(Some((format!("{}:panic", what), format!("panicked: {}", msg))))
            }
        }
        Err(true) => Err(Some((format!("{}:timeout", what), format!("no result within {} s (ordinary inputs take milliseconds)", TIME_LIMIT_S)))),
        Err(false) => Err(None),
    }
}

pub fn prop() -> Prop {
    Prop { id: "C18", corr, laws, extra, law_budget: (50, 400) }
}

// =====================================================================================
// toy sources for the structural correspondence
// =====================================================================================

#[derive(Clone, Debug)]
enum Base {
    Cubic(CubicBez),
    /// centre, radius, start angle, sweep
    Arc(Point, f64, f64, f64),
    /// (length, amplitude, cycles)
    Sine(f64, f64, f64),
    /// polyline through the points, corners at k/n
    Poly(Vec<Point>),
}

impl Base {
    fn at(&self, t: f64) -> (Point, Vec2) {
        match self {
            Base::Cubic(c) => {
                let mt = 1.0 - t;
                let p = Point::new(
                    mt * mt * mt * c.p0.x + 3.0 * mt * mt * t * c.p1.x + 3.0 * mt * t * t * c.p2.x + t * t * t * c.p3.x,
                    mt * mt * mt * c.p0.y + 3.0 * mt * mt * t * c.p1.y + 3.0 * mt * t * t * c.p2.y + t * t * t * c.p3.y,
                );
                let d = Vec2::new(
                    3.0 * (mt * mt * (c.p1.x - c.p0.x) + 2.0 * mt * t * (c.p2.x - c.p1.x) + t * t * (c.p3.x - c.p2.x)),
                    3.0 * (mt * mt * (c.p1.y - c.p0.y) + 2.0 * mt * t * (c.p2.y - c.p1.y) + t * t * (c.p3.y - c.p2.y)),
                );
                (p, d)
            }
            Base::Arc(c, r, a0, sw) => {
                let a = a0 + sw * t;
                (Point::new(c.x + r * a.cos(), c.y + r * a.sin()), Vec2::new(-r * sw * a.sin(), r * sw * a.cos()))
            }
            Base::Sine(len, amp, cyc) => {
                let w = 2.0 * PI * cyc;
                (Point::new(len * t, amp * (w * t).sin()), Vec2::new(*len, amp * w * (w * t).cos()))
            }
            Base::Poly(ps) => {
                let n = ps.len() - 1;
                let ts = t * n as f64;
                let i = (ts.floor().max(0.0) as usize).min(n - 1);
                let u = ts - i as f64;
                let d = ps[i + 1] - ps[i];
                (ps[i] + d * u, d * n as f64)
            }
        }
    }
}

/// An instrumented source. `jump`: a discontinuity (t0, offset) that `break_cusp` does not report;
/// `nan_tan`: tangents are NaN (the cubic fit then never succeeds); `end_cusp`: `break_cusp` reports
/// the range's own end point (1 = start, 2 = end) once the range is shorter than `end_cusp_len`.
struct Toy {
    base: Base,
    jump: Option<(f64, Vec2)>,
    nan_tan: bool,
    end_cusp: u8,
    end_cusp_len: f64,
    cusp_calls: RefCell<u64>,
    /// when `Some`, every `sample_pt_tangent(t, sign)` call is recorded
    tan_log: RefCell<Option<Vec<(f64, f64)>>>,
}

impl Toy {
    fn new(base: Base) -> Toy {
        Toy { base, jump: None, nan_tan: false, end_cusp: 0, end_cusp_len: 0.0, cusp_calls: RefCell::new(0), tan_log: RefCell::new(None) }
    }
    fn corners(&self) -> usize {
        match &self.base {
            Base::Poly(ps) => ps.len() - 1,
            _ => 0,
        }
    }
    fn pos(&self, t: f64, sign: f64) -> (Point, Vec2) {
        let n = self.corners();
        let (mut p, mut d) = self.base.at(t);
        if n > 0 {
            // at a corner the sign selects the side
            let ts = t * n as f64;
            if ts == ts.floor() && ts > 0.0 && sign < 0.0 {
                if let Base::Poly(ps) = &self.base {
                    let i = ts as usize;
                    d = (ps[i] - ps[i - 1]) * n as f64;
                    p = ps[i];
                }
            }
        }
        if let Some((t0, off)) = self.jump {
            if t > t0 || (t == t0 && sign > 0.0) {
                p += off;
            }
        }
        (p, d)
    }
}

impl ParamCurveFit for Toy {
    fn sample_pt_tangent(&self, t: f64, sign: f64) -> CurveFitSample {
        if let Some(log) = self.tan_log.borrow_mut().as_mut() {
            log.push((t, sign));
        }
        let (p, d) = self.pos(t, sign);
        let tangent = if self.nan_tan { Vec2::new(f64::NAN, f64::NAN) } else { d };
        CurveFitSample { p, tangent }
    }
    fn sample_pt_deriv(&self, t: f64) -> (Point, Vec2) {
        self.pos(t, 1.0)
    }
    fn break_cusp(&self, range: Range<f64>) -> Option<f64> {
        *self.cusp_calls.borrow_mut() += 1;
        let n = self.corners();
        if n > 0 {
            // the corner closest to the middle among those strictly inside
            let mid = 0.5 * (range.start + range.end);
            let mut best: Option<f64> = None;
            for k in 1..n {
                let t = k as f64 / n as f64;
                if t > range.start && t < range.end && best.map(|b| (t - mid).abs() < (b - mid).abs()).unwrap_or(true) {
                    best = Some(t);
                }
            }
            if best.is_some() {
                return best;
            }
        }
        if self.end_cusp != 0 && range.end - range.start < self.end_cusp_len {
            return Some(if self.end_cusp == 1 { range.start } else { range.end });
        }
        None
    }
}

/// Tables describing one run of the recursion, built by walking the same ranges with the real
/// `fit_to_cubic` and the source itself.
#[derive(Default)]
struct FitTables {
    pts: Vec<[f64; 4]>,
    der: Vec<[f64; 3]>,
    cusp: Vec<[f64; 4]>,
    fit: Vec<[f64; 11]>,
    kinds: [u64; 4],
    nodes: (u64, u64), // split at a cusp, split at the midpoint
    cubic_work: u64,
    depth: u32,
}

fn walk<S: ParamCurveFit>(src: &S, s: f64, e: f64, acc: f64, tb: &mut FitTables, depth: u32) {
    tb.depth = tb.depth.max(depth);
    if depth > 110 {
        return;
    }
    let sp = src.sample_pt_tangent(s, 1.0).p;
    let ep = src.sample_pt_tangent(e, -1.0).p;
    tb.pts.push([s, 1.0, sp.x, sp.y]);
    tb.pts.push([e, -1.0, ep.x, ep.y]);
    let fit = |tb: &mut FitTables| -> Option<CubicBez> {
        let w0 = kurbo::verif::work();
        let r = fit_to_cubic(src, s..e, acc).map(|(c, _)| c);
        tb.cubic_work += kurbo::verif::work() - w0;
        let mut row = [0.0; 11];
        row[0] = s;
        row[1] = e;
        if let Some(c) = r {
            row[2] = 1.0;
            row[3..].copy_from_slice(&[c.p0.x, c.p0.y, c.p1.x, c.p1.y, c.p2.x, c.p2.y, c.p3.x, c.p3.y]);
        }
        tb.fit.push(row);
        r
    };
    let short = sp.distance_squared(ep) <= acc * acc;
    if short {
        // the 7 interior samples try_fit_line looks at
        let dt = (e - s) / 8.0;
        for i in 0..7 {
            let t = s + (i + 1) as f64 * dt;
            let p = src.sample_pt_deriv(t).0;
            tb.der.push([t, p.x, p.y]);
        }
        // on a short chord the public fit_to_cubic IS try_fit_line (no work ticks inside)
        if fit(tb).is_some() {
            tb.kinds[1] += 1;
            return;
        }
    }
    // (CubicOffset::break_cusp runs solve_itp, which ticks the same work counter)
    let w0 = kurbo::verif::work();
    let bc = src.break_cusp(s..e);
    tb.cubic_work += kurbo::verif::work() - w0;
    tb.cusp.push([s, e, if bc.is_some() { 1.0 } else { 0.0 }, bc.unwrap_or(0.0)]);
    let t = match bc {
        Some(t) => t,
        None => {
            // on a short chord the answer (None) is already in the table
            if !short && fit(tb).is_some() {
                tb.kinds[2] += 1;
                return;
            }
            0.5 * (s + e)
        }
    };
    if t == s || t == e {
        tb.kinds[3] += 1;
        return;
    }
    if bc.is_some() {
        tb.nodes.0 += 1;
    } else {
        tb.nodes.1 += 1;
    }
    walk(src, s, t, acc, tb, depth + 1);
    walk(src, t, e, acc, tb, depth + 1);
}

fn gen_smooth_cubic(r: &mut Rng, size: f64) -> CubicBez {
    let p0 = Point::new(r.uniform(-size, size), r.uniform(-size, size));
    let len = size * r.uniform(0.3, 1.5);
    let th = r.uniform(0.0, 2.0 * PI);
    let dir = Vec2::from_angle(th);
    let p3 = p0 + dir * len;
    let a = r.uniform(0.15, 0.6) * len;
    let b = r.uniform(0.15, 0.6) * len;
    let al = th + r.uniform(-1.2, 1.2);
    let be = th + r.uniform(-1.2, 1.2);
    CubicBez::new(p0, p0 + Vec2::from_angle(al) * a, p3 - Vec2::from_angle(be) * b, p3)
}

fn gen_toy(r: &mut Rng) -> (Toy, f64, &'static str) {
    let size = *r.pick(&[1.0, 10.0, 100.0]);
    let mode = r.below(10);
    let acc_rel = *r.pick(&[0.3, 0.05, 1e-2, 1e-3, 1e-4]);
    match mode {
        0 | 1 => (Toy::new(Base::Cubic(gen_smooth_cubic(r, size))), size * acc_rel, "cubic"),
        2 => {
            let sw = r.uniform(0.5, 5.0) * if r.bool() { 1.0 } else { -1.0 };
            (Toy::new(Base::Arc(Point::new(r.uniform(-size, size), r.uniform(-size, size)), size * r.uniform(0.2, 1.0), r.uniform(0.0, 6.0), sw)), size * acc_rel, "arc")
        }
        3 => (Toy::new(Base::Sine(size * r.uniform(1.0, 3.0), size * r.uniform(0.1, 0.5), r.uniform(0.5, 2.0))), size * acc_rel, "sine"),
        4 | 5 => {
            let n = 2 + r.below(5) as usize;
            let ps: Vec<Point> = (0..=n).map(|_| Point::new(r.grid(8, 2.0) * size, r.grid(8, 2.0) * size)).collect();
            (Toy::new(Base::Poly(ps)), size * acc_rel, "poly-corners")
        }
        6 => {
            // an unreported jump and no usable tangents: the range collapses to adjacent doubles
            let mut t = Toy::new(Base::Cubic(gen_smooth_cubic(r, size)));
            t.jump = Some((r.uniform(0.1, 0.9), Vec2::new(size * 3.0, size * 2.0)));
            t.nan_tan = true;
            (t, size * 0.2, "jump-collapse")
        }
        7 => {
            let mut t = Toy::new(Base::Cubic(gen_smooth_cubic(r, size)));
            t.end_cusp = 1 + r.below(2) as u8;
            t.end_cusp_len = *r.pick(&[2.0, 0.6, 0.3]);
            t.nan_tan = r.bool();
            (t, size * 1e-3, "cusp-at-end")
        }
        8 => {
            let mut t = Toy::new(Base::Sine(size * r.uniform(1.0, 3.0), size * r.uniform(0.1, 0.5), r.uniform(0.5, 2.0)));
            t.nan_tan = true; // only lines can be fitted: deep midpoint subdivision down to short chords
            (t, size * *r.pick(&[0.3, 0.1, 0.03]), "lines-only")
        }
        _ => {
            let n = 2 + r.below(3) as usize;
            let ps: Vec<Point> = (0..=n).map(|_| Point::new(r.coord(), r.coord())).collect();
            let mut t = Toy::new(Base::Poly(ps));
            t.end_cusp = 1 + r.below(2) as u8;
            t.end_cusp_len = 0.2;
            (t, 0.01, "poly+cusp-at-end")
        }
    }
}

/// the sources the structural correspondence runs on: instrumented toys, and the crate's own two sources
enum FitSrc {
    Toy(Toy),
    Offset(CubicOffset),
    Chain(SimplifyBezPath),
}

fn run_fit_case(src: FitSrc, acc: f64) -> Option<(FitTables, BezPath, u64)> {
    fn go<S: ParamCurveFit>(src: &S, acc: f64) -> Option<(FitTables, BezPath, u64)> {
        let mut tb = FitTables::default();
        walk(src, 0.0, 1.0, acc, &mut tb, 0);
        let leaves: u64 = tb.kinds.iter().sum();
        if tb.depth > 100 || leaves > 80 {
            return None;
        }
        kurbo::verif::reset();
        let path = fit_to_bezpath(src, acc);
        let total = kurbo::verif::work();
        Some((tb, path, total))
    }
    match src {
        FitSrc::Toy(t) => go(&t, acc),
        FitSrc::Offset(c) => go(&c, acc),
        FitSrc::Chain(c) => go(&c, acc),
    }
}

fn gen_fit_src(r: &mut Rng) -> (FitSrc, f64, &'static str) {
    match r.below(8) {
        0 => {
            // a cubic offset, sometimes past the radius of curvature (real cusps, real break_cusp)
            let size = *r.pick(&[1.0, 10.0, 100.0]);
            let c = gen_smooth_cubic(r, size);
            let km = kappa_max(&c).max(1e-9 / size);
            let past = r.chance(1, 3);
            let d = (if past { r.uniform(1.2, 3.0) } else { r.uniform(0.1, 0.8) }) / km * if r.bool() { 1.0 } else { -1.0 };
            let d = d.clamp(-5.0 * size, 5.0 * size);
            (FitSrc::Offset(CubicOffset::new(c, d)), size * *r.pick(&[0.1, 1e-2, 1e-3]), if past { "offset-cusps" } else { "offset" })
        }
        1 => {
            let size = *r.pick(&[1.0, 10.0, 100.0]);
            let (a, th0, th1, step) = gen_analytic(r, size);
            let n = (((th1 - th0).abs() / step).ceil() as usize).clamp(2, 12);
            let mut bp = BezPath::new();
            hermite_chain(&|t| a.at(t), th0, th1, n, &mut bp, true);
            (FitSrc::Chain(SimplifyBezPath::new(bp.iter())), size * *r.pick(&[0.1, 1e-2, 1e-3, 1e-4]), "chain")
        }
        _ => {
            let (t, acc, tag) = gen_toy(r);
            (FitSrc::Toy(t), acc, tag)
        }
    }
}

fn corr_fit(r: &mut Rng, thorough: bool, o: &mut Out) {
    let n = if thorough { 800 } else { 80 };
    let mut done = 0;
    let mut tries = 0;
    while done < n && tries < 20 * n {
        tries += 1;
        let (src, acc, tag) = gen_fit_src(r);
        let res = guarded(move || run_fit_case(src, acc));
        let (tb, path, total) = match res {
            Ok(Some(x)) => x,
            Ok(None) => continue,
            Err(fresh) => {
                if fresh {
                    o.violation("corr-fit:timeout", format!("fit_to_bezpath on a source ({}) did not return within {} s", tag, TIME_LIMIT_S), format!("{{\"source\":\"{}\",\"accuracy\":{}}}", tag, acc));
                }
                continue;
            }
        };
        let leaves: u64 = tb.kinds.iter().sum();
        let rec_calls = total.wrapping_sub(tb.cubic_work);
        let mut args = vec![acc];
        args.push(tb.pts.len() as f64);
        tb.pts.iter().for_each(|x| args.extend_from_slice(x));
        args.push(tb.der.len() as f64);
        tb.der.iter().for_each(|x| args.extend_from_slice(x));
        args.push(tb.cusp.len() as f64);
        tb.cusp.iter().for_each(|x| args.extend_from_slice(x));
        args.push(tb.fit.len() as f64);
        tb.fit.iter().for_each(|x| args.extend_from_slice(x));
        let mut obs = vec![rec_calls as f64];
        obs.extend(enc_els(path.elements()));
        let t = format!(
            "{}:{}{}{}{}{}",
            tag,
            if tb.kinds[1] > 0 { "L" } else { "" },
            if tb.kinds[2] > 0 { "C" } else { "" },
            if tb.kinds[3] > 0 { "X" } else { "" },
            if tb.nodes.0 > 0 { "k" } else { "" },
            if tb.nodes.1 > 0 { "m" } else { "" }
        );
        o.case(6, "fit-structure", args, obs, leaves > 1 || tb.kinds[3] > 0, &t);
        done += 1;
    }
}

// ---------------------------------------------------------------- simplify structure

/// An independent walk over the element list that only determines the queues `flush` hands to the fitter.
fn simplify_queues(els: &[PathEl], thresh: f64) -> Vec<Vec<PathEl>> {
    let mut queues = Vec::new();
    let mut q: Vec<PathEl> = Vec::new();
    let mut last_pt: Option<Point> = None;
    let mut last_seg: Option<PathSeg> = None;
    let mut flush = |q: &mut Vec<PathEl>| {
        if q.len() > 2 {
            queues.push(q.clone());
        }
        q.clear();
    };
    for el in els {
        let seg = match *el {
            PathEl::MoveTo(p) => {
                flush(&mut q);
                last_pt = Some(p);
                last_seg = None;
                continue;
            }
            PathEl::ClosePath => {
                flush(&mut q);
                last_seg = None;
                continue;
            }
            PathEl::LineTo(p) => {
                let l = match last_pt {
                    Some(l) => l,
                    None => break,
                };
                if l == p {
                    continue;
                }
                PathSeg::Line(Line::new(l, p))
            }
            PathEl::QuadTo(p1, p2) => {
                let l = match last_pt {
                    Some(l) => l,
                    None => break,
                };
                if l == p1 && l == p2 {
                    continue;
                }
                PathSeg::Quad(QuadBez::new(l, p1, p2))
            }
            PathEl::CurveTo(p1, p2, p3) => {
                let l = match last_pt {
                    Some(l) => l,
                    None => break,
                };
                if l == p1 && l == p2 && l == p3 {
                    continue;
                }
                PathSeg::Cubic(CubicBez::new(l, p1, p2, p3))
            }
        };
        if let Some(ls) = last_seg {
            let a = ls.verif_tangents().1;
            let b = seg.verif_tangents().0;
            if a.cross(b).abs() > a.dot(b).abs() * thresh {
                flush(&mut q);
            }
        }
        if q.is_empty() {
            q.push(PathEl::MoveTo(seg.start()));
        }
        q.push(match seg {
            PathSeg::Line(l) => PathEl::LineTo(l.p1),
            PathSeg::Quad(qd) => PathEl::QuadTo(qd.p1, qd.p2),
            PathSeg::Cubic(c) => PathEl::CurveTo(c.p1, c.p2, c.p3),
        });
        last_pt = Some(seg.end());
        last_seg = Some(seg);
    }
    flush(&mut q);
    queues
}

/// Hermite chain of `n` cubics along an analytic curve `f(theta) -> (point, derivative)`.
fn hermite_chain(f: &dyn Fn(f64) -> (Point, Vec2), th0: f64, th1: f64, n: usize, bp: &mut BezPath, moveto: bool) {
    let h = (th1 - th0) / n as f64;
    let (mut p, mut d) = f(th0);
    if moveto {
        bp.move_to(p);
    }
    for k in 0..n {
        let (q, e) = f(th0 + h * (k + 1) as f64);
        bp.curve_to(p + d * (h / 3.0), q - e * (h / 3.0), q);
        p = q;
        d = e;
    }
}

#[derive(Clone, Copy, Debug)]
enum Analytic {
    Circle(Point, f64),
    Ellipse(Point, f64, f64, f64),
    Sine(Point, f64, f64, f64),
    LogSpiral(Point, f64, f64),
    ArchSpiral(Point, f64, f64),
    /// a gentle parabola arc of length scale `len` with a LOCALISED feature: a smooth plateau of height `h`
    /// over `[s0 + rr, s0 + rr + w]` (fractions of the parameter range [0,1]) with quintic ramps of width `rr`:
    /// (origin, rot, len, amp, h, s0, rr, w)
    Bump(Point, f64, f64, f64, f64, f64, f64, f64),
}

fn smoothstep5(t: f64) -> (f64, f64) {
    if t <= 0.0 {
        (0.0, 0.0)
    } else if t >= 1.0 {
        (1.0, 0.0)
    } else {
        (t * t * t * (10.0 - 15.0 * t + 6.0 * t * t), 30.0 * t * t * (1.0 - t) * (1.0 - t))
    }
}

impl Analytic {
    fn at(&self, th: f64) -> (Point, Vec2) {
        match *self {
            Analytic::Circle(c, r) => (Point::new(c.x + r * th.cos(), c.y + r * th.sin()), Vec2::new(-r * th.sin(), r * th.cos())),
            Analytic::Ellipse(c, a, b, rot) => {
                let (s, co) = rot.sin_cos();
                let (x, y) = (a * th.cos(), b * th.sin());
                let (dx, dy) = (-a * th.sin(), b * th.cos());
                (Point::new(c.x + co * x - s * y, c.y + s * x + co * y), Vec2::new(co * dx - s * dy, s * dx + co * dy))
            }
            Analytic::Sine(o, sx, amp, rot) => {
                let (s, co) = rot.sin_cos();
                let (x, y) = (sx * th, amp * th.sin());
                let (dx, dy) = (sx, amp * th.cos());
                (Point::new(o.x + co * x - s * y, o.y + s * x + co * y), Vec2::new(co * dx - s * dy, s * dx + co * dy))
            }
            Analytic::LogSpiral(c, a, b) => {
                let rr = a * (b * th).exp();
                (Point::new(c.x + rr * th.cos(), c.y + rr * th.sin()), Vec2::new(rr * (b * th.cos() - th.sin()), rr * (b * th.sin() + th.cos())))
            }
            Analytic::Bump(o, rot, len, amp, h, s0, rr, w) => {
                let u = th;
                let (up, dup) = smoothstep5((u - s0) / rr);
                let (dn, ddn) = smoothstep5((s0 + 2.0 * rr + w - u) / rr);
                let y = amp * 4.0 * u * (1.0 - u) + h * up * dn;
                let dy = amp * 4.0 * (1.0 - 2.0 * u) + h * (dup * dn - up * ddn) / rr;
                let (s, co) = rot.sin_cos();
                let (x, dx) = (len * u, len);
                (Point::new(o.x + co * x - s * y, o.y + s * x + co * y), Vec2::new(co * dx - s * dy, s * dx + co * dy))
            }
            Analytic::ArchSpiral(c, a, b) => {
                let rr = a + b * th;
                (Point::new(c.x + rr * th.cos(), c.y + rr * th.sin()), Vec2::new(b * th.cos() - rr * th.sin(), b * th.sin() + rr * th.cos()))
            }
        }
    }
}

fn gen_analytic(r: &mut Rng, size: f64) -> (Analytic, f64, f64, f64) {
    // returns (curve, th0, th1 for the whole chain, max angular step per cubic)
    let c = Point::new(r.uniform(-size, size), r.uniform(-size, size));
    match r.below(5) {
        0 => {
            let th0 = r.uniform(0.0, 6.0);
            (Analytic::Circle(c, size * r.uniform(0.2, 1.0)), th0, th0 + r.uniform(0.5, 6.0) * if r.bool() { 1.0 } else { -1.0 }, 1.2)
        }
        1 => {
            let th0 = r.uniform(0.0, 6.0);
            let a = size * r.uniform(0.3, 1.0);
            (Analytic::Ellipse(c, a, a * r.uniform(0.3, 1.0), r.uniform(0.0, 3.0)), th0, th0 + r.uniform(0.5, 6.0) * if r.bool() { 1.0 } else { -1.0 }, 0.8)
        }
        2 => {
            let th0 = r.uniform(0.0, 6.0);
            (Analytic::Sine(c, size * r.uniform(0.1, 0.4), size * r.uniform(0.05, 0.3), r.uniform(0.0, 6.0)), th0, th0 + r.uniform(1.0, 12.0), 0.7)
        }
        3 => {
            let th0 = r.uniform(0.0, 3.0);
            (Analytic::LogSpiral(c, size * r.uniform(0.05, 0.2), r.uniform(0.05, 0.25)), th0, th0 + r.uniform(1.0, 9.0), 0.8)
        }
        _ => {
            let th0 = r.uniform(0.5, 3.0);
            (Analytic::ArchSpiral(c, size * r.uniform(0.05, 0.3), size * r.uniform(0.02, 0.1)), th0, th0 + r.uniform(1.0, 12.0), 0.8)
        }
    }
}

/// Where a localised feature starts (fraction of the parameter range), given its total width:
/// often at the very end or start of the curve, or next to a dyadic split point k/2^j (+- a few %).
fn feature_start(r: &mut Rng, width: f64) -> f64 {
    let s0 = match r.below(20) {
        0..=7 => 1.0 - width - r.uniform(0.001, 0.006),
        8..=10 => r.uniform(0.001, 0.01),
        11..=15 => {
            let j = 1 + r.below(3);
            let k = 1 + r.below((1 << j) - 1);
            k as f64 / (1u64 << j) as f64 + r.uniform(-0.03, 0.03) - if r.bool() { width } else { 0.0 }
        }
        _ => r.uniform(0.0, 1.0 - width),
    };
    s0.clamp(0.001, 1.0 - width - 0.001)
}

/// An analytic curve with a localised feature of height `hk` x accuracy: plateau 5.2..5.6 % of the parameter
/// range (wider than one sampling step of the fitter, 1/21), ramps 1.2..1.4 %.
fn gen_bump(r: &mut Rng, acc: f64, hk: f64) -> Analytic {
    let h = acc * hk * if r.bool() { 1.0 } else { -1.0 };
    let len = h.abs() * 10f64.powf(r.uniform(2.4, 3.6));
    let (rr, w) = (r.uniform(0.012, 0.014), r.uniform(0.052, 0.056));
    let s0 = feature_start(r, 2.0 * rr + w);
    Analytic::Bump(Point::new(r.uniform(-len, len), r.uniform(-len, len)), r.uniform(0.0, 6.3), len, len * r.uniform(-0.15, 0.15), h, s0, rr, w)
}

/// Parameters of a chain of `n` (36..40) G1 cubics sampled (Hermite) from such a curve; the feature takes exactly
/// the three segments i0, i0+1, i0+2 (ramp, plateau, ramp; 4..8 % of the length), the other segments share the
/// rest evenly. Returns (n, i0, curve).
fn gen_bump_chain(r: &mut Rng, acc: f64, hk: f64) -> (usize, usize, Analytic) {
    let n = 36 + r.below(5) as usize;
    let h = acc * hk * if r.bool() { 1.0 } else { -1.0 };
    let len = h.abs() * 10f64.powf(r.uniform(2.4, 3.6));
    let (rr, w) = (r.uniform(0.01, 0.02), r.uniform(0.02, 0.04));
    let width = 2.0 * rr + w;
    let i0 = match r.below(20) {
        0..=7 => n - 3,
        8..=9 => 0,
        10..=14 => {
            let j = 1 + r.below(3);
            let k = 1 + r.below((1 << j) - 1);
            (((k as usize * n) >> j) as i64 + r.range_i(-4, 1)).clamp(0, n as i64 - 3) as usize
        }
        _ => r.below(n as u64 - 2) as usize,
    };
    let s0 = (1.0 - width) / (n - 3) as f64 * i0 as f64;
    (n, i0, Analytic::Bump(Point::new(r.uniform(-len, len), r.uniform(-len, len)), r.uniform(0.0, 6.3), len, len * r.uniform(-0.15, 0.15), h, s0, rr, w))
}

fn bump_chain_path(n: usize, i0: usize, a: &Analytic) -> BezPath {
    let (s0, rr, w) = match *a {
        Analytic::Bump(_, _, _, _, _, s0, rr, w) => (s0, rr, w),
        _ => (0.0, 0.01, 0.02),
    };
    let width = 2.0 * rr + w;
    let rest = (1.0 - width) / (n - 3) as f64;
    let mut knots = Vec::with_capacity(n + 1);
    for i in 0..=i0 {
        knots.push(if i == i0 { s0 } else { rest * i as f64 });
    }
    knots.push(s0 + rr);
    knots.push(s0 + rr + w);
    let e0 = s0 + width;
    for i in 0..=(n - 3 - i0) {
        knots.push(if i == n - 3 - i0 { 1.0 } else { e0 + rest * i as f64 });
    }
    let mut bp = BezPath::new();
    let (mut p, mut d) = a.at(knots[0]);
    bp.move_to(p);
    for k in 1..knots.len() {
        let hh = knots[k] - knots[k - 1];
        let (q, e) = a.at(knots[k]);
        bp.curve_to(p + d * (hh / 3.0), q - e * (hh / 3.0), q);
        p = q;
        d = e;
    }
    bp
}

/// accuracy for the localised-feature families: log-uniform in [1e-4, 1]
fn acc_bump(r: &mut Rng) -> f64 {
    10f64.powf(r.uniform(-4.0, 0.0))
}

/// a path for the simplify structure correspondence: smooth runs, corners, degenerate elements, several sub-paths
fn gen_simplify_path(r: &mut Rng) -> BezPath {
    let mut bp = BezPath::new();
    let nsub = 1 + r.below(3);
    let size = *r.pick(&[1.0, 10.0, 100.0]);
    for _ in 0..nsub {
        // a closed sub-path whose elements all have zero length: no output at all, not even a ClosePath
        // (simplify.rs ClosePath arm, `if !state.needs_moveto`); alone, first, in the middle or last
        if r.chance(1, 5) {
            let p = Point::new(r.grid(8, 2.0) * size, r.grid(8, 2.0) * size);
            bp.move_to(p);
            for _ in 0..r.below(3) {
                match r.below(3) {
                    0 => bp.line_to(p),
                    1 => bp.quad_to(p, p),
                    _ => bp.curve_to(p, p, p),
                }
            }
            bp.close_path();
            if r.chance(1, 4) {
                bp.close_path(); // a second ClosePath in a row is dropped as well
            }
            continue;
        }
        let nrun = 1 + r.below(3);
        let mut first = true;
        let mut start = Point::ZERO;
        // A MoveTo that does not move the pen: the sub-path starts EXACTLY at the last drawn vertex of the preceding
        // sub-path (open or closed) or at its start point. It is a new sub-path all the same: the run is flushed,
        // the MoveTo is emitted, and a later ClosePath closes to this MoveTo.
        let forced: Option<Point> = if r.chance(1, 3) { pen_points(&bp).map(|(st, en)| if r.bool() { en } else { st }) } else { None };
        for _ in 0..nrun {
            match r.below(6) {
                0 | 1 | 2 => {
                    let (a, th0, th1, step) = gen_analytic(r, size);
                    let n = (((th1 - th0).abs() / step).ceil() as usize).clamp(1, 6);
                    // translate so that the run starts where the previous one ended
                    let mut run = BezPath::new();
                    hermite_chain(&|t| a.at(t), th0, th1, n, &mut run, true);
                    let els = run.elements();
                    let p0 = match els[0] {
                        PathEl::MoveTo(p) => p,
                        _ => unreachable!(),
                    };
                    let cur = if first { forced.unwrap_or(p0) } else { last_point(&bp).unwrap_or(p0) };
                    let off = cur - p0;
                    if first {
                        bp.move_to(cur);
                        start = cur;
                    }
                    for e in &els[1..] {
                        if let PathEl::CurveTo(a, b, c) = *e {
                            bp.curve_to(a + off, b + off, c + off);
                        }
                    }
                }
                3 => {
                    let p = forced.unwrap_or(Point::new(r.grid(8, 2.0) * size, r.grid(8, 2.0) * size));
                    if first {
                        bp.move_to(p);
                        start = p;
                    }
                    let k = 1 + r.below(3);
                    for _ in 0..k {
                        let q = Point::new(r.grid(8, 2.0) * size, r.grid(8, 2.0) * size);
                        if r.chance(1, 6) {
                            bp.line_to(last_point(&bp).unwrap()); // degenerate
                        }
                        bp.line_to(q);
                    }
                }
                4 => {
                    // tame coordinates: this run is smooth (quad + collinear line) and goes to the fitter
                    let gp = |r: &mut Rng| Point::new(r.grid(8, 2.0) * size, r.grid(8, 2.0) * size);
                    let p = forced.unwrap_or(gp(r));
                    if first {
                        bp.move_to(p);
                        start = p;
                    }
                    let l = last_point(&bp).unwrap();
                    if r.chance(1, 5) {
                        bp.quad_to(l, l);
                    }
                    bp.quad_to(gp(r), gp(r));
                    // collinear continuation: smooth join between a quad and a line
                    let (a, b) = match bp.elements().last().unwrap() {
                        PathEl::QuadTo(a, b) => (*a, *b),
                        _ => unreachable!(),
                    };
                    if r.bool() {
                        bp.line_to(b + (b - a) * 0.5);
                    }
                }
                _ => {
                    let p = forced.unwrap_or(grid_point(r));
                    if first {
                        bp.move_to(p);
                        start = p;
                    }
                    let l = last_point(&bp).unwrap();
                    if r.chance(1, 5) {
                        bp.curve_to(l, l, l);
                    }
                    let c = gen_cubic(r);
                    bp.curve_to(c.p1, c.p2, c.p3);
                }
            }
            first = false;
        }
        match r.below(4) {
            0 => bp.close_path(),
            1 => {
                bp.line_to(start);
                bp.close_path();
            }
            _ => {}
        }
        // drawing elements directly after ClosePath (no MoveTo): the code continues from its stale last point
        if matches!(bp.elements().last(), Some(PathEl::ClosePath)) && r.chance(1, 4) {
            bp.line_to(Point::new(r.grid(8, 2.0) * size, r.grid(8, 2.0) * size));
            if r.bool() {
                let c = gen_cubic(r);
                bp.curve_to(c.p1, c.p2, c.p3);
            }
            if r.bool() {
                bp.close_path();
            }
        }
    }
    bp
}

/// (start of the last sub-path, last drawn vertex) of the path built so far
fn pen_points(bp: &BezPath) -> Option<(Point, Point)> {
    let mut start = None;
    let mut last = None;
    for e in bp.elements() {
        match *e {
            PathEl::MoveTo(p) => {
                start = Some(p);
                last = Some(p);
            }
            PathEl::LineTo(p) | PathEl::QuadTo(_, p) | PathEl::CurveTo(_, _, p) => last = Some(p),
            PathEl::ClosePath => {}
        }
    }
    match (start, last) {
        (Some(a), Some(b)) => Some((a, b)),
        _ => None,
    }
}

fn last_point(bp: &BezPath) -> Option<Point> {
    let mut start = None;
    let mut last = None;
    for e in bp.elements() {
        match *e {
            PathEl::MoveTo(p) => {
                start = Some(p);
                last = Some(p);
            }
            PathEl::LineTo(p) | PathEl::QuadTo(_, p) | PathEl::CurveTo(_, _, p) => last = Some(p),
            PathEl::ClosePath => last = start,
        }
    }
    last
}

fn corr_simplify(r: &mut Rng, thorough: bool, o: &mut Out) {
    let n = if thorough { 500 } else { 50 };
    let mut fitter_panics = 0u32;
    for _ in 0..n {
        let bp = gen_simplify_path(r);
        let mut els: Vec<PathEl> = bp.elements().to_vec();
        // (only in front of a drawing element: a path that starts with ClosePath trips BezPath's debug assertion instead)
        let headless = r.chance(1, 25) && matches!(els.get(1), Some(PathEl::LineTo(_) | PathEl::QuadTo(..) | PathEl::CurveTo(..)));
        if headless {
            els.remove(0); // no MoveTo: `last_pt.unwrap()` panics at the first drawing element
        }
        let level = r.bool();
        // with the optimising fitter only smooth runs are queued (default threshold): on sources with
        // unreported corners fit_to_bezpath_opt can run for minutes or panic, which is not what is compared here
        let thresh = if level { 1e-3 } else { *r.pick(&[1e-3, 1e-3, 1e-3, 0.1, 10.0]) };
        let size = els.iter().fold(1.0f64, |m, e| match e {
            PathEl::MoveTo(p) | PathEl::LineTo(p) | PathEl::QuadTo(_, p) | PathEl::CurveTo(_, _, p) => m.max(p.x.abs()).max(p.y.abs()),
            _ => m,
        });
        let acc = size * *r.pick(&[0.1, 1e-2, 1e-3]);
        let els2 = els.clone();
        let res = guarded(move || {
            let opts = SimplifyOptions::default().angle_thresh(thresh).opt_level(if level { SimplifyOptLevel::Optimize } else { SimplifyOptLevel::Subdivide });
            let real = match std::panic::catch_unwind(|| simplify_bezpath(els2.iter().copied(), acc, &opts)) {
                Ok(p) => p,
                Err(_) => return None,
            };
            let queues = simplify_queues(&els2, thresh);
            let mut args = vec![thresh, queues.len() as f64];
            for q in &queues {
                let s = SimplifyBezPath::new(q.iter().copied());
                let out = if level { fit_to_bezpath_opt(&s, acc) } else { fit_to_bezpath(&s, acc) };
                let eq = enc_els(q);
                let eo = enc_els(out.elements());
                args.push(eq.len() as f64);
                args.extend(eq);
                args.push(eo.len() as f64);
                args.extend(eo);
            }
            Some((real, args, queues.len()))
        });
        let (real, mut args, nq) = match res {
            Ok(Some(x)) => x,
            Ok(None) => {
                if headless {
                    let mut args = vec![thresh, 0.0];
                    args.extend(enc_els(&els));
                    o.case(7, "simplify-structure", args, vec![-1.0], true, "panic:no-moveto");
                } else {
                    // a panic inside the fitter itself (fit_to_bezpath_opt's `unwrap()` at fit.rs:656 on
                    // non-smooth queues with a coarse accuracy): outside the outer structure modelled here
                    fitter_panics += 1;
                }
                continue;
            }
            Err(fresh) => {
                if fresh {
                    o.violation("corr-simplify:timeout", format!("simplify_bezpath did not return within {} s", TIME_LIMIT_S), format!("{{\"els\":{}}}", crate::util::fmt_fs(&enc_els(&els))));
                }
                continue;
            }
        };
        args.extend(enc_els(&els));
        let mut obs = vec![real.elements().len() as f64];
        obs.extend(enc_els(real.elements()));
        let nsub = els.iter().filter(|e| matches!(e, PathEl::MoveTo(_))).count();
        let after_close = els.windows(2).any(|w| matches!(w[0], PathEl::ClosePath) && !matches!(w[1], PathEl::MoveTo(_)));
        // the repaired branch: fewer ClosePath out than in
        // a MoveTo exactly at the current pen position / at the previous sub-path's start
        let still_moveto = {
            let (mut st, mut pen, mut hit) = (None, None, false);
            for e in &els {
                match *e {
                    PathEl::MoveTo(p) => {
                        hit |= Some(p) == pen || Some(p) == st;
                        st = Some(p);
                        pen = Some(p);
                    }
                    PathEl::LineTo(p) | PathEl::QuadTo(_, p) | PathEl::CurveTo(_, _, p) => pen = Some(p),
                    PathEl::ClosePath => {}
                }
            }
            hit
        };
        let nclose = |e: &[PathEl]| e.iter().filter(|x| matches!(x, PathEl::ClosePath)).count();
        let dropped_close = nclose(real.elements()) < nclose(&els);
        let tag = format!("{}sub{}{}{}", nsub.min(4), if nq == 0 { ":passthrough" } else { ":fitted" }, if level { ":opt" } else { ":subdiv" }, if after_close { ":draw-after-close" } else if dropped_close { ":close-dropped" } else if still_moveto { ":moveto-at-pen" } else { "" });
        o.case(7, "simplify-structure", args, obs, els.len() > 3, &tag);
    }
    if fitter_panics > 0 {
        o.notes.push(format!("simplify-structure: {} generated (non-smooth, coarse accuracy) inputs skipped because the fitter itself panicked (fit_to_bezpath_opt, fit.rs:656 unwrap on None)", fitter_panics));
    }
}

// ---------------------------------------------------------------- numeric kernels

fn cubic8(c: &CubicBez) -> Vec<f64> {
    vec![c.p0.x, c.p0.y, c.p1.x, c.p1.y, c.p2.x, c.p2.y, c.p3.x, c.p3.y]
}

fn corr_kernels(r: &mut Rng, thorough: bool, o: &mut Out) {
    let n = if thorough { 4000 } else { 260 };
    for i in 0..n {
        // CubicOffset: generic cubics only for the tolerance groups (hypot)
        let sz = *r.pick(&[1.0, 30.0, 1000.0]);
        let c = if i % 4 == 0 { gen_cubic(r) } else { gen_smooth_cubic(r, sz) };
        let d = match r.below(4) {
            0 => r.grid(8, 2.0),
            _ => r.generic(-4, 6),
        };
        let t = match r.below(6) {
            0 => 0.0,
            1 => 1.0,
            2 => r.range_i(0, 8) as f64 / 8.0,
            _ => r.unit(),
        };
        let sign = if r.bool() { 1.0 } else { -1.0 };
        let co = CubicOffset::new(c, d);
        let (p, dv) = co.sample_pt_deriv(t);
        let s = co.sample_pt_tangent(t, sign);
        let mut a = cubic8(&c);
        a.push(d);
        a.push(t);
        let generic = i % 4 != 0;
        let finite = p.x.is_finite() && p.y.is_finite() && dv.x.is_finite();
        if generic && finite {
            o.case(1, "offset-sample_pt_deriv", a.clone(), vec![p.x, p.y, dv.x, dv.y], true, "generic");
        }
        o.case(3, "offset-eval_deriv", a.clone(), vec![dv.x, dv.y], finite, if finite { "finite" } else { "zero-derivative" });
        a.push(sign);
        // the near-cusp branch of sample_pt_tangent: |cusp_sign| < 1e-8 needs d = -radius of curvature
        let tag = if (dv.x.abs() + dv.y.abs()) < 1e-8 * (s.tangent.x.abs() + s.tangent.y.abs()) { "near-cusp" } else { "regular" };
        if generic && finite {
            o.case(2, "offset-sample_pt_tangent", a.clone(), vec![s.p.x, s.p.y, s.tangent.x, s.tangent.y], true, tag);
        }
        o.case(4, "offset-tangent", a, vec![s.tangent.x, s.tangent.y], finite, tag);
    }
    // the cusp branch proper: a circle-like arc offset by exactly minus its radius of curvature at t
    for _ in 0..(n / 10) {
        let rad = r.grid(6, 1.0).abs() + 1.0;
        let k = 0.5522847498307936 * rad;
        let c = CubicBez::new((rad, 0.0), (rad, k), (k, rad), (0.0, rad));
        let t = *r.pick(&[0.0, 0.5, 1.0, 0.25]);
        // radius of curvature at t from the control points
        let q = c.deriv();
        let d1 = q.eval(t).to_vec2();
        let d2 = q.deriv().eval(t).to_vec2();
        let kappa = d1.cross(d2) / d1.hypot2().powf(1.5);
        let d = 1.0 / kappa;
        for dd in [d, -d, d * (1.0 + 1e-10), -d * (1.0 - 1e-10)] {
            let co = CubicOffset::new(c, dd);
            for sign in [1.0, -1.0] {
                let s = co.sample_pt_tangent(t, sign);
                let dv = co.sample_pt_deriv(t).1;
                let mut a = cubic8(&c);
                a.extend([dd, t, sign]);
                let tag = if (dv.x.abs() + dv.y.abs()) < 1e-8 * (s.tangent.x.abs() + s.tangent.y.abs()) { "near-cusp" } else { "regular" };
                o.case(4, "offset-tangent", a, vec![s.tangent.x, s.tangent.y], true, tag);
            }
        }
    }
    for i in 0..n {
        let c = if i % 3 == 0 { gen_smooth_cubic(r, 100.0) } else { gen_cubic(r) };
        let (a, x, y) = moment_integrals(c);
        let degenerate = c.p0 == c.p3 || (c.p0 == c.p1 && c.p2 == c.p3);
        o.case(5, "moment_integrals", cubic8(&c), vec![a, x, y], !degenerate, if degenerate { "degenerate" } else { "cubic" });
        let s = gen_seg(r);
        let (d0, d1) = s.verif_tangents();
        let tag = tan_tag(&s);
        o.case(8, "tangents", enc_seg(&s), vec![d0.x, d0.y, d1.x, d1.y], tag.contains(':'), &tag);
        let l = gen_line(r);
        let p = match r.below(4) {
            0 => l.eval(r.range_i(-4, 12) as f64 / 8.0),
            1 => grid_point(r),
            _ => gen_point(r),
        };
        let nr = l.nearest(p, 1e-9);
        let tag = if nr.t == 0.0 { "t=0" } else if nr.t == 1.0 { "t=1" } else { "interior" };
        o.case(12, "line-nearest", vec![l.p0.x, l.p0.y, l.p1.x, l.p1.y, p.x, p.y], vec![nr.distance_sq], l.p0 != l.p1, tag);
    }
    // more degenerate tangents
    for _ in 0..(n / 4) {
        let mut ps = gen_points(r, 4);
        match r.below(6) {
            0 => ps[1] = ps[0],
            1 => {
                ps[1] = ps[0];
                ps[2] = ps[0];
            }
            2 => ps[2] = ps[3],
            3 => {
                ps[2] = ps[3];
                ps[1] = ps[3];
            }
            4 => {
                ps[1] = ps[0];
                ps[2] = ps[3];
            }
            _ => {
                ps[1] = Point::new(ps[0].x + 1e-7, ps[0].y);
            }
        }
        let s = if r.bool() { PathSeg::Cubic(CubicBez::new(ps[0], ps[1], ps[2], ps[3])) } else { PathSeg::Quad(QuadBez::new(ps[0], ps[1], ps[3])) };
        let (d0, d1) = s.verif_tangents();
        o.case(8, "tangents", enc_seg(&s), vec![d0.x, d0.y, d1.x, d1.y], true, &tan_tag(&s));
    }
}

fn tan_tag(s: &PathSeg) -> String {
    match s {
        PathSeg::Line(_) => "line".to_string(),
        PathSeg::Quad(q) => format!("quad{}{}", if (q.p1 - q.p0).hypot2() > 1e-12 { "" } else { ":p0=p1" }, if (q.p2 - q.p1).hypot2() > 1e-12 { "" } else { ":p1=p2" }),
        PathSeg::Cubic(c) => format!(
            "cubic{}{}",
            if (c.p1 - c.p0).hypot2() > 1e-12 {
                ""
            } else if (c.p2 - c.p0).hypot2() > 1e-12 {
                ":p0=p1"
            } else {
                ":p0=p1=p2"
            },
            if (c.p3 - c.p2).hypot2() > 1e-12 {
                ""
            } else if (c.p3 - c.p1).hypot2() > 1e-12 {
                ":p2=p3"
            } else {
                ":p1=p2=p3"
            }
        ),
    }
}

/// SimplifyBezPath as a source: sample_pt_tangent / sample_pt_deriv / moment_integrals
fn corr_sbp(r: &mut Rng, thorough: bool, o: &mut Out) {
    let n = if thorough { 1500 } else { 120 };
    for _ in 0..n {
        let mut bp = BezPath::new();
        let nseg = 1 + r.below(6) as usize;
        bp.move_to(gen_point(r));
        for _ in 0..nseg {
            match r.below(4) {
                0 => bp.line_to(gen_point(r)),
                1 => bp.quad_to(gen_point(r), gen_point(r)),
                _ => bp.curve_to(gen_point(r), gen_point(r), gen_point(r)),
            }
        }
        let nreal = bp.segments().count();
        if nreal == 0 {
            continue;
        }
        let s = SimplifyBezPath::new(bp.iter());
        let e = enc_els(bp.elements());
        let gt = |r: &mut Rng| match r.below(5) {
            0 => 0.0,
            1 => 1.0,
            2 => r.below(nreal as u64 + 1) as f64 / nreal as f64,
            _ => r.unit(),
        };
        let t = gt(r);
        let with = |pre: &[f64]| -> Vec<f64> { pre.iter().cloned().chain(e.iter().cloned()).collect() };
        let sm = s.sample_pt_tangent(t, 1.0);
        let tag = if t == 1.0 { "t=1" } else if (t * nreal as f64).fract() == 0.0 { "joint" } else { "interior" };
        o.case(9, "sbp-sample_pt_tangent", with(&[t]), vec![sm.p.x, sm.p.y, sm.tangent.x, sm.tangent.y], true, tag);
        let (p, d) = s.sample_pt_deriv(t);
        o.case(10, "sbp-sample_pt_deriv", with(&[t]), vec![p.x, p.y, d.x, d.y], true, tag);
        let (mut t0, mut t1) = (gt(r), gt(r));
        if t0 > t1 {
            std::mem::swap(&mut t0, &mut t1);
        }
        let (a, x, y) = s.moment_integrals(t0..t1);
        let (i0, i1) = ((t0 * nreal as f64).floor() as usize, (t1 * nreal as f64).floor() as usize);
        let tag = if t0 == t1 { "empty" } else if i0 == i1 { "same-seg" } else if i1 == i0 + 1 { "adjacent" } else { "prefix-sums" };
        o.case(11, "sbp-moment_integrals", with(&[t0, t1]), vec![a, x, y], t0 != t1, tag);
    }
}

/// try_fit_line, observed through `fit_to_cubic` on a chord no longer than the accuracy
fn corr_try_fit_line(r: &mut Rng, thorough: bool, o: &mut Out) {
    let n = if thorough { 1200 } else { 100 };
    let mut done = 0;
    let mut tries = 0;
    while done < n && tries < 50 * n {
        tries += 1;
        let size = *r.pick(&[1.0, 10.0]);
        let base = match r.below(3) {
            0 => Base::Cubic(gen_smooth_cubic(r, size)),
            1 => Base::Sine(size, size * r.uniform(0.01, 0.3), r.uniform(0.3, 2.0)),
            _ => Base::Arc(Point::new(0.0, 0.0), size, r.uniform(0.0, 6.0), r.uniform(0.2, 6.5)),
        };
        let closedish = matches!(base, Base::Arc(..)) && r.chance(3, 4);
        let src = Toy::new(base);
        let (s, e) = if closedish {
            // a range over which the arc nearly closes on itself: short chord, large bulge
            if let Base::Arc(_, _, _, sw) = src.base {
                let s = r.uniform(0.0, 0.05);
                (s, (s + 2.0 * PI / sw * r.uniform(0.9, 1.0)).min(1.0))
            } else {
                unreachable!()
            }
        } else {
            let s = r.uniform(0.0, 0.9);
            (s, (s + r.uniform(0.0, 1.0).powi(2)).min(1.0))
        };
        let sp = src.sample_pt_tangent(s, 1.0).p;
        let ep = src.sample_pt_tangent(e, -1.0).p;
        let chord = sp.distance(ep);
        // accuracy a little above the chord so that the short-chord path is taken
        let acc = chord * r.uniform(1.0001, 3.0) + 1e-300;
        if !(sp.distance_squared(ep) <= acc * acc) {
            continue;
        }
        let res = fit_to_cubic(&src, s..e, acc);
        let mut a = vec![acc, s, e, sp.x, sp.y, ep.x, ep.y];
        let dt = (e - s) / 8.0;
        for i in 0..7 {
            let t = s + (i + 1) as f64 * dt;
            let p = src.sample_pt_deriv(t).0;
            a.extend([t, p.x, p.y]);
        }
        let (obs, tag) = match res {
            None => (vec![0.0], "rejected"),
            Some((c, err)) => {
                let mut v = vec![1.0];
                v.extend(cubic8(&c));
                v.push(err);
                (v, "accepted")
            }
        };
        o.case(13, "try_fit_line", a, obs, true, tag);
        done += 1;
    }
}

/// CurveDist::from_curve's sample parameters, observed as the arguments of the source's
/// `sample_pt_tangent(., 1.0)` during the real `fit_to_cubic` (calls 3..24; the first two are the range ends)
fn corr_curvedist(r: &mut Rng, thorough: bool, o: &mut Out) {
    let n = if thorough { 600 } else { 60 };
    let mut done = 0;
    let mut tries = 0;
    while done < n && tries < 20 * n {
        tries += 1;
        let size = *r.pick(&[1.0, 10.0, 100.0]);
        let base = match r.below(3) {
            0 => Base::Cubic(gen_smooth_cubic(r, size)),
            1 => Base::Sine(size, size * r.uniform(0.01, 0.3), r.uniform(0.3, 2.0)),
            _ => Base::Arc(Point::new(0.0, 0.0), size, r.uniform(0.0, 6.0), r.uniform(0.2, 3.0)),
        };
        let src = Toy::new(base);
        let (s, e) = match r.below(5) {
            0 => (0.0, 1.0),
            1 => {
                let j = 1 + r.below(6);
                let k = r.below(1 << j);
                (k as f64 / (1u64 << j) as f64, (k + 1) as f64 / (1u64 << j) as f64)
            }
            _ => {
                let s = r.uniform(0.0, 0.9);
                (s, (s + r.uniform(0.01, 1.0)).min(1.0))
            }
        };
        let acc = size * *r.pick(&[1e-2, 1e-3, 1e-5]);
        if src.sample_pt_tangent(s, 1.0).p.distance(src.sample_pt_tangent(e, -1.0).p) <= acc {
            continue; // short chord: try_fit_line, no CurveDist
        }
        *src.tan_log.borrow_mut() = Some(Vec::new());
        let res = fit_to_cubic(&src, s..e, acc);
        let log = src.tan_log.borrow_mut().take().unwrap();
        if log.len() != 24 || log[0] != (s, 1.0) || log[1] != (e, -1.0) || log[2..].iter().any(|x| x.1 != 1.0) {
            o.violation("corr-curvedist:call-pattern", format!("fit_to_cubic made {} sample_pt_tangent calls on [{}, {}], expected 2 + 22", log.len(), s, e), format!("{{\"range\":[{},{}]}}", s, e));
            continue;
        }
        let ts: Vec<f64> = log[2..].iter().map(|x| x.0).collect();
        o.case(14, "curvedist-sample-params", vec![s, e], ts, true, if res.is_some() { "accepted" } else { "rejected" });
        done += 1;
    }
    // the retained samples and the `spicy` flag, through the hook `kurbo::verif::verif_curvedist_samples` (commit aa720b2)
    for _ in 0..n {
        let size = *r.pick(&[1.0, 10.0, 100.0]);
        let base = match r.below(4) {
            0 => Base::Cubic(gen_smooth_cubic(r, size)),
            1 => Base::Sine(size, size * r.uniform(0.01, 0.5), r.uniform(0.3, 6.0)),
            2 => Base::Poly((0..4).map(|_| Point::new(r.coord(), r.coord())).collect()),
            _ => Base::Arc(Point::new(0.0, 0.0), size, r.uniform(0.0, 6.0), r.uniform(0.2, 6.0)),
        };
        let src = Toy::new(base);
        let s = r.uniform(0.0, 0.9);
        let e = (s + r.uniform(0.01, 1.0)).min(1.0);
        *src.tan_log.borrow_mut() = Some(Vec::new());
        let (kept, spicy) = kurbo::verif::verif_curvedist_samples(&src, s..e);
        let log = src.tan_log.borrow_mut().take().unwrap();
        let mut args = vec![s, e];
        for (t, sign) in &log {
            let sm = src.sample_pt_tangent(*t, *sign);
            args.extend([*t, sm.p.x, sm.p.y, sm.tangent.x, sm.tangent.y]);
        }
        let mut obs = vec![if spicy { 1.0 } else { 0.0 }];
        for (p, tn) in &kept {
            obs.extend([p.x, p.y, tn.x, tn.y]);
        }
        if log.len() == 22 {
            o.case(15, "curvedist-samples", args, obs, true, if spicy { "spicy" } else { "calm" });
        }
    }
}

fn corr(r: &mut Rng, thorough: bool, o: &mut Out) {
    corr_kernels(r, thorough, o);
    corr_curvedist(r, thorough, o);
    corr_sbp(r, thorough, o);
    corr_try_fit_line(r, thorough, o);
    corr_fit(r, thorough, o);
    corr_simplify(r, thorough, o);
}

// =====================================================================================
// laws on the implementation (testing; this is the part no theorem reaches)
// =====================================================================================

/// "about the requested accuracy (factor two)"; KV_C18_FACTOR overrides it for experiments only
fn factor() -> f64 {
    std::env::var("KV_C18_FACTOR").ok().and_then(|s| s.parse().ok()).unwrap_or(2.0)
}

fn fail(class: &str, d: String) -> Option<(String, String)> {
    Some((class.to_string(), d))
}

fn cub_at(c: &CubicBez, t: f64) -> Point {
    // own evaluation (de Casteljau), independent of CubicBez::eval
    let l = |a: Point, b: Point| Point::new(a.x + (b.x - a.x) * t, a.y + (b.y - a.y) * t);
    let (a, b, cc) = (l(c.p0, c.p1), l(c.p1, c.p2), l(c.p2, c.p3));
    let (d, e) = (l(a, b), l(b, cc));
    l(d, e)
}

fn cub_d1(c: &CubicBez, t: f64) -> Vec2 {
    let mt = 1.0 - t;
    ((c.p1 - c.p0) * (mt * mt) + (c.p2 - c.p1) * (2.0 * mt * t) + (c.p3 - c.p2) * (t * t)) * 3.0
}
fn cub_d2(c: &CubicBez, t: f64) -> Vec2 {
    let a = c.p2.to_vec2() - c.p1.to_vec2() * 2.0 + c.p0.to_vec2();
    let b = c.p3.to_vec2() - c.p2.to_vec2() * 2.0 + c.p1.to_vec2();
    (a * (1.0 - t) + b * t) * 6.0
}

/// A curve made of smooth pieces `f(piece, t)`, sampled `m` steps per piece, with bounding boxes
/// over blocks of `BLK` polyline segments for pruning. `dev[k]` bounds how far the curve strays from its
/// k-th polyline segment (twice the mid-point deviation; exact would be once for a parabola), so that
/// `seg distance - dev` is a LOWER bound of the distance to that stretch of the curve: no stretch that could
/// contain the nearest point is ever discarded, however coarse the polyline is relative to the threshold.
struct Sampled<'a> {
    f: &'a dyn Fn(usize, f64) -> Point,
    n: usize,
    m: usize,
    pts: Vec<Point>,
    dev: Vec<f64>,
    boxes: Vec<(f64, f64, f64, f64)>,
}
const BLK: usize = 8;

impl<'a> Sampled<'a> {
    fn new(f: &'a dyn Fn(usize, f64) -> Point, n: usize, m: usize) -> Sampled<'a> {
        let m = ((m + BLK - 1) / BLK) * BLK;
        let mut pts = Vec::with_capacity(n * (m + 1));
        let mut dev = Vec::with_capacity(n * m);
        for i in 0..n {
            for k in 0..=m {
                pts.push(f(i, k as f64 / m as f64));
            }
            for k in 0..m {
                let (a, b) = (pts[i * (m + 1) + k], pts[i * (m + 1) + k + 1]);
                let mid = f(i, (k as f64 + 0.5) / m as f64);
                let q1 = f(i, (k as f64 + 0.25) / m as f64);
                let q3 = f(i, (k as f64 + 0.75) / m as f64);
                let dseg = |q: Point| {
                    let d = b - a;
                    let l2 = d.hypot2();
                    let u = if l2 > 0.0 { ((q - a).dot(d) / l2).clamp(0.0, 1.0) } else { 0.0 };
                    (q - (a + d * u)).hypot()
                };
                dev.push(2.0 * dseg(mid).max(dseg(q1)).max(dseg(q3)) + 1e-12 * (a.x.abs() + a.y.abs() + 1.0));
            }
        }
        let mut boxes = Vec::new();
        for i in 0..n {
            for b in 0..m / BLK {
                let s = &pts[i * (m + 1) + b * BLK..=i * (m + 1) + (b + 1) * BLK];
                let e = dev[i * m + b * BLK..i * m + (b + 1) * BLK].iter().fold(0.0f64, |x, y| x.max(*y));
                let mut bx = (f64::INFINITY, f64::INFINITY, f64::NEG_INFINITY, f64::NEG_INFINITY);
                for p in s {
                    bx = (bx.0.min(p.x), bx.1.min(p.y), bx.2.max(p.x), bx.3.max(p.y));
                }
                boxes.push((bx.0 - e, bx.1 - e, bx.2 + e, bx.3 + e));
            }
        }
        Sampled { f, n, m, pts, dev, boxes }
    }
    fn seg_d(&self, q: Point, piece: usize, k: usize) -> f64 {
        let a = self.pts[piece * (self.m + 1) + k];
        let b = self.pts[piece * (self.m + 1) + k + 1];
        let d = b - a;
        let l2 = d.hypot2();
        let u = if l2 > 0.0 { ((q - a).dot(d) / l2).clamp(0.0, 1.0) } else { 0.0 };
        (q - (a + d * u)).hypot()
    }
    /// lower bound of the distance from `q` to the stretch of curve over polyline segment (piece, k)
    fn seg_lb(&self, q: Point, piece: usize, k: usize) -> f64 {
        (self.seg_d(q, piece, k) - self.dev[piece * self.m + k]).max(0.0)
    }
    /// the polyline segment with the smallest lower bound (pruned by the inflated block boxes)
    fn coarse(&self, q: Point) -> (usize, usize, f64) {
        let mut best = (0, 0, f64::INFINITY);
        let nb = self.m / BLK;
        for i in 0..self.n {
            for b in 0..nb {
                let bx = self.boxes[i * nb + b];
                let dx = (bx.0 - q.x).max(q.x - bx.2).max(0.0);
                let dy = (bx.1 - q.y).max(q.y - bx.3).max(0.0);
                if (dx * dx + dy * dy).sqrt() >= best.2 {
                    continue;
                }
                for k in b * BLK..(b + 1) * BLK {
                    let lb = self.seg_lb(q, i, k);
                    if lb < best.2 {
                        best = (i, k, lb);
                    }
                }
            }
        }
        best
    }
    /// distance from `q` to an actual curve point near polyline segment (piece, k): golden-section search
    fn refine(&self, q: Point, piece: usize, k: usize) -> f64 {
        let h = 1.0 / self.m as f64;
        let mut lo = (k as f64 * h - 0.5 * h).max(0.0);
        let mut hi = ((k + 1) as f64 * h + 0.5 * h).min(1.0);
        let g = 0.381966011250105;
        let d2 = |t: f64| ((self.f)(piece, t) - q).hypot2();
        let ends = d2(lo).min(d2(hi)).min(d2(k as f64 * h)).min(d2((k + 1) as f64 * h));
        let (mut x1, mut x2) = (lo + g * (hi - lo), hi - g * (hi - lo));
        let (mut f1, mut f2) = (d2(x1), d2(x2));
        for _ in 0..60 {
            if f1 < f2 {
                hi = x2;
                x2 = x1;
                f2 = f1;
                x1 = lo + g * (hi - lo);
                f1 = d2(x1);
            } else {
                lo = x1;
                x1 = x2;
                f1 = f2;
                x2 = hi - g * (hi - lo);
                f2 = d2(x2);
            }
        }
        f1.min(f2).min(d2(lo)).min(d2(hi)).min(ends).sqrt()
    }
    /// An upper bound `u` on dist(q, curve) (always the distance to a point ON the curve); if `u > thr`
    /// every stretch whose lower bound is below `u` has been refined, so `u` is the distance up to ~1e-12.
    fn dist_upper(&self, q: Point, thr: f64) -> f64 {
        let (i, k, _) = self.coarse(q);
        let mut u = self.refine(q, i, k);
        if k > 0 {
            u = u.min(self.refine(q, i, k - 1));
        }
        if k + 1 < self.m {
            u = u.min(self.refine(q, i, k + 1));
        }
        if u <= thr {
            return u;
        }
        for i in 0..self.n {
            for k in 0..self.m {
                if self.seg_lb(q, i, k) <= u {
                    u = u.min(self.refine(q, i, k));
                    if u <= thr {
                        return u;
                    }
                }
            }
        }
        u
    }
    /// the sample of `self` farthest from `other` if farther than `thr`: (point, distance)
    fn far_from(&self, other: &Sampled, thr: f64) -> Option<(Point, f64)> {
        let mut worst: Option<(Point, f64)> = None;
        for q in &self.pts {
            let (i, k, _) = other.coarse(*q);
            // the polyline vertex distance is already an upper bound: cheap accept
            if other.seg_d(*q, i, k) + other.dev[i * other.m + k] <= thr {
                continue;
            }
            let u = other.dist_upper(*q, thr);
            if u > thr && worst.map(|w| u > w.1).unwrap_or(true) {
                worst = Some((*q, u));
            }
        }
        worst
    }
}

fn path_cubics(els: &[PathEl]) -> Option<Vec<CubicBez>> {
    // MoveTo followed by CurveTo only
    let mut out = Vec::new();
    let mut last = match els.first() {
        Some(PathEl::MoveTo(p)) => *p,
        _ => return None,
    };
    for e in &els[1..] {
        match *e {
            PathEl::CurveTo(a, b, c) => {
                out.push(CubicBez::new(last, a, b, c));
                last = c;
            }
            _ => return None,
        }
    }
    Some(out)
}

fn segs_as_cubics(els: &[PathEl]) -> Vec<CubicBez> {
    kurbo::segments(els.iter().copied()).map(|s| s.to_cubic()).collect()
}

fn scale_of_els(els: &[PathEl]) -> f64 {
    els.iter().fold(1e-300f64, |m, e| match e {
        PathEl::MoveTo(p) | PathEl::LineTo(p) => m.max(p.x.abs()).max(p.y.abs()),
        PathEl::QuadTo(a, p) => m.max(p.x.abs()).max(p.y.abs()).max(a.x.abs()).max(a.y.abs()),
        PathEl::CurveTo(a, b, p) => m.max(p.x.abs()).max(p.y.abs()).max(a.x.abs()).max(a.y.abs()).max(b.x.abs()).max(b.y.abs()),
        _ => m,
    })
}

fn finite_els(els: &[PathEl]) -> bool {
    els.iter().all(|e| match e {
        PathEl::MoveTo(p) | PathEl::LineTo(p) => p.is_finite(),
        PathEl::QuadTo(a, p) => a.is_finite() && p.is_finite(),
        PathEl::CurveTo(a, b, p) => a.is_finite() && b.is_finite() && p.is_finite(),
        _ => true,
    })
}

fn acc_of(r: &mut Rng) -> f64 {
    // log-uniform in [1e-4, 1]
    10f64.powf(r.uniform(-4.0, 0.0))
}

/// two-sided Hausdorff check between a source curve (pieces `fs`) and a fitted cubic chain `fit`
fn hausdorff_violation(fs: &dyn Fn(usize, f64) -> Point, nsrc: usize, fit: &[CubicBez], thr: f64) -> Option<(String, Point, f64)> {
    let ff = |i: usize, t: f64| cub_at(&fit[i], t);
    let per_src = (2400 / nsrc.max(1)).clamp(24, 96);
    let per_fit = (2400 / fit.len().max(1)).clamp(24, 96);
    let a = Sampled::new(fs, nsrc, per_src);
    let b = Sampled::new(&ff, fit.len(), per_fit);
    if let Some((p, d)) = a.far_from(&b, thr) {
        return Some(("source-point-far-from-fit".into(), p, d));
    }
    if let Some((p, d)) = b.far_from(&a, thr) {
        return Some(("fit-point-far-from-source".into(), p, d));
    }
    None
}

// ---------------------------------------------------------------- law: fit of a smooth cubic chain

/// args: [mode (0 subdivide / 1 optimised), accuracy, elements of a MoveTo + CurveTo* chain]
fn g_fit_chain(r: &mut Rng) -> Vec<f64> {
    let size = 10f64.powf(r.uniform(0.0, 3.0));
    let mut bp = BezPath::new();
    if r.chance(1, 4) {
        let c = gen_smooth_cubic(r, size);
        bp.move_to(c.p0);
        bp.curve_to(c.p1, c.p2, c.p3);
    } else {
        let (a, th0, th1, step) = gen_analytic(r, size);
        let nmin = (((th1 - th0).abs() / step).ceil() as usize).max(2);
        let n = (nmin + r.below(6) as usize * r.below(6) as usize).min(40).max(2);
        let th1 = if nmin > 40 { th0 + (th1 - th0).signum() * step * 40.0 } else { th1 };
        hermite_chain(&|t| a.at(t), th0, th1, n, &mut bp, true);
    }
    let mut v = vec![r.below(2) as f64, acc_of(r)];
    v.extend(enc_els(bp.elements()));
    v
}

fn chain_is_smooth(cs: &[CubicBez]) -> bool {
    // regular pieces with bounded curvature, G1 joins
    for c in cs {
        let len = (c.p3 - c.p0).hypot().max((c.p1 - c.p0).hypot()).max((c.p3 - c.p2).hypot());
        if !(len > 0.0) {
            return false;
        }
        for k in 0..=32 {
            let t = k as f64 / 32.0;
            let d1 = cub_d1(c, t);
            if d1.hypot() < 0.05 * len {
                return false;
            }
            let kappa = d1.cross(cub_d2(c, t)).abs() / d1.hypot().powi(3);
            if kappa * len > 40.0 {
                return false;
            }
        }
    }
    for w in cs.windows(2) {
        let a = w[0].p3 - w[0].p2;
        let b = w[1].p1 - w[1].p0;
        if w[0].p3 != w[1].p0 || a.cross(b).abs() > 1e-9 * a.hypot() * b.hypot() || a.dot(b) <= 0.0 {
            return false;
        }
    }
    true
}

/// end points, element kinds, finiteness, two-sided Hausdorff distance of a fitted path
fn check_fitted_gen(fs: &dyn Fn(usize, f64) -> Point, nsrc: usize, scale: f64, out: &BezPath, acc: f64, what: &str) -> Option<(String, String)> {
    let els = out.elements();
    if !finite_els(els) {
        return fail(&format!("{}:non-finite", what), format!("output {:?}", out));
    }
    let fit = match path_cubics(els) {
        Some(f) if !f.is_empty() => f,
        _ => return fail(&format!("{}:element-kinds", what), format!("not MoveTo CurveTo+: {:?}", out)),
    };
    let (s0, s1) = (fs(0, 0.0), fs(nsrc - 1, 1.0));
    let (f0, f1) = (fit[0].p0, fit[fit.len() - 1].p3);
    let eps = 1e-12 * scale;
    if (f0 - s0).hypot() > eps {
        return fail(&format!("{}:start-point", what), format!("path starts at {:?}, source at {:?}", f0, s0));
    }
    if (f1 - s1).hypot() > eps {
        return fail(&format!("{}:end-point", what), format!("path ends at {:?}, source at {:?}", f1, s1));
    }
    let thr = factor() * acc + 1e-9 * scale;
    if let Some((cls, p, d)) = hausdorff_violation(fs, nsrc, &fit, thr) {
        // cross-check of the distance to the fitted path with the crate's own nearest-point search
        let xc = if cls.starts_with("source") {
            let m = fit.iter().map(|c| c.nearest(p, 1e-12).distance_sq).fold(f64::INFINITY, f64::min).sqrt();
            format!("; CubicBez::nearest gives {}", m)
        } else {
            String::new()
        };
        return fail(
            &format!("{}:{}", what, cls),
            format!("accuracy {}: point {:?} at distance {} = {:.3} x accuracy ({} source pieces, {} fitted cubics{})", acc, p, d, d / acc, nsrc, fit.len(), xc),
        );
    }
    None
}

fn check_fitted(src: &[CubicBez], out: &BezPath, acc: f64, what: &str) -> Option<(String, String)> {
    let scale = src.iter().fold(1.0f64, |m, c| m.max(c.p0.x.abs()).max(c.p0.y.abs()).max(c.p3.x.abs()).max(c.p3.y.abs()));
    check_fitted_gen(&|i, t| cub_at(&src[i], t), src.len(), scale, out, acc, what)
}

fn law_fit_chain(a: &[f64]) -> Option<(String, String)> {
    let (mode, acc) = (a[0] != 0.0, a[1]);
    let els = dec_els(&a[2..]);
    let src = path_cubics(&els)?;
    if src.is_empty() || !chain_is_smooth(&src) || !(1e-4..=1.0).contains(&acc) {
        return skip(0); // outside the property's domain
    }
    let what = if mode { "fit-opt" } else { "fit" };
    let els2 = els.clone();
    let out = match guarded_law(what, move || {
        let s = SimplifyBezPath::new(els2.iter().copied());
        if mode {
            fit_to_bezpath_opt(&s, acc)
        } else {
            fit_to_bezpath(&s, acc)
        }
    }) {
        Ok(o) => o,
        Err(v) => return v,
    };
    check_fitted(&src, &out, acc, what)
}

// ---------------------------------------------------------------- law: analytic source through the public trait

struct AnaSrc {
    a: Analytic,
    th0: f64,
    th1: f64,
}
impl ParamCurveFit for AnaSrc {
    fn sample_pt_tangent(&self, t: f64, _: f64) -> CurveFitSample {
        let (p, d) = self.a.at(self.th0 + (self.th1 - self.th0) * t);
        CurveFitSample { p, tangent: d * (self.th1 - self.th0) }
    }
    fn sample_pt_deriv(&self, t: f64) -> (Point, Vec2) {
        let (p, d) = self.a.at(self.th0 + (self.th1 - self.th0) * t);
        (p, d * (self.th1 - self.th0))
    }
    fn break_cusp(&self, _: Range<f64>) -> Option<f64> {
        None
    }
}

fn enc_analytic(a: &Analytic) -> [f64; 10] {
    match *a {
        Analytic::Circle(c, r) => [0.0, c.x, c.y, r, 0.0, 0.0, 0.0, 0.0, 0.0, 0.0],
        Analytic::Ellipse(c, a, b, rot) => [1.0, c.x, c.y, a, b, rot, 0.0, 0.0, 0.0, 0.0],
        Analytic::Sine(c, a, b, rot) => [2.0, c.x, c.y, a, b, rot, 0.0, 0.0, 0.0, 0.0],
        Analytic::LogSpiral(c, a, b) => [3.0, c.x, c.y, a, b, 0.0, 0.0, 0.0, 0.0, 0.0],
        Analytic::ArchSpiral(c, a, b) => [4.0, c.x, c.y, a, b, 0.0, 0.0, 0.0, 0.0, 0.0],
        Analytic::Bump(o, rot, len, amp, h, s0, rr, w) => [5.0, o.x, o.y, rot, len, amp, h, s0, rr, w],
    }
}
fn dec_analytic(v: &[f64]) -> Analytic {
    let c = Point::new(v[1], v[2]);
    match v[0] as i32 {
        0 => Analytic::Circle(c, v[3]),
        1 => Analytic::Ellipse(c, v[3], v[4], v[5]),
        2 => Analytic::Sine(c, v[3], v[4], v[5]),
        3 => Analytic::LogSpiral(c, v[3], v[4]),
        4 => Analytic::ArchSpiral(c, v[3], v[4]),
        _ => Analytic::Bump(c, v[3], v[4], v[5], v[6], v[7], v[8], v[9]),
    }
}

/// args: [mode, accuracy, analytic(10), th0, th1]
fn g_fit_analytic(r: &mut Rng) -> Vec<f64> {
    let size = 10f64.powf(r.uniform(0.0, 3.0));
    let (a, th0, th1, _) = gen_analytic(r, size);
    let mut v = vec![r.below(2) as f64, acc_of(r)];
    v.extend(enc_analytic(&a));
    v.extend([th0, th1]);
    v
}

fn law_fit_analytic(v: &[f64]) -> Option<(String, String)> {
    let (mode, acc) = (v[0] != 0.0, v[1]);
    let a = dec_analytic(&v[2..12]);
    let (th0, th1) = (v[12], v[13]);
    let bump = matches!(a, Analytic::Bump(..));
    let what = if mode { "analytic-opt" } else { "analytic" };
    let out = match guarded_law(what, move || {
        let src = AnaSrc { a, th0, th1 };
        if mode {
            fit_to_bezpath_opt(&src, acc)
        } else {
            fit_to_bezpath(&src, acc)
        }
    }) {
        Ok(o) => o,
        Err(v) => return v,
    };
    // pieces for the distance oracle: fine enough to resolve a localised feature
    let n = if bump { 100 } else { (((th1 - th0).abs() / 0.5).ceil() as usize).clamp(1, 60) };
    let h = (th1 - th0) / n as f64;
    let f = |i: usize, t: f64| a.at(th0 + (i as f64 + t) * h).0;
    let mut scale = 1.0f64;
    for i in 0..=n {
        let p = f(i.min(n - 1), if i == n { 1.0 } else { 0.0 });
        scale = scale.max(p.x.abs()).max(p.y.abs());
    }
    check_fitted_gen(&f, n, scale, &out, acc, what)
}

// ---------------------------------------------------------------- law: offset of a cubic

fn kappa_max(c: &CubicBez) -> f64 {
    let mut k = 0.0f64;
    for i in 0..=256 {
        let t = i as f64 / 256.0;
        let d1 = cub_d1(c, t);
        k = k.max(d1.cross(cub_d2(c, t)).abs() / d1.hypot().powi(3));
    }
    k
}

/// args: [mode, accuracy, d, cubic(8)]
fn g_offset(r: &mut Rng) -> Vec<f64> {
    let size = 10f64.powf(r.uniform(0.0, 3.0));
    loop {
        let c = gen_smooth_cubic(r, size);
        if !chain_is_smooth(&[c]) {
            continue;
        }
        let km = kappa_max(&c);
        let len = (c.p3 - c.p0).hypot();
        // |d| * max curvature <= 0.8; for nearly straight cubics keep |d| comparable to the curve
        let dmax = (0.8 / km).min(3.0 * len);
        let d = dmax * r.uniform(0.05, 1.0) * if r.bool() { 1.0 } else { -1.0 };
        let mut v = vec![r.below(2) as f64, acc_of(r), d];
        v.extend(cubic8(&c));
        return v;
    }
}

fn law_offset(v: &[f64]) -> Option<(String, String)> {
    let (mode, acc, d) = (v[0] != 0.0, v[1], v[2]);
    let c = CubicBez::new((v[3], v[4]), (v[5], v[6]), (v[7], v[8]), (v[9], v[10]));
    if !chain_is_smooth(&[c]) || !(kappa_max(&c) * d.abs() <= 0.8) || !(1e-4..=1.0).contains(&acc) || d == 0.0 {
        return skip(1);
    }
    let what = if mode { "offset-opt" } else { "offset" };
    let scale = [c.p0, c.p1, c.p2, c.p3].iter().fold(1.0f64, |m, p| m.max(p.x.abs()).max(p.y.abs())) + d.abs();
    // the exact offset curve, from the control points (independent of offset.rs)
    let off = |_: usize, t: f64| {
        let d1 = cub_d1(&c, t);
        cub_at(&c, t) + Vec2::new(-d1.y, d1.x) * (d / d1.hypot())
    };
    let fc = |_: usize, t: f64| cub_at(&c, t);
    let cs = Sampled::new(&fc, 1, 512);
    let tiny = 1e-9 * scale;
    // domain: no other part of the source comes closer than |d| to the exact offset curve
    for k in 0..=128 {
        let q = off(0, k as f64 / 128.0);
        if cs.dist_upper(q, f64::INFINITY) < d.abs() - 1e-6 * scale {
            return skip(2);
        }
    }
    let out = match guarded_law(what, move || {
        let co = CubicOffset::new(c, d);
        if mode {
            fit_to_bezpath_opt(&co, acc)
        } else {
            fit_to_bezpath(&co, acc)
        }
    }) {
        Ok(o) => o,
        Err(v) => return v,
    };
    let els = out.elements();
    if !finite_els(els) {
        return fail(&format!("{}:non-finite", what), format!("{:?}", out));
    }
    let fit = match path_cubics(els) {
        Some(f) if !f.is_empty() => f,
        _ => return fail(&format!("{}:element-kinds", what), format!("not MoveTo CurveTo+: {:?}", out)),
    };
    let (o0, o1) = (off(0, 0.0), off(0, 1.0));
    if (fit[0].p0 - o0).hypot() > tiny {
        return fail(&format!("{}:start-point", what), format!("path starts at {:?}, offset curve at {:?}", fit[0].p0, o0));
    }
    if (fit[fit.len() - 1].p3 - o1).hypot() > tiny {
        return fail(&format!("{}:end-point", what), format!("path ends at {:?}, offset curve at {:?}", fit[fit.len() - 1].p3, o1));
    }
    let thr = factor() * acc + tiny;
    // every sampled point of the fitted path is at distance |d| from the source curve
    for (i, f) in fit.iter().enumerate() {
        for k in 0..=48 {
            let q = cub_at(f, k as f64 / 48.0);
            let u = cs.dist_upper(q, d.abs() + thr);
            if u > d.abs() + thr || u < d.abs() - thr {
                return fail(
                    &format!("{}:distance", what),
                    format!("accuracy {} d {}: point {:?} of fitted cubic {} is at distance {} from the source (error {:.3} x accuracy)", acc, d, q, i, u, (u - d.abs()).abs() / acc),
                );
            }
        }
    }
    // and the whole offset curve is covered
    let ff = |i: usize, t: f64| cub_at(&fit[i], t);
    let fs = Sampled::new(&ff, fit.len(), (2400 / fit.len()).clamp(24, 96));
    let os = Sampled::new(&off, 1, 512);
    if let Some((p, dd)) = os.far_from(&fs, thr) {
        return fail(&format!("{}:not-covered", what), format!("accuracy {} d {}: offset-curve point {:?} is {} from the fitted path ({:.3} x accuracy)", acc, d, p, dd, dd / acc));
    }
    None
}

// ---------------------------------------------------------------- law: simplify_bezpath

fn rot_tr(p: Point, rot: f64, tr: Vec2) -> Point {
    let (s, c) = rot.sin_cos();
    Point::new(c * p.x - s * p.y, s * p.x + c * p.y) + tr
}

/// args: [level, accuracy, elements]; the angle threshold is the default 1e-3
fn g_simplify(r: &mut Rng) -> Vec<f64> {
    let size = 10f64.powf(r.uniform(0.0, 3.0));
    let level = r.below(2) as f64;
    let acc = acc_of(r);
    let mut bp = BezPath::new();
    let nsub = 1 + r.below(3);
    for k in 0..nsub {
        // now and then a closed sub-path of zero-length elements next to the real ones: it must vanish
        // entirely (no stray MoveTo or ClosePath), leaving the structure of the others intact
        if nsub > 1 && k > 0 && r.chance(1, 8) {
            let p = Point::new(r.uniform(-size, size), r.uniform(-size, size));
            bp.move_to(p);
            bp.line_to(p);
            bp.curve_to(p, p, p);
            bp.close_path();
        }
        let nrun = 1 + r.below(4);
        let mut cur = Point::new(r.uniform(-size, size), r.uniform(-size, size));
        // a MoveTo that does not move the pen (exactly the previous sub-path's last vertex, open or closed) or that
        // goes back exactly to the previous sub-path's start: still a new sub-path with its own MoveTo and anchor
        if k > 0 && r.chance(1, 4) {
            if let Some((st, en)) = pen_points(&bp) {
                cur = if r.chance(2, 3) { en } else { st };
            }
        }
        let start = cur;
        bp.move_to(cur);
        let mut last_dir: Option<Vec2> = None;
        let mut k = 0;
        let mut guard = 0;
        while k < nrun && guard < 50 {
            guard += 1;
            // a smooth run (Hermite chain or a straight line), rotated/translated to start at `cur`
            let mut run = BezPath::new();
            if r.chance(1, 4) {
                let q = Point::new(r.uniform(-size, size), r.uniform(-size, size));
                run.move_to(Point::ZERO);
                run.line_to(q);
            } else {
                let (a, th0, th1, step) = gen_analytic(r, size);
                let nmin = (((th1 - th0).abs() / step).ceil() as usize).max(1);
                let n = (nmin + r.below(8) as usize).min(20);
                let th1 = if nmin > 20 { th0 + (th1 - th0).signum() * step * 20.0 } else { th1 };
                hermite_chain(&|t| a.at(t), th0, th1, n, &mut run, true);
            }
            let rot = r.uniform(0.0, 2.0 * PI);
            let els: Vec<PathEl> = run.elements().to_vec();
            let p0 = match els[0] {
                PathEl::MoveTo(p) => p,
                _ => unreachable!(),
            };
            let tr = cur - rot_tr(p0, rot, Vec2::ZERO);
            let m = |p: Point| rot_tr(p, rot, tr);
            // the join with the previous run must be a clear corner
            let first_dir = match els[1] {
                PathEl::LineTo(p) => m(p) - cur,
                PathEl::CurveTo(p, _, _) => m(p) - cur,
                _ => unreachable!(),
            };
            if let Some(ld) = last_dir {
                if ld.cross(first_dir).abs() < 0.2 * ld.dot(first_dir).abs() {
                    continue;
                }
            }
            for e in &els[1..] {
                match *e {
                    PathEl::LineTo(p) => {
                        last_dir = Some(m(p) - cur);
                        cur = m(p);
                        bp.line_to(cur);
                    }
                    PathEl::CurveTo(a, b, p) => {
                        last_dir = Some(m(p) - m(b));
                        cur = m(p);
                        bp.curve_to(m(a), m(b), cur);
                    }
                    _ => {}
                }
            }
            k += 1;
        }
        match r.below(3) {
            0 => bp.close_path(),
            1 => {
                if (cur - start).hypot() > 1e-3 * size {
                    let d = start - cur;
                    if last_dir.map(|ld| ld.cross(d).abs() >= 0.2 * ld.dot(d).abs()).unwrap_or(true) {
                        bp.line_to(start);
                    }
                }
                bp.close_path();
            }
            _ => {}
        }
    }
    let mut v = vec![level, acc];
    v.extend(enc_els(bp.elements()));
    v
}

/// split into sub-paths: (start, closed, elements without MoveTo/ClosePath)
fn subpaths(els: &[PathEl]) -> Vec<(Point, bool, Vec<PathEl>)> {
    let mut out: Vec<(Point, bool, Vec<PathEl>)> = Vec::new();
    for e in els {
        match *e {
            PathEl::MoveTo(p) => out.push((p, false, Vec::new())),
            PathEl::ClosePath => {
                if let Some(l) = out.last_mut() {
                    l.1 = true;
                }
            }
            e => {
                if let Some(l) = out.last_mut() {
                    l.2.push(e);
                }
            }
        }
    }
    out
}

/// the sub-path's segments as cubics, without the zero-length ones (all control points equal),
/// which simplify_bezpath skips and which draw nothing
fn sub_cubics(start: Point, els: &[PathEl]) -> Vec<CubicBez> {
    let mut v = vec![PathEl::MoveTo(start)];
    v.extend_from_slice(els);
    segs_as_cubics(&v).into_iter().filter(|c| !(c.p0 == c.p1 && c.p0 == c.p2 && c.p0 == c.p3)).collect()
}

fn law_simplify(v: &[f64]) -> Option<(String, String)> {
    let (level, acc) = (v[0] != 0.0, v[1]);
    let els = dec_els(&v[2..]);
    if !(1e-4..=1.0).contains(&acc) || !matches!(els.first(), Some(PathEl::MoveTo(_))) {
        return None;
    }
    let what = if level { "simplify-opt" } else { "simplify" };
    let els2 = els.clone();
    let out = match guarded_law(what, move || {
        let opts = SimplifyOptions::default().opt_level(if level { SimplifyOptLevel::Optimize } else { SimplifyOptLevel::Subdivide });
        simplify_bezpath(els2.iter().copied(), acc, &opts)
    }) {
        Ok(o) => o,
        Err(v) => return v,
    };
    let oels = out.elements();
    if !finite_els(oels) {
        return fail(&format!("{}:non-finite", what), format!("{:?}", out));
    }
    let scale = scale_of_els(&els).max(1.0);
    let eps = 1e-12 * scale;
    let (si, so) = (subpaths(&els), subpaths(oels));
    // a sub-path without any segment (a lone MoveTo) draws nothing; the property is about sub-paths with segments
    let si: Vec<_> = si.into_iter().filter(|s| !sub_cubics(s.0, &s.2).is_empty()).collect();
    if !matches!(oels.first(), Some(PathEl::MoveTo(_))) || si.len() != so.len() {
        return fail(&format!("{}:subpath-count", what), format!("{} sub-paths in, {} out: {:?}", si.len(), so.len(), out));
    }
    let thr = factor() * acc + 1e-9 * scale;
    for (k, (a, b)) in si.iter().zip(so.iter()).enumerate() {
        if a.1 != b.1 {
            return fail(&format!("{}:closedness", what), format!("sub-path {}: closed {} -> {}", k, a.1, b.1));
        }
        let (ca, cb) = (sub_cubics(a.0, &a.2), sub_cubics(b.0, &b.2));
        if cb.is_empty() {
            return fail(&format!("{}:subpath-count", what), format!("sub-path {} lost its segments", k));
        }
        if (a.0 - b.0).hypot() > eps {
            return fail(&format!("{}:start-point", what), format!("sub-path {}: {:?} -> {:?}", k, a.0, b.0));
        }
        let (ea, eb) = (ca[ca.len() - 1].p3, cb[cb.len() - 1].p3);
        if (ea - eb).hypot() > eps {
            return fail(&format!("{}:end-point", what), format!("sub-path {}: {:?} -> {:?}", k, ea, eb));
        }
        // corners: joints of the input whose tangents differ clearly (100 x the threshold) must stay vertices
        for w in ca.windows(2) {
            let t0 = PathSeg::Cubic(w[0]).verif_tangents().1;
            let t1 = PathSeg::Cubic(w[1]).verif_tangents().0;
            if t0.cross(t1).abs() > 0.1 * t0.dot(t1).abs() {
                let p = w[0].p3;
                if !cb.iter().any(|c| (c.p3 - p).hypot() <= eps) {
                    return fail(&format!("{}:corner-lost", what), format!("sub-path {}: corner at {:?} is not a vertex of the output", k, p));
                }
            }
        }
        if let Some((cls, p, d)) = hausdorff_violation(&|i, t| cub_at(&ca[i], t), ca.len(), &cb, thr) {
            let other: &[CubicBez] = if cls.starts_with("source") { &cb } else { &ca };
            let m = other.iter().map(|c| c.nearest(p, 1e-12).distance_sq).fold(f64::INFINITY, f64::min).sqrt();
            return fail(
                &format!("{}:{}", what, cls),
                format!("accuracy {}: sub-path {} point {:?} at distance {} = {:.3} x accuracy ({} -> {} segments; CubicBez::nearest gives {})", acc, k, p, d, d / acc, ca.len(), cb.len(), m),
            );
        }
    }
    None
}

// ---------------------------------------------------------------- law: sources with a LOCALISED feature

/// A smooth plateau of height 3..10 x accuracy and width 4..8 % of the length on a gentle arc, anywhere on the
/// curve — in particular at its very end/start and next to dyadic split points — as a Hermite chain of 36..40
/// G1 cubics (kind 0) or as an analytic source through the trait (kind 1). The fitter only ever looks at 20
/// interior samples of the range it tries as one piece; this family asks whether that is enough.
/// args: [kind, mode, accuracy, n, i0, analytic(10)]
fn g_fit_feature(r: &mut Rng) -> Vec<f64> {
    let acc = acc_bump(r);
    let hk = if r.bool() { r.uniform(3.0, 4.5) } else { r.uniform(4.5, 10.0) };
    let kind = r.below(3) == 0;
    let mode = r.below(2) as f64;
    let (n, i0, a) = if kind { (0, 0, gen_bump(r, acc, hk)) } else { gen_bump_chain(r, acc, hk) };
    let mut v = vec![if kind { 1.0 } else { 0.0 }, mode, acc, n as f64, i0 as f64];
    v.extend(enc_analytic(&a));
    v
}

fn law_fit_feature(v: &[f64]) -> Option<(String, String)> {
    let (kind, acc) = (v[0] != 0.0, v[2]);
    let (n, i0) = (v[3] as usize, v[4] as usize);
    let a = dec_analytic(&v[5..15]);
    let h = match a {
        Analytic::Bump(_, _, _, _, h, ..) => h,
        _ => return None,
    };
    if !(1e-4..=1.0).contains(&acc) {
        return None;
    }
    // class = feature[-opt] : <what failed> : low|high : chain|analytic
    let band = if h.abs() <= 4.5 * acc { "low" } else { "high" };
    let fitter = if v[1] != 0.0 { "feature-opt" } else { "feature" };
    let res = if kind {
        let mut w = vec![v[1], acc];
        w.extend_from_slice(&v[5..15]);
        w.extend([0.0, 1.0]);
        law_fit_analytic(&w)
    } else {
        if !(4..=40).contains(&n) || i0 + 3 > n {
            return None;
        }
        let bp = bump_chain_path(n, i0, &a);
        let mut w = vec![v[1], acc];
        w.extend(enc_els(bp.elements()));
        law_fit_chain(&w)
    };
    res.map(|(cls, d)| {
        let what = cls.split_once(':').map(|x| x.1).unwrap_or(&cls).to_string();
        (format!("{}:{}:{}:{}", fitter, what, band, if kind { "analytic" } else { "chain" }), format!("feature height {:.2} x accuracy: {}", h.abs() / acc, d))
    })
}

fn laws() -> Vec<Law> {
    vec![
        Law { name: "fit_feature", gen: g_fit_feature, check: law_fit_feature, weight: 3 },
        Law { name: "fit_chain", gen: g_fit_chain, check: law_fit_chain, weight: 4 },
        Law { name: "fit_analytic", gen: g_fit_analytic, check: law_fit_analytic, weight: 2 },
        Law { name: "offset", gen: g_offset, check: law_offset, weight: 4 },
        Law { name: "simplify", gen: g_simplify, check: law_simplify, weight: 4 },
    ]
}

/// Witnesses of the known findings (known_findings.txt): localised features the pinned fitters lose.
const KNOWN_WITNESSES: [(&str, &str, [f64; 15]); 4] = [
    (
        "C18-opt-localised-feature",
        "fit_to_bezpath_opt, chain of 38 G1 cubics, plateau of 9.2 x accuracy on the last three segments: 3 cubics, source point 3.6 x accuracy from the fit",
        [0.0, 1.0, 0.18546018234017428, 38.0, 35.0, 5.0, -846.7067724640609, 970.1950071067699, 5.516607273913045, 1670.2662825960128, -12.39235846887631, -1.7051320738964388, 0.9345338087394408, 0.015283401380121185, 0.03489938850031681],
    ),
    (
        "C18-opt-localised-feature",
        "fit_to_bezpath_opt, analytic source, plateau of 7.1 x accuracy at the end: fitted point 7.4 x accuracy from the source",
        [1.0, 1.0, 0.054697782868116496, 0.0, 0.0, 5.0, 52.95899700327708, -65.2757156460836, 4.104829476109734, 116.00182809430159, 3.131501158177127, 0.3871026380211817, 0.9153229209462592, 0.012502188902124877, 0.05475333496968296],
    ),
    (
        "C18-subdiv-feature-overshoot",
        "fit_to_bezpath, analytic source, plateau of 4.3 x accuracy: fitted point 3.6 x accuracy from the source",
        [1.0, 0.0, 0.260298482009832, 0.0, 0.0, 5.0, 498.55150507017515, 2030.2260609200684, 0.8747960846691939, 2065.546658855443, -119.76568758827446, 1.1169482745772374, 0.19078702468213998, 0.013143792451330598, 0.05429741440472986],
    ),
    (
        "C18-subdiv-feature-overshoot",
        "fit_to_bezpath, chain of 38 G1 cubics, plateau of 4.1 x accuracy on segments 26..28: fitted point 3.6 x accuracy from the source",
        [0.0, 0.0, 0.006099954686553126, 38.0, 26.0, 5.0, 24.32530998369149, 0.8953408766657631, 4.522490868049, 50.826634178373034, 0.017944137593141476, 0.024863732875247124, 0.6874449260686843, 0.019611552073143374, 0.03537026460740729],
    ),
];

/// fit_chain args of the C18-opt-unwrap witness: a 17-cubic G1 spiral chain of size ~1.3 at accuracy 0.796
const UNWRAP_WITNESS: [f64; 124] = [1.0, 0.7956298433859463, 0.0, -0.1321005635185002, 0.9954936910413683, 3.0, -0.20740104187327008, 0.974620528974397, -0.2790560335973484, 0.9316033008987297, -0.3352183638688568, 0.8706897199186754, 3.0, -0.3913806941403654, 0.8097761389386211, -0.43180027121017034, 0.7310870847528879, -0.44833587653648105, 0.6450928106035041, 3.0, -0.46487148186279176, 0.5590985364541203, -0.45737161678194255, 0.46604681440600115, -0.4244876044706802, 0.3798157185566169, 3.0, -0.3916035921594178, 0.2935846227072325, -0.3333418267331299, 0.2144772847459765, -0.2562713742926988, 0.15556231864036696, 3.0, -0.1792009218522677, 0.09664735253475754, -0.08349746196599755, 0.058187541593946124, 0.01773363576553938, 0.04810243263917535, 3.0, 0.11896473349707631, 0.03801732368440458, 0.22542227384037944, 0.05643954510610172, 0.3211083415409182, 0.10309987842008506, 3.0, 0.41679440924145694, 0.1497602117340685, 0.5013706763538588, 0.224607321297409, 0.5608430655971883, 0.3185464497130771, 3.0, 0.6203154548405181, 0.4124855781287452, 0.6544155666665891, 0.5252837942363251, 0.6558058375060981, 0.6411848543526092, 3.0, 0.657196108345607, 0.7570859144688932, 0.6257700958891088, 0.8757368863316771, 0.5637293802549129, 0.9791987190933362, 3.0, 0.5016886646207169, 1.0826605518549952, 0.4091348399192787, 1.170565050600394, 0.2978602461609881, 1.2283121514011262, 3.0, 0.18658565240269753, 1.2860592522018586, 0.05688215122135176, 1.3133822995399327, -0.07286740486178317, 1.3038888185245914, 3.0, -0.20261696094491805, 1.2943953375092503, -0.3320103965524753, 1.2480122208766498, -0.44138173111123485, 1.1691690584119783, 3.0, -0.5507530656699944, 1.0903258959473068, -0.6397101649636485, 0.9791792877721992, -0.6933866687900339, 0.8503562517148038, 3.0, -0.7470631726164194, 0.7215332156574084, -0.7652017370888755, 0.5753854218885999, -0.7427168401054465, 0.43285778012172466, 3.0, -0.7202319431220174, 0.29033013835484955, -0.6570907138113273, 0.15187078254551856, -0.5602240103007914, 0.03862482202004991, 3.0, -0.4633573067902555, -0.07462113850541885, -0.3329808537023687, -0.16224409908060022, -0.18665661368875847, -0.20946780244622198, 3.0, -0.04033237367514825, -0.2566915058118442, 0.12152811787967682, -0.2632756145179822, 0.2755226111391539, -0.22579812850155734];

fn extra(_r: &mut Rng, _thorough: bool, o: &mut Out) {
    use std::sync::atomic::Ordering::Relaxed;
    {
        let res = law_fit_chain(&UNWRAP_WITNESS);
        let fails = matches!(&res, Some((c, _)) if c.starts_with("opt-panic-unwrap"));
        o.known("C18-opt-unwrap", fails, format!("fit_to_bezpath_opt on a 17-cubic G1 spiral chain of size 1.3 at accuracy 0.796 -> {}", res.map(|x| format!("{}: {}", x.0, x.1)).unwrap_or_else(|| "holds now".into())));
    }
    for (id, what, args) in KNOWN_WITNESSES.iter() {
        let res = law_fit_feature(args);
        o.known(id, res.is_some(), format!("{} -> {}", what, res.map(|x| format!("{}: {}", x.0, x.1)).unwrap_or_else(|| "holds now".into())));
    }
    o.notes.push(format!(
        "law inputs outside the property's domain (no verdict): fit_chain {} (non-smooth chain), offset {} (curvature bound) + {} (global interference); time-outs {}",
        SKIPS[0].load(Relaxed),
        SKIPS[1].load(Relaxed),
        SKIPS[2].load(Relaxed),
        TIMEOUTS.load(Relaxed)
    ));
}
