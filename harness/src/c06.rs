//! C06 — evaluation, sub-segments, subdivision, derivative, reversal, degree raising.
use crate::geom::*;
use crate::util::{Out, Rng};
use crate::{Law, Prop};
use kurbo::{CubicBez, Line, ParamCurve, ParamCurveArea, ParamCurveDeriv, PathSeg, Point, QuadBez};

pub fn prop() -> Prop {
    Prop { id: "C06", corr, laws, extra, law_budget: (400, 8000) }
}

fn gen_t(r: &mut Rng) -> f64 {
    match r.below(10) {
        0 => 0.0,
        1 => 1.0,
        2 => 0.5,
        3 => r.range_i(0, 8) as f64 / 8.0,
        // parameters very close to, but not at, the ends (a seeded change that snapped range ends within 1e-9 of 0 or 1
        // to the stored end points was missed when these were absent)
        4 => 2f64.powi(-(r.range_i(20, 60) as i32)),
        5 => 1.0 - 2f64.powi(-(r.range_i(20, 52) as i32)),
        _ => r.unit(),
    }
}

fn pv(p: Point) -> Vec<f64> {
    vec![p.x, p.y]
}

fn corr(r: &mut Rng, thorough: bool, o: &mut Out) {
    let n = if thorough { 6000 } else { 250 };
    for _ in 0..n {
        let s = gen_seg(r);
        let e = enc_seg(&s);
        let kind = match s {
            PathSeg::Line(_) => "line",
            PathSeg::Quad(_) => "quad",
            PathSeg::Cubic(_) => "cubic",
        };
        let t = gen_t(r);
        let (t0, t1) = (gen_t(r), gen_t(r));
        let with = |extra: &[f64]| -> Vec<f64> { e.iter().cloned().chain(extra.iter().cloned()).collect() };
        o.case(1, "eval", with(&[t]), pv(s.eval(t)), true, kind);
        o.case(2, "subsegment", with(&[t0, t1]), enc_seg(&s.subsegment(t0..t1)), t0 != t1, if t0 > t1 { "t0>t1" } else if t0 == t1 { "t0=t1" } else { "t0<t1" });
        let sub: Vec<f64> = match s {
            PathSeg::Line(l) => {
                let (a, b) = l.subdivide();
                enc_seg(&PathSeg::Line(a))[1..].iter().cloned().chain(enc_seg(&PathSeg::Line(b))[1..].iter().cloned()).collect()
            }
            PathSeg::Quad(q) => {
                let (a, b) = q.subdivide();
                enc_seg(&PathSeg::Quad(a))[1..].iter().cloned().chain(enc_seg(&PathSeg::Quad(b))[1..].iter().cloned()).collect()
            }
            PathSeg::Cubic(c) => {
                let (a, b) = c.subdivide();
                enc_seg(&PathSeg::Cubic(a))[1..].iter().cloned().chain(enc_seg(&PathSeg::Cubic(b))[1..].iter().cloned()).collect()
            }
        };
        o.case(3, "subdivide", e.clone(), sub, true, kind);
        let (a, b) = s.subdivide();
        o.case(4, "pathseg-subdivide", e.clone(), enc_seg(&a).into_iter().chain(enc_seg(&b)).collect(), true, kind);
        o.case(5, "pathseg-start-end", e.clone(), pv(s.start()).into_iter().chain(pv(s.end())).collect(), true, kind);
        let se = match s {
            PathSeg::Line(l) => (l.start(), l.end()),
            PathSeg::Quad(q) => (q.start(), q.end()),
            PathSeg::Cubic(c) => (c.start(), c.end()),
        };
        o.case(6, "start-end", e.clone(), pv(se.0).into_iter().chain(pv(se.1)).collect(), true, kind);
        let d: Vec<f64> = match s {
            PathSeg::Line(l) => pv(l.deriv().eval(0.3)),
            PathSeg::Quad(q) => enc_seg(&PathSeg::Line(q.deriv()))[1..].to_vec(),
            PathSeg::Cubic(c) => enc_seg(&PathSeg::Quad(c.deriv()))[1..].to_vec(),
        };
        o.case(7, "deriv", e.clone(), d, true, kind);
        o.case(8, "reverse", e.clone(), enc_seg(&s.reverse()), true, kind);
        o.case(9, "to_cubic", e.clone(), enc_seg(&PathSeg::Cubic(s.to_cubic()))[1..].to_vec(), true, kind);
        o.case(10, "signed_area", e.clone(), vec![s.signed_area()], true, kind);
        if let PathSeg::Quad(q) = s {
            o.case(11, "raise", e.clone(), enc_seg(&PathSeg::Cubic(q.raise()))[1..].to_vec(), true, kind);
        }
    }
}

// ------------------------------------------------------------------ laws on the implementation

fn g_seg(r: &mut Rng) -> Vec<f64> {
    enc_seg(&gen_seg(r))
}
fn g_seg_t(r: &mut Rng) -> Vec<f64> {
    let mut v = enc_seg(&gen_seg(r));
    v.push(gen_t(r));
    v.push(gen_t(r));
    v.push(gen_t(r));
    v
}
fn fail(class: &str, d: String) -> Option<(String, String)> {
    Some((class.to_string(), d))
}
fn scale_of(s: &PathSeg) -> f64 {
    let c = s.to_cubic();
    [c.p0, c.p1, c.p2, c.p3].iter().fold(1e-300f64, |m, p| m.max(p.x.abs()).max(p.y.abs()))
}
fn near(a: Point, b: Point, tol: f64) -> bool {
    (a.x - b.x).abs() <= tol && (a.y - b.y).abs() <= tol
}
fn kind(s: &PathSeg) -> &'static str {
    match s {
        PathSeg::Line(_) => "line",
        PathSeg::Quad(_) => "quad",
        PathSeg::Cubic(_) => "cubic",
    }
}

/// start/end accessors return the stored end points exactly; eval(0)/eval(1) agree with them
/// bit-for-bit for quadratics and cubics and to one unit of rounding for lines.
fn law_endpoints(a: &[f64]) -> Option<(String, String)> {
    let (s, _) = dec_seg(a);
    let (p0, p1) = match s {
        PathSeg::Line(l) => (l.p0, l.p1),
        PathSeg::Quad(q) => (q.p0, q.p2),
        PathSeg::Cubic(c) => (c.p0, c.p3),
    };
    let k = kind(&s);
    if s.start() != p0 || s.end() != p1 {
        return fail(&format!("pathseg-accessor:{}", k), format!("PathSeg::start/end of {:?} = {:?} / {:?}, stored {:?} / {:?}", s, s.start(), s.end(), p0, p1));
    }
    let (cs, ce) = match s {
        PathSeg::Line(l) => (l.start(), l.end()),
        PathSeg::Quad(q) => (q.start(), q.end()),
        PathSeg::Cubic(c) => (c.start(), c.end()),
    };
    if cs != p0 || ce != p1 {
        return fail(&format!("accessor:{}", k), format!("start/end of {:?}", s));
    }
    let (e0, e1) = (s.eval(0.0), s.eval(1.0));
    match s {
        PathSeg::Line(_) => {
            let ok = e0 == p0 && ulp_diff(e1.x, p1.x) <= 1 && ulp_diff(e1.y, p1.y) <= 1
                // cancellation: p0 + (p1 - p0) is within one ulp of the larger operand
                || (e0 == p0 && (e1.x - p1.x).abs() <= f64::EPSILON * p0.x.abs().max(p1.x.abs()) && (e1.y - p1.y).abs() <= f64::EPSILON * p0.y.abs().max(p1.y.abs()));
            if !ok {
                return fail("eval-endpoints:line", format!("{:?}: eval(0)={:?} eval(1)={:?}", s, e0, e1));
            }
        }
        _ => {
            if e0 != p0 || e1 != p1 {
                return fail(&format!("eval-endpoints:{}", k), format!("{:?}: eval(0)={:?} eval(1)={:?}", s, e0, e1));
            }
        }
    }
    None
}

/// sub-segment traces the same points; its stored end points are eval(t0), eval(t1); subdivision = halves
fn law_subsegment(a: &[f64]) -> Option<(String, String)> {
    let (s, rest) = dec_seg(a);
    let (t0, t1, u) = (rest[0], rest[1], rest[2]);
    let tol = 64.0 * f64::EPSILON * scale_of(&s);
    let sub = s.subsegment(t0..t1);
    let k = kind(&s);
    if sub.start() != s.eval(t0) || sub.end() != s.eval(t1) {
        // PathSeg accessors may be inexact for lines before the fix; compare stored points
        let (a0, a1) = match sub {
            PathSeg::Line(l) => (l.p0, l.p1),
            PathSeg::Quad(q) => (q.p0, q.p2),
            PathSeg::Cubic(c) => (c.p0, c.p3),
        };
        if a0 != s.eval(t0) || a1 != s.eval(t1) {
            return fail(&format!("subsegment-endpoints:{}", k), format!("{:?} [{},{}]", s, t0, t1));
        }
    }
    let want = s.eval(t0 + u * (t1 - t0));
    let got = sub.eval(u);
    if !near(want, got, tol) {
        return fail(&format!("subsegment-trace:{}", k), format!("{:?} [{},{}] at u={}: {:?} vs {:?}", s, t0, t1, u, got, want));
    }
    // subdivision equals the sub-segments at one half
    let (h0, h1) = s.subdivide();
    let (g0, g1) = (s.subsegment(0.0..0.5), s.subsegment(0.5..1.0));
    let (c0, c1) = match s {
        PathSeg::Line(l) => {
            let (x, y) = l.subdivide();
            (PathSeg::Line(x), PathSeg::Line(y))
        }
        PathSeg::Quad(q) => {
            let (x, y) = q.subdivide();
            (PathSeg::Quad(x), PathSeg::Quad(y))
        }
        PathSeg::Cubic(c) => {
            let (x, y) = c.subdivide();
            (PathSeg::Cubic(x), PathSeg::Cubic(y))
        }
    };
    for (x, y) in [(h0, g0), (h1, g1), (c0, g0), (c1, g1)] {
        let (cx, cy) = (x.to_cubic(), y.to_cubic());
        for (p, q) in [(cx.p0, cy.p0), (cx.p1, cy.p1), (cx.p2, cy.p2), (cx.p3, cy.p3)] {
            if !near(p, q, tol) {
                return fail(&format!("subdivide:{}", k), format!("{:?}: {:?} vs {:?}", s, x, y));
            }
        }
    }
    // the two halves join exactly and keep the outer end points
    let ends = |x: &PathSeg| match x {
        PathSeg::Line(l) => (l.p0, l.p1),
        PathSeg::Quad(q) => (q.p0, q.p2),
        PathSeg::Cubic(c) => (c.p0, c.p3),
    };
    if ends(&c0).1 != ends(&c1).0 {
        return fail(&format!("subdivide-join:{}", k), format!("{:?}", s));
    }
    None
}

/// derivative curve = derivative of evaluation (central difference), reversal, degree raising
fn law_deriv_reverse_raise(a: &[f64]) -> Option<(String, String)> {
    let (s, rest) = dec_seg(a);
    let t = rest[2];
    let sc = scale_of(&s);
    let k = kind(&s);
    let tol = 64.0 * f64::EPSILON * sc;
    // reversal
    let rv = s.reverse();
    if !near(rv.eval(t), s.eval(1.0 - t), tol) {
        return fail(&format!("reverse:{}", k), format!("{:?} at {}", s, t));
    }
    let st = |x: &PathSeg| match x {
        PathSeg::Line(l) => (l.p0, l.p1),
        PathSeg::Quad(q) => (q.p0, q.p2),
        PathSeg::Cubic(c) => (c.p0, c.p3),
    };
    if st(&rv).0 != st(&s).1 || st(&rv).1 != st(&s).0 || rv.reverse() != s {
        return fail(&format!("reverse-endpoints:{}", k), format!("{:?}", s));
    }
    // degree raising moves no point
    let c = s.to_cubic();
    let want = match s {
        PathSeg::Line(_) => s.eval(3.0 * t * t - 2.0 * t * t * t),
        _ => s.eval(t),
    };
    if !near(c.eval(t), want, tol) {
        return fail(&format!("to_cubic:{}", k), format!("{:?} at {}: {:?} vs {:?}", s, t, c.eval(t), want));
    }
    if c.p0 != st(&s).0 || c.p3 != st(&s).1 {
        return fail(&format!("to_cubic-endpoints:{}", k), format!("{:?}", s));
    }
    if let PathSeg::Quad(q) = s {
        if !near(q.raise().eval(t), q.eval(t), tol) {
            return fail("raise", format!("{:?} at {}", q, t));
        }
    }
    // derivative: exact polynomial derivative from control points, evaluated independently
    let d = match s {
        PathSeg::Line(l) => l.deriv().eval(t),
        PathSeg::Quad(q) => q.deriv().eval(t),
        PathSeg::Cubic(c) => c.deriv().eval(t),
    };
    let cc = s.to_cubic();
    let mt = 1.0 - t;
    let exact = |p0: f64, p1: f64, p2: f64, p3: f64| 3.0 * (mt * mt * (p1 - p0) + 2.0 * mt * t * (p2 - p1) + t * t * (p3 - p2));
    let want = match s {
        PathSeg::Line(l) => Point::new(l.p1.x - l.p0.x, l.p1.y - l.p0.y),
        PathSeg::Quad(q) => Point::new(2.0 * (mt * (q.p1.x - q.p0.x) + t * (q.p2.x - q.p1.x)), 2.0 * (mt * (q.p1.y - q.p0.y) + t * (q.p2.y - q.p1.y))),
        PathSeg::Cubic(_) => Point::new(exact(cc.p0.x, cc.p1.x, cc.p2.x, cc.p3.x), exact(cc.p0.y, cc.p1.y, cc.p2.y, cc.p3.y)),
    };
    if !near(d, want, 8.0 * tol) {
        return fail(&format!("deriv:{}", k), format!("{:?} at {}: {:?} vs {:?}", s, t, d, want));
    }
    None
}

fn laws() -> Vec<Law> {
    vec![
        Law { name: "endpoints", gen: g_seg, check: law_endpoints, weight: 3 },
        Law { name: "subsegment_subdivide", gen: g_seg_t, check: law_subsegment, weight: 3 },
        Law { name: "deriv_reverse_raise", gen: g_seg_t, check: law_deriv_reverse_raise, weight: 2 },
    ]
}

fn extra(_r: &mut Rng, _thorough: bool, _o: &mut Out) {
    let _ = (Line::new((0.0, 0.0), (1.0, 1.0)), QuadBez::new((0.0, 0.0), (1.0, 1.0), (2.0, 0.0)), CubicBez::new((0.0, 0.0), (1.0, 1.0), (2.0, 0.0), (3.0, 1.0)));
}
