//! C02 — signed area is the exact enclosed area.
//!
//! Correspondence: `Shape::area` of BezPath / `&[PathEl]` / `[PathEl; N]`, the terms `Segments::area`
//! adds up, per-segment `signed_area`, affine images of segments and paths (all exact operations).
//! Laws: agreement with two independent area integrals (exact rational integration of the Bernstein
//! products on integer control polygons; Gauss-Legendre quadrature of x y' - y x' on arbitrary ones),
//! reversal, determinant law on closed paths, split / raise / re-expression invariance, additivity
//! over sub-paths, the closing line, orientation.
use crate::geom::*;
use crate::util::{Out, Rng};
use crate::{Law, Prop};
use kurbo::{
    segments, Affine, BezPath, Circle, CubicBez, Line, ParamCurve, ParamCurveArea, PathEl, PathSeg, Point, QuadBez, Rect,
    Shape,
};

pub fn prop() -> Prop {
    Prop { id: "C02", corr, laws, extra, law_budget: (300, 6000) }
}

const EPS: f64 = f64::EPSILON;

// ------------------------------------------------------------------ generators

fn nz_grid(r: &mut Rng, kmax: i64, den: f64) -> f64 {
    loop {
        let k = r.range_i(-kmax, kmax);
        if k != 0 {
            return k as f64 / den;
        }
    }
}

/// a control point that is not on an axis
fn off_axis_point(r: &mut Rng, mode: u64) -> Point {
    match mode {
        0 => Point::new(nz_grid(r, 16, 2.0), nz_grid(r, 16, 2.0)),
        1 => Point::new(nz_grid(r, 1000, 1.0), nz_grid(r, 1000, 1.0)),
        2 => Point::new(r.generic(-3, 6), r.generic(-3, 6)),
        3 => Point::new(r.generic(-30, 30), r.generic(-30, 30)),
        _ => Point::new(r.uniform(-100.0, 100.0) + 0.125, r.uniform(-100.0, 100.0) + 0.125),
    }
}

/// segments whose control points all have non-zero coordinates (the crate's own tests keep p0 or p3 on an axis)
fn off_axis_seg(r: &mut Rng) -> PathSeg {
    let mode = r.below(5);
    let mut p = [Point::ZERO; 4];
    for q in p.iter_mut() {
        *q = off_axis_point(r, mode);
    }
    match r.below(3) {
        0 => PathSeg::Line(Line::new(p[0], p[1])),
        1 => PathSeg::Quad(QuadBez::new(p[0], p[1], p[2])),
        _ => PathSeg::Cubic(CubicBez::new(p[0], p[1], p[2], p[3])),
    }
}

fn path_point(r: &mut Rng, mode: u64) -> Point {
    match mode {
        0 => grid_point(r),
        1 => Point::new(r.grid(3, 1.0), r.grid(3, 1.0)),
        2 => off_axis_point(r, 2),
        3 => off_axis_point(r, 0),
        _ => gen_point(r),
    }
}

/// Random element list: several sub-paths, closed by ClosePath / by returning to the start / left open,
/// degenerate sub-paths (lone MoveTo, MoveTo ClosePath, zero-length segments), sub-paths continuing after a
/// ClosePath without MoveTo, a leading non-MoveTo element, and (if `allow_panic`) a leading ClosePath.
fn gen_els(r: &mut Rng, allow_panic: bool, must_close: bool) -> Vec<PathEl> {
    let mut els = Vec::new();
    let nsub = match r.below(8) {
        0 if !must_close && r.chance(1, 5) => 0,
        0 => 1,
        1..=3 => 1,
        4..=5 => 2,
        _ => 1 + r.below(4) as usize,
    };
    if allow_panic && r.chance(1, 25) {
        els.push(PathEl::ClosePath);
    }
    let mode = r.below(6);
    let mut start = Point::ZERO;
    let mut have_start = false;
    for k in 0..nsub {
        let nseg = match r.below(8) {
            0 => 0,
            1 => 1,
            _ => 1 + r.below(5) as usize,
        };
        // a later sub-path may start implicitly (no MoveTo): after a ClosePath it continues from the start point of the
        // sub-path just closed, also in the all-closed mode (seed C02g)
        let lead_move = if k == 0 { must_close || !r.chance(1, 8) } else { !(have_start && r.chance(1, 5)) };
        if lead_move {
            start = path_point(r, mode);
            els.push(PathEl::MoveTo(start));
            have_start = true;
        }
        let mut last = start;
        for i in 0..nseg {
            let mut end = path_point(r, mode);
            if r.chance(1, 10) {
                end = last; // zero-length / closed-loop segment
            }
            if i + 1 == nseg && r.chance(1, 4) {
                end = start; // returns to the start explicitly
            }
            match r.below(3) {
                0 => els.push(PathEl::LineTo(end)),
                1 => els.push(PathEl::QuadTo(path_point(r, mode), end)),
                _ => els.push(PathEl::CurveTo(path_point(r, mode), path_point(r, mode), end)),
            }
            if !have_start {
                // a leading drawing element acts as MoveTo(its end point)
                start = end;
                have_start = true;
            }
            last = end;
        }
        let close = must_close || !r.chance(1, 4);
        if close && have_start {
            els.push(PathEl::ClosePath);
            if !must_close && r.chance(1, 10) {
                els.push(PathEl::ClosePath);
            }
        }
    }
    els
}

fn bez(els: &[PathEl]) -> BezPath {
    // `extend` has no "must begin with MoveTo" debug assertion
    let mut bp = BezPath::new();
    bp.extend(els.iter().copied());
    bp
}

/// which branches of Segments::next the element list reaches
fn branch_tag(els: &[PathEl]) -> String {
    if matches!(els.first(), Some(PathEl::ClosePath)) {
        return "panic".into();
    }
    let mut st: Option<(Point, Point)> = None;
    let (mut line, mut nop, mut mv, mut lead, mut after_close, mut prev_close) = (false, false, false, false, false, false);
    for (i, e) in els.iter().enumerate() {
        if st.is_none() {
            let p = e.end_point().unwrap();
            st = Some((p, p));
            if !matches!(e, PathEl::MoveTo(_)) {
                lead = true;
            }
        }
        let (start, last) = st.as_mut().unwrap();
        match e {
            PathEl::MoveTo(p) => {
                if i > 0 {
                    mv = true;
                }
                *start = *p;
                *last = *p;
            }
            PathEl::ClosePath => {
                if *last != *start {
                    line = true;
                    *last = *start;
                } else {
                    nop = true;
                }
            }
            _ => {
                if prev_close {
                    after_close = true;
                }
                *last = e.end_point().unwrap();
            }
        }
        prev_close = matches!(e, PathEl::ClosePath);
    }
    let mut t = Vec::new();
    if els.is_empty() {
        t.push("empty");
    }
    if line {
        t.push("close-line");
    }
    if nop {
        t.push("close-nop");
    }
    if mv {
        t.push("multi");
    }
    if lead {
        t.push("lead-nonmove");
    }
    if after_close {
        t.push("draw-after-close");
    }
    if t.is_empty() {
        t.push("open");
    }
    t.join("+")
}

fn gen_affine(r: &mut Rng) -> Affine {
    let mode = r.below(5);
    let mut c = [0.0; 6];
    for (i, x) in c.iter_mut().enumerate() {
        *x = match mode {
            0 => r.grid(8, 4.0),
            1 => r.generic(-4, 4),
            2 if i >= 4 => r.generic(0, 12),
            3 if i >= 4 => 0.0,
            _ => r.coord(),
        };
    }
    Affine::new(c)
}

/// affine map with |det| in [1e-3, 1e3]
fn gen_affine_det(r: &mut Rng) -> Affine {
    loop {
        let a = gen_affine(r);
        let d = a.determinant().abs();
        if (1e-3..=1e3).contains(&d) {
            return a;
        }
    }
}

fn area_out(els: &[PathEl], f: impl Fn() -> f64 + std::panic::UnwindSafe) -> Vec<f64> {
    let _ = els;
    match std::panic::catch_unwind(f) {
        Ok(a) => vec![1.0, a],
        Err(_) => vec![0.0],
    }
}

macro_rules! array_area {
    ($els:expr, $($n:literal),*) => {
        match $els.len() {
            $($n => { let a: [PathEl; $n] = <[PathEl; $n]>::try_from(&$els[..]).unwrap(); Some(a.area()) })*
            _ => None,
        }
    };
}

// ------------------------------------------------------------------ correspondence

fn corr(r: &mut Rng, thorough: bool, o: &mut Out) {
    let n = if thorough { 12000 } else { 700 };
    for _ in 0..n {
        let els = gen_els(r, true, false);
        let e = enc_els(&els);
        let tag = branch_tag(&els);
        let nsegs = if tag == "panic" { 0 } else { segments(els.iter().copied()).count() };
        // BezPath
        let els1 = els.clone();
        let out = area_out(&els, move || bez(&els1).area());
        let nontrivial = out.len() == 1 || (nsegs >= 1 && out[1] != 0.0);
        o.case(1, "bezpath-area", e.clone(), out, nontrivial, &tag);
        // slice
        let els2 = els.clone();
        let out = area_out(&els, move || (&els2[..]).area());
        o.case(2, "slice-area", e.clone(), out, nontrivial, &tag);
        // array (lengths 1..=8 only)
        if (1..=8).contains(&els.len()) {
            let els3 = els.clone();
            let out = area_out(&els, move || array_area!(els3, 1, 2, 3, 4, 5, 6, 7, 8).unwrap());
            o.case(3, "array-area", e.clone(), out, nontrivial, &tag);
        }
        // the terms of the sum, from the public segments() iterator
        let els4 = els.clone();
        let terms = std::panic::catch_unwind(move || segments(els4.iter().copied()).map(|s| s.signed_area()).collect::<Vec<f64>>());
        let out = match terms {
            Ok(ts) => std::iter::once(ts.len() as f64).chain(ts).collect(),
            Err(_) => vec![-1.0],
        };
        o.case(4, "area-terms", e.clone(), out, nsegs >= 1, &tag);
    }
    // per segment, structured inputs off the axes and the shared structured generator
    let n = if thorough { 20000 } else { 1200 };
    for i in 0..n {
        let s = if i % 4 == 3 { gen_seg(r) } else { off_axis_seg(r) };
        let e = enc_seg(&s);
        let (conc, shape0, kind) = match s {
            PathSeg::Line(l) => (l.signed_area(), l.area(), "line"),
            PathSeg::Quad(q) => (q.signed_area(), q.area(), "quad"),
            PathSeg::Cubic(c) => (c.signed_area(), c.area(), "cubic"),
        };
        o.case(5, "seg-area", e.clone(), vec![conc, s.signed_area(), s.area(), shape0], conc != 0.0, kind);
        if i % 3 == 0 {
            let a = gen_affine(r);
            let img = a * s;
            let mut args = a.as_coeffs().to_vec();
            args.extend(e.iter());
            let mut out = enc_seg(&img);
            out.push(img.signed_area());
            o.case(6, "affine-seg", args, out, a.determinant() != 0.0, kind);
        }
    }
    let n = if thorough { 5000 } else { 300 };
    for _ in 0..n {
        let els = gen_els(r, true, false);
        let a = gen_affine(r);
        let tag = branch_tag(&els);
        let mut args = a.as_coeffs().to_vec();
        args.extend(enc_els(&els));
        let img = a * bez(&els);
        o.case(7, "affine-path", args.clone(), enc_els(img.elements()), !els.is_empty(), &tag);
        let img2 = img.clone();
        let mut out = vec![a.determinant()];
        out.extend(area_out(&els, move || img2.area()));
        let nt = out.len() == 2 || out[2] != 0.0;
        o.case(8, "affine-path-area", args, out, nt, &tag);
    }
}

// ------------------------------------------------------------------ independent oracles

fn gcd(a: i128, b: i128) -> i128 {
    if b == 0 {
        a.abs()
    } else {
        gcd(b, a % b)
    }
}
#[derive(Clone, Copy, Debug)]
struct Q(i128, i128);
impl Q {
    fn new(n: i128, d: i128) -> Q {
        let g = gcd(n, d).max(1);
        let s = if d < 0 { -1 } else { 1 };
        Q(s * n / g, s * d / g)
    }
    fn add(self, o: Q) -> Q {
        Q::new(self.0 * o.1 + o.0 * self.1, self.1 * o.1)
    }
    fn sub(self, o: Q) -> Q {
        self.add(Q::new(-o.0, o.1))
    }
    fn mul(self, o: Q) -> Q {
        Q::new(self.0 * o.0, self.1 * o.1)
    }
}
fn fact(n: i128) -> i128 {
    (1..=n).product()
}
fn binom(n: i128, k: i128) -> i128 {
    if k < 0 || k > n {
        0
    } else {
        fact(n) / (fact(k) * fact(n - k))
    }
}
/// ∫_0^1 B_i^n(t) B_j^m(t) dt = C(n,i) C(m,j) i+j! (n+m-i-j)! / (n+m+1)!   (Beta integral)
fn bern_int(i: i128, n: i128, j: i128, m: i128) -> Q {
    if i < 0 || i > n || j < 0 || j > m {
        return Q(0, 1);
    }
    Q::new(binom(n, i) * binom(m, j) * fact(i + j) * fact(n + m - i - j), fact(n + m + 1))
}
/// ∫_0^1 B_i^n (B_j^n)' dt, with (B_j^n)' = n (B_{j-1}^{n-1} - B_j^{n-1})
fn bern_dint(i: i128, j: i128, n: i128) -> Q {
    Q(n, 1).mul(bern_int(i, n, j - 1, n - 1).sub(bern_int(i, n, j, n - 1)))
}
/// exact 2*area = ∫ x y' - y x' for integer control points: Σ_ij x_i y_j (D_ij - D_ji)
fn exact_twice_area(xs: &[i128], ys: &[i128]) -> Q {
    let n = xs.len() as i128 - 1;
    let mut tot = Q(0, 1);
    for i in 0..=n {
        for j in 0..=n {
            let m = bern_dint(i, j, n).sub(bern_dint(j, i, n));
            tot = tot.add(m.mul(Q(xs[i as usize] * ys[j as usize], 1)));
        }
    }
    tot
}

fn ctrl(s: &PathSeg) -> Vec<Point> {
    match s {
        PathSeg::Line(l) => vec![l.p0, l.p1],
        PathSeg::Quad(q) => vec![q.p0, q.p1, q.p2],
        PathSeg::Cubic(c) => vec![c.p0, c.p1, c.p2, c.p3],
    }
}

/// de Casteljau: point and derivative at t, written independently of the crate
fn casteljau(p: &[Point], t: f64) -> ((f64, f64), (f64, f64)) {
    let n = p.len() - 1;
    let mut x: Vec<f64> = p.iter().map(|q| q.x).collect();
    let mut y: Vec<f64> = p.iter().map(|q| q.y).collect();
    let mut d = (0.0, 0.0);
    for lvl in 0..n {
        if lvl + 1 == n {
            d = (n as f64 * (x[1] - x[0]), n as f64 * (y[1] - y[0]));
        }
        for i in 0..(n - lvl) {
            x[i] = (1.0 - t) * x[i] + t * x[i + 1];
            y[i] = (1.0 - t) * y[i] + t * y[i + 1];
        }
    }
    ((x[0], y[0]), d)
}

/// 1/2 ∫_0^1 (x y' - y x') dt by 5-point Gauss-Legendre (exact for degree <= 9; the integrand has degree <= 5)
fn quad_area(p: &[Point]) -> f64 {
    const X: [f64; 5] = [0.0, 0.538_469_310_105_683_1, -0.538_469_310_105_683_1, 0.906_179_845_938_664, -0.906_179_845_938_664];
    const W: [f64; 5] = [0.568_888_888_888_888_9, 0.478_628_670_499_366_47, 0.478_628_670_499_366_47, 0.236_926_885_056_189_08, 0.236_926_885_056_189_08];
    let mut s = 0.0;
    for k in 0..5 {
        let t = 0.5 + 0.5 * X[k];
        let ((x, y), (dx, dy)) = casteljau(p, t);
        s += W[k] * (x * dy - y * dx);
    }
    0.25 * s
}

/// magnitude of the monomials of a segment's area polynomial
fn seg_mag(p: &[Point]) -> f64 {
    let mx = p.iter().fold(0.0f64, |m, q| m.max(q.x.abs()));
    let my = p.iter().fold(0.0f64, |m, q| m.max(q.y.abs()));
    mx * my
}

/// independent element -> segment iteration: every ClosePath contributes the line back to the start
fn my_segments(els: &[PathEl]) -> Vec<Vec<Point>> {
    let mut out = Vec::new();
    let mut st: Option<(Point, Point)> = None;
    for e in els {
        let endp = match e {
            PathEl::MoveTo(p) | PathEl::LineTo(p) => Some(*p),
            PathEl::QuadTo(_, p) => Some(*p),
            PathEl::CurveTo(_, _, p) => Some(*p),
            PathEl::ClosePath => None,
        };
        if st.is_none() {
            let p = endp.expect("leading ClosePath");
            st = Some((p, p));
        }
        let (start, last) = st.unwrap();
        match e {
            PathEl::MoveTo(p) => st = Some((*p, *p)),
            PathEl::LineTo(p) => {
                out.push(vec![last, *p]);
                st = Some((start, *p));
            }
            PathEl::QuadTo(a, p) => {
                out.push(vec![last, *a, *p]);
                st = Some((start, *p));
            }
            PathEl::CurveTo(a, b, p) => {
                out.push(vec![last, *a, *b, *p]);
                st = Some((start, *p));
            }
            PathEl::ClosePath => {
                out.push(vec![last, start]);
                st = Some((start, start));
            }
        }
    }
    out
}

fn path_oracle(els: &[PathEl]) -> (f64, f64, usize) {
    let segs = my_segments(els);
    let mut a = 0.0;
    let mut mag = 0.0;
    for s in &segs {
        a += quad_area(s);
        mag += seg_mag(s);
    }
    (a, mag, segs.len())
}

/// magnitude of the monomials of the image of a path under `a`, before any cancellation in a*x + c*y + e
fn path_mag_aff(a: &[f64], els: &[PathEl]) -> f64 {
    my_segments(els).iter().map(|s| seg_mag_aff(a, s)).sum()
}
fn seg_mag_aff(a: &[f64], p: &[Point]) -> f64 {
    let mx = p.iter().fold(0.0f64, |m, q| m.max((a[0] * q.x).abs() + (a[2] * q.y).abs() + a[4].abs()));
    let my = p.iter().fold(0.0f64, |m, q| m.max((a[1] * q.x).abs() + (a[3] * q.y).abs() + a[5].abs()));
    mx * my
}

fn path_mag(els: &[PathEl]) -> (f64, usize) {
    let (_, m, n) = path_oracle(els);
    (m, n)
}

fn fail(class: &str, d: String) -> Option<(String, String)> {
    Some((class.to_string(), d))
}
fn kind(s: &PathSeg) -> &'static str {
    match s {
        PathSeg::Line(_) => "line",
        PathSeg::Quad(_) => "quad",
        PathSeg::Cubic(_) => "cubic",
    }
}
fn mk_seg(p: &[Point]) -> PathSeg {
    match p.len() {
        2 => PathSeg::Line(Line::new(p[0], p[1])),
        3 => PathSeg::Quad(QuadBez::new(p[0], p[1], p[2])),
        _ => PathSeg::Cubic(CubicBez::new(p[0], p[1], p[2], p[3])),
    }
}
fn conc_area(s: &PathSeg) -> f64 {
    match s {
        PathSeg::Line(l) => l.signed_area(),
        PathSeg::Quad(q) => q.signed_area(),
        PathSeg::Cubic(c) => c.signed_area(),
    }
}

// ------------------------------------------------------------------ laws

/// integer control points (scaled by a power of two): every operation of the closed form is exact up to
/// the final multiplication by 1/6 or 1/20, so the result is within 2 ulp of the exact rational area
fn g_int_seg(r: &mut Rng) -> Vec<f64> {
    let n = 2 + r.below(3) as usize;
    let kmax = *r.pick(&[3i64, 10, 100, 1000]);
    let sc = 2f64.powi(-(r.below(4) as i32));
    let mut v = vec![(n - 1) as f64];
    for _ in 0..n {
        v.push(r.range_i(-kmax, kmax) as f64 * sc);
        v.push(r.range_i(-kmax, kmax) as f64 * sc);
    }
    v.push(sc);
    v
}
fn law_green_exact(a: &[f64]) -> Option<(String, String)> {
    let (s, rest) = dec_seg(a);
    let sc = rest[0];
    let p = ctrl(&s);
    let xs: Vec<i128> = p.iter().map(|q| (q.x / sc) as i128).collect();
    let ys: Vec<i128> = p.iter().map(|q| (q.y / sc) as i128).collect();
    let q = exact_twice_area(&xs, &ys);
    let want = (q.0 as f64) / (2.0 * q.1 as f64) * sc * sc;
    for (name, got) in [("concrete", conc_area(&s)), ("pathseg", s.signed_area())] {
        if ulp_diff(got, want) > 3 {
            return fail(
                &format!("green-exact:{}", kind(&s)),
                format!("{} signed_area of {:?} = {:e}, exact integral of (x y' - y x')/2 is {}/{} * {} = {:e}", name, s, got, q.0, 2 * q.1, sc * sc, want),
            );
        }
    }
    None
}

fn g_any_seg(r: &mut Rng) -> Vec<f64> {
    let s = if r.chance(1, 3) { gen_seg(r) } else { off_axis_seg(r) };
    let mut v = enc_seg(&s);
    v.push(match r.below(6) {
        0 => 0.5,
        1 => r.range_i(1, 7) as f64 / 8.0,
        _ => r.uniform(1e-6, 1.0 - 1e-6),
    });
    v
}
fn law_green_quadrature(a: &[f64]) -> Option<(String, String)> {
    let (s, _) = dec_seg(a);
    let p = ctrl(&s);
    let want = quad_area(&p);
    let tol = 64.0 * EPS * seg_mag(&p);
    for (name, got) in [("concrete", conc_area(&s)), ("pathseg", s.signed_area()), ("shape", s.area())] {
        if !((got - want).abs() <= tol) {
            return fail(
                &format!("green-quadrature:{}", kind(&s)),
                format!("{} area of {:?} = {:e}, Gauss-Legendre integral of (x y' - y x')/2 = {:e} (tol {:e})", name, s, got, want, tol),
            );
        }
    }
    None
}

fn g_path(r: &mut Rng) -> Vec<f64> {
    enc_els(&gen_els(r, false, false))
}
fn g_closed_path(r: &mut Rng) -> Vec<f64> {
    enc_els(&gen_els(r, false, true))
}
/// path area against the independent element iteration + quadrature (every ClosePath adds the closing line)
fn law_path_green(a: &[f64]) -> Option<(String, String)> {
    let els = dec_els(a);
    let (want, mag, n) = path_oracle(&els);
    let tol = (64.0 + 4.0 * n as f64) * EPS * mag;
    let bp = bez(&els);
    let arr = array_area!(els, 1, 2, 3, 4, 5, 6, 7, 8).unwrap_or(want);
    for (name, got) in [("BezPath", bp.area()), ("slice", (&els[..]).area()), ("array", arr)] {
        if !((got - want).abs() <= tol) {
            return fail(
                &format!("path-green:{}", branch_tag(&els).split('+').next().unwrap_or("")),
                format!("{}::area of {:?} = {:e}, sum of independent segment integrals incl. closing lines = {:e} (tol {:e})", name, els, got, want, tol),
            );
        }
    }
    None
}

fn law_reverse(a: &[f64]) -> Option<(String, String)> {
    let (s, _) = dec_seg(a);
    let p = ctrl(&s);
    let tol = 64.0 * EPS * seg_mag(&p);
    let (f, b) = (s.signed_area(), s.reverse().signed_area());
    if !((f + b).abs() <= tol) {
        return fail(&format!("reverse:{}", kind(&s)), format!("{:?}: area {:e}, reversed {:e}", s, f, b));
    }
    None
}
fn law_reverse_path(a: &[f64]) -> Option<(String, String)> {
    let els = dec_els(a);
    let bp = bez(&els);
    let (mag, n) = path_mag(&els);
    let tol = (128.0 + 8.0 * n as f64) * EPS * mag;
    let rv = bp.reverse_subpaths();
    let (f, b) = (bp.area(), rv.area());
    if !((f + b).abs() <= tol) {
        return fail("reverse-path", format!("{:?}: area {:e}; reverse_subpaths {:?}: area {:e}", els, f, rv.elements(), b));
    }
    None
}

/// the area of a path is also the sum over the indexed view: `get_seg(ix)` for every element index yields exactly the
/// segments `Shape::area` integrates (closing lines included, nothing for a ClosePath on a degenerate sub-path; seed C02h)
fn law_get_seg_sum(a: &[f64]) -> Option<(String, String)> {
    let els = dec_els(a);
    let bp = bez(&els);
    let (mag, n) = path_mag(&els);
    let tol = (128.0 + 8.0 * n as f64) * EPS * mag;
    let want = bp.area();
    let got: f64 = (1..=els.len()).filter_map(|ix| bp.get_seg(ix)).map(|s| s.signed_area()).sum();
    if !((got - want).abs() <= tol) {
        return fail("get-seg-sum", format!("{:?}: area {:e}, sum of signed_area over get_seg(1..={}) {:e} (tol {:e})", els, want, els.len(), got, tol));
    }
    None
}
fn g_affine_closed(r: &mut Rng) -> Vec<f64> {
    let a = gen_affine_det(r);
    let mut v = a.as_coeffs().to_vec();
    v.extend(enc_els(&gen_els(r, false, true)));
    v
}
/// closed paths: area(A * path) = det(A) * area(path), |det| in [1e-3, 1e3]
fn law_affine_det(a: &[f64]) -> Option<(String, String)> {
    let aff = Affine::new([a[0], a[1], a[2], a[3], a[4], a[5]]);
    let els = dec_els(&a[6..]);
    let det = aff.determinant();
    // the exact determinant may differ from the rounded one by cancellation: scale its error too
    let det_err = 4.0 * EPS * ((a[0] * a[3]).abs() + (a[1] * a[2]).abs());
    let bp = bez(&els);
    let img = aff * &bp;
    let (mag0, n) = path_mag(&els);
    let mag1 = path_mag_aff(a, &els);
    // rounding of the mapped control points feeds into every monomial of the image
    let (a0, a1) = (bp.area(), img.area());
    let tol = (256.0 + 16.0 * n as f64) * EPS * (mag1 + det.abs() * mag0) + det_err * (a0.abs() + (64.0 + 4.0 * n as f64) * EPS * mag0);
    if !((a1 - det * a0).abs() <= tol) {
        return fail("affine-det:path", format!("A={:?} det={:e}; path {:?} area {:e}; image area {:e}, expected {:e} (tol {:e})", aff, det, els, a0, a1, det * a0, tol));
    }
    None
}
fn g_linear_seg(r: &mut Rng) -> Vec<f64> {
    let mut a = gen_affine_det(r).as_coeffs();
    a[4] = 0.0;
    a[5] = 0.0;
    let mut v = a.to_vec();
    v.extend(enc_seg(&if r.bool() { off_axis_seg(r) } else { gen_seg(r) }));
    v
}
/// a single (open) segment under a linear map (no translation)
fn law_linear_det_seg(a: &[f64]) -> Option<(String, String)> {
    let aff = Affine::new([a[0], a[1], a[2], a[3], a[4], a[5]]);
    let (s, _) = dec_seg(&a[6..]);
    let det = aff.determinant();
    let det_err = 4.0 * EPS * ((a[0] * a[3]).abs() + (a[1] * a[2]).abs());
    let img = aff * s;
    let (m0, m1) = (seg_mag(&ctrl(&s)), seg_mag_aff(a, &ctrl(&s)));
    let (a0, a1) = (s.signed_area(), img.signed_area());
    let tol = 256.0 * EPS * (m1 + det.abs() * m0) + det_err * (a0.abs() + 64.0 * EPS * m0);
    if !((a1 - det * a0).abs() <= tol) {
        return fail(&format!("affine-det:{}", kind(&s)), format!("A={:?} det={:e}; {:?} area {:e}; image area {:e}, expected {:e}", aff, det, s, a0, a1, det * a0));
    }
    None
}

/// split at t in (0,1), subdivide, degree raising, to_cubic, line as quadratic / cubic
fn law_split_raise(a: &[f64]) -> Option<(String, String)> {
    let (s, rest) = dec_seg(a);
    let t = rest[0];
    let p = ctrl(&s);
    let k = kind(&s);
    let whole = s.signed_area();
    // the sub-segments' control points are combinations of the originals with weights in [0,1]
    let m = {
        let mx = p.iter().fold(0.0f64, |m, q| m.max(q.x.abs()));
        let my = p.iter().fold(0.0f64, |m, q| m.max(q.y.abs()));
        mx * my
    };
    let tol = 512.0 * EPS * m;
    let (l, r) = (s.subsegment(0.0..t), s.subsegment(t..1.0));
    let sum = l.signed_area() + r.signed_area();
    if !((sum - whole).abs() <= tol) {
        return fail(&format!("split:{}", k), format!("{:?} at t={}: {:e} + {:e} = {:e}, whole {:e}", s, t, l.signed_area(), r.signed_area(), sum, whole));
    }
    let (h0, h1) = match s {
        PathSeg::Line(x) => {
            let (a, b) = x.subdivide();
            (a.signed_area(), b.signed_area())
        }
        PathSeg::Quad(x) => {
            let (a, b) = x.subdivide();
            (a.signed_area(), b.signed_area())
        }
        PathSeg::Cubic(x) => {
            let (a, b) = x.subdivide();
            (a.signed_area(), b.signed_area())
        }
    };
    if !((h0 + h1 - whole).abs() <= tol) {
        return fail(&format!("subdivide:{}", k), format!("{:?}: {:e} + {:e}, whole {:e}", s, h0, h1, whole));
    }
    let c = s.to_cubic().signed_area();
    if !((c - whole).abs() <= tol) {
        return fail(&format!("to_cubic:{}", k), format!("{:?}: as cubic {:e}, whole {:e}", s, c, whole));
    }
    match s {
        PathSeg::Quad(q) => {
            let c = q.raise().signed_area();
            if !((c - whole).abs() <= tol) {
                return fail("raise", format!("{:?}: raised {:e}, quadratic {:e}", q, c, whole));
            }
        }
        PathSeg::Line(l) => {
            let q = QuadBez::new(l.p0, l.p0.midpoint(l.p1), l.p1).signed_area();
            let c = CubicBez::new(l.p0, l.p0.lerp(l.p1, 1.0 / 3.0), l.p0.lerp(l.p1, 2.0 / 3.0), l.p1).signed_area();
            if !((q - whole).abs() <= tol) || !((c - whole).abs() <= tol) {
                return fail("line-as-curve", format!("{:?}: as quadratic {:e}, as cubic {:e}, line {:e}", l, q, c, whole));
            }
        }
        _ => {}
    }
    None
}

fn g_two_paths(r: &mut Rng) -> Vec<f64> {
    // two paths, the second one starting with MoveTo; separated by the marker 9.0
    let p1 = gen_els(r, false, false);
    let mut p2 = gen_els(r, false, false);
    if !matches!(p2.first(), Some(PathEl::MoveTo(_)) | None) {
        p2.insert(0, PathEl::MoveTo(gen_point(r)));
    }
    let mut v = vec![p1.len() as f64];
    v.extend(enc_els(&p1));
    v.extend(enc_els(&p2));
    v
}
/// additive over sub-paths: area(p1 ++ p2) = area(p1) + area(p2); area = sum over the sub-paths split at MoveTo
fn law_additive(a: &[f64]) -> Option<(String, String)> {
    let n1 = a[0] as usize;
    let all = dec_els(&a[1..]);
    let (p1, p2) = all.split_at(n1.min(all.len()));
    let (mag, n) = path_mag(&all);
    let tol = (64.0 + 8.0 * n as f64) * EPS * mag;
    let (a1, a2, a12) = (bez(p1).area(), bez(p2).area(), bez(&all).area());
    if !((a12 - (a1 + a2)).abs() <= tol) {
        return fail("additive:concat", format!("{:?} area {:e} ++ {:?} area {:e}: area {:e}", p1, a1, p2, a2, a12));
    }
    // split at every MoveTo
    let mut sum = 0.0;
    let mut cur: Vec<PathEl> = Vec::new();
    for e in &all {
        if matches!(e, PathEl::MoveTo(_)) && !cur.is_empty() {
            sum += (&cur[..]).area();
            cur.clear();
        }
        cur.push(*e);
    }
    if !cur.is_empty() {
        sum += (&cur[..]).area();
    }
    if !((a12 - sum).abs() <= tol) {
        return fail("additive:subpaths", format!("{:?}: area {:e}, sum over sub-paths {:e}", all, a12, sum));
    }
    None
}

fn g_open_subpath(r: &mut Rng) -> Vec<f64> {
    // one sub-path MoveTo + drawing elements, no ClosePath
    let mode = r.below(6);
    let start = path_point(r, mode);
    let mut els = vec![PathEl::MoveTo(start)];
    let n = 1 + r.below(5);
    for i in 0..n {
        let end = if i + 1 == n && r.chance(1, 4) { start } else { path_point(r, mode) };
        match r.below(3) {
            0 => els.push(PathEl::LineTo(end)),
            1 => els.push(PathEl::QuadTo(path_point(r, mode), end)),
            _ => els.push(PathEl::CurveTo(path_point(r, mode), path_point(r, mode), end)),
        }
    }
    enc_els(&els)
}
/// ClosePath contributes exactly the line from the current point to the sub-path start (nothing if they coincide)
fn law_closepath(a: &[f64]) -> Option<(String, String)> {
    let open = dec_els(a);
    let start = match open[0] {
        PathEl::MoveTo(p) => p,
        _ => return None,
    };
    let last = open.last().unwrap().end_point().unwrap();
    let (mag, n) = path_mag(&open);
    let tol = (64.0 + 8.0 * n as f64) * EPS * (mag + last.x.abs().max(start.x.abs()) * last.y.abs().max(start.y.abs()));
    let a_open = bez(&open).area();
    let mut closed = open.clone();
    closed.push(PathEl::ClosePath);
    let a_closed = bez(&closed).area();
    let closing = Line::new(last, start).signed_area();
    let want = 0.5 * (last.x * start.y - last.y * start.x);
    if !((closing - want).abs() <= 4.0 * EPS * (last.x * start.y).abs().max((last.y * start.x).abs())) {
        return fail("closepath:line-area", format!("Line({:?},{:?}).signed_area() = {:e}, cross/2 = {:e}", last, start, closing, want));
    }
    // a zero-length line contributes exactly zero, also in floating point (x*y - y*x with equal roundings)
    for p in [last, start] {
        if Line::new(p, p).signed_area() != 0.0 {
            return fail("closepath:zero-length-line", format!("Line({:?},{:?}).signed_area() = {:e}", p, p, Line::new(p, p).signed_area()));
        }
    }
    if !((a_closed - (a_open + want)).abs() <= tol) {
        return fail(
            if last != start { "closepath:closing-line" } else { "closepath:zero-length" },
            format!("{:?}: open area {:e}, closed area {:e}, closing line {:e}", open, a_open, a_closed, want),
        );
    }
    // an explicit LineTo(start) before ClosePath, and a doubled ClosePath, change nothing
    let mut explicit = open.clone();
    explicit.push(PathEl::LineTo(start));
    explicit.push(PathEl::ClosePath);
    let mut doubled = closed.clone();
    doubled.push(PathEl::ClosePath);
    for (nm, p) in [("explicit", &explicit), ("doubled", &doubled)] {
        let x = bez(p).area();
        if !((x - a_closed).abs() <= tol) {
            return fail(&format!("closepath:{}", nm), format!("{:?}: area {:e}, with plain ClosePath {:e}", p, x, a_closed));
        }
    }
    // a drawing element after ClosePath starts at the sub-path start
    let mut cont = closed.clone();
    let q = Point::new(start.x + 1.0, start.y - 2.0);
    cont.push(PathEl::LineTo(q));
    cont.push(PathEl::ClosePath);
    let x = bez(&cont).area();
    if !((x - a_closed).abs() <= tol + 64.0 * EPS * (start.x.abs() + 2.0) * (start.y.abs() + 2.0)) {
        return fail("closepath:continue", format!("{:?}: area {:e}, expected {:e} (the extra sub-path start->q->start encloses nothing)", cont, x, a_closed));
    }
    None
}

fn g_polygon(r: &mut Rng) -> Vec<f64> {
    // star-shaped polygon around a centre, vertices by increasing angle (counter-clockwise in kurbo's axes: +x towards +y)
    let n = 3 + r.below(6) as usize;
    let c = Point::new(r.uniform(-50.0, 50.0), r.uniform(-50.0, 50.0));
    let mut ang: Vec<f64> = (0..n).map(|_| r.uniform(0.0, std::f64::consts::TAU)).collect();
    ang.sort_by(|a, b| a.partial_cmp(b).unwrap());
    let mut v = vec![if r.bool() { 1.0 } else { -1.0 }];
    for th in ang {
        let rad = r.uniform(0.5, 20.0);
        v.push(c.x + rad * th.cos());
        v.push(c.y + rad * th.sin());
    }
    v
}
/// orientation: vertices in the +x -> +y turning order enclose positive area = shoelace; reversed order negative
fn law_orientation(a: &[f64]) -> Option<(String, String)> {
    let dir = a[0];
    let mut pts: Vec<Point> = a[1..].chunks(2).map(|c| Point::new(c[0], c[1])).collect();
    let n = pts.len();
    let mut shoelace = 0.0;
    let mut mag = 0.0;
    for i in 0..n {
        let (p, q) = (pts[i], pts[(i + 1) % n]);
        shoelace += 0.5 * (p.x * q.y - q.x * p.y);
        mag += (p.x * q.y).abs() + (q.x * p.y).abs();
    }
    if dir < 0.0 {
        pts.reverse();
        shoelace = -shoelace;
    }
    let mut els = vec![PathEl::MoveTo(pts[0])];
    for p in &pts[1..] {
        els.push(PathEl::LineTo(*p));
    }
    els.push(PathEl::ClosePath);
    let got = bez(&els).area();
    let tol = 16.0 * n as f64 * EPS * mag;
    if !((got - shoelace).abs() <= tol) {
        return fail("orientation:shoelace", format!("{:?}: area {:e}, shoelace {:e}", els, got, shoelace));
    }
    // sign: whenever the shoelace value is clearly non-zero the sign must agree
    if shoelace.abs() > 4.0 * tol && (got > 0.0) != (shoelace > 0.0) {
        return fail("orientation:sign", format!("{:?}: area {:e}, shoelace {:e}", els, got, shoelace));
    }
    None
}

fn g_rect_circle(r: &mut Rng) -> Vec<f64> {
    vec![r.uniform(-50.0, 50.0), r.uniform(-50.0, 50.0), r.uniform(0.1, 30.0), r.uniform(0.1, 30.0)]
}
/// shapes drawn in the +x -> +y direction: positive areas, w*h and pi r^2
fn law_shapes(a: &[f64]) -> Option<(String, String)> {
    let rect = Rect::new(a[0], a[1], a[0] + a[2], a[1] + a[3]);
    let got = rect.to_path(0.1).area();
    let want = a[2] * a[3];
    let m = (a[0].abs() + a[2]) * (a[1].abs() + a[3]);
    if !((got - want).abs() <= 64.0 * EPS * m) || !(got > 0.0) {
        return fail("orientation:rect", format!("{:?}.to_path().area() = {:e}, w*h = {:e}", rect, got, want));
    }
    let circ = Circle::new((a[0], a[1]), a[2]);
    let got = circ.to_path(1e-9).area();
    let want = std::f64::consts::PI * a[2] * a[2];
    if !((got - want).abs() <= 1e-6 * want + 256.0 * EPS * m * 16.0) || !(got > 0.0) {
        return fail("orientation:circle", format!("{:?}.to_path(1e-9).area() = {:e}, pi r^2 = {:e}", circ, got, want));
    }
    None
}

fn laws() -> Vec<Law> {
    vec![
        Law { name: "green_exact", gen: g_int_seg, check: law_green_exact, weight: 4 },
        Law { name: "green_quadrature", gen: g_any_seg, check: law_green_quadrature, weight: 4 },
        Law { name: "path_green", gen: g_path, check: law_path_green, weight: 3 },
        Law { name: "reverse", gen: g_any_seg, check: law_reverse, weight: 2 },
        Law { name: "reverse_path", gen: g_closed_path, check: law_reverse_path, weight: 2 },
        Law { name: "get_seg_sum", gen: g_closed_path, check: law_get_seg_sum, weight: 1 },
        Law { name: "affine_det", gen: g_affine_closed, check: law_affine_det, weight: 3 },
        Law { name: "linear_det_seg", gen: g_linear_seg, check: law_linear_det_seg, weight: 2 },
        Law { name: "split_raise", gen: g_any_seg, check: law_split_raise, weight: 3 },
        Law { name: "additive", gen: g_two_paths, check: law_additive, weight: 2 },
        Law { name: "closepath", gen: g_open_subpath, check: law_closepath, weight: 2 },
        Law { name: "orientation", gen: g_polygon, check: law_orientation, weight: 1 },
        Law { name: "shapes", gen: g_rect_circle, check: law_shapes, weight: 1 },
    ]
}

// ------------------------------------------------------------------ extra: every coefficient of the closed forms

/// For each pair (i, j) the control polygon with x_i = 1, y_j = 1 and all other coordinates 0 isolates one
/// monomial of the closed form; its exact value is the Bernstein integral (D_ij - D_ji)/2.
fn extra(_r: &mut Rng, _thorough: bool, o: &mut Out) {
    for n in 1..=3usize {
        for i in 0..=n {
            for j in 0..=n {
                for (sx, sy) in [(1.0, 1.0), (-2.0, 3.0)] {
                    let mut p = vec![Point::ZERO; n + 1];
                    p[i].x = sx;
                    p[j].y = sy;
                    let s = mk_seg(&p);
                    let mut args = enc_seg(&s);
                    args.push(1.0);
                    o.oracle_eval("monomials");
                    if let Some((class, desc)) = law_green_exact(&args) {
                        o.violation(
                            &format!("{}:monomial-x{}y{}", class, i, j),
                            desc,
                            format!(
                                "{{\"law\":\"green_exact\",\"args\":{},\"bits\":[{}]}}",
                                crate::util::fmt_fs(&args),
                                args.iter().map(|a| format!("\"{:016x}\"", a.to_bits())).collect::<Vec<_>>().join(",")
                            ),
                        );
                    }
                }
            }
        }
    }
    // unit square and triangle, +x towards +y: positive
    let sq = [PathEl::MoveTo(Point::new(0.0, 0.0)), PathEl::LineTo(Point::new(1.0, 0.0)), PathEl::LineTo(Point::new(1.0, 1.0)), PathEl::LineTo(Point::new(0.0, 1.0)), PathEl::ClosePath];
    let tri = [PathEl::MoveTo(Point::new(0.0, 0.0)), PathEl::LineTo(Point::new(1.0, 0.0)), PathEl::LineTo(Point::new(0.0, 1.0)), PathEl::ClosePath];
    for (nm, els, want) in [("square", &sq[..], 1.0), ("triangle", &tri[..], 0.5)] {
        o.oracle_eval("unit-shapes");
        let got = els.area();
        if got != want || bez(els).area() != want || sq.area() != 1.0 {
            o.violation(&format!("orientation:unit-{}", nm), format!("area of the unit {} = {:e}, expected {:e}", nm, got, want), format!("{{\"law\":\"path_green\",\"args\":{}}}", crate::util::fmt_fs(&enc_els(els))));
        }
    }
}
