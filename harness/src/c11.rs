//! C11 — closed-form shape queries (area, perimeter, winding, bounding box) agree with the
//! shape's own Bézier outline; rectangles tile the plane with the half-open rule.
use crate::util::{json_str, fmt_fs, Out, Rng};
use crate::{Law, Prop};
use kurbo::{Affine, BezPath, Circle, CircleSegment, Ellipse, Line, PathSeg, Point, Rect, RoundedRect, Shape, Triangle, Vec2};
use std::f64::consts::PI;

pub fn prop() -> Prop {
    Prop { id: "C11", corr, laws, extra, law_budget: (200, 12000) }
}

// ------------------------------------------------------------------ generators

// ---- scale sweep. Every generator below first draws a shape of size ~1e-2..1e2 and then multiplies the whole
// configuration (shape, query points, radii, accuracies - not angles) by a power of two: scaling by 2^k is exact,
// so grid inputs stay exactly decidable and bit-exact correspondence groups stay bit-exact. Mostly 2^-60..2^60,
// sometimes the wide range below, chosen per family so that the closed forms themselves neither overflow nor
// lose their operands to underflow: areas and cross products are ~ s^2 (|k| <= 450 with coordinates <= ~200),
// `Affine::svd` forms fourth powers of the coefficients (|k| <= 200). Beyond that the code cannot represent its
// own intermediate results and nothing is claimed.
const W_POLY: i64 = 450; // Rect, Triangle, Line, winding_inner
// Rect::winding only compares coordinates, so its laws can go further: far enough that the PRODUCT of the extents
// underflows (a seeded change that took the orientation from `area() < 0.0` was missed at |k| <= 450)
const W_RECT: i64 = 540;
const W_ROUND: i64 = 400; // RoundedRect, Circle, CircleSegment
const W_ELL: i64 = 200; // Ellipse (svd)
fn pow2(k: i64) -> f64 {
    2f64.powi(k as i32)
}
fn g_scale(r: &mut Rng, wide: i64) -> f64 {
    match r.below(10) {
        0 | 1 => 1.0,
        2 => pow2(r.range_i(-wide, wide)),
        _ => pow2(r.range_i(-60, 60)),
    }
}
fn scaled(v: &[f64], s: f64) -> Vec<f64> {
    v.iter().map(|x| x * s).collect()
}
fn scp(p: Point, s: f64) -> Point {
    Point::new(p.x * s, p.y * s)
}
/// multiply the entries `idx` of a law's argument vector by one scale factor
fn scale_args(r: &mut Rng, mut v: Vec<f64>, idx: std::ops::Range<usize>, wide: i64) -> Vec<f64> {
    let s = g_scale(r, wide);
    for i in idx {
        v[i] *= s;
    }
    v
}
/// all values are small integers (|n| <= 2^13) in units of one common power of two: sums and products of a few of
/// them are exact, so the outline's own ray cast is exactly decidable even on its vertex rows
fn common_grid(xs: &[f64]) -> bool {
    let m = xs.iter().fold(0.0f64, |m, v| m.max(v.abs()));
    if m == 0.0 {
        return true;
    }
    if !m.is_finite() || m < 1e-290 {
        return false;
    }
    let unit = pow2(m.log2().floor() as i64 - 12);
    xs.iter().all(|v| (v / unit).fract() == 0.0)
}
/// magnitude of a configuration: the largest coordinate / length in it (never 0)
fn mag(xs: &[f64]) -> f64 {
    xs.iter().fold(f64::MIN_POSITIVE, |m, v| m.max(v.abs()))
}

fn pick3(r: &mut Rng, a: f64, b: f64, c: f64) -> f64 {
    *r.pick(&[a, b, c])
}
fn half(r: &mut Rng) -> f64 {
    r.range_i(-16, 16) as f64 / 2.0
}
fn g_rect(r: &mut Rng) -> Rect {
    match r.below(6) {
        0 | 1 => Rect::new(half(r), half(r), half(r), half(r)),
        2 => {
            let x = half(r);
            Rect::new(x, half(r), x, half(r)) // zero width
        }
        _ => Rect::new(r.coord(), r.coord(), r.coord(), r.coord()),
    }
}
fn grid_rect(r: &mut Rng) -> Rect {
    Rect::new(half(r), half(r), half(r), half(r))
}
fn g_radii(r: &mut Rng, rect: Rect) -> [f64; 4] {
    let m = rect.width().abs().min(rect.height().abs()) / 2.0;
    let mode = r.below(8);
    let first = r.uniform(0.0, 1.0) * m;
    let mut out = [0.0; 4];
    for q in out.iter_mut() {
        *q = match mode {
            // all four different and kept: the quadrant selection matters
            0..=3 => m * r.uniform(0.05, 1.0) * if r.chance(1, 6) { -1.0 } else { 1.0 },
            4 => first,
            _ => match r.below(7) {
                0 => 0.0,
                1 => m,
                2 => m * 1.5 + 0.25,
                3 => -m * r.unit(),
                4 => 1e3,
                5 => r.range_i(0, 8) as f64 / 4.0,
                _ => m * r.unit(),
            },
        };
    }
    out
}
fn rr_of(a: &[f64]) -> RoundedRect {
    RoundedRect::new(a[0], a[1], a[2], a[3], (a[4], a[5], a[6], a[7]))
}
/// a query point for a rounded rectangle: generic, near a corner arc, on a quadrant switch line, grid
fn rr_point(r: &mut Rng, rr: &RoundedRect) -> Point {
    let rect = rr.rect();
    let c = rect.center();
    let q = rr.radii();
    match r.below(10) {
        0..=3 => {
            let k = r.below(4);
            let (rad, cx, cy) = match k {
                0 => (q.top_left, rect.x0 + q.top_left, rect.y0 + q.top_left),
                1 => (q.top_right, rect.x1 - q.top_right, rect.y0 + q.top_right),
                2 => (q.bottom_right, rect.x1 - q.bottom_right, rect.y1 - q.bottom_right),
                _ => (q.bottom_left, rect.x0 + q.bottom_left, rect.y1 - q.bottom_left),
            };
            // towards the outside of corner k, at a multiple of its radius from the corner centre
            let th = r.uniform(0.0, PI / 2.0) + [PI, 1.5 * PI, 0.0, 0.5 * PI][k as usize];
            let f = *r.pick(&[0.5, 0.9, 0.999, 1.001, 1.1, 1.3]);
            Point::new(cx + f * rad * th.cos(), cy + f * rad * th.sin())
        }
        4 => Point::new(c.x, r.uniform(rect.y0 - 1.0, rect.y1 + 1.0)),
        5 => Point::new(r.uniform(rect.x0 - 1.0, rect.x1 + 1.0), c.y),
        6 => Point::new(half(r), half(r)),
        7 => Point::new(*r.pick(&[rect.x0, rect.x1, c.x]), *r.pick(&[rect.y0, rect.y1, c.y])),
        _ => Point::new(r.uniform(rect.x0 - 1.0, rect.x1 + 1.0), r.uniform(rect.y0 - 1.0, rect.y1 + 1.0)),
    }
}
fn rr_tag(rr: &RoundedRect, p: Point) -> String {
    let c = rr.rect().center();
    let (x, y) = (p.x - c.x, p.y - c.y);
    let q = rr.radii();
    let (quad, rad) = if x < 0.0 && y < 0.0 {
        ("tl", q.top_left)
    } else if x >= 0.0 && y < 0.0 {
        ("tr", q.top_right)
    } else if x >= 0.0 && y >= 0.0 {
        ("br", q.bottom_right)
    } else if x < 0.0 && y >= 0.0 {
        ("bl", q.bottom_left)
    } else {
        ("nan", 0.0)
    };
    let qx = x.abs() - (rr.width() / 2.0 - rad).max(0.0);
    let qy = y.abs() - (rr.height() / 2.0 - rad).max(0.0);
    let region = match (qx > 0.0, qy > 0.0) {
        (true, true) => "corner",
        (true, false) => "side-x",
        (false, true) => "side-y",
        _ => "core",
    };
    format!("{}/{}/w={}", quad, region, rr.winding(p))
}

fn g_affine(r: &mut Rng) -> [f64; 6] {
    match r.below(10) {
        0 => [r.coord(), 0.0, 0.0, r.coord(), r.coord(), r.coord()],
        1 => [3.0, 4.0, -4.0, 3.0, half(r), half(r)],
        2 => [2.0, 0.0, 0.0, 0.0, 1.0, 1.0],           // singular: one radius is exactly zero
        3 => [1e200, 0.0, 0.0, 1e200, 0.0, 0.0],       // radii overflow
        4 => [half(r), half(r), half(r), half(r), half(r), half(r)],
        _ => [r.generic(-3, 4), r.generic(-3, 4), r.generic(-3, 4), r.generic(-3, 4), r.coord(), r.coord()],
    }
}
/// a well-conditioned affine map (either sign of the determinant)
fn g_affine_regular(r: &mut Rng) -> [f64; 6] {
    loop {
        let m = [r.uniform(-8.0, 8.0), r.uniform(-8.0, 8.0), r.uniform(-8.0, 8.0), r.uniform(-8.0, 8.0)];
        let det = m[0] * m[3] - m[1] * m[2];
        let n2 = m.iter().map(|v| v * v).sum::<f64>();
        if det.abs() > 0.05 * n2 && n2 > 0.01 {
            return [m[0], m[1], m[2], m[3], r.uniform(-20.0, 20.0), r.uniform(-20.0, 20.0)];
        }
    }
}
fn g_tri(r: &mut Rng) -> [f64; 6] {
    match r.below(8) {
        0 | 1 => [half(r), half(r), half(r), half(r), half(r), half(r)],
        2 => {
            // collinear on the grid
            let (x, y, dx, dy) = (half(r), half(r), r.range_i(-3, 3) as f64, r.range_i(-3, 3) as f64);
            let (s, t) = (r.range_i(-3, 3) as f64, r.range_i(-3, 3) as f64);
            [x, y, x + s * dx, y + s * dy, x + t * dx, y + t * dy]
        }
        3 => {
            let (x, y) = (half(r), half(r));
            [x, y, x, y, x, y]
        }
        _ => [r.coord(), r.coord(), r.coord(), r.coord(), r.coord(), r.coord()],
    }
}
fn tri_of(a: &[f64]) -> Triangle {
    Triangle::new((a[0], a[1]), (a[2], a[3]), (a[4], a[5]))
}
fn rv(r: Rect) -> Vec<f64> {
    vec![r.x0, r.y0, r.x1, r.y1]
}
fn cat(a: &[f64], b: &[f64]) -> Vec<f64> {
    a.iter().cloned().chain(b.iter().cloned()).collect()
}
fn agm_ticks<F: FnOnce() -> f64>(f: F) -> (f64, u64) {
    kurbo::verif::reset();
    let v = f();
    (v, kurbo::verif::work())
}

// ------------------------------------------------------------------ correspondence

/// the pinned `agm_elliptic_perimeter` (ellipse.rs 371-430), to tell which variant the crate under test has
fn agm_pinned(accuracy: f64, rx: f64, ry: f64) -> f64 {
    let (x, y) = if rx >= ry { (rx, ry) } else { (ry, rx) };
    let accuracy = accuracy / (2. * PI * x);
    let (mut sum, mut a, mut g, mut mul) = (1., 1., y / x, 0.5);
    let mut c = (1. - g.powi(2)).sqrt();
    loop {
        let term = mul * c.powi(2);
        sum -= term;
        if term <= accuracy * g {
            sum -= term;
            break;
        }
        mul *= 2.;
        c = (a - g) / 2.;
        let a_next = (a + g) / 2.;
        g = (a * g).sqrt();
        a = a_next;
    }
    2. * PI * x / a * sum
}

/// Which of the three behaviours the property text reports as defects does the crate under test show?
/// The Coq side has a model of either variant (`..._pinned` = the pinned code, unsuffixed = the required
/// behaviour = the code with proposed_fixes/C11-*.diff); the correspondence runs against the matching one.
/// The defects themselves are reported by the laws, never by this choice.
struct Variant {
    cseg_fixed: bool,
    tri_fixed: bool,
    agm_fixed: bool,
}
fn detect_variant() -> Variant {
    let cs = CircleSegment::new((0.0, 0.0), 2.0, 1.0, PI / 2.0, 1.5 * PI);
    let (acc, rad) = (0.07943282347242814, Vec2::new(30.199517204020164, 0.1));
    Variant {
        cseg_fixed: cs.winding(Point::new(0.0, -1.5)) == 1,
        tri_fixed: Triangle::ZERO.winding(Point::new(5.0, 5.0)) == 0,
        agm_fixed: kurbo::verif::verif_agm_elliptic_perimeter(acc, rad) != agm_pinned(acc, rad.x, rad.y),
    }
}

fn corr(r: &mut Rng, thorough: bool, o: &mut Out) {
    let n = if thorough { 3000 } else { 130 };
    let var = detect_variant();
    o.notes.push(format!(
        "variant of the crate under test: CircleSegment::winding {}, Triangle::winding {}, agm_elliptic_perimeter {}",
        if var.cseg_fixed { "reduces the angle (required)" } else { "pinned" },
        if var.tri_fixed { "rejects zero-area triangles (required)" } else { "pinned" },
        if var.agm_fixed { "iterates the mean to convergence (required)" } else { "pinned" }
    ));
    for _ in 0..n {
        let (sp, sr, se) = (g_scale(r, W_POLY), g_scale(r, W_ROUND), g_scale(r, W_ELL));
        // --- RoundedRect
        let rect = g_rect(r);
        let radii = g_radii(r, rect);
        let a8b = cat(&rv(rect), &radii);
        let rrb = rr_of(&a8b);
        let a8 = scaled(&a8b, sr);
        let rr = rr_of(&a8);
        let q = rr.radii();
        let clamped = a8[4..8].iter().zip([q.top_left, q.top_right, q.bottom_right, q.bottom_left]).any(|(a, b)| a.abs() != b);
        o.case(
            1,
            "rounded_rect:new/area/perimeter/bbox",
            a8.clone(),
            cat(&cat(&rv(rr.rect()), &[q.top_left, q.top_right, q.bottom_right, q.bottom_left]), &cat(&[rr.area(), rr.perimeter(1e-9 * sr)], &rv(rr.bounding_box()))),
            rect.width() != 0.0 && rect.height() != 0.0,
            if clamped { "radii-clamped" } else { "radii-kept" },
        );
        for _ in 0..6 {
            let p = scp(rr_point(r, &rrb), sr);
            o.case(2, "rounded_rect:winding", cat(&a8, &[p.x, p.y]), vec![rr.winding(p) as f64], rect.width() != 0.0 && rect.height() != 0.0, &rr_tag(&rr, p));
        }
        // --- Circle
        let c = Circle::new((r.coord() * sr, r.coord() * sr), if r.chance(1, 8) { 0.0 } else { r.coord() * sr });
        o.case(3, "circle:area/perimeter/bbox", vec![c.center.x, c.center.y, c.radius], cat(&[c.area(), c.perimeter(1e-9 * sr)], &rv(c.bounding_box())), c.radius != 0.0, if c.radius < 0.0 { "r<0" } else { "r>=0" });
        let p = if r.chance(1, 4) {
            // Pythagorean offsets: the distance test is decided exactly
            let k = c.radius.abs() / 5.0;
            Point::new(c.center.x + 3.0 * k, c.center.y + 4.0 * k)
        } else {
            let th = r.uniform(0.0, 2.0 * PI);
            let f = *r.pick(&[0.0, 0.5, 0.99, 1.01, 2.0]);
            Point::new(c.center.x + f * c.radius * th.cos(), c.center.y + f * c.radius * th.sin())
        };
        o.case(4, "circle:winding", vec![c.center.x, c.center.y, c.radius, p.x, p.y], vec![c.winding(p) as f64], c.radius != 0.0, &format!("w={}", c.winding(p)));
        // --- CircleSegment
        let outer = if r.chance(1, 3) { r.range_i(0, 8) as f64 / 2.0 } else { r.generic(-3, 5).abs() };
        let inner = if r.chance(1, 6) { outer * (1.0 + r.unit()) } else { outer * r.unit() };
        let start = if r.chance(1, 3) { r.range_i(-8, 8) as f64 / 2.0 } else { r.uniform(-10.0, 10.0) };
        let sweep = match r.below(8) {
            0 => 2.0 * PI,
            1 => -r.uniform(0.0, 2.0 * PI),
            2 => r.uniform(0.0, 9.0),
            _ => r.uniform(0.0, 2.0 * PI),
        };
        let cs = CircleSegment::new((r.coord() * sr, r.coord() * sr), outer * sr, inner * sr, start, sweep);
        let a6 = vec![cs.center.x, cs.center.y, cs.outer_radius, cs.inner_radius, start, sweep];
        o.case(5, "circle_segment:area/perimeter/bbox", a6.clone(), cat(&[cs.area(), cs.perimeter(1e-9 * sr)], &rv(cs.bounding_box())), outer != inner, if inner > outer { "inner>outer" } else { "inner<=outer" });
        // winding reaches atan2: generic inputs only
        for _ in 0..2 {
            let cs = CircleSegment::new((r.generic(-3, 5) * sr, r.generic(-3, 5) * sr), outer.max(0.37) * (1.0 + r.unit()) * sr, inner.max(0.11) * (1.0 + 0.1 * r.unit()) * sr, r.uniform(-10.0, 10.0), sweep + 1e-3 * r.unit());
            // half of the points inside the angular range and the band
            let (lo, big) = (cs.outer_radius.min(cs.inner_radius), cs.outer_radius.max(cs.inner_radius));
            let (th, rho) = if r.bool() {
                (cs.start_angle + cs.sweep_angle * r.uniform(0.03, 0.97), lo + (big - lo) * r.uniform(0.03, 0.97))
            } else {
                (r.uniform(-PI, PI), big * r.uniform(0.05, 1.6))
            };
            let p = Point::new(cs.center.x + rho * th.cos(), cs.center.y + rho * th.sin());
            let w = cs.winding(p);
            let cross = cs.start_angle + cs.sweep_angle.max(0.0) > PI || cs.start_angle + cs.sweep_angle.min(0.0) < -PI;
            o.case(
                if var.cseg_fixed { 6 } else { 106 },
                if var.cseg_fixed { "circle_segment:winding" } else { "circle_segment:winding(pinned)" },
                vec![cs.center.x, cs.center.y, cs.outer_radius, cs.inner_radius, cs.start_angle, cs.sweep_angle, p.x, p.y],
                vec![w as f64],
                true,
                &format!("{}{}/w={}", if cs.sweep_angle < 0.0 { "sweep<0" } else { "sweep>0" }, if cross { "/range-leaves-(-pi,pi]" } else { "" }, w),
            );
        }
        // --- Ellipse
        let mb = g_affine(r);
        let mut m = mb;
        m.iter_mut().for_each(|v| *v *= se);
        let e = Ellipse::from_affine(Affine::new(m));
        let rad = e.radii();
        o.case(
            7,
            "ellipse:radii/center/area/bbox",
            m.to_vec(),
            cat(&[rad.x, rad.y, e.center().x, e.center().y, e.area()], &rv(e.bounding_box())),
            rad.x.is_finite() && rad.y > 0.0,
            if !rad.x.is_finite() || !rad.y.is_finite() { "non-finite" } else if rad.y == 0.0 { "singular" } else if mb[0] * mb[3] - mb[1] * mb[2] < 0.0 { "reflection" } else { "det>0" },
        );
        let (u, v) = (r.uniform(-1.2, 1.2), r.uniform(-1.2, 1.2));
        let p = if r.chance(1, 5) { scp(Point::new(half(r), half(r)), se) } else { Affine::new(m) * Point::new(u, v) };
        o.case(8, "ellipse:winding", cat(&m, &[p.x, p.y]), vec![e.winding(p) as f64], rad.y > 0.0, &format!("w={}", e.winding(p)));
        {
            let (cx, cy, rx, ry, th) = (r.generic(-3, 5) * se, r.generic(-3, 5) * se, r.generic(-1, 3) * se, r.generic(-1, 3) * se, r.uniform(-7.0, 7.0));
            let e = Ellipse::new((cx, cy), (rx, ry), th);
            let rad = e.radii();
            // tolerance group: outputs are brought back to unit scale (exact division by a power of two) on both sides
            o.case(9, "ellipse:new", vec![se, cx, cy, rx, ry, th], cat(&[rad.x / se, rad.y / se, e.center().x / se, e.center().y / se, e.area() / se / se], &scaled(&rv(e.bounding_box()), 1.0 / se)), true, if rx < 0.0 || ry < 0.0 { "negative-radius" } else { "positive-radii" });
            let mut m = g_affine_regular(r);
            m.iter_mut().for_each(|v| *v *= se);
            let e = Ellipse::from_affine(Affine::new(m));
            let (rad, rot) = e.radii_and_rotation();
            if (rad.x - rad.y).abs() > 1e-3 * rad.x {
                o.case(10, "ellipse:rotation", m.to_vec(), vec![rot], true, "");
            }
        }
        // perimeter: every arithmetic operation on the way is exact-rounded (sqrt, powi, / ...)
        {
            let acc = 10f64.powf(-r.uniform(0.0, 10.0)) * se;
            let mut m = match r.below(6) {
                0 => g_affine(r),
                1 => g_affine_regular(r),
                _ => {
                    let y = 10f64.powf(r.uniform(-2.0, 1.0));
                    let asp = 10f64.powf(r.uniform(0.0, 4.0));
                    if r.bool() { [y * asp, 0.0, 0.0, y, 0.0, 0.0] } else { [0.0, y, -y * asp, 0.0, 1.0, 2.0] }
                }
            };
            m.iter_mut().for_each(|v| *v *= se);
            let e = Ellipse::from_affine(Affine::new(m));
            let (pv, ticks) = agm_ticks(|| e.perimeter(acc));
            let rad = e.radii();
            let tag = if !(rad.x.is_finite() && rad.y.is_finite()) {
                "non-finite".to_string()
            } else if rad.x == 0.0 || rad.y == 0.0 {
                "zero-radius".to_string()
            } else if ticks == 0 {
                "kummer".to_string()
            } else {
                format!("agm-{}-rounds", ticks)
            };
            o.case(if var.agm_fixed { 11 } else { 111 }, if var.agm_fixed { "ellipse:perimeter" } else { "ellipse:perimeter(pinned)" }, cat(&m, &[acc]), vec![1.0, pv], ticks > 0, &tag);
            let (x, y) = (10f64.powf(r.uniform(-2.0, 2.0)), 10f64.powf(r.uniform(-2.0, 2.0)));
            let (x, y) = if r.chance(1, 6) { (x * se, x * se) } else { (x * se, y * se) };
            let rv2 = Vec2::new(x, y);
            o.case(12, "ellipse:kummer", vec![x, y], vec![kurbo::verif::verif_kummer_elliptic_perimeter(rv2), kurbo::verif::verif_kummer_elliptic_perimeter_range(rv2)], x != y, "");
            let (pv, ticks) = agm_ticks(|| kurbo::verif::verif_agm_elliptic_perimeter(acc, rv2));
            o.case(if var.agm_fixed { 13 } else { 113 }, if var.agm_fixed { "ellipse:agm" } else { "ellipse:agm(pinned)" }, vec![acc, x, y], vec![1.0, pv], ticks > 1, &format!("{}{}-rounds", if x >= y { "" } else { "swapped/" }, ticks));
        }
        // --- Triangle
        let t6b = g_tri(r);
        let tb = tri_of(&t6b);
        let bbb = tb.bounding_box();
        let t6 = scaled(&t6b, sp);
        let t = tri_of(&t6);
        let bb = t.bounding_box();
        o.case(14, "triangle:area/bbox", t6.to_vec(), cat(&[Triangle::area(&t)], &rv(bb)), Triangle::area(&t) != 0.0, if Triangle::area(&t) > 0.0 { "area>0" } else if Triangle::area(&t) < 0.0 { "area<0" } else { "area=0" });
        {
            let g6 = [r.generic(-3, 5), r.generic(-3, 5), r.generic(-3, 5), r.generic(-3, 5), r.generic(-3, 5), r.generic(-3, 5)];
            o.case(15, "triangle:perimeter", cat(&[sp], &scaled(&g6, sp)), vec![tri_of(&scaled(&g6, sp)).perimeter(1e-9 * sp) / sp], true, "");
        }
        for _ in 0..3 {
            let p = match r.below(5) {
                0 => Point::new(half(r), half(r)),
                1 => *r.pick(&[tb.a, tb.b, tb.c]),
                2 => tb.a.lerp(tb.b, r.range_i(-2, 6) as f64 / 4.0), // on the line a-b
                3 => {
                    let (u, v) = (r.unit(), r.unit());
                    let (u, v) = if u + v > 1.0 { (1.0 - u, 1.0 - v) } else { (u, v) };
                    Point::new(tb.a.x + u * (tb.b.x - tb.a.x) + v * (tb.c.x - tb.a.x), tb.a.y + u * (tb.b.y - tb.a.y) + v * (tb.c.y - tb.a.y))
                }
                _ => Point::new(r.uniform(bbb.x0 - 1.0, bbb.x1 + 1.0), r.uniform(bbb.y0 - 1.0, bbb.y1 + 1.0)),
            };
            let p = scp(p, sp);
            let w = t.winding(p);
            o.case(if var.tri_fixed { 16 } else { 116 }, if var.tri_fixed { "triangle:winding" } else { "triangle:winding(pinned)" }, cat(&t6, &[p.x, p.y]), vec![w as f64], true, &format!("{}/w={}", if Triangle::area(&t) == 0.0 { "area=0" } else { "area!=0" }, w));
            // the outline's own ray cast, on grid coordinates (exact arithmetic on both sides)
            if t6b.iter().all(|v| *v == (*v * 2.0).round() / 2.0 && v.abs() <= 64.0) {
                let gp = scp(Point::new(half(r), half(r)), sp);
                o.case(21, "outline:triangle-path-winding", cat(&t6, &[gp.x, gp.y]), vec![t.to_path(1e-9).winding(gp) as f64], true, &format!("w={}", t.to_path(1e-9).winding(gp)));
            }
        }
        // --- Line as a shape
        let l = Line::new((r.coord() * sp, r.coord() * sp), (r.coord() * sp, r.coord() * sp));
        let l4 = vec![l.p0.x, l.p0.y, l.p1.x, l.p1.y];
        o.case(17, "line:area/winding/bbox", l4.clone(), cat(&[l.area(), l.winding(Point::new(l.p0.x, l.p1.y)) as f64], &rv(l.bounding_box())), true, "");
        let lg = Line::new((r.generic(-3, 5) * sp, r.generic(-3, 5) * sp), (r.generic(-3, 5) * sp, r.generic(-3, 5) * sp));
        o.case(18, "line:perimeter", vec![sp, lg.p0.x, lg.p0.y, lg.p1.x, lg.p1.y], vec![lg.perimeter(1e-9 * sp) / sp], true, "");
        // --- spec side: winding_inner of a line, BezPath::winding of the rectangle outline
        for _ in 0..3 {
            let (s, e) = match r.below(4) {
                0 => (Point::new(half(r), half(r)), Point::new(half(r), half(r))),
                1 => {
                    let x = half(r);
                    (Point::new(x, half(r)), Point::new(x, half(r)))
                }
                _ => (Point::new(r.coord(), r.coord()), Point::new(r.coord(), r.coord())),
            };
            let p = match r.below(4) {
                0 => Point::new(half(r), *r.pick(&[s.y, e.y])),
                1 => s.lerp(e, r.range_i(0, 4) as f64 / 4.0),
                2 => Point::new(half(r), half(r)),
                _ => Point::new(r.uniform(s.x.min(e.x) - 1.0, s.x.max(e.x) + 1.0), r.uniform(s.y.min(e.y) - 0.5, s.y.max(e.y) + 0.5)),
            };
            let (s, e, p) = (scp(s, sp), scp(e, sp), scp(p, sp));
            let w = PathSeg::Line(Line::new(s, e)).verif_winding_inner(p);
            let tag = if e.y == s.y {
                "horizontal".to_string()
            } else if p.y < s.y.min(e.y) || p.y >= s.y.max(e.y) {
                "row-outside".to_string()
            } else if p.x < s.x.min(e.x) {
                "left-of-box".to_string()
            } else if p.x >= s.x.max(e.x) {
                "right-of-box".to_string()
            } else {
                format!("side-test/w={}", w)
            };
            o.case(19, "outline:line-winding_inner", vec![s.x, s.y, e.x, e.y, p.x, p.y], vec![w as f64], e.y != s.y, &tag);
        }
        let gr = grid_rect(r);
        let gp = if r.chance(1, 2) { Point::new(*r.pick(&[gr.x0, gr.x1]), half(r)) } else { { let h1 = half(r); Point::new(half(r), pick3(r, gr.y0, gr.y1, h1)) } };
        let (gr, gp) = (Rect::new(gr.x0 * sp, gr.y0 * sp, gr.x1 * sp, gr.y1 * sp), scp(gp, sp));
        let w = gr.to_path(1e-9).winding(gp);
        o.case(20, "outline:rect-path-winding", cat(&rv(gr), &[gp.x, gp.y]), vec![w as f64], gr.area() != 0.0, &format!("w={}", w));
        let rect = g_rect(r);
        let p = if r.chance(1, 2) { { let (h1, h2) = (r.coord(), r.coord()); Point::new(pick3(r, rect.x0, rect.x1, h1), pick3(r, rect.y0, rect.y1, h2)) } } else { Point::new(r.uniform(rect.min_x() - 1.0, rect.max_x() + 1.0), r.uniform(rect.min_y() - 1.0, rect.max_y() + 1.0)) };
        let (rect, p) = (Rect::new(rect.x0 * sp, rect.y0 * sp, rect.x1 * sp, rect.y1 * sp), scp(p, sp));
        o.case(22, "rect:winding/area/perimeter/bbox", cat(&rv(rect), &[p.x, p.y]), cat(&[rect.winding(p) as f64, Shape::area(&rect), rect.perimeter(1.0)], &rv(rect.bounding_box())), rect.area() != 0.0, &format!("w={}", rect.winding(p)));
    }
}

// ------------------------------------------------------------------ double-double reference

#[derive(Clone, Copy)]
struct DD(f64, f64);
fn two_sum(a: f64, b: f64) -> DD {
    let s = a + b;
    let bb = s - a;
    DD(s, (a - (s - bb)) + (b - bb))
}
fn quick(a: f64, b: f64) -> DD {
    let s = a + b;
    DD(s, b - (s - a))
}
impl DD {
    fn of(a: f64) -> DD {
        DD(a, 0.0)
    }
    fn add(self, o: DD) -> DD {
        let s = two_sum(self.0, o.0);
        quick(s.0, s.1 + self.1 + o.1)
    }
    fn neg(self) -> DD {
        DD(-self.0, -self.1)
    }
    fn sub(self, o: DD) -> DD {
        self.add(o.neg())
    }
    fn mul(self, o: DD) -> DD {
        let p = self.0 * o.0;
        let e = self.0.mul_add(o.0, -p);
        quick(p, e + self.0 * o.1 + self.1 * o.0)
    }
    fn scale(self, k: f64) -> DD {
        // k a power of two
        DD(self.0 * k, self.1 * k)
    }
    fn div(self, o: DD) -> DD {
        let q1 = self.0 / o.0;
        let r = self.sub(o.mul(DD::of(q1)));
        let q2 = r.0 / o.0;
        let r = r.sub(o.mul(DD::of(q2)));
        let q3 = r.0 / o.0;
        quick(q1, q2).add(DD::of(q3))
    }
    fn sqrt(self) -> DD {
        if self.0 <= 0.0 {
            return DD::of(0.0);
        }
        let s = self.0.sqrt();
        let mut x = DD::of(s);
        for _ in 0..2 {
            let e = self.sub(x.mul(x));
            x = x.add(DD::of(e.0 / (2.0 * s)));
        }
        x
    }
}
const PI_DD: DD = DD(3.141592653589793, 1.2246467991473532e-16);

/// Perimeter of the ellipse with semi-axes x, y > 0, by the AGM in double-double arithmetic:
/// P = 2 pi x / M(1, g) * (1 - sum_{n>=0} 2^(n-1) c_n^2), g = y/x <= 1, c_0^2 = 1 - g^2.
fn ref_perimeter(x: f64, y: f64) -> f64 {
    let (x, y) = if x >= y { (x, y) } else { (y, x) };
    let mut a = DD::of(1.0);
    let mut g = DD::of(y).div(DD::of(x));
    let c02 = DD::of(1.0).sub(g.mul(g));
    let mut sum = DD::of(1.0).sub(c02.scale(0.5));
    let mut mul = 1.0;
    for _ in 0..60 {
        let c = a.sub(g).scale(0.5);
        let an = a.add(g).scale(0.5);
        g = a.mul(g).sqrt();
        a = an;
        sum = sum.sub(c.mul(c).scale(mul));
        mul *= 2.0;
        if c.0.abs() < 1e-40 {
            break;
        }
    }
    let p = PI_DD.scale(2.0).mul(DD::of(x)).mul(sum).div(a);
    p.0 + p.1
}
/// the same in plain f64 (cross-check of the reference itself)
fn ref_perimeter_f64(x: f64, y: f64) -> f64 {
    let (x, y) = if x >= y { (x, y) } else { (y, x) };
    let (mut a, mut g) = (1.0f64, y / x);
    let mut sum = 1.0 - 0.5 * (1.0 - g * g);
    let mut mul = 1.0;
    for _ in 0..60 {
        let c = (a - g) / 2.0;
        let an = (a + g) / 2.0;
        g = (a * g).sqrt();
        a = an;
        sum -= mul * c * c;
        mul *= 2.0;
        if c.abs() < 1e-300 {
            break;
        }
    }
    2.0 * PI * x / a * sum
}

// ------------------------------------------------------------------ laws

/// A law failure. The shared collector keeps the first 200 violations of a run; so that one frequent
/// class does not crowd out the others, each class is reported at most 25 times per run (the replay
/// mode evaluates a single input and is not affected).
static SEEN: std::sync::Mutex<Option<std::collections::HashMap<String, u32>>> = std::sync::Mutex::new(None);
fn fail(class: &str, d: String) -> Option<(String, String)> {
    let mut g = SEEN.lock().unwrap_or_else(|e| e.into_inner());
    let n = g.get_or_insert_with(std::collections::HashMap::new).entry(class.to_string()).or_insert(0);
    *n += 1;
    if *n > 25 {
        return None;
    }
    Some((class.to_string(), d))
}
fn reset_fail_counts() {
    *SEEN.lock().unwrap_or_else(|e| e.into_inner()) = None;
}
fn close(a: f64, b: f64, tol: f64) -> bool {
    (a - b).abs() <= tol
}
fn rect_close(a: Rect, b: Rect, tol: f64) -> bool {
    close(a.x0, b.x0, tol) && close(a.y0, b.y0, tol) && close(a.x1, b.x1, tol) && close(a.y1, b.y1, tol)
}
fn extent(bb: Rect) -> f64 {
    bb.width().abs().max(bb.height().abs()).max(bb.x0.abs()).max(bb.x1.abs()).max(bb.y0.abs()).max(bb.y1.abs()).max(f64::MIN_POSITIVE)
}
/// area / perimeter / bounding box of a closed form against the same queries on the outline
fn scalar_queries<S: Shape>(name: &str, s: &S, path: &BezPath, want_area_sign: Option<f64>) -> Option<(String, String)> {
    let bb = s.bounding_box();
    let pb = path.bounding_box();
    let sc = extent(pb);
    if !rect_close(bb, pb, 1e-7 * sc) {
        return fail(&format!("{}:bounding-box", name), format!("closed form {:?}, outline {:?}", bb, pb));
    }
    if bb.width() < 0.0 || bb.height() < 0.0 {
        return fail(&format!("{}:bounding-box", name), format!("negative extent {:?}", bb));
    }
    let (a, pa) = (s.area(), path.area());
    if !close(a, pa, 1e-6 * sc * sc) {
        return fail(&format!("{}:area", name), format!("closed form {}, outline {}", a, pa));
    }
    if let Some(sign) = want_area_sign {
        if a * sign < 0.0 {
            return fail(&format!("{}:area", name), format!("area {} has the wrong sign", a));
        }
    }
    let (p, pp) = (s.perimeter(1e-9 * sc), path.perimeter(1e-9 * sc));
    if !close(p, pp, 1e-6 * sc) {
        return fail(&format!("{}:perimeter", name), format!("closed form {}, outline {}", p, pp));
    }
    None
}

/// `BezPath::winding` as an oracle: rows through (or within rounding distance of) a vertex of the outline are
/// excluded — there the path's own ray cast depends on how the end points of its pieces were rounded (C01's
/// subject), which says nothing about the closed form.
fn path_winding_off_vertex_rows(path: &BezPath, p: Point, sc: f64) -> Option<i32> {
    for el in path.elements() {
        let v = match el {
            kurbo::PathEl::MoveTo(a) | kurbo::PathEl::LineTo(a) => Some(*a),
            kurbo::PathEl::QuadTo(_, a) | kurbo::PathEl::CurveTo(_, _, a) => Some(*a),
            kurbo::PathEl::ClosePath => None,
        };
        if let Some(v) = v {
            if (v.y - p.y).abs() <= 1e-9 * sc {
                return None;
            }
        }
    }
    Some(path.winding(p))
}

// --- Rect
fn g_rect_pt(r: &mut Rng) -> Vec<f64> {
    if r.chance(1, 2) {
        // grid rectangle, grid point: boundary points and vertex rows included
        let a = grid_rect(r);
        let p = if r.chance(1, 2) { { let (h1, h2) = (half(r), half(r)); (pick3(r, a.x0, a.x1, h1), pick3(r, a.y0, a.y1, h2)) } } else { (half(r), half(r)) };
        cat(&rv(a), &[p.0, p.1])
    } else {
        let a = Rect::new(r.coord(), r.coord(), r.coord(), r.coord());
        cat(&rv(a), &[r.uniform(a.min_x() - 1.0, a.max_x() + 1.0), r.uniform(a.min_y() - 1.0, a.max_y() + 1.0)])
    }
}
fn law_rect(x: &[f64]) -> Option<(String, String)> {
    let a = Rect::new(x[0], x[1], x[2], x[3]);
    let p = Point::new(x[4], x[5]);
    let path = a.to_path(1e-9 * mag(x));
    let w = a.winding(p);
    // the half-open rule, stated directly
    let inside = a.x0.min(a.x1) <= p.x && p.x < a.x0.max(a.x1) && a.y0.min(a.y1) <= p.y && p.y < a.y0.max(a.y1);
    // sign of the signed area, without forming the product (which underflows at the small end of the sweep)
    let sign = if (a.x1 - a.x0).signum() * (a.y1 - a.y0).signum() > 0.0 { 1 } else { -1 };
    let want = if inside { sign } else { 0 };
    if w != want {
        return fail("rect-winding:half-open-rule", format!("{:?}.winding({:?}) = {}, half-open rule gives {}", a, p, w, want));
    }
    if a.contains(p) != (x[0] <= p.x && p.x < x[2] && x[1] <= p.y && p.y < x[3]) {
        return fail("rect-contains", format!("{:?}.contains({:?})", a, p));
    }
    // against the outline: every point when all coordinates are on the grid (exact), else off the boundary
    let sc = extent(a.abs());
    let d = (p.x - a.x0).abs().min((p.x - a.x1).abs()).min((p.y - a.y0).abs()).min((p.y - a.y1).abs());
    if common_grid(x) || d > 1e-9 * sc {
        let pw = path.winding(p);
        if pw != w {
            return fail("rect-winding:outline", format!("{:?}.winding({:?}) = {}, its outline gives {}", a, p, w, pw));
        }
    }
    if a.bounding_box() != path.bounding_box() || a.bounding_box() != a.abs() {
        return fail("rect:bounding-box", format!("{:?}: {:?} vs outline {:?}", a, a.bounding_box(), path.bounding_box()));
    }
    scalar_queries("rect", &a, &path, Some(sign as f64))
}

/// 3x3 tiling by rectangles sharing edges, each tile in an arbitrary corner order
fn g_tiling(r: &mut Rng) -> Vec<f64> {
    let mut xs: Vec<f64> = (0..4).map(|_| if r.chance(1, 2) { half(r) } else { r.coord() }).collect();
    let mut ys: Vec<f64> = (0..4).map(|_| if r.chance(1, 2) { half(r) } else { r.coord() }).collect();
    xs.sort_by(|a, b| a.partial_cmp(b).unwrap());
    ys.sort_by(|a, b| a.partial_cmp(b).unwrap());
    let p = match r.below(3) {
        0 => (*r.pick(&xs), *r.pick(&ys)),
        1 => (*r.pick(&xs), r.uniform(ys[0] - 1.0, ys[3] + 1.0)),
        _ => (r.uniform(xs[0] - 1.0, xs[3] + 1.0), r.uniform(ys[0] - 1.0, ys[3] + 1.0)),
    };
    let flips = r.below(1 << 18) as f64;
    let mut v = xs;
    v.extend(ys);
    v.extend([p.0, p.1, flips]);
    v
}
fn law_tiling(x: &[f64]) -> Option<(String, String)> {
    let (xs, ys) = (&x[0..4], &x[4..8]);
    let p = Point::new(x[8], x[9]);
    let flips = x[10] as u64;
    let mut hits = Vec::new();
    for i in 0..3 {
        for j in 0..3 {
            let k = 2 * (3 * i + j);
            let (fx, fy) = ((flips >> k) & 1 == 1, (flips >> (k + 1)) & 1 == 1);
            let (x0, x1) = if fx { (xs[i + 1], xs[i]) } else { (xs[i], xs[i + 1]) };
            let (y0, y1) = if fy { (ys[j + 1], ys[j]) } else { (ys[j], ys[j + 1]) };
            let t = Rect::new(x0, y0, x1, y1);
            if t.winding(p) != 0 {
                hits.push(t);
            }
            if (t.winding(p) != 0) != Shape::contains(&t, p) && !(fx || fy) {
                return fail("rect-tiling:contains-vs-winding", format!("{:?} {:?}", t, p));
            }
        }
    }
    let covered = xs[0] <= p.x && p.x < xs[3] && ys[0] <= p.y && p.y < ys[3];
    if hits.len() != covered as usize {
        return fail("rect-tiling", format!("point {:?} of the grid xs={:?} ys={:?} lies in {} tiles: {:?}", p, xs, ys, hits.len(), hits));
    }
    None
}

// --- RoundedRect
fn rr_sdf(rr: &RoundedRect, p: Point) -> f64 {
    let rect = rr.rect();
    let q = rr.radii();
    let c = Point::new(0.5 * (rect.x0 + rect.x1), 0.5 * (rect.y0 + rect.y1));
    let (x, y) = (p.x - c.x, p.y - c.y);
    let rad = if x < 0.0 {
        if y < 0.0 { q.top_left } else { q.bottom_left }
    } else if y < 0.0 {
        q.top_right
    } else {
        q.bottom_right
    };
    let qx = x.abs() - (rect.width() / 2.0 - rad);
    let qy = y.abs() - (rect.height() / 2.0 - rad);
    qx.max(qy).min(0.0) + (qx.max(0.0).powi(2) + qy.max(0.0).powi(2)).sqrt() - rad
}
fn g_rr_pt(r: &mut Rng) -> Vec<f64> {
    let rect = loop {
        let a = g_rect(r);
        if a.width().abs() > 1e-2 && a.height().abs() > 1e-2 && extent(a.abs()) < 200.0 {
            break a;
        }
    };
    let a8 = cat(&rv(rect), &g_radii(r, rect));
    let p = rr_point(r, &rr_of(&a8));
    cat(&a8, &[p.x, p.y])
}
fn law_rounded_rect(x: &[f64]) -> Option<(String, String)> {
    let rr = rr_of(x);
    let p = Point::new(x[8], x[9]);
    let rect = rr.rect();
    let q = rr.radii();
    // clamping: non-negative extents, 0 <= r <= half the shorter side, |r| kept when it fits
    let m = rect.width().min(rect.height()) / 2.0;
    let got = [q.top_left, q.top_right, q.bottom_right, q.bottom_left];
    if rect != Rect::new(x[0], x[1], x[2], x[3]).abs() {
        return fail("rounded-rect:clamp", format!("rect {:?}", rect));
    }
    for k in 0..4 {
        if got[k] != x[4 + k].abs().min(m) {
            return fail("rounded-rect:clamp", format!("radius {} of {:?}: {} for requested {} (half shorter side {})", k, rect, got[k], x[4 + k], m));
        }
    }
    let sc = extent(rect);
    let path = rr.to_path(1e-9 * sc);
    let d = rr_sdf(&rr, p);
    if d.abs() > 1e-6 * sc {
        let w = rr.winding(p);
        let pw = path_winding_off_vertex_rows(&path, p, sc).unwrap_or(w);
        if w != pw {
            return fail("rounded-rect-winding:outline", format!("{:?}.winding({:?}) = {}, its outline gives {}", rr, p, w, pw));
        }
        if (w != 0) != (d < 0.0) {
            return fail("rounded-rect-winding:region", format!("{:?}.winding({:?}) = {}, signed distance to the rounded box {}", rr, p, w, d));
        }
    }
    // closed forms, stated independently
    let area = rect.width() * rect.height() - got.iter().map(|r| (1.0 - PI / 4.0) * r * r).sum::<f64>();
    let peri = 2.0 * (rect.width() + rect.height()) - got.iter().map(|r| (2.0 - PI / 2.0) * r).sum::<f64>();
    if !close(rr.area(), area, 1e-9 * sc * sc) {
        return fail("rounded-rect:area", format!("{:?}: {} vs {}", rr, rr.area(), area));
    }
    if !close(rr.perimeter(1e-9 * sc), peri, 1e-9 * sc) {
        return fail("rounded-rect:perimeter", format!("{:?}: {} vs {}", rr, rr.perimeter(1e-9 * sc), peri));
    }
    if rr.bounding_box() != rect {
        return fail("rounded-rect:bounding-box", format!("{:?}", rr));
    }
    scalar_queries("rounded-rect", &rr, &path, Some(1.0))
}

// --- Circle
fn g_circle_pt(r: &mut Rng) -> Vec<f64> {
    let rad = r.generic(-6, 6);
    let (cx, cy) = (r.uniform(-50.0, 50.0), r.uniform(-50.0, 50.0));
    let (th, f) = (r.uniform(0.0, 2.0 * PI), *r.pick(&[0.0, 0.3, 0.9, 0.999, 1.001, 1.1, 3.0]));
    vec![cx, cy, rad, cx + f * rad * th.cos(), cy + f * rad * th.sin()]
}
fn law_circle(x: &[f64]) -> Option<(String, String)> {
    let c = Circle::new((x[0], x[1]), x[2]);
    let p = Point::new(x[3], x[4]);
    let path = c.to_path(1e-9 * mag(&x[0..3]));
    let rho = ((p.x - x[0]).powi(2) + (p.y - x[1]).powi(2)).sqrt();
    let r = x[2].abs();
    if (rho - r).abs() > 1e-6 * r {
        let w = c.winding(p);
        let pw = path_winding_off_vertex_rows(&path, p, mag(&x[0..3])).unwrap_or(w);
        if w != pw || (w != 0) != (rho < r) || w < 0 {
            return fail("circle-winding", format!("{:?}.winding({:?}) = {}, outline {}, distance {} radius {}", c, p, w, pw, rho, r));
        }
    }
    let bb = c.bounding_box();
    if bb != Rect::new(x[0] - r, x[1] - r, x[0] + r, x[1] + r) {
        return fail("circle:bounding-box", format!("{:?}: {:?}", c, bb));
    }
    if !close(c.area(), PI * r * r, 1e-12 * r * r) || !close(c.perimeter(1e-9 * r), 2.0 * PI * r, 1e-12 * r) {
        return fail("circle:area-perimeter", format!("{:?}: {} {}", c, c.area(), c.perimeter(1e-9 * r)));
    }
    scalar_queries("circle", &c, &path, Some(1.0))
}

// --- CircleSegment: 0 <= inner <= outer, any start angle, sweep in (0, 2pi]
fn g_cseg_pt(r: &mut Rng) -> Vec<f64> {
    let outer = r.generic(-4, 5).abs();
    let inner = if r.chance(1, 6) { 0.0 } else { outer * r.uniform(0.0, 0.95) };
    let start = if r.chance(1, 4) { r.range_i(-12, 12) as f64 / 2.0 } else { r.uniform(-10.0, 10.0) };
    let sweep = if r.chance(1, 8) { 2.0 * PI } else { r.uniform(0.05, 2.0 * PI) };
    let (cx, cy) = (r.uniform(-50.0, 50.0), r.uniform(-50.0, 50.0));
    // points mostly inside the angular range and the band, so that the interesting case is frequent
    let th = if r.chance(2, 3) { start + sweep * r.uniform(0.02, 0.98) } else { r.uniform(-10.0, 10.0) };
    let rho = if r.chance(2, 3) { inner + (outer - inner) * r.uniform(0.02, 0.98) } else { outer * r.uniform(0.0, 1.5) };
    vec![cx, cy, outer, inner, start, sweep, cx + rho * th.cos(), cy + rho * th.sin()]
}
fn law_circle_segment(x: &[f64]) -> Option<(String, String)> {
    let (outer, inner, start, sweep) = (x[2], x[3], x[4], x[5]);
    let cs = CircleSegment::new((x[0], x[1]), outer, inner, start, sweep);
    let p = Point::new(x[6], x[7]);
    let path = cs.to_path(1e-9 * mag(&x[0..4]));
    let (dx, dy) = (p.x - x[0], p.y - x[1]);
    let rho = (dx * dx + dy * dy).sqrt();
    let rel = (dy.atan2(dx) - start).rem_euclid(2.0 * PI); // angle from the start ray, in [0, 2pi)
    let tol = 1e-6 * outer;
    // distance to the two arcs and (when the sweep is not the full turn) to the two rays
    let near_arc = (rho - outer).abs() < tol || (rho - inner).abs() < tol;
    let near_ray = rho * (rel.min(2.0 * PI - rel)).min((rel - sweep).abs()).sin().abs() < tol || (rel - sweep).abs() < 1e-6 || rel < 1e-6 || 2.0 * PI - rel < 1e-6;
    if !near_arc && !near_ray && rho > tol {
        let inside = inner < rho && rho < outer && rel < sweep;
        let w = cs.winding(p);
        let pw = path_winding_off_vertex_rows(&path, p, mag(&x[0..4])).unwrap_or(w);
        if w != pw || (w != 0) != inside {
            let leaves = start + sweep > PI || start < -PI;
            return fail(
                if leaves { "circle-segment-winding:angle-range" } else { "circle-segment-winding" },
                format!("{:?}.winding({:?}) = {}, its outline gives {}, point at radius {} and angle start+{} (sweep {})", cs, p, w, pw, rho, rel, sweep),
            );
        }
    }
    let area = 0.5 * (outer * outer - inner * inner) * sweep;
    let peri = 2.0 * (outer - inner) + sweep * (outer + inner);
    if !close(cs.area(), area, 1e-12 * outer * outer * 8.0) || !close(cs.perimeter(1e-9 * outer), peri, 1e-12 * outer * 16.0) {
        return fail("circle-segment:area-perimeter", format!("{:?}: area {} (want {}), perimeter {} (want {})", cs, cs.area(), area, cs.perimeter(1e-9 * outer), peri));
    }
    let sc = extent(path.bounding_box());
    if !close(cs.area(), path.area(), 1e-6 * sc * sc) {
        return fail("circle-segment:area", format!("{:?}: closed form {}, outline {}", cs, cs.area(), path.area()));
    }
    if !close(cs.perimeter(1e-9 * sc), path.perimeter(1e-9 * sc), 1e-6 * sc) {
        return fail("circle-segment:perimeter", format!("{:?}: closed form {}, outline {}", cs, cs.perimeter(1e-9 * sc), path.perimeter(1e-9 * sc)));
    }
    // the bounding box is documented as not tight: it must contain the outline's
    let (bb, pb) = (cs.bounding_box(), path.bounding_box());
    if !(bb.x0 <= pb.x0 + 1e-7 * sc && bb.y0 <= pb.y0 + 1e-7 * sc && bb.x1 >= pb.x1 - 1e-7 * sc && bb.y1 >= pb.y1 - 1e-7 * sc) {
        return fail("circle-segment:bounding-box", format!("{:?}: {:?} does not contain the outline's {:?}", cs, bb, pb));
    }
    None
}

// --- Ellipse
fn g_ellipse_new(r: &mut Rng) -> Vec<f64> {
    let rx = r.generic(-3, 4);
    let ry = if r.chance(1, 8) { rx } else { rx.abs() * 10f64.powf(r.uniform(-1.5, 1.5)) * if r.bool() { 1.0 } else { -1.0 } };
    let th = if r.chance(1, 4) { *r.pick(&[0.0, PI / 2.0, PI, -PI / 2.0, PI / 4.0]) } else { r.uniform(-7.0, 7.0) };
    let (rho, phi) = (*r.pick(&[0.0, 0.4, 0.9, 0.999, 1.001, 1.1, 2.0]), r.uniform(0.0, 2.0 * PI));
    vec![r.uniform(-50.0, 50.0), r.uniform(-50.0, 50.0), rx, ry, th, rho * phi.cos(), rho * phi.sin()]
}
fn ellipse_common(name: &str, e: &Ellipse, m: [f64; 6], u: f64, v: f64) -> Option<(String, String)> {
    // m: the affine map the ellipse is the image of the unit circle under (independently computed)
    let p = Point::new(m[0] * u + m[2] * v + m[4], m[1] * u + m[3] * v + m[5]);
    let path = e.to_path(1e-9 * mag(&m));
    let n2 = u * u + v * v;
    if (n2 - 1.0).abs() > 1e-5 {
        let w = e.winding(p);
        let pw = path_winding_off_vertex_rows(&path, p, extent(path.bounding_box())).unwrap_or(w);
        if w != pw || (w != 0) != (n2 < 1.0) || w < 0 {
            return fail(&format!("{}-winding", name), format!("{:?}.winding({:?}) = {}, outline {}, preimage at radius^2 {}", e, p, w, pw, n2));
        }
    }
    let det = (m[0] * m[3] - m[1] * m[2]).abs();
    let sc = extent(path.bounding_box());
    if !close(e.area(), PI * det, 1e-9 * sc * sc) {
        return fail(&format!("{}:area", name), format!("{:?}: {} vs pi |det| = {}", e, e.area(), PI * det));
    }
    let (hx, hy) = ((m[0] * m[0] + m[2] * m[2]).sqrt(), (m[1] * m[1] + m[3] * m[3]).sqrt());
    if !rect_close(e.bounding_box(), Rect::new(m[4] - hx, m[5] - hy, m[4] + hx, m[5] + hy), 1e-9 * sc) {
        return fail(&format!("{}:bounding-box", name), format!("{:?}: {:?}", e, e.bounding_box()));
    }
    scalar_queries(name, e, &path, Some(1.0))
}
fn law_ellipse_new(x: &[f64]) -> Option<(String, String)> {
    let e = Ellipse::new((x[0], x[1]), (x[2], x[3]), x[4]);
    let (s, c) = x[4].sin_cos();
    let (rx, ry) = (x[2].abs(), x[3].abs());
    ellipse_common("ellipse", &e, [c * rx, s * rx, -s * ry, c * ry, x[0], x[1]], x[5], x[6])
}
fn g_ellipse_affine(r: &mut Rng) -> Vec<f64> {
    let m = g_affine_regular(r);
    let (rho, phi) = (*r.pick(&[0.0, 0.4, 0.9, 0.999, 1.001, 1.1, 2.0]), r.uniform(0.0, 2.0 * PI));
    cat(&m, &[rho * phi.cos(), rho * phi.sin()])
}
fn law_ellipse_affine(x: &[f64]) -> Option<(String, String)> {
    let m = [x[0], x[1], x[2], x[3], x[4], x[5]];
    let e = Ellipse::from_affine(Affine::new(m));
    ellipse_common("ellipse-from-affine", &e, m, x[6], x[7])
}
/// perimeter to the requested accuracy: semi-axes (x, x/aspect), aspect 1..1e4, accuracy 1e-10..1
fn g_perimeter(r: &mut Rng) -> Vec<f64> {
    let x = 10f64.powf(r.uniform(-1.0, 1.0));
    let aspect = 10f64.powf(r.uniform(0.0, 4.0));
    let acc = 10f64.powf(-r.uniform(0.0, 10.0));
    vec![x, x / aspect, acc, r.below(2) as f64]
}
fn law_perimeter(a: &[f64]) -> Option<(String, String)> {
    let (x, y, acc) = (a[0], a[1], a[2]);
    let e = if a[3] == 0.0 { Ellipse::new((0.0, 0.0), (x, y), 0.0) } else { Ellipse::from_affine(Affine::new([0.0, y, -x, 0.0, 3.0, -1.0])) };
    let p = e.perimeter(acc);
    let want = ref_perimeter(x, y);
    // the double-double reference is good to ~1e-30; allow the implementation 64 ulps of its own rounding
    let slack = 64.0 * f64::EPSILON * want;
    let err = (p - want).abs();
    if !(err <= acc * (1.0 + 1e-9) + slack) {
        return fail(
            "ellipse-perimeter:accuracy",
            format!("Ellipse radii ({}, {}) (aspect {:.1}): perimeter({:e}) = {}, true value {}: error {:e} = {:.4} x requested accuracy", x, y, x / y, acc, p, want, err, err / acc),
        );
    }
    None
}

// --- Triangle
fn g_tri_pt(r: &mut Rng) -> Vec<f64> {
    let t6 = loop {
        let t6 = if r.chance(1, 3) { [half(r), half(r), half(r), half(r), half(r), half(r)] } else { [r.uniform(-50.0, 50.0), r.uniform(-50.0, 50.0), r.uniform(-50.0, 50.0), r.uniform(-50.0, 50.0), r.uniform(-50.0, 50.0), r.uniform(-50.0, 50.0)] };
        let t = tri_of(&t6);
        let d = [t.a.distance(t.b), t.b.distance(t.c), t.c.distance(t.a)];
        let longest = d.iter().cloned().fold(0.0, f64::max);
        // well-shaped: height over the longest side at least 1% of it
        if longest > 0.0 && 2.0 * Triangle::area(&t).abs() / longest > 0.01 * longest {
            break t6;
        }
    };
    let t = tri_of(&t6);
    let p = match r.below(4) {
        0 => Point::new(half(r), half(r)),
        1 => {
            // near a vertex / an edge, off it
            let (u, v) = (*r.pick(&[0.0, 1.0, 0.5]), *r.pick(&[0.0, 0.01, -0.01, 1.0]));
            Point::new(t.a.x + u * (t.b.x - t.a.x) + v * (t.c.x - t.a.x), t.a.y + u * (t.b.y - t.a.y) + v * (t.c.y - t.a.y))
        }
        _ => {
            let bb = t.bounding_box();
            Point::new(r.uniform(bb.x0 - 1.0, bb.x1 + 1.0), r.uniform(bb.y0 - 1.0, bb.y1 + 1.0))
        }
    };
    cat(&t6, &[p.x, p.y])
}
fn seg_dist(a: Point, b: Point, p: Point) -> f64 {
    let (d, v) = (b - a, p - a);
    let l2 = d.hypot2();
    let t = if l2 > 0.0 { (v.dot(d) / l2).clamp(0.0, 1.0) } else { 0.0 };
    (p - (a + t * d)).hypot()
}
fn law_triangle(x: &[f64]) -> Option<(String, String)> {
    let t = tri_of(x);
    let p = Point::new(x[6], x[7]);
    let path = t.to_path(1e-9 * mag(x));
    let bb = t.bounding_box();
    let sc = extent(bb);
    let d = seg_dist(t.a, t.b, p).min(seg_dist(t.b, t.c, p)).min(seg_dist(t.c, t.a, p));
    let area = 0.5 * ((t.b.x - t.a.x) * (t.c.y - t.a.y) - (t.b.y - t.a.y) * (t.c.x - t.a.x));
    if d > 1e-7 * sc {
        let w = t.winding(p);
        let pw = if common_grid(x) { path.winding(p) } else { path_winding_off_vertex_rows(&path, p, sc).unwrap_or(w) };
        // barycentric coordinates, independently
        let l1 = 0.5 * ((t.b.x - p.x) * (t.c.y - p.y) - (t.b.y - p.y) * (t.c.x - p.x)) / area;
        let l2 = 0.5 * ((t.c.x - p.x) * (t.a.y - p.y) - (t.c.y - p.y) * (t.a.x - p.x)) / area;
        let l3 = 1.0 - l1 - l2;
        let inside = l1 > 0.0 && l2 > 0.0 && l3 > 0.0;
        let want = if inside { if area > 0.0 { 1 } else { -1 } } else { 0 };
        if w != pw || w != want {
            return fail("triangle-winding", format!("{:?}.winding({:?}) = {}, its outline gives {}, barycentric test {}", t, p, w, pw, want));
        }
    }
    if bb != Rect::new(x[0].min(x[2]).min(x[4]), x[1].min(x[3]).min(x[5]), x[0].max(x[2]).max(x[4]), x[1].max(x[3]).max(x[5])) || bb != path.bounding_box() {
        return fail("triangle:bounding-box", format!("{:?}: {:?}, outline {:?}", t, bb, path.bounding_box()));
    }
    if !close(Shape::area(&t), area, 1e-12 * sc * sc) {
        return fail("triangle:area", format!("{:?}: {} vs {}", t, Shape::area(&t), area));
    }
    scalar_queries("triangle", &t, &path, Some(area.signum()))
}
/// zero-area triangles (all vertices equal, or collinear), grid coordinates: the outline winds around nothing
fn g_tri_degenerate(r: &mut Rng) -> Vec<f64> {
    let (x, y) = (half(r), half(r));
    let (dx, dy) = (r.range_i(-3, 3) as f64, r.range_i(-3, 3) as f64);
    let (s, t) = if r.chance(1, 3) { (0.0, 0.0) } else { (r.range_i(-3, 3) as f64, r.range_i(-3, 3) as f64) };
    let p = if r.chance(1, 2) { (x + r.range_i(-5, 5) as f64 * dx / 2.0, y + r.range_i(-5, 5) as f64 * dy / 2.0) } else { (half(r), half(r)) };
    vec![x, y, x + s * dx, y + s * dy, x + t * dx, y + t * dy, p.0, p.1]
}
fn law_triangle_degenerate(x: &[f64]) -> Option<(String, String)> {
    let t = tri_of(x);
    let p = Point::new(x[6], x[7]);
    if Triangle::area(&t) != 0.0 {
        return None;
    }
    let d = seg_dist(t.a, t.b, p).min(seg_dist(t.b, t.c, p)).min(seg_dist(t.c, t.a, p));
    if d == 0.0 {
        return None; // on the boundary
    }
    let (w, pw) = (t.winding(p), t.to_path(1e-9).winding(p));
    if w != pw {
        return fail("triangle-winding:degenerate", format!("zero-area {:?}: winding({:?}) = {}, its outline gives {}", t, p, w, pw));
    }
    None
}

// --- Line
fn g_line(r: &mut Rng) -> Vec<f64> {
    vec![r.coord(), r.coord(), r.coord(), r.coord(), r.coord(), r.coord()]
}
fn law_line(x: &[f64]) -> Option<(String, String)> {
    let l = Line::new((x[0], x[1]), (x[2], x[3]));
    let p = Point::new(x[4], x[5]);
    let path = l.to_path(1e-9);
    let bb = l.bounding_box();
    if bb != Rect::new(x[0].min(x[2]), x[1].min(x[3]), x[0].max(x[2]), x[1].max(x[3])) || bb != path.bounding_box() {
        return fail("line:bounding-box", format!("{:?}: {:?}", l, bb));
    }
    let len = (x[2] - x[0]).hypot(x[3] - x[1]);
    if l.area() != 0.0 || l.winding(p) != 0 || !close(l.perimeter(1e-9 * len), len, 1e-12 * len.max(f64::MIN_POSITIVE)) {
        return fail("line:area-winding-perimeter", format!("{:?}: area {} winding {} perimeter {}", l, l.area(), l.winding(p), l.perimeter(1e-9)));
    }
    None
}

// every law generator: the unit-scale configuration above, then the scale sweep over its lengths (not its angles,
// unit-disc coordinates or flags)
/// Rect::winding alone, at scales where the product of the extents underflows or overflows: the closed form only
/// compares coordinates, so the half-open rule and the orientation sign (sign of (x1-x0)*(y1-y0) decided from the
/// corner ORDER, not from a product) must hold for every finite rectangle.
fn law_rect_winding_extreme(a: &[f64]) -> Option<(String, String)> {
    let rect = Rect::new(a[0], a[1], a[2], a[3]);
    let p = Point::new(a[4], a[5]);
    let (xmin, xmax) = (a[0].min(a[2]), a[0].max(a[2]));
    let (ymin, ymax) = (a[1].min(a[3]), a[1].max(a[3]));
    let inside = p.x >= xmin && p.x < xmax && p.y >= ymin && p.y < ymax;
    let flipped = (a[2] < a[0]) != (a[3] < a[1]);
    let want = if inside { if flipped { -1 } else { 1 } } else { 0 };
    let got = Shape::winding(&rect, p);
    if got != want {
        return fail("rect-winding:extreme-scale", format!("{:?} at {:?}: winding {} but the half-open rule with orientation from the corner order gives {}", rect, p, got, want));
    }
    None
}
fn gs_rect_extreme(r: &mut Rng) -> Vec<f64> {
    let mut v = g_rect_pt(r);
    v.truncate(6);
    let k = if r.chance(2, 3) { r.range_i(-W_RECT - 80, -W_RECT + 10) } else { r.range_i(W_POLY, W_RECT - 40) };
    let s = pow2(k);
    for x in v.iter_mut() {
        *x *= s;
    }
    v
}
fn gs_rect_pt(r: &mut Rng) -> Vec<f64> {
    let v = g_rect_pt(r);
    scale_args(r, v, 0..6, W_POLY)
}
fn gs_tiling(r: &mut Rng) -> Vec<f64> {
    let v = g_tiling(r);
    scale_args(r, v, 0..10, W_POLY)
}
fn gs_rr_pt(r: &mut Rng) -> Vec<f64> {
    let v = g_rr_pt(r);
    scale_args(r, v, 0..10, W_ROUND)
}
fn gs_circle_pt(r: &mut Rng) -> Vec<f64> {
    let v = g_circle_pt(r);
    scale_args(r, v, 0..5, W_ROUND)
}
fn gs_cseg_pt(r: &mut Rng) -> Vec<f64> {
    let mut v = g_cseg_pt(r);
    let s = g_scale(r, W_ROUND);
    for i in [0, 1, 2, 3, 6, 7] {
        v[i] *= s;
    }
    v
}
fn gs_ellipse_new(r: &mut Rng) -> Vec<f64> {
    let v = g_ellipse_new(r);
    scale_args(r, v, 0..4, W_ELL)
}
fn gs_ellipse_affine(r: &mut Rng) -> Vec<f64> {
    let v = g_ellipse_affine(r);
    scale_args(r, v, 0..6, W_ELL)
}
fn gs_perimeter(r: &mut Rng) -> Vec<f64> {
    let v = g_perimeter(r);
    scale_args(r, v, 0..3, W_ELL)
}
fn gs_tri_pt(r: &mut Rng) -> Vec<f64> {
    let v = g_tri_pt(r);
    scale_args(r, v, 0..8, W_POLY)
}
fn gs_tri_degenerate(r: &mut Rng) -> Vec<f64> {
    let v = g_tri_degenerate(r);
    scale_args(r, v, 0..8, W_POLY)
}
fn gs_line(r: &mut Rng) -> Vec<f64> {
    let v = g_line(r);
    scale_args(r, v, 0..6, W_POLY)
}

fn laws() -> Vec<Law> {
    vec![
        Law { name: "rect_vs_outline", gen: gs_rect_pt, check: law_rect, weight: 3 },
        Law { name: "rect_winding_extreme_scale", gen: gs_rect_extreme, check: law_rect_winding_extreme, weight: 1 },
        Law { name: "rect_tiling", gen: gs_tiling, check: law_tiling, weight: 3 },
        Law { name: "rounded_rect_vs_outline", gen: gs_rr_pt, check: law_rounded_rect, weight: 4 },
        Law { name: "circle_vs_outline", gen: gs_circle_pt, check: law_circle, weight: 1 },
        Law { name: "circle_segment_vs_outline", gen: gs_cseg_pt, check: law_circle_segment, weight: 2 },
        Law { name: "ellipse_new_vs_outline", gen: gs_ellipse_new, check: law_ellipse_new, weight: 1 },
        Law { name: "ellipse_affine_vs_outline", gen: gs_ellipse_affine, check: law_ellipse_affine, weight: 1 },
        Law { name: "ellipse_perimeter_accuracy", gen: gs_perimeter, check: law_perimeter, weight: 8 },
        Law { name: "triangle_vs_outline", gen: gs_tri_pt, check: law_triangle, weight: 3 },
        Law { name: "triangle_degenerate", gen: gs_tri_degenerate, check: law_triangle_degenerate, weight: 1 },
        Law { name: "line_shape", gen: gs_line, check: law_line, weight: 1 },
    ]
}

// ------------------------------------------------------------------ extra: sweeps

fn extra(_r: &mut Rng, thorough: bool, o: &mut Out) {
    let run = |name: &str, f: fn(&[f64]) -> Option<(String, String)>, args: &[f64], o: &mut Out| {
        o.oracle_eval(name);
        if let Some((class, desc)) = f(args) {
            o.violation(&class, desc, format!("{{\"law\":{},\"args\":{}}}", json_str(name), fmt_fs(args)));
        }
    };
    // the reference is itself checked: against the plain-f64 AGM and against tabulated values
    for (x, y, want) in [(1.0, 1.0, 2.0 * PI), (0.5, 1.0, 4.844_224_110_273_838), (0.001, 1.0, 4.000_015_588_104_688), (3.0, 3.0, 6.0 * PI)] {
        let got = ref_perimeter(x, y);
        o.oracle_eval("reference-selfcheck");
        let tol = 4e-15 * want;
        if !close(got, want, tol) || !close(got, ref_perimeter_f64(x, y), 1e-13 * want) {
            o.violation("oracle-selfcheck", format!("reference perimeter({}, {}) = {} / {} (tabulated {})", x, y, got, ref_perimeter_f64(x, y), want), "{}".into());
        }
    }
    // every rectangle on a small half-integer grid (any corner order) x every grid point: closed form = outline
    let g: Vec<f64> = (-3..=3).map(|k| k as f64 / 2.0).collect();
    let gp: Vec<f64> = (-4..=4).map(|k| k as f64 / 2.0).collect();
    let mut n = 0u64;
    let xs: Vec<f64> = if thorough { g.clone() } else { vec![-1.5, -0.5, 0.0, 1.0] };
    for &x0 in &xs {
        for &y0 in &xs {
            for &x1 in &xs {
                for &y1 in &xs {
                    for &px in &gp {
                        for &py in &gp {
                            if !thorough && ((px * 2.0) as i64 + (py * 2.0) as i64) % 2 != 0 {
                                continue;
                            }
                            run("rect_vs_outline", law_rect, &[x0, y0, x1, y1, px, py], o);
                            n += 1;
                            // the same configuration far down and far up the scale sweep (exact scaling)
                            if !thorough || n % 7 == 0 {
                                for s in [pow2(-300), pow2(-40), pow2(90)] {
                                    run("rect_vs_outline", law_rect, &scaled(&[x0, y0, x1, y1, px, py], s), o);
                                }
                            }
                        }
                    }
                }
            }
        }
    }
    // every 3x3 tiling over sorted triples of cut positions with repeated cuts, every grid point, a few flip patterns
    let cuts: Vec<f64> = vec![-1.0, -0.5, 0.0, 0.5, 1.5];
    let mut m = 0u64;
    for a in 0..cuts.len() {
        for b in a..cuts.len() {
            for c in b..cuts.len() {
                for d in c..cuts.len() {
                    let xs = [cuts[a], cuts[b], cuts[c], cuts[d]];
                    for &px in &gp {
                        for &py in &[-1.0, -0.5, 0.25, 1.5, 2.0] {
                            for flips in [0.0, 87381.0, 174762.0, 262143.0, 39321.0] {
                                let mut v = xs.to_vec();
                                v.extend([-1.0, -0.5, 0.5, 1.5, px, py, flips]);
                                run("rect_tiling", law_tiling, &v, o);
                                // transposed
                                let mut v = vec![-1.0, -0.5, 0.5, 1.5];
                                v.extend(xs);
                                v.extend([py, px, flips]);
                                run("rect_tiling", law_tiling, &v, o);
                                m += 1;
                            }
                        }
                    }
                }
            }
        }
    }
    // perimeter accuracy on a regular (aspect, accuracy) lattice
    let (na, nc) = if thorough { (160, 50) } else { (40, 20) };
    for ia in 0..=na {
        let aspect = 10f64.powf(4.0 * ia as f64 / na as f64);
        for ic in 0..=nc {
            let acc = 10f64.powf(-10.0 * ic as f64 / nc as f64);
            for x in [0.3, 1.0, 7.0, 7.0 * pow2(-50), 0.3 * pow2(70)] {
                run("ellipse_perimeter_accuracy", law_perimeter, &[x, x / aspect, acc * if x < 1e-9 { pow2(-50) } else if x > 1e9 { pow2(70) } else { 1.0 }, (ia % 2) as f64], o);
            }
        }
    }
    // the three defects of the pinned tree, replayed on their witnesses (reported as KNOWN-FINDING only if
    // known_findings.txt lists the id; otherwise the laws above report them as violations)
    reset_fail_counts();
    let w1 = [0.0, 0.0, 2.0, 1.0, 2.5, 1.5, 1.5 * 3.25f64.cos(), 1.5 * 3.25f64.sin()];
    o.known(
        "C11-circle-segment-winding",
        law_circle_segment(&w1).is_some(),
        "CircleSegment::new((0,0), 2, 1, 2.5, 1.5).winding(point at radius 1.5, angle 3.25) = 0, the outline gives 1 (angular range leaves (-pi, pi])".into(),
    );
    let w2 = [30.199517204020164, 0.1, 0.07943282347242814, 0.0];
    o.known(
        "C11-ellipse-perimeter-agm",
        law_perimeter(&w2).is_some(),
        "Ellipse::new((0,0), (30.1995, 0.1), 0).perimeter(0.0794) misses the true perimeter by 1.086 x the requested accuracy".into(),
    );
    let w3 = [0.0, 0.0, 0.0, 0.0, 0.0, 0.0, 5.0, 5.0];
    o.known(
        "C11-triangle-degenerate-winding",
        law_triangle_degenerate(&w3).is_some(),
        "Triangle::ZERO.winding((5,5)) = 1, the outline gives 0".into(),
    );
    o.notes.push(format!("exhaustive sweeps: {} rectangle x point configurations against the outline, {} tilings x points", n, 2 * m));
}
