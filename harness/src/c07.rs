//! C07 — element and segment views of a path are coherent.
//!
//! Correspondence: the views of an element list (segments, Shape::path_segments, get_seg at every
//! index, reverse_subpaths, from_path_segments) and of builder histories, one case per list with
//! all observations concatenated (coq/corr/C07_corr.v). Laws: the property's claims checked on the
//! implementation against an independent reference written here (`ref_outs`, `chunks`).
use crate::geom::*;
use crate::util::{Out, Rng};
use crate::{Law, Prop};
use kurbo::{BezPath, Line, PathEl, PathSeg, Point, Shape};
use std::panic::{catch_unwind, AssertUnwindSafe};

pub fn prop() -> Prop {
    Prop { id: "C07", corr, laws, extra, law_budget: (250, 5000) }
}

// ------------------------------------------------------------------ alphabet / enumeration

const PA: Point = Point::new(0.0, 0.0);
const PB: Point = Point::new(1.0, 2.0);
const PC: Point = Point::new(-3.0, 0.5);
const Q1: Point = Point::new(2.0, 3.0);
const C1: Point = Point::new(4.0, 5.0);
const C2: Point = Point::new(6.0, 7.0);

/// the 13 elements of the small-scope alphabet
fn alphabet() -> Vec<PathEl> {
    let mut v = Vec::new();
    for p in [PA, PB, PC] {
        v.push(PathEl::MoveTo(p));
    }
    for p in [PA, PB, PC] {
        v.push(PathEl::LineTo(p));
    }
    for p in [PA, PB, PC] {
        v.push(PathEl::QuadTo(Q1, p));
    }
    for p in [PA, PB, PC] {
        v.push(PathEl::CurveTo(C1, C2, p));
    }
    v.push(PathEl::ClosePath);
    v
}

/// all sequences `first ++ w`, |w| = k, over the alphabet
fn for_all_seqs(first: &[PathEl], k: usize, f: &mut dyn FnMut(&[PathEl])) {
    let al = alphabet();
    let n = al.len();
    let mut idx = vec![0usize; k];
    let mut els: Vec<PathEl> = first.to_vec();
    els.extend(std::iter::repeat(al[0]).take(k));
    loop {
        for (j, &i) in idx.iter().enumerate() {
            els[first.len() + j] = al[i];
        }
        f(&els);
        let mut j = k;
        loop {
            if j == 0 {
                return;
            }
            j -= 1;
            idx[j] += 1;
            if idx[j] < n {
                break;
            }
            idx[j] = 0;
        }
    }
}

/// a BezPath with exactly these elements (no debug assertion on the first element)
fn mk_path(els: &[PathEl]) -> BezPath {
    let mut p = BezPath::new();
    p.extend(els.iter().copied());
    p
}

// ------------------------------------------------------------------ observation encoders

fn enc_osegs(o: &Option<Vec<PathSeg>>) -> Vec<f64> {
    match o {
        None => vec![-1.0],
        Some(s) => {
            let mut v = vec![s.len() as f64];
            v.extend(enc_segs(s));
            v
        }
    }
}
fn enc_oels(o: &Option<Vec<PathEl>>) -> Vec<f64> {
    match o {
        None => vec![-1.0],
        Some(s) => {
            let mut v = vec![s.len() as f64];
            v.extend(enc_els(s));
            v
        }
    }
}
fn enc_oseg(o: &Option<PathSeg>) -> Vec<f64> {
    match o {
        None => vec![0.0],
        Some(s) => {
            let mut v = vec![1.0];
            v.extend(enc_seg(s));
            v
        }
    }
}

fn obs_segments(els: &[PathEl]) -> Option<Vec<PathSeg>> {
    let els = els.to_vec();
    catch_unwind(move || kurbo::segments(els.iter().copied()).collect::<Vec<_>>()).ok()
}
fn obs_bez_segments(p: &BezPath) -> Option<Vec<PathSeg>> {
    catch_unwind(AssertUnwindSafe(|| p.segments().collect::<Vec<_>>())).ok()
}
fn obs_shape_bez(p: &BezPath) -> Option<Vec<PathSeg>> {
    catch_unwind(AssertUnwindSafe(|| p.path_segments(0.1).collect::<Vec<_>>())).ok()
}
fn obs_shape_slice(els: &[PathEl]) -> Option<Vec<PathSeg>> {
    catch_unwind(AssertUnwindSafe(|| {
        let s: &[PathEl] = els;
        s.path_segments(0.1).collect::<Vec<_>>()
    }))
    .ok()
}
fn obs_all_get(p: &BezPath) -> Vec<f64> {
    let mut v = Vec::new();
    for i in 0..=p.elements().len() {
        v.extend(enc_oseg(&p.get_seg(i)));
    }
    v
}
fn obs_reverse(p: &BezPath) -> Option<Vec<PathEl>> {
    catch_unwind(AssertUnwindSafe(|| p.reverse_subpaths().elements().to_vec())).ok()
}
fn obs_rebuild(segs: &Option<Vec<PathSeg>>) -> Option<Vec<PathEl>> {
    segs.as_ref().map(|s| BezPath::from_path_segments(s.iter().copied()).elements().to_vec())
}

fn pinned_mode() -> bool {
    std::env::var("KV_C07_PINNED").map(|v| v == "1").unwrap_or(false)
}

/// branch labels of the modelled code reached by this element list (for the evidence)
fn branch_tags(els: &[PathEl]) -> Vec<&'static str> {
    let mut t = Vec::new();
    let n = els.len();
    let is_draw = |e: &PathEl| matches!(e, PathEl::LineTo(_) | PathEl::QuadTo(..) | PathEl::CurveTo(..));
    if let Some(outs) = ref_outs(els) {
        for (i, e) in els.iter().enumerate() {
            match e {
                PathEl::ClosePath => t.push(if outs[i].is_some() { "seg:close-line" } else { "seg:close-noline" }),
                PathEl::MoveTo(_) => t.push("seg:moveto"),
                PathEl::LineTo(_) => t.push("seg:line"),
                PathEl::QuadTo(..) => t.push("seg:quad"),
                PathEl::CurveTo(..) => t.push("seg:cubic"),
            }
            if i > 0 {
                if matches!(els[i - 1], PathEl::ClosePath) {
                    t.push(match e {
                        PathEl::ClosePath => "get_seg:close-after-close",
                        PathEl::MoveTo(_) => "get_seg:moveto-after-close",
                        _ => "get_seg:draw-after-close",
                    });
                } else if matches!(e, PathEl::ClosePath) {
                    // does an EARLIER MoveTo differ from last while the sub-path start equals it?
                    let last = els[i - 1].end_point().unwrap();
                    let mut starts = els[..i].iter().rev().filter_map(|x| if let PathEl::MoveTo(p) = x { Some(*p) } else { None });
                    if let Some(s0) = starts.next() {
                        if s0 == last && starts.any(|s| s != last) {
                            t.push("get_seg:degenerate-close-earlier-moveto");
                        }
                    }
                }
            }
        }
    } else {
        t.push("seg:panic-leading-closepath");
    }
    // reverse_subpaths branches
    let mut pending = false;
    let mut run = 0usize;
    for (i, e) in els.iter().enumerate() {
        match e {
            PathEl::MoveTo(_) => {
                if pending {
                    t.push("rev:moveto-pending");
                }
                if run > 0 {
                    t.push("rev:moveto-open-run");
                }
                pending = true;
                run = 0;
            }
            PathEl::ClosePath => {
                t.push(if run > 0 { "rev:close-run" } else { "rev:close-empty" });
                pending = false;
                run = 0;
            }
            _ => {
                if i > 0 {
                    run += 1;
                }
                pending = false;
            }
        }
    }
    if run > 0 {
        t.push("rev:end-open-run");
    } else if pending {
        t.push("rev:end-pending");
    } else {
        t.push("rev:end-nothing");
    }
    if n > 0 && !matches!(els[0], PathEl::MoveTo(_)) && is_draw(&els[0]) {
        t.push("first:draw");
    }
    t
}

fn bump(o: &mut Out, group: &'static str, tags: &[&'static str]) {
    let st = o.stats.entry(group).or_default();
    let mut seen: Vec<&str> = Vec::new();
    for t in tags {
        if !seen.contains(t) {
            seen.push(t);
            *st.tags.entry(t.to_string()).or_default() += 1;
        }
    }
}

/// one correspondence case for an element list
fn case_views(o: &mut Out, group: &'static str, els: &[PathEl]) {
    let pinned = pinned_mode();
    let args = enc_els(els);
    let p = mk_path(els);
    let segs = obs_segments(els);
    let nontrivial = segs.as_ref().map(|s| !s.is_empty()).unwrap_or(false);
    let tags = branch_tags(els);
    if matches!(els.first(), Some(PathEl::ClosePath)) {
        let mut exp = enc_osegs(&obs_bez_segments(&p));
        exp.extend(obs_all_get(&p));
        o.case(if pinned { 13 } else { 3 }, group, args, exp, true, "leading-closepath");
    } else {
        let mut exp = enc_osegs(&obs_bez_segments(&p));
        exp.extend(enc_osegs(&obs_shape_bez(&p)));
        exp.extend(enc_osegs(&obs_shape_slice(els)));
        exp.extend(obs_all_get(&p));
        exp.extend(enc_oels(&obs_reverse(&p)));
        exp.extend(enc_oels(&obs_rebuild(&segs)));
        o.case(if pinned { 11 } else { 1 }, group, args, exp, nontrivial, "");
    }
    bump(o, group, &tags);
}

// ------------------------------------------------------------------ random element lists

fn rand_point(r: &mut Rng, pool: &[Point]) -> Point {
    if r.chance(3, 5) {
        *r.pick(pool)
    } else {
        Point::new(r.coord(), r.coord())
    }
}

fn rand_els(r: &mut Rng, maxlen: usize, first_moveto: bool, special: bool) -> Vec<PathEl> {
    let mut pool: Vec<Point> = (0..3 + r.below(3)).map(|_| Point::new(r.generic(-3, 6), r.generic(-3, 6))).collect();
    if r.chance(1, 4) {
        pool.push(Point::new(0.0, 0.0));
    }
    if special {
        pool.push(Point::new(-0.0, 0.0));
        pool.push(Point::new(0.0, -0.0));
        if r.bool() {
            pool.push(Point::new(f64::NAN, 1.0));
        }
    }
    let n = 1 + r.below(maxlen as u64) as usize;
    let mut v = Vec::with_capacity(n);
    for i in 0..n {
        let k = if i == 0 && first_moveto { 0 } else { r.below(20) };
        let e = match k {
            0..=2 => PathEl::MoveTo(rand_point(r, &pool)),
            3..=5 => PathEl::ClosePath,
            6..=12 => PathEl::LineTo(rand_point(r, &pool)),
            13..=15 => PathEl::QuadTo(rand_point(r, &pool), rand_point(r, &pool)),
            _ => PathEl::CurveTo(rand_point(r, &pool), rand_point(r, &pool), rand_point(r, &pool)),
        };
        v.push(e);
    }
    v
}

// ------------------------------------------------------------------ builder histories

/// history encoding: 0 push el | 1 pop | 2 truncate n | 3 extend k el*k.
/// Keeps the documented precondition (a non-empty path begins with MoveTo), which `push` debug-asserts.
fn rand_history(r: &mut Rng, maxops: usize) -> Vec<f64> {
    let pool: Vec<Point> = (0..4).map(|_| Point::new(r.generic(-3, 6), r.generic(-3, 6))).collect();
    let mut h = Vec::new();
    let mut len = 0usize;
    let nops = 1 + r.below(maxops as u64) as usize;
    let rand_el = |r: &mut Rng, must_move: bool| -> PathEl {
        let k = if must_move { 0 } else { r.below(20) };
        match k {
            0..=2 => PathEl::MoveTo(rand_point(r, &pool)),
            3..=5 => PathEl::ClosePath,
            6..=12 => PathEl::LineTo(rand_point(r, &pool)),
            13..=15 => PathEl::QuadTo(rand_point(r, &pool), rand_point(r, &pool)),
            _ => PathEl::CurveTo(rand_point(r, &pool), rand_point(r, &pool), rand_point(r, &pool)),
        }
    };
    for _ in 0..nops {
        match r.below(10) {
            0..=4 => {
                let e = rand_el(r, len == 0);
                h.push(0.0);
                h.extend(enc_els(&[e]));
                len += 1;
            }
            5..=6 => {
                h.push(1.0);
                len = len.saturating_sub(1);
            }
            7 => {
                // truncate: below, at, or beyond the current length
                let n = r.below(len as u64 + 3) as usize;
                h.push(2.0);
                h.push(n as f64);
                len = len.min(n);
            }
            _ => {
                let k = r.below(5) as usize;
                let els: Vec<PathEl> = (0..k).map(|i| rand_el(r, len == 0 && i == 0)).collect();
                h.push(3.0);
                h.push(k as f64);
                h.extend(enc_els(&els));
                len += k;
            }
        }
    }
    h
}

/// run an encoded history on a real BezPath; returns the path and what each pop returned
fn run_history(h: &[f64]) -> (BezPath, Vec<Option<PathEl>>) {
    let mut p = BezPath::new();
    let mut pops = Vec::new();
    let mut i = 0;
    let el_len = |k: f64| match k as i32 {
        0 | 1 => 3,
        2 => 5,
        3 => 7,
        _ => 1,
    };
    while i < h.len() {
        match h[i] as i32 {
            0 => {
                let n = el_len(h[i + 1]);
                let e = dec_els(&h[i + 1..i + 1 + n])[0];
                // use the dedicated builder method when there is one, the generic push otherwise
                match e {
                    PathEl::MoveTo(q) if (i / 3) % 2 == 0 => p.move_to(q),
                    PathEl::LineTo(q) if (i / 3) % 2 == 0 => p.line_to(q),
                    PathEl::QuadTo(a, b) if (i / 3) % 2 == 0 => p.quad_to(a, b),
                    PathEl::CurveTo(a, b, c) if (i / 3) % 2 == 0 => p.curve_to(a, b, c),
                    PathEl::ClosePath if (i / 3) % 2 == 0 => p.close_path(),
                    e => p.push(e),
                }
                i += 1 + n;
            }
            1 => {
                pops.push(p.pop());
                i += 1;
            }
            2 => {
                p.truncate(h[i + 1] as usize);
                i += 2;
            }
            _ => {
                let k = h[i + 1] as usize;
                let mut j = i + 2;
                let mut els = Vec::new();
                for _ in 0..k {
                    let n = el_len(h[j]);
                    els.push(dec_els(&h[j..j + n])[0]);
                    j += n;
                }
                p.extend(els);
                i = j;
            }
        }
    }
    (p, pops)
}

fn case_history(o: &mut Out, h: Vec<f64>) {
    let (p, pops) = run_history(&h);
    let mut exp = enc_oels(&Some(p.elements().to_vec()));
    exp.push(pops.len() as f64);
    for q in &pops {
        match q {
            None => exp.push(0.0),
            Some(e) => {
                exp.push(1.0);
                exp.extend(enc_els(&[*e]));
            }
        }
    }
    exp.extend(enc_osegs(&obs_bez_segments(&p)));
    exp.extend(obs_all_get(&p));
    let tag = if p.elements().is_empty() { "ends-empty" } else { "ends-nonempty" };
    let nt = !pops.is_empty() || p.elements().len() > 1;
    o.case(if pinned_mode() { 12 } else { 2 }, "history", h, exp, nt, tag);
}

fn corr(r: &mut Rng, thorough: bool, o: &mut Out) {
    // exhaustive small scope: MoveTo(a) then every word of length <= k over the 13-letter alphabet
    let k = if thorough { 4 } else { 3 };
    for len in 0..=k {
        for_all_seqs(&[PathEl::MoveTo(PA)], len, &mut |els| case_views(o, "exhaustive", els));
    }
    // thorough: every 17th list of length 6
    if thorough {
        let mut i = 0u64;
        for_all_seqs(&[PathEl::MoveTo(PA)], 5, &mut |els| {
            i += 1;
            if i % 17 == 5 {
                case_views(o, "exhaustive-len6-strided", els);
            }
        });
    }
    // other starts: MoveTo(b); a drawing element first; a leading ClosePath (panic of segments)
    let k2 = if thorough { 3 } else { 2 };
    for len in 0..=k2 {
        for_all_seqs(&[PathEl::MoveTo(PB)], len, &mut |els| case_views(o, "exhaustive-start-b", els));
    }
    for first in [PathEl::LineTo(PB), PathEl::QuadTo(Q1, PC), PathEl::CurveTo(C1, C2, PB), PathEl::ClosePath] {
        for len in 0..=2 {
            for_all_seqs(&[first], len, &mut |els| case_views(o, "exhaustive-no-moveto", els));
        }
    }
    // random, generic coordinates with repeated points, up to length 40
    let n = if thorough { 4000 } else { 400 };
    for i in 0..n {
        let special = i % 20 == 7;
        let first_moveto = i % 10 != 3;
        let els = rand_els(r, 40, first_moveto, special);
        case_views(o, if special { "random-special" } else { "random" }, &els);
    }
    // builder histories
    let nh = if thorough { 3000 } else { 300 };
    for _ in 0..nh {
        let h = rand_history(r, 30);
        case_history(o, h);
    }
}

// ------------------------------------------------------------------ independent reference

/// What each element contributes to the segment sequence, by the documented rule: the current
/// point and the sub-path start are tracked; MoveTo sets both; ClosePath draws the closing line
/// exactly when the current point differs from the sub-path start and returns to the start.
/// `None` for a leading ClosePath (documented panic).
fn ref_outs(els: &[PathEl]) -> Option<Vec<Option<PathSeg>>> {
    let mut outs = Vec::with_capacity(els.len());
    let mut st: Option<(Point, Point)> = None; // (start, current)
    for e in els {
        if st.is_none() {
            let p = e.end_point()?;
            st = Some((p, p));
        }
        let (start, cur) = st.unwrap();
        match *e {
            PathEl::MoveTo(p) => {
                st = Some((p, p));
                outs.push(None);
            }
            PathEl::LineTo(p) => {
                outs.push(Some(PathSeg::Line(Line::new(cur, p))));
                st = Some((start, p));
            }
            PathEl::QuadTo(a, p) => {
                outs.push(Some(PathSeg::Quad(kurbo::QuadBez::new(cur, a, p))));
                st = Some((start, p));
            }
            PathEl::CurveTo(a, b, p) => {
                outs.push(Some(PathSeg::Cubic(kurbo::CubicBez::new(cur, a, b, p))));
                st = Some((start, p));
            }
            PathEl::ClosePath => {
                if cur != start {
                    outs.push(Some(PathSeg::Line(Line::new(cur, start))));
                } else {
                    outs.push(None);
                }
                st = Some((start, start));
            }
        }
    }
    Some(outs)
}

/// a sub-path: start point, drawing elements, closed?
#[derive(Clone, Debug)]
struct Chunk {
    start: Point,
    draw: Vec<PathEl>,
    closed: bool,
}

/// sub-paths of an element list that begins with MoveTo. A ClosePath ends a sub-path; what follows
/// without a MoveTo is a new sub-path from the same start point.
fn chunks(els: &[PathEl]) -> Vec<Chunk> {
    let mut out = Vec::new();
    let mut cur: Option<Chunk> = None;
    let mut explicit = false;
    for e in els {
        match *e {
            PathEl::MoveTo(p) => {
                if let Some(c) = cur.take() {
                    if explicit || !c.draw.is_empty() {
                        out.push(c);
                    }
                }
                cur = Some(Chunk { start: p, draw: vec![], closed: false });
                explicit = true;
            }
            PathEl::ClosePath => {
                let mut c = cur.take().expect("path begins with MoveTo");
                let s = c.start;
                c.closed = true;
                out.push(c);
                cur = Some(Chunk { start: s, draw: vec![], closed: false });
                explicit = false;
            }
            d => cur.as_mut().expect("path begins with MoveTo").draw.push(d),
        }
    }
    if let Some(c) = cur {
        if explicit || !c.draw.is_empty() {
            out.push(c);
        }
    }
    out
}

fn chunk_segs(c: &Chunk) -> Vec<PathSeg> {
    let mut els = vec![PathEl::MoveTo(c.start)];
    els.extend(c.draw.iter().copied());
    if c.closed {
        els.push(PathEl::ClosePath);
    }
    ref_outs(&els).unwrap().into_iter().flatten().collect()
}

fn fail(class: &str, d: String) -> Option<(String, String)> {
    Some((class.to_string(), d))
}

fn show(els: &[PathEl]) -> String {
    let pt = |p: &Point| format!("({:?},{:?})", p.x, p.y);
    els.iter()
        .map(|e| match e {
            PathEl::MoveTo(p) => format!("M{}", pt(p)),
            PathEl::LineTo(p) => format!("L{}", pt(p)),
            PathEl::QuadTo(a, p) => format!("Q{}{}", pt(a), pt(p)),
            PathEl::CurveTo(a, b, p) => format!("C{}{}{}", pt(a), pt(b), pt(p)),
            PathEl::ClosePath => "Z".to_string(),
        })
        .collect::<Vec<_>>()
        .join(" ")
}

// ------------------------------------------------------------------ laws (args = enc_els of a list that begins with MoveTo)

/// segments(), BezPath::segments, Shape::path_segments (BezPath and slice) and get_seg(i) for every i
/// agree with the reference; ClosePath contributes the closing line exactly when current != start.
fn law_views(a: &[f64]) -> Option<(String, String)> {
    let els = dec_els(a);
    let p = mk_path(&els);
    let outs = match ref_outs(&els) {
        Some(o) => o,
        None => return None,
    };
    let want: Vec<PathSeg> = outs.iter().flatten().copied().collect();
    let got = obs_segments(&els);
    if got.as_ref() != Some(&want) {
        // is it the ClosePath rule?
        let class = if els.iter().any(|e| matches!(e, PathEl::ClosePath)) { "segments:closepath" } else { "segments" };
        return fail(class, format!("{}: segments() = {:?}, expected {:?}", show(&els), got, want));
    }
    if obs_bez_segments(&p).as_ref() != Some(&want) {
        return fail("bezpath-segments", format!("{}: BezPath::segments differs from segments()", show(&els)));
    }
    if obs_shape_bez(&p).as_ref() != Some(&want) {
        return fail("shape-path_segments:bezpath", format!("{}: Shape::path_segments differs from segments()", show(&els)));
    }
    if obs_shape_slice(&els).as_ref() != Some(&want) {
        return fail("shape-path_segments:slice", format!("{}: <&[PathEl]>::path_segments differs from segments()", show(&els)));
    }
    for i in 0..=els.len() {
        let g = p.get_seg(i);
        let w = if i < els.len() { outs[i] } else { None };
        if g != w {
            let class = if i >= els.len() || i == 0 {
                "get_seg:range"
            } else if matches!(els[i - 1], PathEl::ClosePath) {
                "get_seg:after-closepath"
            } else if matches!(els[i], PathEl::ClosePath) {
                "get_seg:closepath"
            } else {
                "get_seg:draw"
            };
            return fail(class, format!("{}: get_seg({}) = {:?}, but segments() emits {:?} for that element", show(&els), i, g, w));
        }
    }
    None
}

/// rebuilding from the segments gives the same segments, with a MoveTo exactly at the
/// discontinuities (stored end point of one segment != stored start point of the next)
fn law_rebuild(a: &[f64]) -> Option<(String, String)> {
    let els = dec_els(a);
    let segs: Vec<PathSeg> = ref_outs(&els)?.into_iter().flatten().collect();
    let rebuilt = BezPath::from_path_segments(segs.iter().copied());
    let again = obs_bez_segments(&rebuilt);
    if again.as_ref() != Some(&segs) {
        return fail("rebuild:segments", format!("{}: segments of the rebuilt path {:?} differ", show(&els), show(rebuilt.elements())));
    }
    let ends = |s: &PathSeg| match s {
        PathSeg::Line(l) => (l.p0, l.p1),
        PathSeg::Quad(q) => (q.p0, q.p2),
        PathSeg::Cubic(c) => (c.p0, c.p3),
    };
    let breaks = segs.windows(2).filter(|w| ends(&w[0]).1 != ends(&w[1]).0).count();
    let moves = rebuilt.elements().iter().filter(|e| matches!(e, PathEl::MoveTo(_))).count();
    let want = if segs.is_empty() { 0 } else { 1 + breaks };
    if moves != want {
        return fail("rebuild:spurious-moveto", format!("{}: rebuilt path {} has {} MoveTo, the segments have {} discontinuities", show(&els), show(rebuilt.elements()), moves, breaks));
    }
    if rebuilt.elements().len() != segs.len() + moves {
        return fail("rebuild:length", format!("{}: rebuilt {}", show(&els), show(rebuilt.elements())));
    }
    None
}

fn rev_seg(s: &PathSeg) -> PathSeg {
    match s {
        PathSeg::Line(l) => PathSeg::Line(Line::new(l.p1, l.p0)),
        PathSeg::Quad(q) => PathSeg::Quad(kurbo::QuadBez::new(q.p2, q.p1, q.p0)),
        PathSeg::Cubic(c) => PathSeg::Cubic(kurbo::CubicBez::new(c.p3, c.p2, c.p1, c.p0)),
    }
}

/// per sub-path: reversed segments in reverse order (closed: up to rotation), closedness kept;
/// reversing twice restores the segment sequence exactly
fn law_reverse(a: &[f64]) -> Option<(String, String)> {
    let els = dec_els(a);
    if !matches!(els.first(), Some(PathEl::MoveTo(_))) {
        return None;
    }
    let p = mk_path(&els);
    let r1 = match obs_reverse(&p) {
        Some(r) => r,
        None => return fail("reverse:panic", format!("{}: reverse_subpaths panicked", show(&els))),
    };
    if !r1.is_empty() && !matches!(r1[0], PathEl::MoveTo(_)) {
        return fail("reverse:no-moveto", format!("{}: reversed path {} does not begin with MoveTo", show(&els), show(&r1)));
    }
    // no sub-path appears out of nothing (degenerate ones may legitimately be kept)
    if chunks(&r1).len() > chunks(&els).len() {
        return fail("reverse:spurious-subpath", format!("{}: {} sub-paths, reversed {} has {}", show(&els), chunks(&els).len(), show(&r1), chunks(&r1).len()));
    }
    let want: Vec<Chunk> = chunks(&els).into_iter().filter(|c| !c.draw.is_empty()).collect();
    let got: Vec<Chunk> = chunks(&r1).into_iter().filter(|c| !c.draw.is_empty()).collect();
    if want.len() != got.len() {
        return fail("reverse:subpath-count", format!("{}: {} drawing sub-paths, reversed {} has {}", show(&els), want.len(), show(&r1), got.len()));
    }
    for (w, g) in want.iter().zip(got.iter()) {
        if w.closed != g.closed {
            return fail("reverse:closedness", format!("{}: reversed {}", show(&els), show(&r1)));
        }
        let mut exp: Vec<PathSeg> = chunk_segs(w).iter().rev().map(rev_seg).collect();
        let gs = chunk_segs(g);
        let ok = if w.closed {
            let n = exp.len();
            gs.len() == n && (0..n.max(1)).any(|_| {
                let same = exp == gs;
                if n > 0 {
                    exp.rotate_left(1);
                }
                same
            })
        } else {
            exp == gs
        };
        if !ok {
            let class = if w.closed { "reverse:closed-subpath" } else { "reverse:open-subpath" };
            return fail(class, format!("{}: reversed {}: sub-path segments {:?}, expected (a rotation of) {:?}", show(&els), show(&r1), gs, exp));
        }
    }
    let r2 = match obs_reverse(&mk_path(&r1)) {
        Some(r) => r,
        None => return fail("reverse:panic", format!("{}: second reverse_subpaths panicked", show(&els))),
    };
    if obs_segments(&r2) != obs_segments(&els) {
        return fail("reverse:twice", format!("{}: reversed twice {} has other segments", show(&els), show(&r2)));
    }
    None
}

/// a builder history leaves exactly the element vector a plain Vec would hold, and the views are
/// those of that vector
fn law_history(h: &[f64]) -> Option<(String, String)> {
    let (p, pops) = run_history(h);
    // the same history on a plain Vec
    let mut v: Vec<PathEl> = Vec::new();
    let mut vp = Vec::new();
    let mut i = 0;
    let el_len = |k: f64| match k as i32 {
        0 | 1 => 3,
        2 => 5,
        3 => 7,
        _ => 1,
    };
    while i < h.len() {
        match h[i] as i32 {
            0 => {
                let n = el_len(h[i + 1]);
                v.push(dec_els(&h[i + 1..i + 1 + n])[0]);
                i += 1 + n;
            }
            1 => {
                vp.push(v.pop());
                i += 1;
            }
            2 => {
                let n = h[i + 1] as usize;
                if n < v.len() {
                    v.drain(n..);
                }
                i += 2;
            }
            _ => {
                let k = h[i + 1] as usize;
                let mut j = i + 2;
                for _ in 0..k {
                    let n = el_len(h[j]);
                    v.push(dec_els(&h[j..j + n])[0]);
                    j += n;
                }
                i = j;
            }
        }
    }
    if p.elements() != &v[..] {
        return fail("history:elements", format!("history {:?}: elements {} expected {}", h, show(p.elements()), show(&v)));
    }
    if pops != vp {
        return fail("history:pop", format!("history {:?}: pop results differ", h));
    }
    if p.iter().collect::<Vec<_>>() != v {
        return fail("history:iter", format!("history {:?}", h));
    }
    if v.is_empty() {
        return None;
    }
    // views of the edited path = views of a fresh path with the same elements
    match law_views(&enc_els(&v)) {
        Some((c, d)) => fail(&format!("history:{}", c), d),
        None => None,
    }
}

fn g_els(r: &mut Rng) -> Vec<f64> {
    let special = false;
    // half of the samples over a tiny point pool (many coincidences), half generic
    if r.bool() {
        let al = alphabet();
        let n = 1 + r.below(12) as usize;
        let mut v = vec![PathEl::MoveTo(*r.pick(&[PA, PB, PC]))];
        for _ in 0..n {
            // ClosePath and MoveTo more often than uniform
            let e = match r.below(8) {
                0 => PathEl::ClosePath,
                1 => al[r.below(3) as usize],
                _ => *r.pick(&al),
            };
            v.push(e);
        }
        enc_els(&v)
    } else {
        enc_els(&rand_els(r, 40, true, special))
    }
}
fn g_hist(r: &mut Rng) -> Vec<f64> {
    rand_history(r, 30)
}

fn laws() -> Vec<Law> {
    vec![
        Law { name: "views", gen: g_els, check: law_views, weight: 4 },
        Law { name: "rebuild", gen: g_els, check: law_rebuild, weight: 2 },
        Law { name: "reverse", gen: g_els, check: law_reverse, weight: 3 },
        Law { name: "history", gen: g_hist, check: law_history, weight: 2 },
    ]
}

/// exhaustive sweep of the laws on the implementation: every word of length <= n after MoveTo(a)
fn extra(_r: &mut Rng, thorough: bool, o: &mut Out) {
    let k = if thorough { 6 } else { 5 };
    let mut count = 0u64;
    let mut reported: Vec<String> = Vec::new();
    for len in 0..=k {
        for_all_seqs(&[PathEl::MoveTo(PA)], len, &mut |els| {
            count += 1;
            let a = enc_els(els);
            for (name, law) in [("views", law_views as fn(&[f64]) -> Option<(String, String)>), ("rebuild", law_rebuild), ("reverse", law_reverse)] {
                if let Some((class, desc)) = law(&a) {
                    if !reported.contains(&class) {
                        reported.push(class.clone());
// shortest witness of its class: put it before the random ones
                        let input = format!(
                            "{{\"law\":{},\"args\":{},\"bits\":[{}]}}",
                            crate::util::json_str(name),
                            crate::util::fmt_fs(&a),
                            a.iter().map(|x| format!("\"{:016x}\"", x.to_bits())).collect::<Vec<_>>().join(",")
                        );
                        o.violations.insert(0, crate::util::Violation { class: class.clone(), desc, input });
                    }
                }
            }
        });
    }
    for _ in 0..(3 * count) {
        o.oracle_eval("exhaustive-sweep");
    }
    o.notes.push(format!("exhaustive sweep of views/rebuild/reverse laws on the implementation: all {} element lists MoveTo(a)·w, |w| <= {}, over a 13-letter alphabet (3 points)", count, k));
}
