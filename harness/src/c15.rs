//! C15 — polynomial solvers (solve_quadratic / solve_cubic / solve_quartic) and solve_itp.
use crate::util::{b2f, Out, Rng};
use crate::{Law, Prop};
use kurbo::common::{
    factor_quartic_inner, solve_cubic, solve_itp, solve_quadratic, solve_quartic, verif_depressed_cubic_dominant,
    verif_eps_rel, verif_solve_quartic_inner,
};

pub fn prop() -> Prop {
    Prop { id: "C15", corr, laws, extra, law_budget: (400, 12000) }
}

// ------------------------------------------------------------------ helpers

fn len_out(v: &[f64]) -> Vec<f64> {
    let mut o = vec![v.len() as f64];
    o.extend_from_slice(v);
    o
}

/// outputs agree in shape and to `tol * max(1,|x|,|y|)`
fn close_vec(a: &[f64], b: &[f64], tol: f64) -> bool {
    a.len() == b.len()
        && a.iter().zip(b).all(|(x, y)| {
            (x.is_nan() && y.is_nan()) || x == y || (x - y).abs() <= tol * 1f64.max(x.abs()).max(y.abs())
        })
}

/// "Generic input" filter for everything that reaches libm: the F64 model only approximates
/// cbrt/atan2/sin/cos/acos to ~1e-15, so an input is used for a tolerance comparison only if the
/// implementation's own output is stable (same shape, 1e-11) under 1e-13 relative perturbations of
/// every argument, i.e. the input does not sit on a decision boundary or an ill-conditioned root.
fn stable(args: &[f64], nvar: usize, f: &dyn Fn(&[f64]) -> Vec<f64>) -> bool {
    let base = f(args);
    if base.iter().any(|x| !x.is_finite()) {
        return false;
    }
    for i in 0..nvar {
        for s in [-1.0, 1.0] {
            let mut p = args.to_vec();
            p[i] = p[i] * (1.0 + s * 1e-13);
            if !close_vec(&base, &f(&p), 1e-11) {
                return false;
            }
        }
    }
    true
}

fn moderate(r: &mut Rng) -> f64 {
    match r.below(4) {
        0 => r.range_i(-9, 9) as f64,
        1 => r.uniform(-10.0, 10.0),
        _ => r.generic(-6, 6),
    }
}

/// overall scale in 1e-6..1e6 (power of two or generic)
fn scale(r: &mut Rng) -> f64 {
    match r.below(3) {
        0 => 1.0,
        1 => 2f64.powi(r.range_i(-20, 20) as i32),
        _ => r.generic(-20, 20).abs(),
    }
}

fn special(r: &mut Rng) -> f64 {
    *r.pick(&[
        0.0, -0.0, 1.0, -1.0, 2.0, 0.5, 3.0, 1e-300, -1e-300, 1e300, -1e300, 5e-324, 1e-320, 1e-310, 1e155, 1e-155, 1e160, 1e-160,
        1.7e308, f64::INFINITY, f64::NEG_INFINITY, f64::NAN, 1e-16, 1e-8, 1e-4,
    ])
}

// ---- quadratic

fn quad_tag(c0: f64, c1: f64, c2: f64) -> &'static str {
    // replicates only the branch tests of solve_quadratic, for the distribution report
    let sc0 = c0 * c2.recip();
    let sc1 = c1 * c2.recip();
    if !sc0.is_finite() || !sc1.is_finite() {
        let root = -c0 / c1;
        return if root.is_finite() {
            "linear:root"
        } else if c0 == 0.0 && c1 == 0.0 {
            "linear:all-zero"
        } else {
            "linear:none"
        };
    }
    let arg = sc1 * sc1 - 4. * sc0;
    let root1 = if !arg.is_finite() {
        -sc1
    } else {
        if arg < 0.0 {
            return "disc<0";
        } else if arg == 0.0 {
            return "disc=0";
        }
        -0.5 * (sc1 + arg.sqrt().copysign(sc1))
    };
    let root2 = sc0 / root1;
    match (arg.is_finite(), root2.is_finite(), root2 > root1) {
        (false, true, _) => "arg-overflow:two",
        (false, false, _) => "arg-overflow:one",
        (true, true, true) => "two:root1-first",
        (true, true, false) => "two:root2-first",
        (true, false, _) => "one:root2-nonfinite",
    }
}

fn gen_quad(r: &mut Rng) -> [f64; 3] {
    match r.below(12) {
        0 => [r.range_i(-9, 9) as f64, r.range_i(-9, 9) as f64, r.range_i(-4, 4) as f64],
        1 => {
            // exact double root: s (x - p)^2, small integers / powers of two
            let p = r.range_i(-8, 8) as f64 / 2.0;
            let s = 2f64.powi(r.range_i(-3, 3) as i32);
            [s * p * p, -2.0 * s * p, s]
        }
        2 => {
            // from two roots
            let (p, q, s) = (moderate(r), moderate(r), scale(r));
            [s * p * q, -s * (p + q), s]
        }
        3 => [moderate(r), moderate(r), *r.pick(&[0.0, -0.0, 5e-324, 1e-320, 1e-310, 1e-300, -1e-300])],
        4 => [special(r), special(r), special(r)],
        5 => [r.generic(900, 1020), r.generic(-20, 20), r.generic(-30, 30)],
        6 => [r.generic(-20, 20), r.generic(500, 1020), r.generic(-30, 30)],
        7 => [r.generic(-1000, 1000), r.generic(-1000, 1000), r.generic(-1000, 1000)],
        8 => [0.0, moderate(r), moderate(r)],
        9 => [moderate(r), 0.0, moderate(r)],
        _ => [r.generic(-10, 10), r.generic(-10, 10), r.generic(-10, 10)],
    }
}

// ---- cubic

fn cubic_tag(c0: f64, c1: f64, c2: f64, c3: f64, n: usize) -> &'static str {
    let c3_recip = c3.recip();
    const ONETHIRD: f64 = 1. / 3.;
    let s2 = c2 * (ONETHIRD * c3_recip);
    let s1 = c1 * (ONETHIRD * c3_recip);
    let s0 = c0 * c3_recip;
    if !(s0.is_finite() && s1.is_finite() && s2.is_finite()) {
        return "delegates-to-quadratic";
    }
    match n {
        1 => "one-root(d<0)",
        2 => "double-root(d=0)",
        _ => "three-roots(d>0|nan)",
    }
}

/// scaled coefficients of moderate size: the libm-class values stay below ~1e4 in magnitude
fn gen_cubic_moderate(r: &mut Rng) -> [f64; 4] {
    let s = scale(r) * if r.bool() { -1.0 } else { 1.0 };
    match r.below(4) {
        0 => {
            let (p, q, t) = (moderate(r), moderate(r), moderate(r));
            [-s * p * q * t, s * (p * q + p * t + q * t), -s * (p + q + t), s]
        }
        1 => {
            // one real root p and a complex pair u +- iv
            let (p, u, v) = (moderate(r), moderate(r), moderate(r));
            let (b, c) = (-2.0 * u, u * u + v * v);
            [-s * p * c, s * (c - p * b), s * (b - p), s]
        }
        _ => [s * moderate(r), s * moderate(r), s * moderate(r), s],
    }
}

fn gen_cubic_wild(r: &mut Rng) -> [f64; 4] {
    match r.below(10) {
        0 => {
            // exact double root (x-a)^2 (x-b), 2a+b divisible by 3: scaled coefficients are integers, d = 0 exactly
            let a = r.range_i(-6, 6);
            let m = r.range_i(-4, 4);
            let b = 3 * m - 2 * a;
            let s = 2f64.powi(r.range_i(-3, 3) as i32);
            let (a, b) = (a as f64, b as f64);
            [-s * a * a * b, s * (a * a + 2.0 * a * b), -s * (2.0 * a + b), s]
        }
        1 => [moderate(r), moderate(r), moderate(r), *r.pick(&[0.0, -0.0, 5e-324, 1e-320, 1e-310, 1e-300, -1e-300, 1e-16, 1e-8, 1e-4])],
        2 => [special(r), special(r), special(r), special(r)],
        3 => [r.generic(-1000, 1000), r.generic(-1000, 1000), r.generic(-1000, 1000), r.generic(-1000, 1000)],
        4 => [r.range_i(-9, 9) as f64, r.range_i(-9, 9) as f64, r.range_i(-9, 9) as f64, r.range_i(-3, 3) as f64],
        5 => {
            let k = moderate(r) * *r.pick(&[1e-4, 1e-8, 1e-16, 1e-300]);
            [moderate(r), moderate(r), moderate(r), k]
        }
        6 => [r.generic(-300, 300), r.generic(-300, 300), r.generic(-300, 300), r.generic(-300, 300)],
        _ => gen_cubic_moderate(r),
    }
}

// ---- quartic

fn gen_quartic_moderate(r: &mut Rng) -> [f64; 5] {
    let s = scale(r) * if r.bool() { -1.0 } else { 1.0 };
    let quad = |r: &mut Rng| -> (f64, f64) {
        // x^2 + a x + b with real roots or a complex pair
        if r.bool() {
            let (p, q) = (moderate(r), moderate(r));
            (-(p + q), p * q)
        } else {
            let (u, v) = (moderate(r), moderate(r));
            (-2.0 * u, u * u + v * v)
        }
    };
    match r.below(3) {
        0 | 1 => {
            let ((a1, b1), (a2, b2)) = (quad(r), quad(r));
            [s * b1 * b2, s * (a1 * b2 + a2 * b1), s * (b1 + b2 + a1 * a2), s * (a1 + a2), s]
        }
        _ => [s * moderate(r), s * moderate(r), s * moderate(r), s * moderate(r), s],
    }
}

fn gen_quartic_wild(r: &mut Rng) -> [f64; 5] {
    match r.below(8) {
        0 => [moderate(r), moderate(r), moderate(r), moderate(r), *r.pick(&[0.0, -0.0])],
        1 => [*r.pick(&[0.0, -0.0]), moderate(r), moderate(r), moderate(r), moderate(r)],
        2 => [special(r), special(r), special(r), special(r), special(r)],
        3 => [r.generic(-300, 300), r.generic(-300, 300), r.generic(-300, 300), r.generic(-300, 300), r.generic(-300, 300)],
        4 => [r.range_i(-9, 9) as f64, r.range_i(-9, 9) as f64, r.range_i(-9, 9) as f64, r.range_i(-9, 9) as f64, r.range_i(-3, 3) as f64],
        5 => {
            // large root magnitudes: needs the K_Q rescaling retries
            let e = r.range_i(60, 100) as i32;
            let m = |r: &mut Rng| r.generic(e - 2, e + 2);
            let (p, q, t, u) = (m(r), m(r), m(r), m(r));
            [p * q * t * u, -(p * q * t + p * q * u + p * t * u + q * t * u), p * q + p * t + p * u + q * t + q * u + t * u, -(p + q + t + u), 1.0]
        }
        _ => gen_quartic_moderate(r),
    }
}

fn quartic_tag(c: &[f64; 5]) -> String {
    if c[4] == 0.0 {
        return "c4=0:cubic".into();
    }
    if c[0] == 0.0 {
        return "c0=0:cubic+zero".into();
    }
    let (a, b, cc, d) = (c[3] / c[4], c[2] / c[4], c[1] / c[4], c[0] / c[4]);
    if verif_solve_quartic_inner(a, b, cc, d, false).is_some() {
        return "first-try".into();
    }
    const K_Q: f64 = 7.16e76;
    let (a2, b2, c2, d2) = (a / K_Q, b / K_Q.powi(2), cc / K_Q.powi(3), d / K_Q.powi(4));
    if verif_solve_quartic_inner(a2, b2, c2, d2, false).is_some() {
        return "retry:K_Q".into();
    }
    if verif_solve_quartic_inner(a2, b2, c2, d2, true).is_some() {
        return "retry:K_Q+rescale".into();
    }
    "none".into()
}

fn fq_out(a: f64, b: f64, c: f64, d: f64, rescale: bool) -> Vec<f64> {
    match factor_quartic_inner(a, b, c, d, rescale) {
        None => vec![0.0],
        Some(q) => vec![1.0, q[0].0, q[0].1, q[1].0, q[1].1],
    }
}
fn sqi_out(a: f64, b: f64, c: f64, d: f64, rescale: bool) -> Vec<f64> {
    match verif_solve_quartic_inner(a, b, c, d, rescale) {
        None => vec![0.0],
        Some(q) => {
            let mut o = vec![1.0];
            o.extend(len_out(&q));
            o
        }
    }
}

// ---- ITP

fn poly3(p: &[f64], x: f64) -> f64 {
    p[0] + x * (p[1] + x * (p[2] + x * p[3]))
}

/// (p0..p3, a, b, eps, n0, k1, ya, yb) with ya < 0 < yb, a < b, eps large enough for termination
fn gen_itp(r: &mut Rng) -> Option<Vec<f64>> {
    let (a, b) = match r.below(3) {
        0 => (0.0, 1.0),
        1 => {
            let a = r.range_i(-8, 8) as f64;
            (a, a + r.range_i(1, 8) as f64)
        }
        _ => {
            let a = r.uniform(-10.0, 10.0);
            (a, a + r.generic(-6, 6).abs())
        }
    };
    let p: Vec<f64> = match r.below(4) {
        0 => {
            // monotone increasing cubic through a root inside (a,b): (x - c)^3 + m (x - c), expanded
            let c = a + (b - a) * r.uniform(0.02, 0.98);
            let m = r.uniform(0.0, 3.0);
            vec![-c * c * c - m * c, 3.0 * c * c + m, -3.0 * c, 1.0]
        }
        1 => {
            let c = a + (b - a) * r.uniform(0.02, 0.98);
            let s = r.generic(-6, 6).abs();
            vec![-s * c, s, 0.0, 0.0]
        }
        2 => {
            // root at a dyadic point: the "yitp == 0" return is reachable
            let c = a + (b - a) * (r.range_i(1, 7) as f64 / 8.0);
            vec![-c, 1.0, 0.0, 0.0]
        }
        _ => vec![moderate(r), moderate(r), moderate(r), moderate(r)],
    };
    let (ya, yb) = (poly3(&p, a), poly3(&p, b));
    if !(ya < 0.0 && yb > 0.0) {
        return None;
    }
    let eps = match r.below(3) {
        0 => *r.pick(&[1e-3, 1e-6, 1e-9, 0.1, 0.3]) * (b - a),
        1 => (b - a) * r.uniform(1e-10, 1.0),
        _ => (b - a) * 10f64.powf(r.uniform(-11.0, 0.5)),
    };
    // termination guard: keep epsilon well above the spacing of doubles near the bracket
    if eps < 1e-12 * (a.abs() + b.abs()) {
        return None;
    }
    let n0 = r.below(3) as f64;
    let k1 = match r.below(3) {
        0 => 0.2 / (b - a),
        1 => r.uniform(0.0, 2.0),
        _ => r.generic(-8, 4).abs(),
    };
    // log2(..).ceil() reaches libm: stay away from its decision boundary
    let l = ((b - a) / eps).log2();
    if (l - l.round()).abs() < 1e-9 {
        return None;
    }
    let mut v = p;
    v.extend_from_slice(&[a, b, eps, n0, k1, ya, yb]);
    Some(v)
}

fn run_itp(v: &[f64]) -> (f64, u64) {
    let p = v[0..4].to_vec();
    kurbo::verif::reset();
    let x = solve_itp(|x| poly3(&p, x), v[4], v[5], v[6], v[7] as usize, v[8], v[9], v[10]);
    (x, kurbo::verif::work())
}

// ------------------------------------------------------------------ correspondence

fn corr(r: &mut Rng, thorough: bool, o: &mut Out) {
    let n = if thorough { 12000 } else { 700 };
    // solve_quadratic: exact
    for _ in 0..n {
        let c = gen_quad(r);
        let out = solve_quadratic(c[0], c[1], c[2]);
        let tag = quad_tag(c[0], c[1], c[2]);
        o.case(1, "solve_quadratic", c.to_vec(), len_out(&out), tag != "disc<0", tag);
    }
    // solve_cubic: values to 1e-9 on moderate, stable inputs; count and exact paths everywhere
    for _ in 0..n {
        let c = gen_cubic_moderate(r);
        let out = solve_cubic(c[0], c[1], c[2], c[3]);
        let tag = cubic_tag(c[0], c[1], c[2], c[3], out.len());
        if stable(&c, 4, &|a| len_out(&solve_cubic(a[0], a[1], a[2], a[3]))) {
            o.case(2, "solve_cubic:values", c.to_vec(), len_out(&out), true, tag);
        } else {
            o.case(3, "solve_cubic:count", c.to_vec(), vec![out.len() as f64], true, &format!("unstable:{}", tag));
        }
    }
    for _ in 0..n {
        let c = gen_cubic_wild(r);
        let out = solve_cubic(c[0], c[1], c[2], c[3]);
        let tag = cubic_tag(c[0], c[1], c[2], c[3], out.len());
        if tag == "delegates-to-quadratic" || tag == "double-root(d=0)" {
            // only + - * / sqrt copysign fma: exact
            o.case(4, "solve_cubic:exact-paths", c.to_vec(), len_out(&out), true, tag);
        } else {
            o.case(3, "solve_cubic:count", c.to_vec(), vec![out.len() as f64], out.len() != 3, tag);
        }
    }
    // eps_rel: exact
    for _ in 0..n / 4 {
        let (raw, a) = if r.chance(1, 4) { (special(r), special(r)) } else { (moderate(r), if r.chance(1, 5) { 0.0 } else { moderate(r) }) };
        o.case(5, "eps_rel", vec![raw, a], vec![verif_eps_rel(raw, a)], a != 0.0, if a == 0.0 { "a=0" } else { "a<>0" });
    }
    // depressed_cubic_dominant
    for _ in 0..n {
        let (g, h) = match r.below(6) {
            0 => (r.generic(335, 345), r.generic(500, 520)),
            1 => (r.generic(335, 400), moderate(r)),
            2 => (moderate(r), r.generic(508, 600)),
            3 => (r.generic(-30, 30), r.generic(-30, 30)),
            _ => (moderate(r), moderate(r)),
        };
        let q = (-1. / 3.) * g;
        let rr = 0.5 * h;
        let big = !(q.abs() < 1e102 && rr.abs() < 1e154);
        let tag = format!("{}{}", if big { "k=Some:" } else { "k=None:" }, if big {
            let k = if q.abs() < rr.abs() { 1. - q * (q / rr).powi(2) } else { q.signum() * ((rr / q).powi(2) / q - 1.0) };
            if k < 0.0 { "trig" } else { "cbrt" }
        } else if rr * rr < q.powi(3) { "trig" } else { "cbrt" });
        if stable(&[g, h], 2, &|a| vec![verif_depressed_cubic_dominant(a[0], a[1])]) {
            o.case(6, "depressed_cubic_dominant", vec![g, h], vec![verif_depressed_cubic_dominant(g, h)], true, &tag);
        }
    }
    // factor_quartic_inner / solve_quartic_inner / solve_quartic
    for i in 0..n {
        let c = gen_quartic_moderate(r);
        let (a, b, cc, d) = (c[3] / c[4], c[2] / c[4], c[1] / c[4], c[0] / c[4]);
        let rescale = i % 8 == 0;
        let args = vec![a, b, cc, d, b2f(rescale)];
        if stable(&args, 4, &|x| fq_out(x[0], x[1], x[2], x[3], x[4] != 0.0)) {
            let out = fq_out(a, b, cc, d, rescale);
            o.case(7, "factor_quartic_inner", args.clone(), out.clone(), out[0] != 0.0, if out[0] == 0.0 { "None" } else if rescale { "Some:rescale" } else { "Some" });
        }
        if stable(&args, 4, &|x| sqi_out(x[0], x[1], x[2], x[3], x[4] != 0.0)) {
            let out = sqi_out(a, b, cc, d, rescale);
            let tag = if out[0] == 0.0 { "None".to_string() } else { format!("Some:{}", out[1]) };
            o.case(8, "solve_quartic_inner", args.clone(), out.clone(), out[0] != 0.0, &tag);
        }
        let tag = quartic_tag(&c);
        let out = solve_quartic(c[0], c[1], c[2], c[3], c[4]);
        if stable(&c, 5, &|x| len_out(&solve_quartic(x[0], x[1], x[2], x[3], x[4]))) {
            o.case(9, "solve_quartic:values", c.to_vec(), len_out(&out), !out.is_empty(), &format!("{}:{}", tag, out.len()));
        }
    }
    for _ in 0..n / 2 {
        let c = gen_quartic_wild(r);
        let tag = quartic_tag(&c);
        let out = solve_quartic(c[0], c[1], c[2], c[3], c[4]);
        if stable(&c, 5, &|x| len_out(&solve_quartic(x[0], x[1], x[2], x[3], x[4]))) {
            o.case(9, "solve_quartic:values", c.to_vec(), len_out(&out), !out.is_empty(), &format!("{}:{}", tag, out.len()));
        } else if c[4] == 0.0 || c[0] == 0.0 {
            // delegation to the cubic: the count is decided by exact arithmetic
            o.case(10, "solve_quartic:count", c.to_vec(), vec![out.len() as f64], true, &tag);
        }
    }
    // solve_itp on cubic polynomials (exact operations): value, and the exact iteration count via fuel
    let mut k = 0;
    while k < n / 2 {
        if let Some(v) = gen_itp(r) {
            let (x, iters) = run_itp(&v);
            let mut args = v.clone();
            args.push(iters as f64);
            let tag = if poly3(&v[0..4], x) == 0.0 { "exact-zero" } else if iters == 0 { "no-iteration" } else { "bracket" };
            o.case(11, "solve_itp", args, vec![1.0, x, 1.0], iters > 0, tag);
            k += 1;
        }
    }
}

// ------------------------------------------------------------------ laws on the implementation

fn laws() -> Vec<Law> {
    vec![]
}

fn extra(_r: &mut Rng, _thorough: bool, _o: &mut Out) {}
