//! C15 — polynomial solvers (solve_quadratic / solve_cubic / solve_quartic) and solve_itp.
use crate::util::{b2f, Out, Rng};
use crate::{Law, Prop};
use kurbo::common::{
    factor_quartic_inner, solve_cubic, solve_itp, solve_quadratic, solve_quartic, verif_depressed_cubic_dominant,
    verif_eps_rel, verif_solve_quartic_inner,
};

pub fn prop() -> Prop {
    Prop { id: "C15", corr, laws, extra, law_budget: (400, 12000) }
}

// ------------------------------------------------------------------ helpers

fn len_out(v: &[f64]) -> Vec<f64> {
    let mut o = vec![v.len() as f64];
    o.extend_from_slice(v);
    o
}

/// outputs agree in shape and to `tol * max(1,|x|,|y|)`
fn close_vec(a: &[f64], b: &[f64], tol: f64) -> bool {
    a.len() == b.len()
        && a.iter().zip(b).all(|(x, y)| {
            (x.is_nan() && y.is_nan()) || x == y || (x - y).abs() <= tol * 1f64.max(x.abs()).max(y.abs())
        })
}

/// "Generic input" filter for everything that reaches libm: the F64 model only approximates
/// cbrt/atan2/sin/cos/acos to ~1e-15, so an input is used for a tolerance comparison only if the
/// implementation's own output is stable (same shape, 1e-11) under 1e-13 relative perturbations of
/// every argument, i.e. the input does not sit on a decision boundary or an ill-conditioned root.
fn stable(args: &[f64], nvar: usize, f: &dyn Fn(&[f64]) -> Vec<f64>) -> bool {
    let base = f(args);
    if base.iter().any(|x| !x.is_finite()) {
        return false;
    }
    for i in 0..nvar {
        for s in [-1.0, 1.0] {
            let mut p = args.to_vec();
            p[i] = p[i] * (1.0 + s * 1e-13);
            if !close_vec(&base, &f(&p), 1e-11) {
                return false;
            }
        }
    }
    true
}

fn moderate(r: &mut Rng) -> f64 {
    match r.below(4) {
        0 => r.range_i(-9, 9) as f64,
        1 => r.uniform(-10.0, 10.0),
        _ => r.generic(-6, 6),
    }
}

/// overall scale in 1e-6..1e6 (power of two or generic)
fn scale(r: &mut Rng) -> f64 {
    match r.below(3) {
        0 => 1.0,
        1 => 2f64.powi(r.range_i(-20, 20) as i32),
        _ => r.generic(-20, 20).abs(),
    }
}

fn special(r: &mut Rng) -> f64 {
    *r.pick(&[
        0.0, -0.0, 1.0, -1.0, 2.0, 0.5, 3.0, 1e-300, -1e-300, 1e300, -1e300, 5e-324, 1e-320, 1e-310, 1e155, 1e-155, 1e160, 1e-160,
        1.7e308, f64::INFINITY, f64::NEG_INFINITY, f64::NAN, 1e-16, 1e-8, 1e-4,
    ])
}

// ---- quadratic

fn quad_tag(c0: f64, c1: f64, c2: f64) -> &'static str {
    // replicates only the branch tests of solve_quadratic, for the distribution report
    let sc0 = c0 * c2.recip();
    let sc1 = c1 * c2.recip();
    if !sc0.is_finite() || !sc1.is_finite() {
        let root = -c0 / c1;
        return if root.is_finite() {
            "linear:root"
        } else if c0 == 0.0 && c1 == 0.0 {
            "linear:all-zero"
        } else {
            "linear:none"
        };
    }
    let arg = sc1 * sc1 - 4. * sc0;
    let root1 = if !arg.is_finite() {
        -sc1
    } else {
        if arg < 0.0 {
            return "disc<0";
        } else if arg == 0.0 {
            return "disc=0";
        }
        -0.5 * (sc1 + arg.sqrt().copysign(sc1))
    };
    let root2 = sc0 / root1;
    match (arg.is_finite(), root2.is_finite(), root2 > root1) {
        (false, true, _) => "arg-overflow:two",
        (false, false, _) => "arg-overflow:one",
        (true, true, true) => "two:root1-first",
        (true, true, false) => "two:root2-first",
        (true, false, _) => "one:root2-nonfinite",
    }
}

fn gen_quad(r: &mut Rng) -> [f64; 3] {
    match r.below(12) {
        0 => [r.range_i(-9, 9) as f64, r.range_i(-9, 9) as f64, r.range_i(-4, 4) as f64],
        1 => {
            // exact double root: s (x - p)^2, small integers / powers of two
            let p = r.range_i(-8, 8) as f64 / 2.0;
            let s = 2f64.powi(r.range_i(-3, 3) as i32);
            [s * p * p, -2.0 * s * p, s]
        }
        2 => {
            // from two roots
            let (p, q, s) = (moderate(r), moderate(r), scale(r));
            [s * p * q, -s * (p + q), s]
        }
        3 => [moderate(r), moderate(r), *r.pick(&[0.0, -0.0, 5e-324, 1e-320, 1e-310, 1e-300, -1e-300])],
        4 => [special(r), special(r), special(r)],
        5 => [r.generic(900, 1020), r.generic(-20, 20), r.generic(-30, 30)],
        6 => [r.generic(-20, 20), r.generic(500, 1020), r.generic(-30, 30)],
        7 => [r.generic(-1000, 1000), r.generic(-1000, 1000), r.generic(-1000, 1000)],
        8 => [0.0, moderate(r), moderate(r)],
        9 => [moderate(r), 0.0, moderate(r)],
        _ => [r.generic(-10, 10), r.generic(-10, 10), r.generic(-10, 10)],
    }
}

// ---- cubic

fn cubic_tag(c0: f64, c1: f64, c2: f64, c3: f64, n: usize) -> &'static str {
    let c3_recip = c3.recip();
    const ONETHIRD: f64 = 1. / 3.;
    let s2 = c2 * (ONETHIRD * c3_recip);
    let s1 = c1 * (ONETHIRD * c3_recip);
    let s0 = c0 * c3_recip;
    if !(s0.is_finite() && s1.is_finite() && s2.is_finite()) {
        return "delegates-to-quadratic";
    }
    match n {
        1 => "one-root(d<0)",
        2 => "double-root(d=0)",
        _ => "three-roots(d>0|nan)",
    }
}

/// the clamp `d0.min(0.0)` of solve_cubic is active: d >= 0 with d0 rounded to a positive value (near a triple
/// root). Then t = 0 and every returned value is -c2 exactly, so the outputs can be compared exactly.
fn cubic_clamp_active(c0: f64, c1: f64, c2: f64, c3: f64) -> bool {
    let c3_recip = c3.recip();
    const ONETHIRD: f64 = 1. / 3.;
    let (c2, c1, c0) = (c2 * (ONETHIRD * c3_recip), c1 * (ONETHIRD * c3_recip), c0 * c3_recip);
    if !(c0.is_finite() && c1.is_finite() && c2.is_finite()) {
        return false;
    }
    let d0 = (-c2).mul_add(c2, c1);
    let d1 = (-c1).mul_add(c2, c0);
    let d2 = c2 * c0 - c1 * c1;
    let d = 4.0 * d0 * d2 - d1 * d1;
    d >= 0.0 && d0 > 0.0
}

/// scaled coefficients of moderate size: the libm-class values stay below ~1e4 in magnitude
fn gen_cubic_moderate(r: &mut Rng) -> [f64; 4] {
    let s = scale(r) * if r.bool() { -1.0 } else { 1.0 };
    match r.below(5) {
        0 => {
            let (p, q, t) = (moderate(r), moderate(r), moderate(r));
            [-s * p * q * t, s * (p * q + p * t + q * t), -s * (p + q + t), s]
        }
        1 => {
            // one real root p and a complex pair u +- iv
            let (p, u, v) = (moderate(r), moderate(r), moderate(r));
            let (b, c) = (-2.0 * u, u * u + v * v);
            [-s * p * c, s * (c - p * b), s * (b - p), s]
        }
        2 => {
            // small |d0| (linear and quadratic terms small): the two cube roots of the one-root branch nearly
            // cancel one of their arguments
            let e = 10f64.powf(-r.uniform(2.0, 9.0));
            [s * moderate(r), s * e * moderate(r), s * e * moderate(r) * if r.bool() { 1.0 } else { 0.0 }, s]
        }
        _ => [s * moderate(r), s * moderate(r), s * moderate(r), s],
    }
}

fn gen_cubic_wild(r: &mut Rng) -> [f64; 4] {
    match r.below(13) {
        10 | 11 | 12 => {
            // s (x - a)^3 with coefficients that are not exact: d0 and d are pure rounding noise of either sign
            let a = match r.below(3) {
                0 => r.range_i(-99, 99) as f64 / 10.0,
                1 => r.uniform(-10.0, 10.0),
                _ => r.generic(-6, 6),
            };
            let s = *r.pick(&[1e-6, 1.0, 3.0, 0.1, 7e3]) * if r.bool() { 1.0 } else { r.generic(-3, 3) };
            [-s * a * a * a, 3.0 * s * a * a, -3.0 * s * a, s]
        }
        0 => {
            // exact double root (x-a)^2 (x-b), 2a+b divisible by 3: scaled coefficients are integers, d = 0 exactly
            let a = r.range_i(-6, 6);
            let m = r.range_i(-4, 4);
            let b = 3 * m - 2 * a;
            let s = 2f64.powi(r.range_i(-3, 3) as i32);
            let (a, b) = (a as f64, b as f64);
            [-s * a * a * b, s * (a * a + 2.0 * a * b), -s * (2.0 * a + b), s]
        }
        1 => [moderate(r), moderate(r), moderate(r), *r.pick(&[0.0, -0.0, 5e-324, 1e-320, 1e-310, 1e-300, -1e-300, 1e-16, 1e-8, 1e-4])],
        2 => [special(r), special(r), special(r), special(r)],
        3 => [r.generic(-1000, 1000), r.generic(-1000, 1000), r.generic(-1000, 1000), r.generic(-1000, 1000)],
        4 => [r.range_i(-9, 9) as f64, r.range_i(-9, 9) as f64, r.range_i(-9, 9) as f64, r.range_i(-3, 3) as f64],
        5 => {
            let k = moderate(r) * *r.pick(&[1e-4, 1e-8, 1e-16, 1e-300]);
            [moderate(r), moderate(r), moderate(r), k]
        }
        6 => [r.generic(-300, 300), r.generic(-300, 300), r.generic(-300, 300), r.generic(-300, 300)],
        _ => gen_cubic_moderate(r),
    }
}

// ---- quartic

fn gen_quartic_moderate(r: &mut Rng) -> [f64; 5] {
    let s = scale(r) * if r.bool() { -1.0 } else { 1.0 };
    let quad = |r: &mut Rng| -> (f64, f64) {
        // x^2 + a x + b with real roots or a complex pair
        if r.bool() {
            let (p, q) = (moderate(r), moderate(r));
            (-(p + q), p * q)
        } else {
            let (u, v) = (moderate(r), moderate(r));
            (-2.0 * u, u * u + v * v)
        }
    };
    match r.below(3) {
        0 | 1 => {
            let ((a1, b1), (a2, b2)) = (quad(r), quad(r));
            [s * b1 * b2, s * (a1 * b2 + a2 * b1), s * (b1 + b2 + a1 * a2), s * (a1 + a2), s]
        }
        _ => [s * moderate(r), s * moderate(r), s * moderate(r), s * moderate(r), s],
    }
}

fn gen_quartic_wild(r: &mut Rng) -> [f64; 5] {
    match r.below(10) {
        8 => {
            // (x^2 + a x + b1)(x^2 + a x + b2): d_2 = 0 up to rounding
            let (a, b1, b2) = (r.range_i(-20, 20) as f64 / 10.0, r.range_i(-10, 10) as f64 / 10.0, r.range_i(-10, 10) as f64 / 10.0);
            [b1 * b2, a * (b1 + b2), b1 + b2 + a * a, 2.0 * a, 1.0]
        }
        9 => [moderate(r), moderate(r), 0.0, 0.0, moderate(r)],
        0 => [moderate(r), moderate(r), moderate(r), moderate(r), *r.pick(&[0.0, -0.0])],
        1 => [*r.pick(&[0.0, -0.0]), moderate(r), moderate(r), moderate(r), moderate(r)],
        2 => [special(r), special(r), special(r), special(r), special(r)],
        3 => [r.generic(-300, 300), r.generic(-300, 300), r.generic(-300, 300), r.generic(-300, 300), r.generic(-300, 300)],
        4 => [r.range_i(-9, 9) as f64, r.range_i(-9, 9) as f64, r.range_i(-9, 9) as f64, r.range_i(-9, 9) as f64, r.range_i(-3, 3) as f64],
        5 => {
            // large root magnitudes: needs the K_Q rescaling retries
            let e = r.range_i(60, 100) as i32;
            let m = |r: &mut Rng| r.generic(e - 2, e + 2);
            let (p, q, t, u) = (m(r), m(r), m(r), m(r));
            [p * q * t * u, -(p * q * t + p * q * u + p * t * u + q * t * u), p * q + p * t + p * u + q * t + q * u + t * u, -(p + q + t + u), 1.0]
        }
        _ => gen_quartic_moderate(r),
    }
}

fn quartic_tag(c: &[f64; 5]) -> String {
    if c[4] == 0.0 {
        return "c4=0:cubic".into();
    }
    if c[0] == 0.0 {
        return "c0=0:cubic+zero".into();
    }
    let (a, b, cc, d) = (c[3] / c[4], c[2] / c[4], c[1] / c[4], c[0] / c[4]);
    if verif_solve_quartic_inner(a, b, cc, d, false).is_some() {
        return "first-try".into();
    }
    const K_Q: f64 = 7.16e76;
    let (a2, b2, c2, d2) = (a / K_Q, b / K_Q.powi(2), cc / K_Q.powi(3), d / K_Q.powi(4));
    if verif_solve_quartic_inner(a2, b2, c2, d2, false).is_some() {
        return "retry:K_Q".into();
    }
    if verif_solve_quartic_inner(a2, b2, c2, d2, true).is_some() {
        return "retry:K_Q+rescale".into();
    }
    "none".into()
}

fn fq_out(a: f64, b: f64, c: f64, d: f64, rescale: bool) -> Vec<f64> {
    match factor_quartic_inner(a, b, c, d, rescale) {
        None => vec![0.0],
        Some(q) => vec![1.0, q[0].0, q[0].1, q[1].0, q[1].1],
    }
}
fn sqi_out(a: f64, b: f64, c: f64, d: f64, rescale: bool) -> Vec<f64> {
    match verif_solve_quartic_inner(a, b, c, d, rescale) {
        None => vec![0.0],
        Some(q) => {
            let mut o = vec![1.0];
            o.extend(len_out(&q));
            o
        }
    }
}

// ---- ITP

fn poly3(p: &[f64], x: f64) -> f64 {
    p[0] + x * (p[1] + x * (p[2] + x * p[3]))
}

/// (p0..p3, a, b, eps, n0, k1, ya, yb) with ya < 0 < yb, a < b, eps large enough for termination
fn gen_itp(r: &mut Rng) -> Option<Vec<f64>> {
    let (a, b) = match r.below(3) {
        0 => (0.0, 1.0),
        1 => {
            let a = r.range_i(-8, 8) as f64;
            (a, a + r.range_i(1, 8) as f64)
        }
        _ => {
            let a = r.uniform(-10.0, 10.0);
            (a, a + r.generic(-6, 6).abs())
        }
    };
    let p: Vec<f64> = match r.below(4) {
        0 => {
            // monotone increasing cubic through a root inside (a,b): (x - c)^3 + m (x - c), expanded
            let c = a + (b - a) * r.uniform(0.02, 0.98);
            let m = r.uniform(0.0, 3.0);
            vec![-c * c * c - m * c, 3.0 * c * c + m, -3.0 * c, 1.0]
        }
        1 => {
            let c = a + (b - a) * r.uniform(0.02, 0.98);
            let s = r.generic(-6, 6).abs();
            vec![-s * c, s, 0.0, 0.0]
        }
        2 => {
            // root at a dyadic point: the "yitp == 0" return is reachable
            let c = a + (b - a) * (r.range_i(1, 7) as f64 / 8.0);
            vec![-c, 1.0, 0.0, 0.0]
        }
        _ => vec![moderate(r), moderate(r), moderate(r), moderate(r)],
    };
    let (ya, yb) = (poly3(&p, a), poly3(&p, b));
    if !(ya < 0.0 && yb > 0.0) {
        return None;
    }
    let eps = match r.below(3) {
        0 => *r.pick(&[1e-3, 1e-6, 1e-9, 0.1, 0.3]) * (b - a),
        1 => (b - a) * r.uniform(1e-10, 1.0),
        _ => (b - a) * 10f64.powf(r.uniform(-11.0, 0.5)),
    };
    // termination guard: keep epsilon well above the spacing of doubles near the bracket
    if eps < 1e-12 * (a.abs() + b.abs()) {
        return None;
    }
    let n0 = r.below(3) as f64;
    let k1 = match r.below(3) {
        0 => 0.2 / (b - a),
        1 => r.uniform(0.0, 2.0),
        _ => r.generic(-8, 4).abs(),
    };
    // log2(..).ceil() reaches libm: stay away from its decision boundary
    let l = ((b - a) / eps).log2();
    if (l - l.round()).abs() < 1e-9 {
        return None;
    }
    let mut v = p;
    v.extend_from_slice(&[a, b, eps, n0, k1, ya, yb]);
    Some(v)
}

/// evaluation budget for solve_itp: a run that needs more has lost its termination argument
const ITP_MAX_EVALS: u64 = 100_000;

/// cases for the float-only paths of solve_itp: a bracket of adjacent (or nearly adjacent) floats with epsilon
/// below their distance (the "collapsed bracket" exit), and n0 + n1_2 >= 64 (saturating add, capped power of two)
fn gen_itp_extreme(r: &mut Rng) -> Option<Vec<f64>> {
    let n0 = *r.pick(&[0.0, 1.0, 2.0, 63.0, 64.0, 1000.0, 18446744073709551616.0]);
    let tiny_eps = |r: &mut Rng, w: f64| -> f64 {
        match r.below(5) {
            0 => 0.0,
            1 => 5e-324,
            2 => 1e-300,
            _ => w * 2f64.powi(-(r.range_i(3, 200) as i32)) * r.uniform(0.55, 0.95),
        }
    };
    if r.bool() {
        // a few ulps wide
        let a = r.generic(-2, 3);
        let k = r.range_i(1, 4) as u64;
        let b = if a > 0.0 { f64::from_bits(a.to_bits() + k) } else { f64::from_bits(a.to_bits() - k) };
        let c = if a > 0.0 { f64::from_bits(a.to_bits() + r.below(k + 1)) } else { f64::from_bits(a.to_bits() - r.below(k + 1)) };
        let eps = tiny_eps(r, b - a);
        let k1 = if r.bool() { 0.2 / (b - a) } else { r.uniform(0.1, 2.0) };
        // ya, yb are arguments of solve_itp: any values with the right signs
        Some(vec![-c, 1.0, 0.0, 0.0, a, b, eps, n0, k1, -r.generic(-70, 0).abs(), r.generic(-70, 0).abs()])
    } else {
        let a = r.uniform(-3.0, 3.0);
        let b = a + r.generic(-3, 2).abs();
        let c = a + (b - a) * r.uniform(0.05, 0.95);
        let p: Vec<f64> = if r.bool() {
            vec![-c, 1.0, 0.0, 0.0]
        } else {
            let m = r.uniform(0.1, 3.0);
            vec![-c * c * c - m * c, 3.0 * c * c + m, -3.0 * c, 1.0]
        };
        let (ya, yb) = (poly3(&p, a), poly3(&p, b));
        if !(ya < 0.0 && yb > 0.0) {
            return None;
        }
        let eps = tiny_eps(r, b - a);
        let mut v = p;
        v.extend_from_slice(&[a, b, eps, n0, 0.2 / (b - a), ya, yb]);
        Some(v)
    }
}

fn run_itp(v: &[f64]) -> Option<(f64, u64)> {
    let p = v[0..4].to_vec();
    let v = v.to_vec();
    std::panic::catch_unwind(move || {
        kurbo::verif::reset();
        let mut n = 0u64;
        let x = solve_itp(
            |x| {
                n += 1;
                if n > ITP_MAX_EVALS {
                    panic!("solve_itp does not terminate");
                }
                poly3(&p, x)
            },
            v[4],
            v[5],
            v[6],
            v[7] as usize,
            v[8],
            v[9],
            v[10],
        );
        (x, kurbo::verif::work())
    })
    .ok()
}

// ------------------------------------------------------------------ correspondence

fn corr(r: &mut Rng, thorough: bool, o: &mut Out) {
    let n = if thorough { 12000 } else { 700 };
    // solve_quadratic: exact
    for _ in 0..n {
        let c = gen_quad(r);
        let out = solve_quadratic(c[0], c[1], c[2]);
        let tag = quad_tag(c[0], c[1], c[2]);
        o.case(1, "solve_quadratic", c.to_vec(), len_out(&out), tag != "disc<0", tag);
    }
    // solve_cubic: values to 1e-9 on moderate, stable inputs; count and exact paths everywhere
    for _ in 0..n {
        let c = gen_cubic_moderate(r);
        let out = solve_cubic(c[0], c[1], c[2], c[3]);
        let tag = cubic_tag(c[0], c[1], c[2], c[3], out.len());
        if stable(&c, 4, &|a| len_out(&solve_cubic(a[0], a[1], a[2], a[3]))) {
            o.case(2, "solve_cubic:values", c.to_vec(), len_out(&out), true, tag);
        } else {
            o.case(3, "solve_cubic:count", c.to_vec(), vec![out.len() as f64], true, &format!("unstable:{}", tag));
        }
    }
    for _ in 0..n {
        let c = gen_cubic_wild(r);
        let out = solve_cubic(c[0], c[1], c[2], c[3]);
        let tag = cubic_tag(c[0], c[1], c[2], c[3], out.len());
        if cubic_clamp_active(c[0], c[1], c[2], c[3]) {
            // t = 2 sqrt(-0) = 0: all values are -c2 exactly, whatever sin/cos/atan2 return
            o.case(4, "solve_cubic:exact-paths", c.to_vec(), len_out(&out), true, &format!("clamp-active(d0>0,d>=0):{}", out.len()));
        } else if tag == "delegates-to-quadratic" || tag == "double-root(d=0)" {
            // only + - * / sqrt copysign fma: exact
            o.case(4, "solve_cubic:exact-paths", c.to_vec(), len_out(&out), true, tag);
        } else {
            o.case(3, "solve_cubic:count", c.to_vec(), vec![out.len() as f64], out.len() != 3, tag);
        }
    }
    // eps_rel: exact
    for _ in 0..n / 4 {
        let (raw, a) = if r.chance(1, 4) { (special(r), special(r)) } else { (moderate(r), if r.chance(1, 5) { 0.0 } else { moderate(r) }) };
        o.case(5, "eps_rel", vec![raw, a], vec![verif_eps_rel(raw, a)], a != 0.0, if a == 0.0 { "a=0" } else { "a<>0" });
    }
    // depressed_cubic_dominant
    for _ in 0..n {
        let (g, h) = match r.below(6) {
            0 => (r.generic(335, 345), r.generic(500, 520)),
            1 => (r.generic(335, 400), moderate(r)),
            2 => (moderate(r), r.generic(508, 600)),
            3 => (r.generic(-30, 30), r.generic(-30, 30)),
            _ => (moderate(r), moderate(r)),
        };
        let q = (-1. / 3.) * g;
        let rr = 0.5 * h;
        let big = !(q.abs() < 1e102 && rr.abs() < 1e154);
        let tag = format!("{}{}", if big { "k=Some:" } else { "k=None:" }, if big {
            let k = if q.abs() < rr.abs() { 1. - q * (q / rr).powi(2) } else { q.signum() * ((rr / q).powi(2) / q - 1.0) };
            if k < 0.0 { "trig" } else { "cbrt" }
        } else if rr * rr < q.powi(3) { "trig" } else { "cbrt" });
        if stable(&[g, h], 2, &|a| vec![verif_depressed_cubic_dominant(a[0], a[1])]) {
            o.case(6, "depressed_cubic_dominant", vec![g, h], vec![verif_depressed_cubic_dominant(g, h)], true, &tag);
        }
    }
    // factor_quartic_inner / solve_quartic_inner / solve_quartic
    for i in 0..n {
        let c = gen_quartic_moderate(r);
        let (a, b, cc, d) = (c[3] / c[4], c[2] / c[4], c[1] / c[4], c[0] / c[4]);
        let rescale = i % 8 == 0;
        let args = vec![a, b, cc, d, b2f(rescale)];
        if stable(&args, 4, &|x| fq_out(x[0], x[1], x[2], x[3], x[4] != 0.0)) {
            let out = fq_out(a, b, cc, d, rescale);
            o.case(7, "factor_quartic_inner", args.clone(), out.clone(), out[0] != 0.0, if out[0] == 0.0 { "None" } else if rescale { "Some:rescale" } else { "Some" });
        }
        if stable(&args, 4, &|x| sqi_out(x[0], x[1], x[2], x[3], x[4] != 0.0)) {
            let out = sqi_out(a, b, cc, d, rescale);
            let tag = if out[0] == 0.0 { "None".to_string() } else { format!("Some:{}", out[1]) };
            o.case(8, "solve_quartic_inner", args.clone(), out.clone(), out[0] != 0.0, &tag);
        }
        let tag = quartic_tag(&c);
        let out = solve_quartic(c[0], c[1], c[2], c[3], c[4]);
        if stable(&c, 5, &|x| len_out(&solve_quartic(x[0], x[1], x[2], x[3], x[4]))) {
            o.case(9, "solve_quartic:values", c.to_vec(), len_out(&out), !out.is_empty(), &format!("{}:{}", tag, out.len()));
        }
    }
    for _ in 0..n / 2 {
        let c = gen_quartic_wild(r);
        let tag = quartic_tag(&c);
        let out = solve_quartic(c[0], c[1], c[2], c[3], c[4]);
        if stable(&c, 5, &|x| len_out(&solve_quartic(x[0], x[1], x[2], x[3], x[4]))) {
            o.case(9, "solve_quartic:values", c.to_vec(), len_out(&out), !out.is_empty(), &format!("{}:{}", tag, out.len()));
        } else if c[4] == 0.0 || c[0] == 0.0 {
            // delegation to the cubic: the count is decided by exact arithmetic
            o.case(10, "solve_quartic:count", c.to_vec(), vec![out.len() as f64], true, &tag);
        }
    }
    // solve_itp on cubic polynomials (exact operations): value, and the exact iteration count via fuel
    let mut k = 0;
    while k < n / 2 {
        if let Some(v) = gen_itp(r) {
            let (x, iters) = match run_itp(&v) {
                Some(xi) => xi,
                None => {
                    o.violation("solve_itp:non-termination", format!("solve_itp on p0+x(p1+x(p2+x p3)), args {:?}: more than {} evaluations (or a panic)", v, ITP_MAX_EVALS), format!("{{\"args\":{}}}", crate::util::fmt_fs(&v)));
                    k += 1;
                    continue;
                }
            };
            let mut args = v.clone();
            args.push(iters as f64);
            let tag = if poly3(&v[0..4], x) == 0.0 { "exact-zero" } else if iters == 0 { "no-iteration" } else { "bracket" };
            o.case(11, "solve_itp", args, vec![1.0, x, 1.0], iters > 0, tag);
            k += 1;
        }
    }
    let mut k = 0;
    let mut tries = 0;
    let mut skipped = 0u64;
    while k < n / 6 && tries < 10 * n {
        tries += 1;
        if let Some(v) = gen_itp_extreme(r) {
            let l = ((v[5] - v[4]) / v[6]).log2();
            if l.is_finite() && (l - l.round()).abs() < 1e-9 {
                continue;
            }
            // Termination in floats is not claimed for these inputs beyond the two repaired causes: with epsilon
            // below 2^-1023 of the bracket (sub-normal or zero) solve_itp still does not return (observation in
            // docs/C15.md; outside the property). The evaluation cap turns that into a skipped case.
            let res = run_itp(&v);
            if res.is_none() {
                skipped += 1;
            }
            if let Some((x, iters)) = res {
                let mut args = v.clone();
                args.push(iters as f64);
                let nmax_big = v[7] >= 64.0 || !(l < 60.0);
                let collapsed = poly3(&v[0..4], x) != 0.0 && 2.0 * v[6] < (f64::from_bits(x.abs().to_bits() + 1) - x.abs());
                let tag = format!("{}{}", if collapsed { "collapsed-bracket-exit" } else { "regular-exit" }, if nmax_big { ":nmax>=64" } else { "" });
                o.case(11, "solve_itp:float-limits", args, vec![1.0, x, 1.0], true, &tag);
                k += 1;
            }
        }
    }
    o.notes.push(format!("solve_itp:float-limits: {} generated inputs hit the evaluation cap of {} (epsilon below 2^-1023 of the bracket) and were skipped", skipped, ITP_MAX_EVALS));
}

// ------------------------------------------------------------------ laws on the implementation
//
// Oracles (independent of the solvers' algorithms):
//  * residual: |P(x)| <= K eps sum |c_i| R^i with R a bound on the root magnitudes (Fujiwara), P by Horner
//    ("the polynomial vanishes to rounding there", normwise);
//  * forward: a prescribed simple root x with the other roots z_j (complex ones included) must be matched by a
//    returned value within K eps (2R)^n / prod |x - z_j|  (first-order perturbation bound of the root under a
//    relative perturbation eps of the coefficients, normwise: "tolerance scaled by the condition of the root");
//  * counts: from the construction (prescribed roots / complex pairs) or exact integer discriminants.

const EPS: f64 = f64::EPSILON;
/// slack over the first-order bounds; the pinned tree stays below ~1/50 of it on the sampled families
const K: f64 = 4096.0;

fn fail(class: &str, d: String) -> Option<(String, String)> {
    Some((class.to_string(), d))
}
/// The collector keeps at most 200 violations per run: report each class at most 12 times so that a
/// frequently failing (e.g. known) class cannot crowd out a different one.
fn limit(class: String, d: String) -> Option<(String, String)> {
    use std::collections::HashMap;
    use std::sync::Mutex;
    static SEEN: Mutex<Option<HashMap<String, u32>>> = Mutex::new(None);
    let mut g = SEEN.lock().unwrap_or_else(|e| e.into_inner());
    let n = g.get_or_insert_with(HashMap::new).entry(class.clone()).or_insert(0);
    *n += 1;
    if *n > 12 {
        return None;
    }
    Some((class, d))
}
/// Known finding C15-cubic-one-root-cancellation, recognised narrowly: the polynomial is (or delegates to) a
/// cubic in the one-root branch (d < 0) where one of r + sq, r - sq cancels below 1e-3 of its operands, AND the
/// value computed with the non-cancelling cube root (u = cbrt(r + copysign(sq, r)), v = -d0/u) passes the
/// residual test. Any other failure of the cubic solver keeps its own class.
fn cubic_cancellation(c: &[f64]) -> bool {
    let c: &[f64] = match c.len() {
        4 => c,
        5 if c[4] == 0.0 => &c[0..4],
        5 if c[0] == 0.0 => &c[1..5],
        _ => return false,
    };
    let c3_recip = c[3].recip();
    const ONETHIRD: f64 = 1. / 3.;
    let (c2, c1, c0) = (c[2] * (ONETHIRD * c3_recip), c[1] * (ONETHIRD * c3_recip), c[0] * c3_recip);
    if !(c0.is_finite() && c1.is_finite() && c2.is_finite()) {
        return false;
    }
    let d0 = (-c2).mul_add(c2, c1);
    let d1 = (-c1).mul_add(c2, c0);
    let d2 = c2 * c0 - c1 * c1;
    let d = 4.0 * d0 * d2 - d1 * d1;
    let de = (-2.0 * c2).mul_add(d0, d1);
    if !(d < 0.0) {
        return false;
    }
    let sq = (-0.25 * d).sqrt();
    let r = -0.5 * de;
    if !((r + sq).abs().min((r - sq).abs()) < 1e-3 * (r.abs() + sq)) {
        return false;
    }
    let u = (r + sq.copysign(r)).cbrt();
    let v = if u == 0.0 { 0.0 } else { -d0 / u };
    residual_ok(c, u + v - c2).is_ok()
}
/// last step of every polynomial law: narrow re-classification of the known cancellation, then the per-class cap
fn finish(res: Option<(String, String)>, c: Option<Vec<f64>>) -> Option<(String, String)> {
    let (class, desc) = res?;
    let class = match c {
        Some(c) if !class.contains("-leading-coefficient") && cubic_cancellation(&c) => "solve_cubic:one-root-cancellation".to_string(),
        _ => class,
    };
    limit(class, desc)
}
fn horner(c: &[f64], x: f64) -> f64 {
    c.iter().rev().fold(0.0, |acc, ci| acc * x + ci)
}
fn dhorner(c: &[f64], x: f64) -> f64 {
    let mut acc = 0.0;
    for i in (1..c.len()).rev() {
        acc = acc * x + c[i] * i as f64;
    }
    acc
}
/// Fujiwara's bound on the magnitude of every complex root (leading coefficient c[n] != 0)
fn fujiwara(c: &[f64]) -> f64 {
    let n = c.len() - 1;
    let an = c[n].abs();
    let mut m = 0f64;
    for k in 1..=n {
        let q = (c[n - k] / an).abs() * if k == n { 0.5 } else { 1.0 };
        m = m.max(q.powf(1.0 / k as f64));
    }
    2.0 * m
}
fn norm_sum(c: &[f64], r: f64) -> f64 {
    c.iter().enumerate().map(|(i, ci)| ci.abs() * r.powi(i as i32)).sum()
}
/// residual test for one returned value
fn residual_ok(c: &[f64], x: f64) -> Result<(), String> {
    if !x.is_finite() {
        return Err(format!("returned value {} is not finite", x));
    }
    let r = fujiwara(c);
    if !r.is_finite() {
        return Ok(()); // bound overflowed: nothing can be said normwise
    }
    if x.abs() > 1.0001 * r + f64::MIN_POSITIVE {
        return Err(format!("returned value {} exceeds the root bound {}", x, r));
    }
    let p = horner(c, x).abs();
    let tol = K * EPS * norm_sum(c, r);
    if p <= tol || !tol.is_finite() {
        Ok(())
    } else {
        Err(format!("|P({})| = {:e} > {:e} (normwise rounding level)", x, p, tol))
    }
}
/// forward tolerance for a simple root x given all other roots as (re, im)
fn forward_tol(x: f64, others: &[(f64, f64)], rmax: f64) -> f64 {
    let n = others.len() + 1;
    let mut prod = 1.0;
    for (re, im) in others {
        prod *= (x - re).hypot(*im);
    }
    K * EPS * (2.0 * rmax).powi(n as i32) / prod + 4.0 * EPS * x.abs()
}
/// every expected real root is matched by a distinct returned value
fn match_roots(name: &str, got: &[f64], expected: &[(f64, f64)], desc: &str) -> Option<(String, String)> {
    // expected: (root, tolerance), ascending
    let mut g = got.to_vec();
    g.sort_by(|a, b| a.partial_cmp(b).unwrap_or(std::cmp::Ordering::Equal));
    if g.len() != expected.len() {
        return fail(&format!("{}:count", name), format!("{}: {} values returned {:?}, {} separated real roots expected {:?}", desc, g.len(), got, expected.len(), expected.iter().map(|e| e.0).collect::<Vec<_>>()));
    }
    for (x, (e, tol)) in g.iter().zip(expected) {
        if !((x - e).abs() <= *tol) {
            return fail(&format!("{}:root-value", name), format!("{}: returned {:?}, expected root {} (tolerance {:e}) got {}", desc, got, e, tol, x));
        }
    }
    None
}

/// a magnitude profile for prescribed roots: overall size 1e-3..1e3, each root within 1e6 of the largest
fn root_mag(r: &mut Rng, top: f64) -> f64 {
    let m = match r.below(4) {
        0 => top,
        1 => top * 10f64.powf(-r.uniform(0.0, 6.0)),
        _ => top * 10f64.powf(-r.uniform(0.0, 2.0)),
    };
    m * if r.bool() { 1.0 } else { -1.0 } * r.uniform(0.5, 1.0)
}
fn top_mag(r: &mut Rng) -> f64 {
    10f64.powf(r.uniform(-3.0, 3.0))
}
fn law_scale(r: &mut Rng) -> f64 {
    10f64.powf(r.uniform(-6.0, 6.0)) * if r.bool() { 1.0 } else { -1.0 }
}
fn separated(xs: &[(f64, f64)]) -> bool {
    for i in 0..xs.len() {
        for j in 0..i {
            let d = (xs[i].0 - xs[j].0).hypot(xs[i].1 - xs[j].1);
            let m = xs[i].0.hypot(xs[i].1).max(xs[j].0.hypot(xs[j].1));
            if d < 1e-3 * m {
                return false;
            }
        }
    }
    true
}
/// multiply polynomial (ascending coefficients) by (x - p)
fn mul_lin(c: &[f64], p: f64) -> Vec<f64> {
    let mut o = vec![0.0; c.len() + 1];
    for (i, ci) in c.iter().enumerate() {
        o[i + 1] += ci;
        o[i] -= p * ci;
    }
    o
}
/// multiply by x^2 - 2u x + (u^2 + v^2)
fn mul_pair(c: &[f64], u: f64, v: f64) -> Vec<f64> {
    let (b, cc) = (-2.0 * u, u * u + v * v);
    let mut o = vec![0.0; c.len() + 2];
    for (i, ci) in c.iter().enumerate() {
        o[i + 2] += ci;
        o[i + 1] += b * ci;
        o[i] += cc * ci;
    }
    o
}

/// Generic generator: degree n polynomial from `nreal` real roots and (n - nreal)/2 complex pairs.
/// Output: [n, s, nreal, roots..., (u, v)...]; the law rebuilds the coefficients deterministically.
fn gen_from_roots(r: &mut Rng, n: usize) -> Vec<f64> {
    loop {
        let npairs = r.below((n / 2 + 1) as u64) as usize;
        let nreal = n - 2 * npairs;
        let top = top_mag(r);
        let mut all: Vec<(f64, f64)> = Vec::new();
        let mut v = vec![n as f64, law_scale(r), nreal as f64];
        for _ in 0..nreal {
            let x = match r.below(12) {
                0 | 1 => (root_mag(r, top) * 4.0).round() / 4.0,
                2 => 0.0, // c0 = 0 exactly: the quartic's "append a zero root" path
                _ => root_mag(r, top),
            };
            all.push((x, 0.0));
            v.push(x);
        }
        for _ in 0..npairs {
            let (u, w) = (root_mag(r, top), root_mag(r, top).abs());
            all.push((u, w));
            all.push((u, -w));
            v.push(u);
            v.push(w);
        }
        if separated(&all) && all.iter().filter(|z| z.0.hypot(z.1) == 0.0).count() <= 1 {
            return v;
        }
    }
}
fn build_from_roots(a: &[f64]) -> (Vec<f64>, Vec<f64>, Vec<(f64, f64)>) {
    let n = a[0] as usize;
    let s = a[1];
    let nreal = a[2] as usize;
    let reals: Vec<f64> = a[3..3 + nreal].to_vec();
    let mut all: Vec<(f64, f64)> = reals.iter().map(|x| (*x, 0.0)).collect();
    let mut c = vec![s];
    for x in &reals {
        c = mul_lin(&c, *x);
    }
    let mut i = 3 + nreal;
    while i + 1 < a.len() && all.len() < n {
        c = mul_pair(&c, a[i], a[i + 1]);
        all.push((a[i], a[i + 1]));
        all.push((a[i], -a[i + 1]));
        i += 2;
    }
    (c, reals, all)
}
fn solve_any(c: &[f64]) -> Vec<f64> {
    match c.len() {
        3 => solve_quadratic(c[0], c[1], c[2]).to_vec(),
        4 => solve_cubic(c[0], c[1], c[2], c[3]).to_vec(),
        _ => solve_quartic(c[0], c[1], c[2], c[3], c[4]).to_vec(),
    }
}
fn solver_name(n: usize) -> &'static str {
    match n {
        2 => "solve_quadratic",
        3 => "solve_cubic",
        _ => "solve_quartic",
    }
}

/// prescribed roots: every returned value is a root, count = number of (separated) real roots, each matched
fn law_from_roots(a: &[f64]) -> Option<(String, String)> {
    let (c, reals, all) = build_from_roots(a);
    let n = c.len() - 1;
    let name = solver_name(n);
    let got = solve_any(&c);
    let desc = format!("{}{:?}", name, c);
    if got.len() > n {
        return fail(&format!("{}:too-many", name), desc);
    }
    for x in &got {
        if let Err(e) = residual_ok(&c, *x) {
            return fail(&format!("{}:not-a-root", name), format!("{}: {}", desc, e));
        }
    }
    let rmax = all.iter().fold(0f64, |m, z| m.max(z.0.hypot(z.1)));
    let mut exp: Vec<(f64, f64)> = reals
        .iter()
        .map(|x| {
            let others: Vec<(f64, f64)> = {
                let mut skipped = false;
                all.iter().filter(|z| if !skipped && z.1 == 0.0 && z.0 == *x { skipped = true; false } else { true }).cloned().collect()
            };
            (*x, forward_tol(*x, &others, rmax))
        })
        .collect();
    exp.sort_by(|p, q| p.0.partial_cmp(&q.0).unwrap());
    if let Some(v) = match_roots(name, &got, &exp, &desc) {
        return Some(v);
    }
    if n == 2 && got.len() == 2 && !(got[0] <= got[1]) {
        return fail("solve_quadratic:order", format!("{}: {:?} not ascending", desc, got));
    }
    None
}
fn g_roots2(r: &mut Rng) -> Vec<f64> {
    gen_from_roots(r, 2)
}
fn g_roots3(r: &mut Rng) -> Vec<f64> {
    gen_from_roots(r, 3)
}
fn g_roots4(r: &mut Rng) -> Vec<f64> {
    gen_from_roots(r, 4)
}

// ---- integer coefficients, exact root counts

fn gi(r: &mut Rng, m: i64) -> f64 {
    match r.below(3) {
        0 => r.range_i(-9, 9) as f64,
        1 => r.range_i(-m.min(60), m.min(60)) as f64,
        _ => r.range_i(-m, m) as f64,
    }
}
/// [deg, c0..c_deg] integer, |c| <= 1000; quartics are products of integer factors (so the count is known)
fn g_int(r: &mut Rng) -> Vec<f64> {
    match r.below(4) {
        3 => {
            // s (a x + b)^2: exact double root -b/a
            let (a, b, s) = (r.range_i(1, 15) as f64, r.range_i(-15, 15) as f64, *r.pick(&[1.0, -1.0, 2.0, 3.0, 4.0]));
            vec![2.0, s * b * b, 2.0 * s * a * b, s * a * a]
        }
        0 => vec![2.0, gi(r, 1000), gi(r, 1000), gi(r, 1000)],
        1 => vec![3.0, gi(r, 1000), gi(r, 1000), gi(r, 1000), gi(r, 1000)],
        _ => loop {
            // (a1 x^2 + b1 x + c1)(a2 x^2 + b2 x + c2), small integers; args carry the factors
            let f: Vec<f64> = (0..6).map(|_| r.range_i(-22, 22) as f64).collect();
            if f[2] != 0.0 && f[5] != 0.0 {
                let mut v = vec![4.0];
                v.extend(f);
                return v;
            }
        },
    }
}
fn disc2(c0: i128, c1: i128, c2: i128) -> i128 {
    c1 * c1 - 4 * c2 * c0
}
fn law_int(a: &[f64]) -> Option<(String, String)> {
    let deg = a[0] as usize;
    match deg {
        2 => {
            let (c0, c1, c2) = (a[1], a[2], a[3]);
            let got = solve_quadratic(c0, c1, c2);
            let desc = format!("solve_quadratic({}, {}, {}) = {:?}", c0, c1, c2, got);
            if c2 == 0.0 {
                let want: Vec<f64> = if c1 != 0.0 { vec![-c0 / c1] } else if c0 == 0.0 { vec![0.0] } else { vec![] };
                if got.len() != want.len() || got.iter().zip(&want).any(|(x, y)| (x - y).abs() > 4.0 * EPS * y.abs()) {
                    return fail("solve_quadratic:linear", format!("{}, expected {:?}", desc, want));
                }
                return None;
            }
            let d = disc2(c0 as i128, c1 as i128, c2 as i128);
            for x in got.iter() {
                if let Err(e) = residual_ok(&a[1..], *x) {
                    return fail("solve_quadratic:not-a-root", format!("{}: {}", desc, e));
                }
            }
            let want = if d < 0 { 0 } else if d > 0 { 2 } else { 1 };
            if d != 0 && got.len() != want {
                return fail("solve_quadratic:count", format!("{}: exact discriminant {} requires {} roots", desc, d, want));
            }
            if d == 0 {
                // a double root is not separated: any count <= 2, but every value near -c1/(2 c2)
                let x0 = -c1 / (2.0 * c2);
                if got.len() > 2 || got.iter().any(|x| (x - x0).abs() > 1e-6 * x0.abs().max(1e-3)) {
                    return fail("solve_quadratic:double-root", format!("{}: double root {}", desc, x0));
                }
            }
            if got.len() == 2 && !(got[0] < got[1]) {
                return fail("solve_quadratic:order", desc);
            }
            None
        }
        3 => {
            let c: Vec<f64> = a[1..5].to_vec();
            let got = solve_cubic(c[0], c[1], c[2], c[3]);
            let desc = format!("solve_cubic{:?} = {:?}", c, got);
            if c[3] == 0.0 {
                let q = solve_quadratic(c[0], c[1], c[2]);
                if got.as_slice() != q.as_slice() {
                    return fail("solve_cubic:zero-leading-coefficient", format!("{} but solve_quadratic gives {:?}", desc, q));
                }
                return None;
            }
            if got.len() > 3 {
                return fail("solve_cubic:too-many", desc);
            }
            for x in got.iter() {
                if let Err(e) = residual_ok(&c, *x) {
                    return fail("solve_cubic:not-a-root", format!("{}: {}", desc, e));
                }
            }
            // discriminant of a x^3 + b x^2 + c x + d, exact
            let (d_, c_, b_, a_) = (c[0] as i128, c[1] as i128, c[2] as i128, c[3] as i128);
            let disc = 18 * a_ * b_ * c_ * d_ - 4 * b_ * b_ * b_ * d_ + b_ * b_ * c_ * c_ - 4 * a_ * c_ * c_ * c_ - 27 * a_ * a_ * d_ * d_;
            if disc > 0 && got.len() != 3 {
                return fail("solve_cubic:count", format!("{}: exact discriminant {} > 0 requires 3 roots", desc, disc));
            }
            if disc < 0 && got.len() != 1 {
                return fail("solve_cubic:count", format!("{}: exact discriminant {} < 0 requires 1 root", desc, disc));
            }
            if disc == 0 && got.is_empty() {
                return fail("solve_cubic:count", format!("{}: a real cubic has a real root", desc));
            }
            None
        }
        _ => {
            let f = &a[1..7]; // c1 b1 a1 | c2 b2 a2 (ascending in each factor)
            let mut c = vec![0.0; 5];
            for i in 0..3 {
                for j in 0..3 {
                    c[i + j] += f[i] * f[3 + j];
                }
            }
            if c.iter().any(|x| x.abs() > 1000.0) {
                return None;
            }
            let got = solve_quartic(c[0], c[1], c[2], c[3], c[4]);
            let desc = format!("solve_quartic{:?} = {:?}  (factors {:?})", c, got, f);
            if got.len() > 4 {
                return fail("solve_quartic:too-many", desc);
            }
            for x in got.iter() {
                if let Err(e) = residual_ok(&c, *x) {
                    return fail("solve_quartic:not-a-root", format!("{}: {}", desc, e));
                }
            }
            let d1 = disc2(f[0] as i128, f[1] as i128, f[2] as i128);
            let d2 = disc2(f[3] as i128, f[4] as i128, f[5] as i128);
            // resultant of the two quadratics: zero iff they share a root
            let (p0, p1, p2, q0, q1, q2) = (f[0] as i128, f[1] as i128, f[2] as i128, f[3] as i128, f[4] as i128, f[5] as i128);
            let res = (p2 * q0 - q2 * p0) * (p2 * q0 - q2 * p0) - (p2 * q1 - q2 * p1) * (p1 * q0 - q1 * p0);
            if d1 != 0 && d2 != 0 && res != 0 && c[0] != 0.0 {
                let want = (if d1 > 0 { 2 } else { 0 }) + (if d2 > 0 { 2 } else { 0 });
                // separation >= 1e-3 relative is part of the quantifier: decide it on the exact factor roots
                let mut roots: Vec<(f64, f64)> = Vec::new();
                for (k, d) in [(0usize, d1), (3usize, d2)] {
                    let (c0, c1, c2) = (f[k], f[k + 1], f[k + 2]);
                    if d > 0 {
                        let s = (d as f64).sqrt();
                        roots.push(((-c1 - s) / (2.0 * c2), 0.0));
                        roots.push(((-c1 + s) / (2.0 * c2), 0.0));
                    } else {
                        let s = (-(d as f64)).sqrt();
                        roots.push((-c1 / (2.0 * c2), s / (2.0 * c2)));
                        roots.push((-c1 / (2.0 * c2), -s / (2.0 * c2)));
                    }
                }
                if separated(&roots) && got.len() != want {
                    return fail("solve_quartic:count", format!("{}: factor discriminants {} and {} require {} roots", desc, d1, d2, want));
                }
            }
            None
        }
    }
}

// ---- structured quartics: factors with a common linear coefficient (d_2 = 0 in factor_quartic_inner),
//      x^4 + c x + d (a = b = 0), biquadratics

/// [kind, scale, params...]
fn g_quartic_structured(r: &mut Rng) -> Vec<f64> {
    let val = |r: &mut Rng| -> f64 {
        match r.below(3) {
            0 => r.range_i(-20, 20) as f64 / *r.pick(&[1.0, 2.0, 3.0, 7.0, 10.0]),
            1 => r.uniform(-4.0, 4.0),
            _ => r.generic(-4, 4),
        }
    };
    let s = if r.bool() { 1.0 } else { law_scale(r) };
    match r.below(3) {
        0 => vec![0.0, s, val(r), val(r), val(r)],
        1 => vec![1.0, s, r.range_i(-1000, 1000) as f64, r.range_i(-1000, 1000) as f64],
        _ => vec![2.0, s, val(r), val(r)],
    }
}
/// roots of x^2 + a x + b as (re, im) pairs
fn quad_roots(a: f64, b: f64) -> [(f64, f64); 2] {
    let d = a * a - 4.0 * b;
    if d >= 0.0 {
        let q = -0.5 * (a + d.sqrt().copysign(a));
        if q == 0.0 {
            [(0.0, 0.0), (0.0, 0.0)]
        } else {
            [(q, 0.0), (b / q, 0.0)]
        }
    } else {
        [(-0.5 * a, 0.5 * (-d).sqrt()), (-0.5 * a, -0.5 * (-d).sqrt())]
    }
}
fn law_quartic_structured(v: &[f64]) -> Option<(String, String)> {
    let s = v[1];
    let (c, all): (Vec<f64>, Option<Vec<(f64, f64)>>) = match v[0] as usize {
        0 | 2 => {
            let (a, b1, b2) = if v[0] == 0.0 { (v[2], v[3], v[4]) } else { (0.0, -v[2], -v[3]) };
            let mut all = quad_roots(a, b1).to_vec();
            all.extend(quad_roots(a, b2));
            (vec![s * b1 * b2, s * a * (b1 + b2), s * (b1 + b2 + a * a), s * 2.0 * a, s], Some(all))
        }
        _ => (vec![s * v[3], s * v[2], 0.0, 0.0, s], None),
    };
    let got = solve_quartic(c[0], c[1], c[2], c[3], c[4]);
    let desc = format!("solve_quartic{:?} = {:?}", c, got);
    let class = match v[0] as usize {
        0 => "solve_quartic:common-linear-coefficient",
        1 => "solve_quartic:no-cubic-no-quadratic-term",
        _ => "solve_quartic:biquadratic",
    };
    if got.len() > 4 {
        return fail(class, format!("{}: too many values", desc));
    }
    if c[0] == 0.0 {
        return None; // the c0 = 0 path is exercised by the other laws
    }
    for x in &got {
        if let Err(e) = residual_ok(&c, *x) {
            return fail(class, format!("{}: {}", desc, e));
        }
    }
    match all {
        Some(all) => {
            if !separated(&all) {
                return None;
            }
            let rmax = all.iter().fold(0f64, |m, z| m.max(z.0.hypot(z.1)));
            let mut exp: Vec<(f64, f64)> = Vec::new();
            for (i, z) in all.iter().enumerate() {
                if z.1 == 0.0 {
                    let others: Vec<(f64, f64)> = all.iter().enumerate().filter(|(j, _)| *j != i).map(|(_, w)| *w).collect();
                    exp.push((z.0, forward_tol(z.0, &others, rmax)));
                }
            }
            exp.sort_by(|p, q| p.0.partial_cmp(&q.0).unwrap());
            match_roots("solve_quartic", &got, &exp, &desc).map(|(_, d)| (class.to_string(), d))
        }
        None => {
            // x^4 + c x + d: discriminant 256 d^3 - 27 c^4; < 0: two real roots, > 0: none (convex)
            let (cc, d) = (v[2] as i128, v[3] as i128);
            let disc = 256 * d * d * d - 27 * cc * cc * cc * cc;
            let want = if disc < 0 { 2 } else { 0 };
            if disc != 0 && got.len() != want {
                return fail(class, format!("{}: exact discriminant {} requires {} real roots", desc, disc, want));
            }
            None
        }
    }
}

// ---- negligible / vanishing leading coefficient (the degree-raised case)

const RAISE: [f64; 6] = [1.0, 1e-4, 1e-8, 1e-16, 1e-300, 0.0];

/// [deg of the lower polynomial m (1..3), k index, sign, lower-degree data as for from_roots]
fn g_raised(r: &mut Rng) -> Vec<f64> {
    let m = 1 + r.below(3) as usize;
    let mut v = vec![r.below(RAISE.len() as u64) as f64, if r.bool() { 1.0 } else { -1.0 }];
    v.extend(gen_from_roots(r, m));
    v
}
/// Newton polish of a root of the raised polynomial starting from the lower polynomial's root
fn polish(c: &[f64], x0: f64) -> f64 {
    let mut x = x0;
    for _ in 0..6 {
        let d = dhorner(c, x);
        if d == 0.0 || !d.is_finite() {
            break;
        }
        let nx = x - horner(c, x) / d;
        if !nx.is_finite() {
            break;
        }
        x = nx;
    }
    x
}
fn law_raised(a: &[f64]) -> Option<(String, String)> {
    let k = RAISE[a[0] as usize];
    let (lower, reals, all) = build_from_roots(&a[2..]);
    let m = lower.len() - 1;
    let name = solver_name(m + 1);
    let big = lower.iter().fold(0f64, |x, y| x.max(y.abs()));
    let lead = a[1] * k * big;
    let mut c = lower.clone();
    c.push(lead);
    let got = solve_any(&c);
    let desc = format!("{}{:?} (leading coefficient = {:e} x the largest other) = {:?}; lower-degree real roots {:?}", name, c, k, got, reals);
    // is the leading term below the rounding level of the lower polynomial at each of its roots?
    let negligible = lead == 0.0
        || all.iter().all(|z| {
            let x = z.0.hypot(z.1);
            lead.abs() * x.powi(m as i32 + 1) <= 4.0 * EPS * norm_sum(&lower, x)
        });
    let class = if lead == 0.0 {
        format!("{}:zero-leading-coefficient", name)
    } else if negligible {
        format!("{}:tiny-leading-coefficient", name)
    } else {
        format!("{}:raised-degree", name)
    };
    if got.len() > m + 1 {
        return fail(&class, format!("{}: too many values", desc));
    }
    if lead == 0.0 {
        let low = solve_any_lower(&lower);
        let mut g = got.clone();
        let mut l = low.clone();
        g.sort_by(|a, b| a.partial_cmp(b).unwrap_or(std::cmp::Ordering::Equal));
        l.sort_by(|a, b| a.partial_cmp(b).unwrap_or(std::cmp::Ordering::Equal));
        if g.len() != l.len() || g.iter().zip(&l).any(|(x, y)| x != y) {
            return fail(&class, format!("{}: the lower-degree solver returns {:?}", desc, low));
        }
        // identical to the lower-degree solver's result: its accuracy is the business of the other laws
        return None;
    } else {
        for x in &got {
            if let Err(e) = residual_ok(&c, *x) {
                return fail(&class, format!("{}: {}", desc, e));
            }
        }
    }
    // every real root of the lower polynomial (moved by the leading term) must be present
    let rmax_low = all.iter().fold(0f64, |mx, z| mx.max(z.0.hypot(z.1)));
    for x in &reals {
        let others: Vec<(f64, f64)> = {
            let mut skipped = false;
            all.iter().filter(|z| if !skipped && z.1 == 0.0 && z.0 == *x { skipped = true; false } else { true }).cloned().collect()
        };
        let xs = if lead == 0.0 { *x } else { polish(&c, *x) };
        let mut tol = forward_tol(*x, &others, rmax_low);
        if !negligible {
            // not negligible: the lower polynomial's root must really persist in the raised polynomial (a small,
            // converged Newton correction), and only the normwise bound of the raised polynomial applies
            // (its extra root is ~ -c_m/lead)
            let sep = others.iter().fold(f64::INFINITY, |m, z| m.min((x - z.0).hypot(z.1)));
            let sep = if sep.is_finite() { sep } else { x.abs() };
            if !((xs - x).abs() <= 1e-2 * sep) || !(horner(&c, xs).abs() <= 64.0 * EPS * norm_sum(&c, xs.abs())) {
                continue;
            }
            let huge = (lower[m] / lead).abs().max(rmax_low);
            let mut o2 = others.clone();
            o2.push((-lower[m] / lead, 0.0));
            tol = tol.max(forward_tol(xs, &o2, huge));
        }
        if !got.iter().any(|g| (g - xs).abs() <= tol) {
            return fail(&class, format!("{}: no returned value within {:e} of the root {}", desc, tol, xs));
        }
    }
    None
}
fn solve_any_lower(c: &[f64]) -> Vec<f64> {
    match c.len() {
        2 => solve_quadratic(c[0], c[1], 0.0).to_vec(),
        3 => solve_quadratic(c[0], c[1], c[2]).to_vec(),
        _ => solve_cubic(c[0], c[1], c[2], c[3]).to_vec(),
    }
}

// ---- ITP

/// monotone increasing g; f(x) = g(x) - g(z): [kind, z, a, b, eps, n0, k1mode]
fn itp_g(kind: usize, x: f64) -> f64 {
    match kind {
        0 => x,
        1 => x * x * x,
        2 => x / (1.0 + x.abs()),
        _ => x.exp(),
    }
}
fn g_itp(r: &mut Rng) -> Vec<f64> {
    let kind = r.below(4) as f64;
    let a = r.uniform(-3.0, 3.0);
    let b = a + 10f64.powf(r.uniform(-3.0, 0.7));
    let z = a + (b - a) * r.uniform(0.001, 0.999);
    if r.chance(1, 8) {
        // epsilon below the resolution of f64 at the bracket, nmax >= 64 (repair commit 75101ed): the solver must
        // still return, within a few ulps of the zero
        let eps = (b - a) * 2f64.powi(-(r.range_i(56, 140) as i32)) * r.uniform(0.55, 0.95);
        return vec![kind, z, a, b, eps, *r.pick(&[0.0, 1.0, 64.0]), 0.0];
    }
    let eps = (b - a) * 10f64.powf(r.uniform(-9.0, -0.3));
    vec![kind, z, a, b, eps, r.below(3) as f64, r.below(3) as f64]
}
fn law_itp(v: &[f64]) -> Option<(String, String)> {
    let (kind, z, a, b, eps, n0) = (v[0] as usize, v[1], v[2], v[3], v[4], v[5] as usize);
    let k1 = match v[6] as usize {
        0 => 0.2 / (b - a),
        1 => 0.0,
        _ => 1.0,
    };
    let gz = itp_g(kind, z);
    let f = |x: f64| itp_g(kind, x) - gz;
    let (ya, yb) = (f(a), f(b));
    if !(ya < 0.0 && yb > 0.0) {
        return None;
    }
    kurbo::verif::reset();
    let mut evals = 0u64;
    let x = solve_itp(
        |x| {
            evals += 1;
            if evals > ITP_MAX_EVALS {
                panic!("solve_itp does not terminate"); // reported as class itp_monotone:panic
            }
            f(x)
        },
        a,
        b,
        eps,
        n0,
        k1,
        ya,
        yb,
    );
    let iters = kurbo::verif::work();
    let desc = format!("solve_itp(g{} - g{}({}), a={}, b={}, eps={:e}, n0={}, k1={}) = {} after {} iterations", kind, kind, z, a, b, eps, n0, k1, x, iters);
    if !(x >= a && x <= b) {
        return fail("solve_itp:outside-bracket", desc);
    }
    // f is evaluated with rounding: its computed sign is right outside a few ulps of z
    let slack = 4096.0 * EPS * (a.abs().max(b.abs()) + 1.0);
    if !((x - z).abs() <= eps * (1.0 + 8.0 * EPS) + slack) {
        return fail("solve_itp:not-within-epsilon", format!("{}: |x - z| = {:e}", desc, (x - z).abs()));
    }
    let n1_2 = (((b - a) / eps).log2().ceil() - 1.0).max(0.0) as u64;
    if iters > n0 as u64 + n1_2 + 1 {
        return fail("solve_itp:iteration-budget", format!("{}: budget n0 + n1/2 = {}", desc, n0 as u64 + n1_2));
    }
    None
}

/// s (x - a)^3 with inexact coefficients: a triple root is not "separated", so any count 1..3 is accepted, but
/// every returned value must be finite and within the cube-root sensitivity (eps^(1/3) ~ 6e-6) of a
fn g_triple(r: &mut Rng) -> Vec<f64> {
    let a = match r.below(4) {
        0 => r.range_i(-99, 99) as f64 / 10.0,
        1 => r.uniform(-10.0, 10.0),
        2 => r.generic(-6, 6),
        // a triple root of very small magnitude: 4*d0*d2 - d1*d1 underflows to exactly 0.0 while the rounded d0
        // stays positive, so the `d == 0` branch is entered with the clamp on d0 active (seed C14g)
        _ => {
            let m = r.uniform(1.0, 10.0) * if r.bool() { -1.0 } else { 1.0 };
            m * 10f64.powi(-(r.range_i(20, 95) as i32))
        }
    };
    vec![a, law_scale(r)]
}
fn law_triple(v: &[f64]) -> Option<(String, String)> {
    let (a, s) = (v[0], v[1]);
    let c = [-s * a * a * a, 3.0 * s * a * a, -3.0 * s * a, s];
    let got = solve_cubic(c[0], c[1], c[2], c[3]);
    if got.is_empty() || got.len() > 3 || got.iter().any(|x| !x.is_finite() || (x - a).abs() > 1e-4 * a.abs()) {
        return fail("solve_cubic:triple-root", format!("solve_cubic{:?} = {:?}; triple root {}", c, got, a));
    }
    None
}
fn w_triple(a: &[f64]) -> Option<(String, String)> {
    finish(law_triple(a), None)
}
fn w_from_roots(a: &[f64]) -> Option<(String, String)> {
    finish(law_from_roots(a), Some(build_from_roots(a).0))
}
fn w_int(a: &[f64]) -> Option<(String, String)> {
    let c = if a[0] == 3.0 {
        Some(a[1..5].to_vec())
    } else if a[0] == 4.0 {
        // product of the two integer quadratics (c0 = 0 or c4 = 0 delegates to the cubic solver)
        let f = &a[1..7];
        let mut c = vec![0.0; 5];
        for i in 0..3 {
            for j in 0..3 {
                c[i + j] += f[i] * f[3 + j];
            }
        }
        Some(c)
    } else {
        None
    };
    finish(law_int(a), c)
}
fn w_raised(a: &[f64]) -> Option<(String, String)> {
    let k = RAISE[a[0] as usize];
    let mut c = build_from_roots(&a[2..]).0;
    let big = c.iter().fold(0f64, |x, y| x.max(y.abs()));
    c.push(a[1] * k * big);
    finish(law_raised(a), Some(c))
}
fn w_quartic_structured(a: &[f64]) -> Option<(String, String)> {
    finish(law_quartic_structured(a), None)
}
fn w_itp(a: &[f64]) -> Option<(String, String)> {
    finish(law_itp(a), None)
}

fn laws() -> Vec<Law> {
    vec![
        Law { name: "quadratic_from_roots", gen: g_roots2, check: w_from_roots, weight: 3 },
        Law { name: "cubic_from_roots", gen: g_roots3, check: w_from_roots, weight: 4 },
        Law { name: "quartic_from_roots", gen: g_roots4, check: w_from_roots, weight: 4 },
        Law { name: "integer_coefficients", gen: g_int, check: w_int, weight: 4 },
        Law { name: "quartic_structured", gen: g_quartic_structured, check: w_quartic_structured, weight: 3 },
        Law { name: "cubic_triple_root", gen: g_triple, check: w_triple, weight: 1 },
        Law { name: "raised_degree", gen: g_raised, check: w_raised, weight: 3 },
        Law { name: "itp_monotone", gen: g_itp, check: w_itp, weight: 2 },
    ]
}

fn extra(_r: &mut Rng, _thorough: bool, o: &mut Out) {
    // known finding: solve_cubic on a quadratic raised with a leading coefficient of rounding size
    let (p, q) = (-1.55f64, -3.35f64);
    let got = solve_cubic(p * q, -(p + q), 1.0, 1e-16);
    let bad = !(got.iter().any(|x| (x - p).abs() < 1e-6) && got.iter().any(|x| (x - q).abs() < 1e-6));
    o.known(
        "C15-cubic-tiny-leading",
        bad,
        format!("solve_cubic({}, {}, 1, 1e-16) = {:?}; the roots of the quadratic are {} and {}", p * q, -(p + q), got, p, q),
    );
    let got = solve_cubic(p * q, -(p + q), 1.0, 1e-300);
    o.known(
        "C15-cubic-tiny-leading",
        got.iter().any(|x| !x.is_finite()) || got.len() < 2,
        format!("solve_cubic({}, {}, 1, 1e-300) = {:?}", p * q, -(p + q), got),
    );
    // known finding: the one-root branch loses the smaller cube root to cancellation
    let got = solve_cubic(-5.0, 1e-5, 0.0, 1.0);
    o.known(
        "C15-cubic-one-root-cancellation",
        !(got.len() == 1 && (got[0] - 1.7099739973315382).abs() < 1e-12),
        format!("solve_cubic(-5, 1e-5, 0, 1) = {:?}; the root is 1.7099739973315382", got),
    );
    // known finding: solve_quartic gives up (overflow) when the leading coefficient is 1e-300
    let got = solve_quartic(6.0, -7.0, 0.0, 1.0, 1e-300);
    o.known(
        "C15-quartic-tiny-leading",
        got.len() < 3,
        format!("solve_quartic(6, -7, 0, 1, 1e-300) = {:?}; the cubic x^3 - 7x + 6 has roots -3, 1, 2", got),
    );
}
