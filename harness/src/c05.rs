//! C05 — flattening yields a faithful polyline of the path.
use crate::geom::*;
use crate::util::{fmt_fs, json_str, Out, Rng};
use crate::{Law, Prop};
use kurbo::verif::{verif_approx_parabola_integral, verif_approx_parabola_inv_integral};
use kurbo::{flatten, BezPath, CubicBez, ParamCurve, ParamCurveDeriv, PathEl, PathSeg, Point, QuadBez};

pub fn prop() -> Prop {
    Prop { id: "C05", corr, laws, extra, law_budget: (300, 3000) }
}

// ------------------------------------------------------------------ generators

/// tolerances 1e-5 .. 1 (the property's range): structured values and generic ones
fn gen_tol(r: &mut Rng) -> f64 {
    match r.below(6) {
        0 => *r.pick(&[0.25, 0.1, 1.0, 0.5, 1e-3, 0.01, 1e-5, 0.0625]),
        1 => 2f64.powi(-(r.range_i(0, 16) as i32)),
        _ => 10f64.powf(r.uniform(-5.0, 0.0)),
    }
}

/// tolerance that keeps the vertex count of a curve of extent `ext` moderate
fn gen_tol_for(r: &mut Rng, ext: f64) -> f64 {
    let t = gen_tol(r);
    // count ~ sqrt(ext / tol): keep it below ~200
    let lo = (ext / 4.0e4).min(1.0);
    if t < lo {
        (lo * (1.0 + r.unit())).min(1.0)
    } else {
        t
    }
}

fn els_extent(els: &[PathEl]) -> f64 {
    let mut m = 0.0f64;
    let mut upd = |p: &Point| m = m.max(p.x.abs()).max(p.y.abs());
    for e in els {
        match e {
            PathEl::MoveTo(p) | PathEl::LineTo(p) => upd(p),
            PathEl::QuadTo(a, b) => {
                upd(a);
                upd(b)
            }
            PathEl::CurveTo(a, b, c) => {
                upd(a);
                upd(b);
                upd(c)
            }
            PathEl::ClosePath => {}
        }
    }
    m
}

/// element sequences after an initial MoveTo: every interleaving, including drawing elements
/// directly after ClosePath, repeated MoveTo, degenerate control polygons
fn gen_path(r: &mut Rng) -> Vec<PathEl> {
    let mode = r.below(5);
    let gp = |r: &mut Rng| match mode {
        0 => grid_point(r),
        1 => Point::new(r.grid(4, 1.0), r.grid(4, 1.0)),
        2 => Point::new(r.generic(-2, 6), r.generic(-2, 6)),
        _ => gen_point(r),
    };
    let mut v = vec![PathEl::MoveTo(gp(r))];
    let n = 1 + r.below(7) as usize;
    for _ in 0..n {
        match r.below(12) {
            0 => v.push(PathEl::MoveTo(gp(r))),
            1 | 2 => v.push(PathEl::LineTo(gp(r))),
            3 | 4 => v.push(PathEl::QuadTo(gp(r), gp(r))),
            5 | 6 => v.push(PathEl::CurveTo(gp(r), gp(r), gp(r))),
            7 => {
                // structured control polygon (collinear, repeated points, shared coordinates)
                let p = gen_points(r, 3);
                v.push(PathEl::MoveTo(p[0]));
                v.push(PathEl::QuadTo(p[1], p[2]));
            }
            8 => {
                let p = gen_points(r, 4);
                v.push(PathEl::MoveTo(p[0]));
                v.push(PathEl::CurveTo(p[1], p[2], p[3]));
            }
            9 => v.push(PathEl::ClosePath),
            _ => {
                // a drawing element directly after ClosePath
                v.push(PathEl::ClosePath);
                match r.below(3) {
                    0 => v.push(PathEl::LineTo(gp(r))),
                    1 => v.push(PathEl::QuadTo(gp(r), gp(r))),
                    _ => v.push(PathEl::CurveTo(gp(r), gp(r), gp(r))),
                }
            }
        }
    }
    v
}

/// More output elements than any input of the generators can legitimately produce (they keep
/// extent / tolerance <= 4e4, i.e. a few hundred vertices per curve): flattening is aborted there so
/// that a defect which blows the subdivision count up cannot stall the check.
const OUT_CAP: usize = 200_000;
thread_local! { static OVERFLOW: std::cell::Cell<bool> = std::cell::Cell::new(false); }
// (samples, largest curve->polyline distance / tol, largest polyline->curve distance / tol) seen by the law `hausdorff`
thread_local! { static HD_STATS: std::cell::Cell<(u64, f64, f64)> = std::cell::Cell::new((0, 0.0, 0.0)); }

fn run_flatten(els: &[PathEl], tol: f64) -> Vec<PathEl> {
    let mut out = Vec::new();
    let r = std::panic::catch_unwind(std::panic::AssertUnwindSafe(|| {
        flatten(els.iter().cloned(), tol, |e| {
            if out.len() >= OUT_CAP {
                panic!("output cap");
            }
            out.push(e)
        })
    }));
    if r.is_err() {
        OVERFLOW.with(|o| o.set(true));
    }
    out
}

/// did any `run_flatten` since the last call hit the cap?
fn take_overflow() -> bool {
    OVERFLOW.with(|o| o.replace(false))
}

fn overflow_violation(what: &str) -> Option<(String, String)> {
    if take_overflow() {
        Some(("vertex-count:explosion".to_string(), format!("flatten emitted more than {} elements for {}", OUT_CAP, what)))
    } else {
        None
    }
}

// ------------------------------------------------------------------ libm tables for the correspondence

/// `(dd.x, dd.y, dd.hypot())` exactly as `estimate_subdiv` obtains it
fn quad_hyp(q: &QuadBez) -> [f64; 3] {
    let d01 = q.p1 - q.p0;
    let d12 = q.p2 - q.p1;
    let dd = d01 - d12;
    [dd.x, dd.y, dd.hypot()]
}

/// `(err / max_hypot2, 1/6, powf)` exactly as `to_quads` obtains it
fn cubic_pow(c: &CubicBez, accuracy: f64) -> [f64; 3] {
    let max_hypot2 = 432.0 * accuracy * accuracy;
    let p1x2 = 3.0 * c.p1.to_vec2() - c.p0.to_vec2();
    let p2x2 = 3.0 * c.p2.to_vec2() - c.p3.to_vec2();
    let err = (p2x2 - p1x2).hypot2();
    let x = err / max_hypot2;
    [x, 1. / 6.0, x.powf(1. / 6.0)]
}

fn push_tbl(v: &mut Vec<f64>, t: &[[f64; 3]]) {
    v.push(t.len() as f64);
    for e in t {
        v.extend_from_slice(e);
    }
}

/// the libm results `flatten(els, tol)` obtains, walking the elements with the current point
/// kept after ClosePath (entries that the pinned code does not use are harmless)
fn path_tables(els: &[PathEl], tol: f64) -> (Vec<[f64; 3]>, Vec<[f64; 3]>) {
    let (mut th, mut tp) = (Vec::new(), Vec::new());
    let mut start: Option<Point> = None;
    let mut last: Option<Point> = None;
    for e in els {
        match *e {
            PathEl::MoveTo(p) => {
                start = Some(p);
                last = Some(p);
            }
            PathEl::LineTo(p) => last = Some(p),
            PathEl::QuadTo(p1, p2) => {
                if let Some(p0) = last {
                    th.push(quad_hyp(&QuadBez::new(p0, p1, p2)));
                }
                last = Some(p2);
            }
            PathEl::CurveTo(p1, p2, p3) => {
                if let Some(p0) = last {
                    let c = CubicBez::new(p0, p1, p2, p3);
                    let acc = tol * 0.1;
                    tp.push(cubic_pow(&c, acc));
                    for (_, _, q) in c.to_quads(acc) {
                        th.push(quad_hyp(&q));
                    }
                }
                last = Some(p3);
            }
            PathEl::ClosePath => last = start,
        }
    }
    (th, tp)
}

/// which branch `estimate_subdiv` takes (replicates only the tests, for the distribution report)
fn subdiv_branch(q: &QuadBez) -> (&'static str, f64) {
    let d01 = q.p1 - q.p0;
    let d12 = q.p2 - q.p1;
    let dd = d01 - d12;
    let cross = (q.p2 - q.p0).cross(dd);
    let x0 = d01.dot(dd) * cross.recip();
    let x2 = d12.dot(dd) * cross.recip();
    let scale = (cross / (dd.hypot() * (x2 - x0))).abs();
    if scale.is_finite() {
        if x0.signum() == x2.signum() {
            ("same-sign", 1.0)
        } else {
            ("cusp", 2.0)
        }
    } else {
        ("scale-not-finite", 0.0)
    }
}

fn qv(q: &QuadBez) -> Vec<f64> {
    vec![q.p0.x, q.p0.y, q.p1.x, q.p1.y, q.p2.x, q.p2.y]
}
fn cv(c: &CubicBez) -> Vec<f64> {
    vec![c.p0.x, c.p0.y, c.p1.x, c.p1.y, c.p2.x, c.p2.y, c.p3.x, c.p3.y]
}

fn gen_x(r: &mut Rng) -> f64 {
    match r.below(10) {
        0 => *r.pick(&[0.0, -0.0, 1.0, -1.0, 1e-300, -1e-300, 1e300, 1e155, 1e160, -1e160, f64::INFINITY, f64::NEG_INFINITY, f64::NAN, 5e-324]),
        1 | 2 => r.grid(40, 8.0),
        3 => r.generic(-60, 60),
        _ => r.coord(),
    }
}

fn corr(r: &mut Rng, thorough: bool, o: &mut Out) {
    let pinned = std::env::var("KV_C05_PINNED").is_ok(); // development aid: compare with the pinned model (op 7)
    // --- approx_parabola_integral / inv_integral
    let n = if thorough { 4000 } else { 300 };
    for _ in 0..n {
        let x = gen_x(r);
        let tag = if !x.is_finite() { "non-finite" } else if x == 0.0 { "zero" } else { "finite" };
        o.case(1, "approx_parabola_integral", vec![x], vec![verif_approx_parabola_integral(x)], x.is_finite() && x != 0.0, tag);
        o.case(2, "approx_parabola_inv_integral", vec![x], vec![verif_approx_parabola_inv_integral(x)], x.is_finite() && x != 0.0, tag);
    }
    // --- estimate_subdiv / determine_subdiv_t
    let n = if thorough { 6000 } else { 400 };
    for _ in 0..n {
        let q = gen_quad(r);
        let st = gen_tol(r).sqrt();
        let (a0, a2, u0, uscale, val) = q.verif_estimate_subdiv(st);
        let (tag, br) = subdiv_branch(&q);
        let mut a = qv(&q);
        a.push(st);
        push_tbl(&mut a, &[quad_hyp(&q)]);
        o.case(3, "estimate_subdiv", a, vec![a0, a2, u0, uscale, val, br], br != 0.0, tag);
        let x = match r.below(5) {
            0 => 0.0,
            1 => 1.0,
            2 => r.range_i(0, 16) as f64 / 16.0,
            _ => r.unit(),
        };
        let mut a = qv(&q);
        a.push(st);
        a.push(x);
        push_tbl(&mut a, &[quad_hyp(&q)]);
        o.case(4, "determine_subdiv_t", a, vec![q.verif_determine_subdiv_t(st, x)], br != 0.0, tag);
    }
    // --- to_quads
    let n = if thorough { 3000 } else { 200 };
    for _ in 0..n {
        let c = gen_cubic(r);
        let ext = [c.p0, c.p1, c.p2, c.p3].iter().fold(0f64, |m, p| m.max(p.x.abs()).max(p.y.abs()));
        let acc = match r.below(4) {
            0 => *r.pick(&[0.1, 0.025, 1.0, 1e-3]),
            _ => 10f64.powf(r.uniform(-6.0, 1.0)),
        }
        .max(ext * 1e-7);
        let quads: Vec<(f64, f64, QuadBez)> = c.to_quads(acc).collect();
        if quads.len() > 40 {
            continue;
        }
        let mut a = cv(&c);
        a.push(acc);
        push_tbl(&mut a, &[cubic_pow(&c, acc)]);
        let mut e = vec![quads.len() as f64];
        for (t0, t1, q) in &quads {
            e.push(*t0);
            e.push(*t1);
            e.extend(qv(q));
        }
        let tag = if quads.len() == 1 { "n=1" } else if quads.len() <= 4 { "n=2..4" } else { "n>4" };
        o.case(5, "to_quads", a, e, quads.len() > 1, tag);
    }
    // --- whole flatten
    let n = if thorough { 6000 } else { 500 };
    for _ in 0..n {
        let els = gen_path(r);
        let tol = gen_tol_for(r, els_extent(&els));
        let out = run_flatten(&els, tol);
        if take_overflow() || out.len() > 300 {
            continue;
        }
        let (th, tp) = path_tables(&els, tol);
        let mut a = vec![tol];
        push_tbl(&mut a, &th);
        push_tbl(&mut a, &tp);
        a.extend(enc_els(&els));
        let has_q = els.iter().any(|e| matches!(e, PathEl::QuadTo(..)));
        let has_c = els.iter().any(|e| matches!(e, PathEl::CurveTo(..)));
        let after_close = els.windows(2).any(|w| matches!(w[0], PathEl::ClosePath) && matches!(w[1], PathEl::QuadTo(..) | PathEl::CurveTo(..)));
        let line_after_close = els.windows(2).any(|w| matches!(w[0], PathEl::ClosePath) && matches!(w[1], PathEl::LineTo(..)));
        let interior = out.len() > els.len();
        let tag = format!(
            "{}{}{}{}{}",
            if has_q { "Q" } else { "" },
            if has_c { "C" } else { "" },
            if after_close { "+curve-after-close" } else { "" },
            if line_after_close { "+line-after-close" } else { "" },
            if interior { "+interior-vertices" } else { "" }
        );
        o.case(if pinned { 7 } else { 6 }, "flatten", a, enc_els(&out), (has_q || has_c) && interior, &tag);
    }
    // --- whole flatten on the plain F64 instance (approximate hypot): lines and quadratics, generic inputs
    let n = if thorough { 600 } else { 60 };
    for _ in 0..n {
        let mut els = vec![PathEl::MoveTo(Point::new(r.generic(-2, 6), r.generic(-2, 6)))];
        for _ in 0..1 + r.below(4) {
            let gp = |r: &mut Rng| Point::new(r.generic(-2, 6), r.generic(-2, 6));
            match r.below(4) {
                0 => els.push(PathEl::LineTo(gp(r))),
                1 => {
                    els.push(PathEl::ClosePath);
                    els.push(PathEl::MoveTo(gp(r)))
                }
                _ => els.push(PathEl::QuadTo(gp(r), gp(r))),
            }
        }
        let tol = gen_tol_for(r, els_extent(&els)) * (1.0 + r.unit() * 0.01);
        let out = run_flatten(&els, tol);
        if take_overflow() || out.len() > 200 {
            continue;
        }
        let mut a = vec![tol];
        a.extend(enc_els(&els));
        o.case(8, "flatten-plain-f64", a, enc_els(&out), out.len() > els.len(), "quads+lines");
    }
}

// ------------------------------------------------------------------ laws on the implementation

fn fail(class: &str, d: String) -> Option<(String, String)> {
    Some((class.to_string(), d))
}

fn g_path(r: &mut Rng) -> Vec<f64> {
    let els = gen_path(r);
    let tol = gen_tol_for(r, els_extent(&els));
    let mut v = vec![tol];
    v.extend(enc_els(&els));
    v
}

fn pt_of(e: &PathEl) -> Option<Point> {
    match e {
        PathEl::MoveTo(p) | PathEl::LineTo(p) => Some(*p),
        _ => None,
    }
}

/// Kinds, order and run structure against `segments()`: the output is the concatenation, in
/// input order, of one run per element; MoveTo/ClosePath/LineTo pass through unchanged; the run
/// of a curve element is what flattening that segment alone gives (segment taken from the
/// crate's own `segments()` iterator, i.e. starting at the current point, which after ClosePath
/// is the sub-path start), is non-empty, consists of LineTo only and ends exactly at the
/// segment's stored end point.
fn law_runs(a: &[f64]) -> Option<(String, String)> {
    let tol = a[0];
    let els = dec_els(&a[1..]);
    let out = run_flatten(&els, tol);
    if out.iter().any(|e| !matches!(e, PathEl::MoveTo(_) | PathEl::LineTo(_) | PathEl::ClosePath)) {
        return fail("kinds", format!("flatten emitted a curve element for {:?}", els));
    }
    // segments of the path, in element order (independent of flatten)
    let path = BezPath::from_vec(els.clone());
    let mut segs = path.segments();
    let mut k = 0usize; // position in out
    let mut start = Point::ZERO;
    let mut last = Point::ZERO;
    for (i, e) in els.iter().enumerate() {
        let after_close = i > 0 && matches!(els[i - 1], PathEl::ClosePath);
        let cls = |what: &str| if after_close { format!("runs:after-closepath:{}", what) } else { format!("runs:{}", what) };
        match *e {
            PathEl::MoveTo(p) => {
                if k >= out.len() || out[k] != PathEl::MoveTo(p) {
                    return fail(&cls("moveto"), format!("element {} {:?} not passed through (output {:?}) tol={} path={:?}", i, e, out.get(k), tol, els));
                }
                k += 1;
                start = p;
                last = p;
            }
            PathEl::ClosePath => {
                if k >= out.len() || out[k] != PathEl::ClosePath {
                    return fail(&cls("closepath"), format!("element {} ClosePath not passed through (output {:?}) tol={} path={:?}", i, out.get(k), tol, els));
                }
                k += 1;
                if last != start {
                    let s = segs.next();
                    if s.map(|s| (s.start(), s.end())) != Some((last, start)) {
                        return fail("runs:segments-oracle", format!("segments() closing line mismatch at element {} of {:?}", i, els));
                    }
                }
                last = start;
            }
            PathEl::LineTo(p) => {
                let s = segs.next();
                if s.map(|s| (s.start(), s.end())) != Some((last, p)) {
                    return fail("runs:segments-oracle", format!("segments() line mismatch at element {} of {:?}", i, els));
                }
                if k >= out.len() || out[k] != PathEl::LineTo(p) {
                    return fail(&cls("lineto"), format!("element {} {:?} not passed through (output {:?}) tol={} path={:?}", i, e, out.get(k), tol, els));
                }
                k += 1;
                last = p;
            }
            PathEl::QuadTo(..) | PathEl::CurveTo(..) => {
                let s = match segs.next() {
                    Some(s) => s,
                    None => return fail("runs:segments-oracle", format!("segments() ended early at element {} of {:?}", i, els)),
                };
                if s.start() != last {
                    return fail("runs:segments-oracle", format!("segments() start mismatch at element {} of {:?}", i, els));
                }
                // the run of this segment alone
                let single = match s {
                    PathSeg::Quad(q) => vec![PathEl::MoveTo(q.p0), PathEl::QuadTo(q.p1, q.p2)],
                    PathSeg::Cubic(c) => vec![PathEl::MoveTo(c.p0), PathEl::CurveTo(c.p1, c.p2, c.p3)],
                    PathSeg::Line(_) => return fail("runs:segments-oracle", "segment kind".into()),
                };
                let run = run_flatten(&single, tol);
                let run = &run[1..];
                let end = s.end();
                if run.is_empty() || run.iter().any(|e| !matches!(e, PathEl::LineTo(_))) || run[run.len() - 1] != PathEl::LineTo(end) {
                    return fail("runs:single-segment", format!("run of {:?} alone at tol={} is {:?}", s, tol, run));
                }
                if k + run.len() > out.len() || &out[k..k + run.len()] != run {
                    let got: Vec<&PathEl> = out[k..].iter().take(run.len().min(4)).collect();
                    return fail(
                        &cls("curve-run"),
                        format!(
                            "element {} ({:?}, segment {:?} per segments()): expected a run of {} LineTo ending exactly at {:?}, output continues with {:?}; tol={} path={:?}",
                            i, e, s, run.len(), end, got, tol, els
                        ),
                    );
                }
                k += run.len();
                last = end;
            }
        }
    }
    if k != out.len() {
        return fail("runs:extra-output", format!("{} output elements, {} accounted for; path={:?}", out.len(), k, els));
    }
    None
}

// ---- geometry helpers for the vertex laws

#[derive(Clone, Copy)]
enum Crv {
    Q(QuadBez),
    C(CubicBez),
}
impl Crv {
    fn eval(&self, t: f64) -> Point {
        match self {
            Crv::Q(q) => q.eval(t),
            Crv::C(c) => c.eval(t),
        }
    }
    fn pts(&self) -> Vec<Point> {
        match self {
            Crv::Q(q) => vec![q.p0, q.p1, q.p2],
            Crv::C(c) => vec![c.p0, c.p1, c.p2, c.p3],
        }
    }
    fn end(&self) -> Point {
        *self.pts().last().unwrap()
    }
    fn els(&self) -> Vec<PathEl> {
        match self {
            Crv::Q(q) => vec![PathEl::MoveTo(q.p0), PathEl::QuadTo(q.p1, q.p2)],
            Crv::C(c) => vec![PathEl::MoveTo(c.p0), PathEl::CurveTo(c.p1, c.p2, c.p3)],
        }
    }
    /// size of the control polygon (max pairwise coordinate difference)
    fn extent(&self) -> f64 {
        let p = self.pts();
        let mut m = 0f64;
        for a in &p {
            for b in &p {
                m = m.max((a.x - b.x).abs()).max((a.y - b.y).abs());
            }
        }
        m
    }
    fn mag(&self) -> f64 {
        self.pts().iter().fold(0f64, |m, p| m.max(p.x.abs()).max(p.y.abs()))
    }
    /// an upper bound of |c''(t)| on [0,1]
    fn dd2(&self) -> f64 {
        match self {
            Crv::Q(q) => 2.0 * ((q.p2 - q.p1) - (q.p1 - q.p0)).hypot(),
            Crv::C(c) => 6.0 * ((c.p2 - c.p1) - (c.p1 - c.p0)).hypot().max(((c.p3 - c.p2) - (c.p2 - c.p1)).hypot()),
        }
    }
    fn speed(&self, t: f64) -> f64 {
        match self {
            Crv::Q(q) => q.deriv().eval(t).to_vec2().hypot(),
            Crv::C(c) => c.deriv().eval(t).to_vec2().hypot(),
        }
    }
    fn scaled(&self, k: f64) -> Crv {
        let s = |p: Point| Point::new(p.x * k, p.y * k);
        match self {
            Crv::Q(q) => Crv::Q(QuadBez::new(s(q.p0), s(q.p1), s(q.p2))),
            Crv::C(c) => Crv::C(CubicBez::new(s(c.p0), s(c.p1), s(c.p2), s(c.p3))),
        }
    }
}

fn enc_crv(c: &Crv) -> Vec<f64> {
    match c {
        Crv::Q(q) => enc_seg(&PathSeg::Quad(*q)),
        Crv::C(c) => enc_seg(&PathSeg::Cubic(*c)),
    }
}
fn dec_crv(a: &[f64]) -> (Crv, &[f64]) {
    let (s, rest) = dec_seg(a);
    match s {
        PathSeg::Quad(q) => (Crv::Q(q), rest),
        PathSeg::Cubic(c) => (Crv::C(c), rest),
        PathSeg::Line(l) => (Crv::Q(QuadBez::new(l.p0, l.p0.midpoint(l.p1), l.p1)), rest),
    }
}

fn dist(a: Point, b: Point) -> f64 {
    (a - b).hypot()
}
fn dist_seg(p: Point, a: Point, b: Point) -> f64 {
    let d = b - a;
    let l2 = d.hypot2();
    if l2 == 0.0 {
        return dist(p, a);
    }
    let t = ((p - a).dot(d) / l2).max(0.0).min(1.0);
    dist(p, a + d * t)
}

const NS: usize = 1024;

/// The earliest parameter `t >= from` with `|c(t) - v| <= bound` (up to 1e-13 in t and a
/// rounding-size slack in the distance), if any. Branch and bound, left to right: an interval
/// [a,b] is discarded when even the lower bound `dist(v, chord) - |c''|max (b-a)^2 / 8` of the
/// distance exceeds `bound`; otherwise it is halved, left half first. Reliable also where the
/// distance has several local minima inside one sampling interval (hairpins).
fn earliest_within(c: &Crv, v: Point, from: f64, bound: f64, dd2: f64) -> Option<f64> {
    let from = from.max(0.0).min(1.0);
    if dist(c.eval(from), v) <= bound {
        return Some(from);
    }
    fn rec(c: &Crv, v: Point, bound: f64, dd2: f64, a: f64, pa: Point, b: f64, pb: Point, depth: u32) -> Option<f64> {
        let h = b - a;
        let lower = dist_seg(v, pa, pb) - dd2 * h * h / 8.0;
        if lower > bound {
            return None;
        }
        if h <= 1e-13 || depth > 60 {
            // the chord is the curve to rounding here
            return Some(b);
        }
        let m = 0.5 * (a + b);
        let pm = c.eval(m);
        if let Some(t) = rec(c, v, bound, dd2, a, pa, m, pm, depth + 1) {
            return Some(t);
        }
        if dist(pm, v) <= bound {
            return Some(m);
        }
        rec(c, v, bound, dd2, m, pm, b, pb, depth + 1)
    }
    let k0 = (from * NS as f64).floor() as usize;
    let mut a = from;
    let mut pa = c.eval(a);
    for k in k0..NS {
        let b = ((k + 1) as f64 / NS as f64).max(a);
        if b <= a {
            continue;
        }
        let pb = c.eval(b);
        if let Some(t) = rec(c, v, bound, dd2, a, pa, b, pb, 0) {
            return Some(t);
        }
        if dist(pb, v) <= bound {
            return Some(b);
        }
        a = b;
        pa = pb;
    }
    None
}

fn gen_curve(r: &mut Rng) -> Crv {
    if r.bool() {
        Crv::Q(gen_quad(r))
    } else {
        Crv::C(gen_cubic(r))
    }
}

fn g_curve_tol(r: &mut Rng) -> Vec<f64> {
    let c = gen_curve(r);
    let mut v = enc_crv(&c);
    v.push(gen_tol_for(r, c.mag()));
    v
}

/// Every emitted vertex lies on the source segment (quadratic: to rounding; cubic: within a tenth
/// of the tolerance), at parameters in [0,1] that never go backwards; the run ends exactly at the
/// segment's stored end point.
fn law_vertices(a: &[f64]) -> Option<(String, String)> {
    let (c, rest) = dec_crv(a);
    let tol = rest[0];
    let out = run_flatten(&c.els(), tol);
    let kind = match c {
        Crv::Q(_) => "quad",
        Crv::C(_) => "cubic",
    };
    if out.len() < 2 || out[out.len() - 1] != PathEl::LineTo(c.end()) {
        return fail(&format!("vertices:end-point:{}", kind), format!("run of {:?} at tol={} ends with {:?}", c.pts(), tol, out.last()));
    }
    if out.len() > 4000 {
        return None;
    }
    let mag = c.mag().max(1e-300);
    let ext = c.extent();
    let round = 1e-9 * mag;
    let bound = match c {
        Crv::Q(_) => round,
        Crv::C(_) => 0.1 * tol * (1.0 + 1e-6) + round,
    };
    let sag = c.dd2() * (1.0 + 1e-9);
    let mut t = 0.0;
    for (i, e) in out[1..].iter().enumerate() {
        let v = match pt_of(e) {
            Some(v) => v,
            None => return fail("kinds", format!("{:?}", e)),
        };
        if !(v.x.is_finite() && v.y.is_finite()) {
            return fail(&format!("vertices:non-finite:{}", kind), format!("vertex {} of the run of {:?} at tol={} is {:?}", i, c.pts(), tol, v));
        }
        // allow a parameter slack of 1e-9 for rounding in the implementation's own parameter
        match earliest_within(&c, v, t - 1e-9, bound, sag) {
            Some(tn) => t = tn.max(t),
            None => {
                // distinguish "off the segment" from "goes backwards"
                let any = earliest_within(&c, v, 0.0, bound, sag);
                let what = if any.is_some() { "backwards" } else { "off-segment" };
                return fail(
                    &format!("vertices:{}:{}", what, kind),
                    format!(
                        "vertex {} = {:?} of the run of {:?} at tol={}: no parameter >= {} within {:e} of it (anywhere on the segment: {:?})",
                        i, v, c.pts(), tol, t, bound, any
                    ),
                );
            }
        }
    }
    None
}

/// Cubics that are huge against the tolerance (extent / tolerance 5e8..4e9: the cubic-to-quadratic conversion needs
/// some 500..1500 pieces, far more than anything the other generators reach; `law_vertices` skips runs of more than 4000
/// vertices). The cubic is a graph x = L t, y = Bernstein(y0..y3)(t), so "on the segment to a tenth of the tolerance"
/// is an O(1) test per vertex: the vertical deviation is at most sqrt(1 + slope^2) times the distance (seed C05h).
fn g_large(r: &mut Rng) -> Vec<f64> {
    let l = *r.pick(&[1e4, 3e4, 1e5, 1.5e5, 1048576.0]);
    let ratio = *r.pick(&[5e8, 1e9, 2e9, 4e9]);
    let ys: Vec<f64> = if r.chance(1, 3) { vec![0.0, 0.0, 0.0, l] } else { (0..4).map(|_| r.uniform(-1.0, 1.0) * l).collect() };
    vec![l, l / ratio, ys[0], ys[1], ys[2], ys[3]]
}
fn law_large(a: &[f64]) -> Option<(String, String)> {
    let (l, tol) = (a[0], a[1]);
    let ys = &a[2..6];
    let c = CubicBez::new((0.0, ys[0]), (l / 3.0, ys[1]), (2.0 * l / 3.0, ys[2]), (l, ys[3]));
    let els = [PathEl::MoveTo(c.p0), PathEl::CurveTo(c.p1, c.p2, c.p3)];
    let out = run_flatten(&els, tol);
    if out.len() < 2 || out[out.len() - 1] != PathEl::LineTo(c.p3) {
        return fail("vertices:end-point:cubic:large-ratio", format!("run of {:?} at tol={} ends with {:?}", c, tol, out.last()));
    }
    let slope = 3.0 * (ys[1] - ys[0]).abs().max((ys[2] - ys[1]).abs()).max((ys[3] - ys[2]).abs()) / l;
    let bound = 0.1 * tol * (1.0 + 1e-6) * (1.0 + slope * slope).sqrt() + 1e-13 * l;
    let mut lastx = 0.0;
    for (i, e) in out[1..].iter().enumerate() {
        let v = match pt_of(e) {
            Some(v) => v,
            None => return fail("kinds", format!("{:?}", e)),
        };
        let t = v.x / l;
        let mt = 1.0 - t;
        let y = mt * mt * mt * ys[0] + 3.0 * mt * mt * t * ys[1] + 3.0 * mt * t * t * ys[2] + t * t * t * ys[3];
        if !(v.x.is_finite() && v.y.is_finite()) || v.x < lastx - 1e-13 * l || !(-1e-13..=1.0 + 1e-13).contains(&t) || (v.y - y).abs() > bound {
            return fail(
                "vertices:off-segment:cubic:large-ratio",
                format!("vertex {} = {:?} of the run ({} vertices) of {:?} at tol={}: the segment has y = {} at that abscissa (allowed deviation {:e}, previous abscissa {})", i, v, out.len(), c, tol, y, bound, lastx),
            );
        }
        lastx = v.x;
    }
    None
}

/// curves of the sub-domain the distance bound is claimed for: tolerance <= 1e-3 x extent,
/// minimum speed >= 5% of the maximum speed
fn g_hausdorff(r: &mut Rng) -> Vec<f64> {
    loop {
        let c = match r.below(2) {
            0 => Crv::Q(QuadBez::new(gen_point(r), gen_point(r), gen_point(r))),
            _ => Crv::C(CubicBez::new(gen_point(r), gen_point(r), gen_point(r), gen_point(r))),
        };
        let ext = c.extent();
        if !(ext > 1e-3 && ext < 1e6) {
            continue;
        }
        let (mut smin, mut smax) = (f64::INFINITY, 0f64);
        for k in 0..=256 {
            let s = c.speed(k as f64 / 256.0);
            smin = smin.min(s);
            smax = smax.max(s);
        }
        if !(smin >= 0.06 * smax) {
            continue;
        }
        // tolerance in [1e-5, 1] and <= 1e-3 * extent, vertex count moderate
        let hi = (1e-3 * ext).min(1.0);
        let lo = (ext / 4.0e4).max(1e-5);
        if lo > hi {
            continue;
        }
        let tol = lo * (hi / lo).powf(r.unit());
        let mut v = enc_crv(&c);
        v.push(tol);
        return v;
    }
}

/// Hausdorff distance between the curve and its polyline <= 4 x tolerance (dense sampling)
fn law_hausdorff(a: &[f64]) -> Option<(String, String)> {
    let (c, rest) = dec_crv(a);
    let tol = rest[0];
    let out = run_flatten(&c.els(), tol);
    let poly: Vec<Point> = out.iter().filter_map(pt_of).collect();
    if poly.len() < 2 || poly.len() > 2000 {
        return None;
    }
    let kind = match c {
        Crv::Q(_) => "quad",
        Crv::C(_) => "cubic",
    };
    let m = 40 * poly.len().max(50);
    let curve: Vec<Point> = (0..=m).map(|k| c.eval(k as f64 / m as f64)).collect();
    let slack = 3.0 * c.extent() / (m * m) as f64 + 1e-9 * c.mag();
    let limit = 4.0 * tol + slack;
    // distance from p to the polyline `pl`, searching edges near `hint` first (the nearest edge
    // moves forward with the point); a full search only when the windowed minimum exceeds `limit` (a quarter of the law's limit)
    // (the windowed minimum can only over-estimate the distance)
    fn near_poly(p: Point, pl: &[Point], hint: usize, w: usize, limit: f64) -> (f64, usize) {
        let lo = hint.saturating_sub(w);
        let hi = (hint + w).min(pl.len() - 2);
        let mut best = f64::INFINITY;
        let mut bj = hint;
        for j in lo..=hi {
            let d = dist_seg(p, pl[j], pl[j + 1]);
            if d < best {
                best = d;
                bj = j;
            }
        }
        if best > limit {
            for j in 0..pl.len() - 1 {
                let d = dist_seg(p, pl[j], pl[j + 1]);
                if d < best {
                    best = d;
                    bj = j;
                }
            }
        }
        (best, bj)
    }
    // curve -> polyline
    let mut worst = 0f64;
    let mut j0 = 0usize;
    for p in &curve {
        let (best, bj) = near_poly(*p, &poly, j0, 6, 0.25 * limit);
        j0 = bj;
        worst = worst.max(best);
    }
    if worst > limit {
        return fail(&format!("hausdorff:curve-to-polyline:{}", kind), format!("{:?} tol={}: a curve point is {:e} = {:.3} x tol from the polyline ({} vertices)", c.pts(), tol, worst, worst / tol, poly.len()));
    }
    // polyline -> curve
    let mut worst2 = 0f64;
    let mut c0 = 0usize;
    for j in 0..poly.len() - 1 {
        for s in 0..4 {
            let p = poly[j] + (poly[j + 1] - poly[j]) * (s as f64 / 4.0);
            let (best, bc) = near_poly(p, &curve, c0, 120, 0.25 * limit);
            c0 = bc;
            worst2 = worst2.max(best);
        }
    }
    HD_STATS.with(|h| {
        let (n, a, b) = h.get();
        h.set((n + 1, a.max(worst / tol), b.max(worst2 / tol)))
    });
    if worst2 > limit {
        return fail(&format!("hausdorff:polyline-to-curve:{}", kind), format!("{:?} tol={}: a polyline point is {:e} = {:.3} x tol from the curve", c.pts(), tol, worst2, worst2 / tol));
    }
    None
}

fn g_scale(r: &mut Rng) -> Vec<f64> {
    let c = gen_curve(r);
    let mut v = enc_crv(&c);
    v.push(gen_tol_for(r, c.mag()));
    // k: a power of four (exact), or generic
    let k = if r.bool() { 4f64.powi(r.range_i(-4, 4) as i32) } else { 2f64.powf(r.uniform(-6.0, 6.0)) };
    v.push(k);
    v
}

fn is_pow4(k: f64) -> bool {
    let l = k.log2();
    l == l.round() && (l as i64) % 2 == 0
}

fn dedup(v: &[Point], eps: f64) -> Vec<Point> {
    let mut o: Vec<Point> = Vec::new();
    for p in v {
        if let Some(l) = o.last() {
            if dist(*l, *p) <= eps {
                // keep the later one (the stored end point is last)
                *o.last_mut().unwrap() = *p;
                continue;
            }
        }
        o.push(*p);
    }
    o
}

/// Ill-conditioned inputs (control points collinear to rounding, pieces at an inflection): the
/// output is decided by rounding noise and no scaling law can hold on floats for generic k. Use only
/// inputs whose own output is stable under scalings by 1 +- 1e-12 and under perturbations of each
/// coordinate by 1e-13 x size, and whose quadratics are clearly non-collinear.
fn well_conditioned(c: &Crv, tol: f64, base: &[Point]) -> bool {
    let c = *c;
        // conditioning: every quadratic that estimate_subdiv sees must be clearly non-collinear
        let well = |q: &QuadBez| {
            let d01 = q.p1 - q.p0;
            let d12 = q.p2 - q.p1;
            let cross = (q.p2 - q.p0).cross(d01 - d12);
            let e = Crv::Q(*q).extent();
            cross.abs() >= 1e-6 * e * e
        };
        let ok = match c {
            Crv::Q(q) => well(&q),
            Crv::C(cu) => cu.to_quads(tol * 0.1).take(2000).all(|(_, _, q)| well(&q)),
        };
        if !ok {
            return false;
        }
        let m = c.mag().max(1e-300);
        let b0 = dedup(&base, 1e-7 * m);
        let same = |other: &[Point], kk: f64| {
            let o = dedup(other, 1e-7 * m * kk);
            o.len() == b0.len() && o.iter().zip(&b0).all(|(p, q)| dist(*p, Point::new(q.x * kk, q.y * kk)) <= 1e-8 * m * kk)
        };
        for kk in [1.0 + 1e-12, 1.0 - 1e-12] {
            let o: Vec<Point> = run_flatten(&c.scaled(kk).els(), tol * kk).iter().filter_map(pt_of).collect();
            if !same(&o, kk) {
                return false;
            }
        }
        let pts = c.pts();
        for i in 0..2 * pts.len() {
            for sgn in [-1.0, 1.0] {
                let mut q = pts.clone();
                let d = sgn * 1e-13 * m;
                if i % 2 == 0 {
                    q[i / 2].x += d
                } else {
                    q[i / 2].y += d
                }
                let cp = match c {
                    Crv::Q(_) => Crv::Q(QuadBez::new(q[0], q[1], q[2])),
                    Crv::C(_) => Crv::C(CubicBez::new(q[0], q[1], q[2], q[3])),
                };
                let o: Vec<Point> = run_flatten(&cp.els(), tol).iter().filter_map(pt_of).collect();
                if !same(&o, 1.0) {
                    return false;
                }
            }
        }
    true
}

/// scaling path and tolerance together scales the output: bit-exact for k a power of four
/// (every operation of flatten then commutes with the scaling), to rounding for generic k
fn law_scale(a: &[f64]) -> Option<(String, String)> {
    let (c, rest) = dec_crv(a);
    let (tol, k) = (rest[0], rest[1]);
    let base: Vec<Point> = run_flatten(&c.els(), tol).iter().filter_map(pt_of).collect();
    if base.len() > 3000 {
        return None;
    }
    let scaled: Vec<Point> = run_flatten(&c.scaled(k).els(), tol * k).iter().filter_map(pt_of).collect();
    let want: Vec<Point> = base.iter().map(|p| Point::new(p.x * k, p.y * k)).collect();
    let kind = match c {
        Crv::Q(_) => "quad",
        Crv::C(_) => "cubic",
    };
    if is_pow4(k) {
        if scaled != want {
            return fail(&format!("scale:exact:{}", kind), format!("{:?} tol={} k={}: {} vs {} vertices, first difference at {:?}", c.pts(), tol, k, want.len(), scaled.len(), want.iter().zip(&scaled).position(|(a, b)| a != b)));
        }
        return None;
    }
    // generic k: the count may differ by a vertex that (nearly) coincides with its successor
    let eps = 1e-7 * c.mag().max(1e-300) * k;
    let (w, s) = (dedup(&want, eps), dedup(&scaled, eps));
    if !well_conditioned(&c, tol, &base) {
        return None;
    }
    if w.len() != s.len() {
        // a count sitting on a rounding boundary: only accept if the unscaled count is within rounding of the boundary
        return fail(&format!("scale:count:{}", kind), format!("{:?} tol={} k={}: {} vs {} vertices", c.pts(), tol, k, w.len(), s.len()));
    }
    for (p, q) in w.iter().zip(&s) {
        if dist(*p, *q) > 1e-6 * c.mag().max(1e-300) * k {
            return fail(&format!("scale:position:{}", kind), format!("{:?} tol={} k={}: {:?} vs {:?}", c.pts(), tol, k, p, q));
        }
    }
    None
}

fn capped(f: fn(&[f64]) -> Option<(String, String)>, a: &[f64]) -> Option<(String, String)> {
    take_overflow();
    let r = f(a);
    match overflow_violation(&format!("law arguments {:?}", a)) {
        Some(v) => Some(v),
        None => r,
    }
}
fn law_runs_c(a: &[f64]) -> Option<(String, String)> {
    capped(law_runs, a)
}
fn law_vertices_c(a: &[f64]) -> Option<(String, String)> {
    capped(law_vertices, a)
}
fn law_hausdorff_c(a: &[f64]) -> Option<(String, String)> {
    capped(law_hausdorff, a)
}
fn law_large_c(a: &[f64]) -> Option<(String, String)> {
    capped(law_large, a)
}
fn law_scale_c(a: &[f64]) -> Option<(String, String)> {
    capped(law_scale, a)
}

fn laws() -> Vec<Law> {
    vec![
        Law { name: "runs", gen: g_path, check: law_runs_c, weight: 6 },
        Law { name: "vertices", gen: g_curve_tol, check: law_vertices_c, weight: 4 },
        Law { name: "hausdorff", gen: g_hausdorff, check: law_hausdorff_c, weight: 2 },
        Law { name: "scale", gen: g_scale, check: law_scale_c, weight: 3 },
        Law { name: "vertices_large", gen: g_large, check: law_large_c, weight: 1 },
    ]
}

fn extra(r: &mut Rng, _thorough: bool, o: &mut Out) {
    // census: how many generic-k samples of the scale law are well-conditioned (reach the comparison)
    let (mut tot, mut ok) = (0, 0);
    for _ in 0..400 {
        let a = g_scale(r);
        let (c, rest) = dec_crv(&a);
        if is_pow4(rest[1]) {
            continue;
        }
        tot += 1;
        let base: Vec<Point> = run_flatten(&c.els(), rest[0]).iter().filter_map(pt_of).collect();
        if base.len() <= 3000 && well_conditioned(&c, rest[0], &base) {
            ok += 1;
        }
    }
    take_overflow();
    let (n, a, b) = HD_STATS.with(|h| h.get());
    o.notes.push(format!("hausdorff law: over {} curves of the stated sub-domain the largest distance curve->polyline was {:.3} x tolerance, polyline->curve {:.3} x tolerance (limit 4)", n, a, b));
    o.notes.push(format!("scale law, generic k: {} of {} sampled inputs are well-conditioned and compared (the others are skipped)", ok, tot));
    // DESIGN section 5 finding 11: M0,0 L10,0 Z Q5,5 10,10 L0,10
    let p = |x: f64, y: f64| Point::new(x, y);
    for els in [
        vec![PathEl::MoveTo(p(0., 0.)), PathEl::LineTo(p(10., 0.)), PathEl::ClosePath, PathEl::QuadTo(p(5., 5.), p(10., 10.)), PathEl::LineTo(p(0., 10.))],
        vec![PathEl::MoveTo(p(0., 0.)), PathEl::LineTo(p(10., 0.)), PathEl::ClosePath, PathEl::CurveTo(p(5., 5.), p(10., 10.), p(3., 4.)), PathEl::LineTo(p(0., 10.))],
    ] {
        let mut a = vec![0.1];
        a.extend(enc_els(&els));
        o.oracle_eval("runs");
        if let Some((class, desc)) = law_runs_c(&a) {
            o.violation(&class, desc, format!("{{\"law\":{},\"args\":{}}}", json_str("runs"), fmt_fs(&a)));
        }
    }
}
