//! C20 — rectangle / size / inset / rounding algebra.
use crate::util::{b2f, Out, Rng};
use crate::{Law, Prop};
use kurbo::common::FloatExt;
use kurbo::{Insets, Point, Rect, Shape, Size, Vec2};

pub fn prop() -> Prop {
    Prop { id: "C20", corr, laws, extra, law_budget: (300, 6000) }
}

fn rv(r: Rect) -> Vec<f64> {
    vec![r.x0, r.y0, r.x1, r.y1]
}
fn iv(r: Insets) -> Vec<f64> {
    vec![r.x0, r.y0, r.x1, r.y1]
}

fn gen_rect(r: &mut Rng) -> Rect {
    // mostly non-negative extent (the property's domain), sometimes flipped corners
    let (a, b, c, d) = (r.coord(), r.coord(), r.coord(), r.coord());
    if r.chance(7, 10) {
        Rect::new(a.min(c), b.min(d), a.max(c), b.max(d))
    } else {
        Rect::new(a, b, c, d)
    }
}
fn grid_rect(r: &mut Rng) -> Rect {
    let g = |r: &mut Rng| r.range_i(-6, 6) as f64 / 2.0;
    Rect::new(g(r), g(r), g(r), g(r))
}
fn pick_rect(r: &mut Rng) -> Rect {
    if r.chance(1, 3) {
        grid_rect(r)
    } else {
        gen_rect(r)
    }
}
fn round_arg(r: &mut Rng) -> f64 {
    match r.below(8) {
        0 => r.range_i(-5, 5) as f64,
        1 => r.range_i(-11, 11) as f64 / 2.0,
        2 => r.generic(-4, 4),
        3 => r.generic(50, 54),
        4 => r.generic(-60, -50),
        5 => *r.pick(&[0.0, -0.0, 0.49999999999999994, -0.49999999999999994, 4503599627370495.5, -4503599627370495.5, 1e300, -1e300]),
        _ => r.coord(),
    }
}

fn corr(r: &mut Rng, thorough: bool, o: &mut Out) {
    let n = if thorough { 1500 } else { 90 };
    for _ in 0..n {
        let a = pick_rect(r);
        let b = if r.chance(1, 5) {
            // share an edge / corner with a
            Rect::new(a.x1, a.y0, a.x1 + r.coord().abs(), a.y1)
        } else {
            pick_rect(r)
        };
        let p = if r.chance(1, 3) {
            Point::new(*r.pick(&[a.x0, a.x1, b.x0]), *r.pick(&[a.y0, a.y1, b.y1]))
        } else {
            Point::new(r.coord(), r.coord())
        };
        let ab: Vec<f64> = rv(a).into_iter().chain(rv(b)).collect();
        let ap: Vec<f64> = rv(a).into_iter().chain([p.x, p.y]).collect();
        let nonneg = a.x0 <= a.x1 && a.y0 <= a.y1;
        o.case(1, "union", ab.clone(), rv(a.union(b)), true, "");
        o.case(2, "intersect", ab.clone(), rv(a.intersect(b)), true, if a.overlaps(b) { "overlapping" } else { "disjoint" });
        o.case(3, "contains", ap.clone(), vec![b2f(a.contains(p))], nonneg, if a.contains(p) { "inside" } else { "outside" });
        o.case(4, "overlaps", ab.clone(), vec![b2f(a.overlaps(b))], true, if a.overlaps(b) { "yes" } else { "no" });
        o.case(5, "contains_rect", ab.clone(), vec![b2f(a.contains_rect(b))], true, if a.contains_rect(b) { "yes" } else { "no" });
        o.case(6, "abs", rv(a), rv(a.abs()), true, if nonneg { "nonneg" } else { "flipped" });
        o.case(7, "from_points", rv(a), rv(Rect::from_points((a.x0, a.y0), (a.x1, a.y1))), true, "");
        o.case(8, "union_pt", ap.clone(), rv(a.union_pt(p)), true, "");
        o.case(9, "expand", rv(a), rv(a.expand()), true, "");
        o.case(10, "trunc", rv(a), rv(a.trunc()), true, "");
        o.case(11, "round", rv(a), rv(a.round()), true, "");
        o.case(12, "ceil", rv(a), rv(a.ceil()), true, "");
        o.case(13, "floor", rv(a), rv(a.floor()), true, "");
        let ins = Insets::new(r.coord(), r.coord(), r.coord(), r.coord());
        let ai: Vec<f64> = rv(a).into_iter().chain(iv(ins)).collect();
        o.case(14, "rect+insets", ai.clone(), rv(a + ins), true, "");
        o.case(15, "rect-insets", ai.clone(), rv(a - ins), true, "");
        o.case(16, "rect-rect", ab.clone(), iv(a - b), true, "");
        let (w, h) = (r.coord(), r.coord());
        let awh: Vec<f64> = rv(a).into_iter().chain([w, h]).collect();
        o.case(17, "inflate", awh.clone(), rv(a.inflate(w, h)), true, "");
        let x = round_arg(r);
        let pt = Point::new(x, x);
        o.case(18, "point-rounding", vec![x], vec![pt.expand().x, pt.floor().x, pt.ceil().y, pt.round().x, pt.trunc().y], x != x.trunc(), "");
        let x = round_arg(r);
        let v = Vec2::new(x, x);
        o.case(24, "vec2-rounding", vec![x], vec![v.expand().x, v.floor().x, v.ceil().y, v.round().x, v.trunc().y], x != x.trunc(), "");
        let x = round_arg(r);
        let s = Size::new(x, x);
        o.case(25, "size-rounding", vec![x], vec![s.expand().width, s.floor().height, s.ceil().width, s.round().height, s.trunc().width], x != x.trunc(), "");
        let x = round_arg(r);
        o.case(26, "float-expand", vec![x], vec![x.expand(), x.floor(), x.ceil(), x.round(), x.trunc()], x != x.trunc(), "");
        o.case(19, "winding", ap.clone(), vec![a.winding(p) as f64], a.winding(p) != 0, &format!("w={}", a.winding(p)));
        o.case(20, "from_center_size", vec![p.x, p.y, w, h], rv(Rect::from_center_size(p, Size::new(w, h))), true, "");
        o.case(21, "with_origin", ap.clone(), rv(a.with_origin(p)), true, "");
        o.case(22, "with_size", awh.clone(), rv(a.with_size(Size::new(w, h))), true, "");
        let c = a.center();
        o.case(
            23,
            "accessors",
            rv(a),
            vec![a.width(), a.height(), a.area(), a.perimeter(1.0), a.min_x(), a.max_x(), a.min_y(), a.max_y(), c.x, c.y, b2f(a.is_zero_area())],
            true,
            "",
        );
    }
}

// ---------------------------------------------------------------- laws

fn nonneg_rect(r: &mut Rng) -> Rect {
    let a = if r.chance(1, 2) { grid_rect(r) } else { gen_rect(r) };
    a.abs()
}
fn two_rects(r: &mut Rng) -> Vec<f64> {
    let a = nonneg_rect(r);
    let b = match r.below(6) {
        0 => Rect::new(a.x1, a.y0, a.x1 + 1.5, a.y1),          // shares an edge
        1 => Rect::new(a.x1, a.y1, a.x1 + 2.0, a.y1 + 0.5),    // shares a corner
        2 => a.inflate(-0.5, -0.5).abs(),                      // nested
        3 => a,
        _ => nonneg_rect(r),
    };
    rv(a).into_iter().chain(rv(b)).collect()
}
fn rect_pt(r: &mut Rng) -> Vec<f64> {
    let a = nonneg_rect(r);
    let p = if r.chance(1, 2) {
        (*r.pick(&[a.x0, a.x1, 0.5 * (a.x0 + a.x1)]), *r.pick(&[a.y0, a.y1, 0.5 * (a.y0 + a.y1)]))
    } else {
        (r.coord(), r.coord())
    };
    rv(a).into_iter().chain([p.0, p.1]).collect()
}
fn any_rect(r: &mut Rng) -> Vec<f64> {
    rv(pick_rect(r))
}
fn grid_rect_insets(r: &mut Rng) -> Vec<f64> {
    let a = grid_rect(r).abs();
    let g = |r: &mut Rng| r.range_i(-6, 6) as f64 / 2.0;
    rv(a).into_iter().chain([g(r), g(r), g(r), g(r)]).collect()
}
fn grid_two(r: &mut Rng) -> Vec<f64> {
    rv(grid_rect(r).abs()).into_iter().chain(rv(grid_rect(r).abs())).collect()
}
fn one_float(r: &mut Rng) -> Vec<f64> {
    vec![round_arg(r)]
}

fn ra(a: &[f64]) -> Rect {
    Rect::new(a[0], a[1], a[2], a[3])
}
fn fail(class: &str, d: String) -> Option<(String, String)> {
    Some((class.to_string(), d))
}
fn ccontains(a: Rect, b: Rect) -> bool {
    a.x0 <= b.x0 && a.y0 <= b.y0 && a.x1 >= b.x1 && a.y1 >= b.y1
}
fn side_of(v: f64, a: f64, b: f64) -> bool {
    v == a || v == b
}

fn law_union(x: &[f64]) -> Option<(String, String)> {
    let (a, b) = (ra(&x[0..4]), ra(&x[4..8]));
    let u = a.union(b);
    if !(ccontains(u, a) && ccontains(u, b)) {
        return fail("union:not-superset", format!("union {:?} does not contain both {:?} and {:?}", u, a, b));
    }
    if !(side_of(u.x0, a.x0, b.x0) && side_of(u.y0, a.y0, b.y0) && side_of(u.x1, a.x1, b.x1) && side_of(u.y1, a.y1, b.y1)) {
        return fail("union:not-smallest", format!("union {:?} of {:?} and {:?} is not the smallest", u, a, b));
    }
    if a.union(b) != b.union(a) {
        return fail("union:not-commutative", format!("{:?} {:?}", a, b));
    }
    // contains_rect iff union equals the container
    if a.contains_rect(b) != (a.union(b) == a) {
        return fail("contains_rect:not-union-eq", format!("contains_rect({:?},{:?})={} but union={:?}", a, b, a.contains_rect(b), a.union(b)));
    }
    None
}

fn law_intersect(x: &[f64]) -> Option<(String, String)> {
    let (a, b) = (ra(&x[0..4]), ra(&x[4..8]));
    let i = a.intersect(b);
    let share = a.x0.max(b.x0) <= a.x1.min(b.x1) && a.y0.max(b.y0) <= a.y1.min(b.y1);
    if share {
        if !(ccontains(a, i) && ccontains(b, i)) {
            return fail("intersect:not-subset", format!("intersect {:?} not inside both {:?} {:?}", i, a, b));
        }
        if !(side_of(i.x0, a.x0, b.x0) && side_of(i.y0, a.y0, b.y0) && side_of(i.x1, a.x1, b.x1) && side_of(i.y1, a.y1, b.y1)) {
            return fail("intersect:not-largest", format!("intersect {:?} of {:?} {:?} not the largest", i, a, b));
        }
    } else if i.area() != 0.0 || i.width() < 0.0 || i.height() < 0.0 {
        return fail("intersect:disjoint-not-zero-area", format!("disjoint {:?} {:?} give {:?}", a, b, i));
    }
    if a.overlaps(b) != b.overlaps(a) {
        return fail("overlaps:not-symmetric", format!("{:?} {:?}", a, b));
    }
    if a.overlaps(b) != share {
        return fail("overlaps:not-closed-meet", format!("overlaps({:?},{:?})={} but closed rectangles share a point: {}", a, b, a.overlaps(b), share));
    }
    None
}

fn law_contains(x: &[f64]) -> Option<(String, String)> {
    let a = ra(&x[0..4]);
    let p = Point::new(x[4], x[5]);
    let want = a.x0 <= p.x && p.x < a.x1 && a.y0 <= p.y && p.y < a.y1;
    if a.contains(p) != want {
        return fail("contains:not-half-open", format!("{:?}.contains({:?}) = {}", a, p, a.contains(p)));
    }
    // union_pt is the smallest rect whose closure holds both
    let u = a.union_pt(p);
    if !(ccontains(u, a) && u.x0 <= p.x && p.x <= u.x1 && u.y0 <= p.y && p.y <= u.y1)
        || !(side_of(u.x0, a.x0, p.x) && side_of(u.x1, a.x1, p.x) && side_of(u.y0, a.y0, p.y) && side_of(u.y1, a.y1, p.y))
    {
        return fail("union_pt", format!("{:?}.union_pt({:?}) = {:?}", a, p, u));
    }
    // Shape::winding / contains agree with the half-open rule (positive for y-down clockwise = x0<x1,y0<y1)
    let w = Shape::winding(&a, p);
    if (w != 0) != want || (want && w != 1) {
        return fail("rect-winding", format!("{:?}.winding({:?}) = {}", a, p, w));
    }
    None
}

fn law_abs(x: &[f64]) -> Option<(String, String)> {
    let a = ra(x);
    let b = a.abs();
    let c = Rect::from_points((a.x0, a.y0), (a.x1, a.y1));
    let d = Rect::from_points((a.x1, a.y1), (a.x0, a.y0));
    if b != c || b != d {
        return fail("abs-vs-from_points", format!("{:?}: abs {:?} from_points {:?} / {:?}", a, b, c, d));
    }
    if b.width() < 0.0 || b.height() < 0.0 || b.width() != a.width().abs() && (a.width().abs() - b.width()).abs() > 1e-9 * a.width().abs() {
        return fail("abs:extent", format!("{:?} -> {:?}", a, b));
    }
    if !(side_of(b.x0, a.x0, a.x1) && side_of(b.x1, a.x0, a.x1) && side_of(b.y0, a.y0, a.y1) && side_of(b.y1, a.y0, a.y1)) {
        return fail("abs:sides", format!("{:?} -> {:?}", a, b));
    }
    if b.x0 + b.x1 != a.x0 + a.x1 || b.y0 + b.y1 != a.y0 + a.y1 {
        return fail("abs:sides", format!("{:?} -> {:?}", a, b));
    }
    None
}

fn is_int(x: f64) -> bool {
    x == x.trunc()
}

fn law_expand_trunc(x: &[f64]) -> Option<(String, String)> {
    let a = ra(x);
    if !a.is_finite() {
        return None;
    }
    let e = a.expand();
    let t = a.trunc();
    for v in rv(e).into_iter().chain(rv(t)) {
        if !is_int(v) {
            return fail("expand/trunc:not-integer", format!("{:?}: expand {:?} trunc {:?}", a, e, t));
        }
    }
    // per axis: lo end moves outwards (expand) / inwards (trunc) by less than one
    let axes = [(a.x0, a.x1, e.x0, e.x1, t.x0, t.x1), (a.y0, a.y1, e.y0, e.y1, t.y0, t.y1)];
    for (lo, hi, elo, ehi, tlo, thi) in axes {
        let (lo, hi, elo, ehi, tlo, thi) = if lo <= hi { (lo, hi, elo, ehi, tlo, thi) } else { (hi, lo, ehi, elo, thi, tlo) };
        if lo == hi {
            continue; // zero extent: direction is a convention, only integrality is claimed
        }
        if !(elo <= lo && lo - elo < 1.0 && ehi >= hi && ehi - hi < 1.0) {
            return fail("expand:not-smallest-superset", format!("{:?}: expand {:?}", a, e));
        }
        if !(tlo >= lo && tlo - lo < 1.0 && thi <= hi && hi - thi < 1.0) {
            return fail("trunc:not-largest-subset", format!("{:?}: trunc {:?}", a, t));
        }
    }
    None
}

fn law_insets(x: &[f64]) -> Option<(String, String)> {
    // on the half-integer grid all arithmetic is exact
    let a = ra(&x[0..4]);
    let i = Insets::new(x[4], x[5], x[6], x[7]);
    let b = a + i;
    if b.width() >= 0.0 && b.height() >= 0.0 {
        let c = b - i;
        if c != a {
            return fail("insets:add-sub-not-identity", format!("({:?} + {:?}) - same = {:?}", a, i, c));
        }
        if a.inset(i) != b {
            return fail("insets:inset-vs-add", format!("{:?} {:?}", a, i));
        }
        // b - a are the insets that map a onto b
        let d = b - a;
        if a + d != b {
            return fail("rect-difference", format!("{:?} + ({:?} - {:?}) = {:?}", a, b, a, a + d));
        }
    }
    None
}

fn law_rect_diff(x: &[f64]) -> Option<(String, String)> {
    let (a, b) = (ra(&x[0..4]), ra(&x[4..8]));
    let d = a - b;
    if b + d != a {
        return fail("rect-difference", format!("{:?} + ({:?} - {:?}) = {:?}", b, a, b, b + d));
    }
    let inf = a.inflate(x[4], x[5]);
    if inf != a + Insets::uniform_xy(x[4], x[5]) {
        return fail("inflate-vs-insets", format!("{:?} inflate {} {}", a, x[4], x[5]));
    }
    None
}

fn law_rounding(x: &[f64]) -> Option<(String, String)> {
    let v = x[0];
    if !v.is_finite() {
        return None;
    }
    let p = Point::new(v, -v);
    let w = Vec2::new(v, -v);
    let s = Size::new(v, -v);
    let all = [
        (p.floor().x, p.trunc().x, p.round().x, p.ceil().x, p.expand().x, v),
        (p.floor().y, p.trunc().y, p.round().y, p.ceil().y, p.expand().y, -v),
        (w.floor().x, w.trunc().x, w.round().x, w.ceil().x, w.expand().x, v),
        (w.floor().y, w.trunc().y, w.round().y, w.ceil().y, w.expand().y, -v),
        (s.floor().width, s.trunc().width, s.round().width, s.ceil().width, s.expand().width, v),
        (s.floor().height, s.trunc().height, s.round().height, s.ceil().height, s.expand().height, -v),
        (v.floor(), v.trunc(), v.round(), v.ceil(), v.expand(), v),
    ];
    for (fl, tr, ro, ce, ex, v) in all {
        let (av, atr, aex) = (v.abs(), tr.abs(), ex.abs());
        let ok = is_int(fl) && is_int(tr) && is_int(ro) && is_int(ce) && is_int(ex)
            && fl <= v && (v < fl + 1.0 || v == fl)
            && ce >= v && (ce - 1.0 < v || v == ce)
            && fl <= tr && tr <= ce && fl <= ro && ro <= ce
            && atr <= av && (av < atr + 1.0 || av == atr)
            && (ro - v).abs() <= 0.5
            && aex >= av && (aex - 1.0 < av || aex == av)
            && (ex == 0.0 || (ex > 0.0) == (v > 0.0));
        if !ok {
            return fail("rounding-helpers", format!("v={:?}: floor {} trunc {} round {} ceil {} expand {}", v, fl, tr, ro, ce, ex));
        }
    }
    None
}

fn laws() -> Vec<Law> {
    vec![
        Law { name: "union", gen: two_rects, check: law_union, weight: 2 },
        Law { name: "intersect_overlaps", gen: two_rects, check: law_intersect, weight: 2 },
        Law { name: "contains_union_pt_winding", gen: rect_pt, check: law_contains, weight: 2 },
        Law { name: "abs_from_points", gen: any_rect, check: law_abs, weight: 1 },
        Law { name: "expand_trunc", gen: any_rect, check: law_expand_trunc, weight: 2 },
        Law { name: "insets", gen: grid_rect_insets, check: law_insets, weight: 2 },
        Law { name: "rect_difference", gen: grid_two, check: law_rect_diff, weight: 1 },
        Law { name: "rounding", gen: one_float, check: law_rounding, weight: 2 },
    ]
}

/// Exhaustive sweep the property's quantifier asks for: every rectangle on the
/// half-integer grid [-3,3]^4 (x) itself for the unary laws; in the thorough tier also
/// all pairs on the coarser integer grid and all grid points.
fn extra(_r: &mut Rng, thorough: bool, o: &mut Out) {
    let g: Vec<f64> = (-6..=6).map(|k| k as f64 / 2.0).collect();
    let mut n = 0u64;
    let run = |name: &str, f: fn(&[f64]) -> Option<(String, String)>, args: &[f64], o: &mut Out| {
        o.oracle_eval(name);
        if let Some((class, desc)) = f(args) {
            o.violation(&class, desc, format!("{{\"law\":{},\"args\":{}}}", crate::util::json_str(name), crate::util::fmt_fs(args)));
        }
    };
    for &x0 in &g {
        for &y0 in &g {
            for &x1 in &g {
                for &y1 in &g {
                    let a = [x0, y0, x1, y1];
                    run("abs_from_points", law_abs, &a, o);
                    run("expand_trunc", law_expand_trunc, &a, o);
                    n += 1;
                }
            }
        }
    }
    // pairs: non-negative-extent rectangles; quick: step 1.5 grid, thorough: full half-integer per axis pairs
    let gp: Vec<f64> = if thorough { g.clone() } else { vec![-3.0, -1.5, 0.0, 0.5, 2.0, 3.0] };
    let mut rects = Vec::new();
    for &x0 in &gp {
        for &x1 in &gp {
            if x0 <= x1 {
                rects.push((x0, x1));
            }
        }
    }
    // the laws are per-axis products; enumerate all x-interval pairs with a few y-interval pairs
    let ys = [(-1.0, 1.0, -1.0, 1.0), (-1.0, 0.0, 0.0, 1.0), (0.0, 0.5, 1.0, 2.0), (-2.0, 2.0, 0.0, 0.0), (0.5, 0.5, 0.5, 0.5)];
    for &(ax0, ax1) in &rects {
        for &(bx0, bx1) in &rects {
            for &(ay0, ay1, by0, by1) in &ys {
                let a = [ax0, ay0, ax1, ay1, bx0, by0, bx1, by1];
                run("union", law_union, &a, o);
                run("intersect_overlaps", law_intersect, &a, o);
                run("rect_difference", law_rect_diff, &a, o);
                // transposed axes
                let t = [ay0, ax0, ay1, ax1, by0, bx0, by1, bx1];
                run("union", law_union, &t, o);
                run("intersect_overlaps", law_intersect, &t, o);
                n += 1;
            }
        }
        for &px in &g {
            for &py in &[-1.0, 0.0, 0.5, 1.0] {
                let a = [ax0, -1.0, ax1, 1.0, px, py];
                run("contains_union_pt_winding", law_contains, &a, o);
                let t = [-1.0, ax0, 1.0, ax1, py, px];
                run("contains_union_pt_winding", law_contains, &t, o);
            }
        }
    }
    o.notes.push(format!("exhaustive grid sweep: {} rectangle/pair configurations", n));
}
