//! kv-harness: runs the compiled kurbo crate (from /repo's working tree) for the
//! correspondence check, the property oracles ("laws") and the known-finding replays.
//!
//! usage: kv-harness run <PROP> <quick|thorough> <seed> <outdir> [shards]
//!        kv-harness replay <PROP> <law> <f64 args as hex bits or decimal>...
mod util;
mod geom;
include!(concat!(env!("OUT_DIR"), "/mods.rs"));

use util::{Out, Rng};

/// A property law checked directly on the implementation: `f(args)` returns
/// `None` when the law holds on `args`, `Some((class, description))` when it fails.
pub struct Law {
    pub name: &'static str,
    pub gen: fn(&mut Rng) -> Vec<f64>,
    pub check: fn(&[f64]) -> Option<(String, String)>,
    /// relative weight in the sampling budget
    pub weight: u32,
}

pub struct Prop {
    pub id: &'static str,
    pub corr: fn(&mut Rng, bool, &mut Out),
    pub laws: fn() -> Vec<Law>,
    pub extra: fn(&mut Rng, bool, &mut Out),
    /// (quick, thorough) number of law samples per unit weight
    pub law_budget: (u64, u64),
}

/// `level`: 0 quick, 1 escalated (a quick run on sources that differ from the recorded fingerprint or whose translation
/// no longer equals the model: more samples, bounded time), 2 thorough
fn run_laws(p: &Prop, rng: &mut Rng, level: u8, out: &mut Out) {
    let budget = match level {
        0 => p.law_budget.0,
        1 => p.law_budget.1.min(p.law_budget.0.saturating_mul(4)),
        _ => p.law_budget.1,
    };
    for law in (p.laws)() {
        let mut r = rng.fork(util_hash(law.name));
        let n = budget * law.weight as u64;
        for _ in 0..n {
            let args = (law.gen)(&mut r);
            out.oracle_eval(law.name);
            let res = std::panic::catch_unwind(|| (law.check)(&args));
            match res {
                Ok(None) => {}
                Ok(Some((class, desc))) => {
                    out.violation(
                        &class,
                        desc,
                        format!("{{\"law\":{},\"args\":{},\"bits\":[{}]}}", util::json_str(law.name), util::fmt_fs(&args),
                            args.iter().map(|a| format!("\"{:016x}\"", a.to_bits())).collect::<Vec<_>>().join(",")),
                    );
                }
                Err(_) => {
                    out.violation(
                        &format!("{}:panic", law.name),
                        "panic while evaluating the law".into(),
                        format!("{{\"law\":{},\"args\":{},\"bits\":[{}]}}", util::json_str(law.name), util::fmt_fs(&args),
                            args.iter().map(|a| format!("\"{:016x}\"", a.to_bits())).collect::<Vec<_>>().join(",")),
                    );
                }
            }
        }
    }
}

pub fn util_hash(s: &str) -> u64 {
    let mut h: u64 = 0xcbf29ce484222325;
    for b in s.bytes() {
        h ^= b as u64;
        h = h.wrapping_mul(0x100000001b3);
    }
    h
}

fn parse_arg(s: &str) -> f64 {
    if s.len() == 16 && s.chars().all(|c| c.is_ascii_hexdigit()) {
        f64::from_bits(u64::from_str_radix(s, 16).unwrap())
    } else {
        s.parse::<f64>().expect("bad float")
    }
}

fn main() {
    let args: Vec<String> = std::env::args().collect();
    if args.len() < 2 {
        eprintln!("usage: kv-harness run|replay ...");
        std::process::exit(2);
    }
    // silence panic messages from catch_unwind'ed law evaluations
    std::panic::set_hook(Box::new(|_| {}));
    match args[1].as_str() {
        "run" => {
            let id = &args[2];
            let level: u8 = match args[3].as_str() {
                "thorough" => 2,
                "escalated" => 1,
                _ => 0,
            };
            let thorough = level == 2;
            let seed: u64 = args[4].parse().unwrap_or(0);
            let dir = &args[5];
            let shards: usize = args.get(6).and_then(|s| s.parse().ok()).unwrap_or(16);
            let ps = props();
            let p = ps.iter().find(|p| p.id == id).unwrap_or_else(|| {
                eprintln!("unknown property {}", id);
                std::process::exit(2)
            });
            let mut out = Out::new(id);
            let mut rng = Rng::new(seed ^ util_hash(id));
            let mut r1 = rng.fork(1);
            if level == 1 {
                // escalated: four times the quick volume (fresh random streams), bounded time
                for k in 0..4u64 {
                    let mut rk = if k == 0 { r1.clone() } else { r1.fork(100 + k) };
                    (p.corr)(&mut rk, false, &mut out);
                }
            } else {
                (p.corr)(&mut r1, level == 2, &mut out);
            }
            // "corr-only": just the correspondence cases (used when the same cases are re-run under another backend)
            let corr_only = args.get(7).map(|s| s == "corr-only").unwrap_or(false);
            let mut r2 = rng.fork(2);
            let mut r3 = rng.fork(3);
            if !corr_only {
                run_laws(p, &mut r2, level, &mut out);
                (p.extra)(&mut r3, thorough, &mut out);
            }
            out.write(dir, shards).expect("write cases");
        }
        "replay" => {
            let id = &args[2];
            let law = &args[3];
            let vals: Vec<f64> = args[4..].iter().map(|s| parse_arg(s)).collect();
            let ps = props();
            let p = ps.iter().find(|p| p.id == id).expect("unknown property");
            let l = (p.laws)().into_iter().find(|l| l.name == law).expect("unknown law");
            match std::panic::catch_unwind(|| (l.check)(&vals)) {
                Ok(None) => {
                    println!("HOLDS law={} args={:?}", law, vals);
                }
                Ok(Some((class, desc))) => {
                    println!("FAILS law={} class={} args={:?}\n  {}", law, class, vals, desc);
                    std::process::exit(1);
                }
                Err(_) => {
                    println!("FAILS law={} (panic) args={:?}", law, vals);
                    std::process::exit(1);
                }
            }
        }
        _ => {
            eprintln!("unknown mode");
            std::process::exit(2);
        }
    }
}
