//! Shared generators / encoders for points, segments and paths.
use crate::util::Rng;
use kurbo::{BezPath, CubicBez, Line, PathEl, PathSeg, Point, QuadBez};

pub fn gen_point(r: &mut Rng) -> Point {
    Point::new(r.coord(), r.coord())
}

pub fn grid_point(r: &mut Rng) -> Point {
    Point::new(r.grid(8, 2.0), r.grid(8, 2.0))
}

/// structured control polygons: grid points, repeated points, shared coordinates, collinear
pub fn gen_points(r: &mut Rng, n: usize) -> Vec<Point> {
    let mode = r.below(10);
    let mut ps: Vec<Point> = (0..n)
        .map(|_| match mode {
            0 | 1 => grid_point(r),
            2 => Point::new(r.grid(3, 1.0), r.grid(3, 1.0)),
            3 => Point::new(r.generic(-2, 8), r.generic(-2, 8)),
            _ => gen_point(r),
        })
        .collect();
    match r.below(12) {
        0 if n >= 2 => {
            let i = r.below(n as u64) as usize;
            let j = r.below(n as u64) as usize;
            ps[i] = ps[j]; // repeated point
        }
        1 if n >= 2 => {
            let i = r.below(n as u64) as usize;
            let j = r.below(n as u64) as usize;
            ps[i].x = ps[j].x; // shared abscissa
        }
        2 if n >= 2 => {
            let i = r.below(n as u64) as usize;
            let j = r.below(n as u64) as usize;
            ps[i].y = ps[j].y; // shared ordinate
        }
        3 if n >= 3 => {
            // collinear: all on the line through ps[0], ps[n-1] at dyadic parameters
            let (a, b) = (ps[0], ps[n - 1]);
            for p in ps.iter_mut().take(n - 1).skip(1) {
                let t = r.range_i(-4, 12) as f64 / 8.0;
                *p = Point::new(a.x + t * (b.x - a.x), a.y + t * (b.y - a.y));
            }
        }
        _ => {}
    }
    ps
}

pub fn gen_line(r: &mut Rng) -> Line {
    let p = gen_points(r, 2);
    Line::new(p[0], p[1])
}
pub fn gen_quad(r: &mut Rng) -> QuadBez {
    let p = gen_points(r, 3);
    QuadBez::new(p[0], p[1], p[2])
}
pub fn gen_cubic(r: &mut Rng) -> CubicBez {
    let p = gen_points(r, 4);
    CubicBez::new(p[0], p[1], p[2], p[3])
}
pub fn gen_seg(r: &mut Rng) -> PathSeg {
    match r.below(3) {
        0 => PathSeg::Line(gen_line(r)),
        1 => PathSeg::Quad(gen_quad(r)),
        _ => PathSeg::Cubic(gen_cubic(r)),
    }
}

pub fn pt(v: &mut Vec<f64>, p: Point) {
    v.push(p.x);
    v.push(p.y);
}

/// kind (1,2,3) followed by the control points
pub fn enc_seg(s: &PathSeg) -> Vec<f64> {
    let mut v = Vec::new();
    match s {
        PathSeg::Line(l) => {
            v.push(1.0);
            pt(&mut v, l.p0);
            pt(&mut v, l.p1);
        }
        PathSeg::Quad(q) => {
            v.push(2.0);
            pt(&mut v, q.p0);
            pt(&mut v, q.p1);
            pt(&mut v, q.p2);
        }
        PathSeg::Cubic(c) => {
            v.push(3.0);
            pt(&mut v, c.p0);
            pt(&mut v, c.p1);
            pt(&mut v, c.p2);
            pt(&mut v, c.p3);
        }
    }
    v
}

pub fn dec_seg(a: &[f64]) -> (PathSeg, &[f64]) {
    let p = |i: usize| Point::new(a[1 + 2 * i], a[2 + 2 * i]);
    match a[0] as i32 {
        1 => (PathSeg::Line(Line::new(p(0), p(1))), &a[5..]),
        2 => (PathSeg::Quad(QuadBez::new(p(0), p(1), p(2))), &a[7..]),
        _ => (PathSeg::Cubic(CubicBez::new(p(0), p(1), p(2), p(3))), &a[9..]),
    }
}

/// Path elements as a flat list: 0 MoveTo x y | 1 LineTo x y | 2 QuadTo x1 y1 x2 y2 | 3 CurveTo (6) | 4 ClosePath
pub fn enc_els(els: &[PathEl]) -> Vec<f64> {
    let mut v = Vec::new();
    for e in els {
        match e {
            PathEl::MoveTo(p) => {
                v.push(0.0);
                pt(&mut v, *p);
            }
            PathEl::LineTo(p) => {
                v.push(1.0);
                pt(&mut v, *p);
            }
            PathEl::QuadTo(a, b) => {
                v.push(2.0);
                pt(&mut v, *a);
                pt(&mut v, *b);
            }
            PathEl::CurveTo(a, b, c) => {
                v.push(3.0);
                pt(&mut v, *a);
                pt(&mut v, *b);
                pt(&mut v, *c);
            }
            PathEl::ClosePath => v.push(4.0),
        }
    }
    v
}

pub fn dec_els(a: &[f64]) -> Vec<PathEl> {
    let mut v = Vec::new();
    let mut i = 0;
    let p = |i: usize| Point::new(a[i], a[i + 1]);
    while i < a.len() {
        match a[i] as i32 {
            0 => {
                v.push(PathEl::MoveTo(p(i + 1)));
                i += 3;
            }
            1 => {
                v.push(PathEl::LineTo(p(i + 1)));
                i += 3;
            }
            2 => {
                v.push(PathEl::QuadTo(p(i + 1), p(i + 3)));
                i += 5;
            }
            3 => {
                v.push(PathEl::CurveTo(p(i + 1), p(i + 3), p(i + 5)));
                i += 7;
            }
            _ => {
                v.push(PathEl::ClosePath);
                i += 1;
            }
        }
    }
    v
}

pub fn enc_segs(segs: &[PathSeg]) -> Vec<f64> {
    segs.iter().flat_map(|s| enc_seg(s)).collect()
}

/// A random closed path: `nsub` sub-paths of lines/quads/cubics, each closed by ClosePath.
pub fn gen_closed_path(r: &mut Rng, nsub: usize, maxseg: usize, kinds: u64) -> BezPath {
    let mut bp = BezPath::new();
    for _ in 0..nsub {
        let n = 2 + r.below(maxseg as u64 - 1) as usize;
        let mode = r.below(4);
        let gp = |r: &mut Rng| match mode {
            0 => grid_point(r),
            1 => Point::new(r.grid(4, 1.0), r.grid(4, 1.0)),
            _ => gen_point(r),
        };
        let start = gp(r);
        bp.move_to(start);
        for i in 0..n {
            let end = if i + 1 == n && r.chance(1, 3) { start } else { gp(r) };
            match r.below(kinds) {
                0 => bp.line_to(end),
                1 => bp.quad_to(gp(r), end),
                _ => bp.curve_to(gp(r), gp(r), end),
            }
        }
        bp.close_path();
    }
    bp
}

pub fn ulp_diff(a: f64, b: f64) -> u64 {
    if a == b {
        return 0;
    }
    if !a.is_finite() || !b.is_finite() {
        return u64::MAX;
    }
    let f = |x: f64| {
        let b = x.to_bits() as i64;
        if b < 0 {
            i64::MIN.wrapping_sub(b)
        } else {
            b
        }
    };
    (f(a) as i128 - f(b) as i128).unsigned_abs() as u64
}
