//! Shared utilities: PRNG, hex-float printing, case writer, JSON helpers.
use std::collections::BTreeMap;
use std::collections::HashSet;
use std::fmt::Write as _;
use std::fs;
use std::io::Write as _;

/// splitmix64: every random choice of the harness comes from one state.
#[derive(Clone)]
pub struct Rng(pub u64);

impl Rng {
    pub fn new(seed: u64) -> Rng {
        Rng(seed.wrapping_mul(0x9E3779B97F4A7C15).wrapping_add(0x1234_5678_9abc_def1))
    }
    pub fn fork(&mut self, salt: u64) -> Rng {
        Rng(self.next_u64() ^ salt.wrapping_mul(0xD6E8FEB86659FD93))
    }
    pub fn next_u64(&mut self) -> u64 {
        self.0 = self.0.wrapping_add(0x9E3779B97F4A7C15);
        let mut z = self.0;
        z = (z ^ (z >> 30)).wrapping_mul(0xBF58476D1CE4E5B9);
        z = (z ^ (z >> 27)).wrapping_mul(0x94D049BB133111EB);
        z ^ (z >> 31)
    }
    /// uniform in [0, n)
    pub fn below(&mut self, n: u64) -> u64 {
        if n == 0 {
            0
        } else {
            self.next_u64() % n
        }
    }
    pub fn range_i(&mut self, lo: i64, hi: i64) -> i64 {
        lo + self.below((hi - lo + 1) as u64) as i64
    }
    pub fn bool(&mut self) -> bool {
        self.next_u64() & 1 == 1
    }
    pub fn chance(&mut self, num: u64, den: u64) -> bool {
        self.below(den) < num
    }
    /// uniform in [0,1)
    pub fn unit(&mut self) -> f64 {
        (self.next_u64() >> 11) as f64 / (1u64 << 53) as f64
    }
    pub fn uniform(&mut self, lo: f64, hi: f64) -> f64 {
        lo + (hi - lo) * self.unit()
    }
    /// a "generic" finite double: sign, exponent in a moderate range, full mantissa
    pub fn generic(&mut self, emin: i32, emax: i32) -> f64 {
        let m = 1.0 + self.unit();
        let e = self.range_i(emin as i64, emax as i64) as i32;
        let s = if self.bool() { -1.0 } else { 1.0 };
        s * m * 2f64.powi(e)
    }
    /// value on the grid k/den, |k| <= kmax
    pub fn grid(&mut self, kmax: i64, den: f64) -> f64 {
        self.range_i(-kmax, kmax) as f64 / den
    }
    pub fn pick<'a, T>(&mut self, xs: &'a [T]) -> &'a T {
        &xs[self.below(xs.len() as u64) as usize]
    }
    /// mixture used by most groups: grid values, small generic, wide generic
    pub fn coord(&mut self) -> f64 {
        match self.below(10) {
            0..=2 => self.grid(8, 2.0),
            3..=4 => self.grid(40, 8.0),
            5..=7 => self.generic(-3, 6),
            8 => self.generic(-20, 20),
            _ => self.uniform(-100.0, 100.0),
        }
    }
}

/// Coq 8.16 hexadecimal float literal, parsed exactly by `coqc`.
pub fn hexf(x: f64) -> String {
    if x.is_nan() {
        return "nan".into();
    }
    if x.is_infinite() {
        return if x > 0.0 { "infinity".into() } else { "neg_infinity".into() };
    }
    let bits = x.to_bits();
    let neg = bits >> 63 == 1;
    let exp = ((bits >> 52) & 0x7ff) as i64;
    let man = bits & 0xf_ffff_ffff_ffff;
    let body = if exp == 0 && man == 0 {
        "0".to_string()
    } else if exp == 0 {
        format!("0x0.{:013x}p-1022", man)
    } else {
        format!("0x1.{:013x}p{:+}", man, exp - 1023)
    };
    if neg {
        format!("(-{})", body)
    } else {
        body
    }
}

pub fn json_str(s: &str) -> String {
    let mut o = String::from("\"");
    for c in s.chars() {
        match c {
            '"' => o.push_str("\\\""),
            '\\' => o.push_str("\\\\"),
            '\n' => o.push_str("\\n"),
            '\t' => o.push_str("\\t"),
            c if (c as u32) < 0x20 => {
                let _ = write!(o, "\\u{:04x}", c as u32);
            }
            c => o.push(c),
        }
    }
    o.push('"');
    o
}

pub fn fmt_f(x: f64) -> String {
    if x.is_finite() {
        format!("{:?}", x)
    } else {
        format!("\"{:?}\"", x)
    }
}

pub fn fmt_fs(xs: &[f64]) -> String {
    let v: Vec<String> = xs.iter().map(|x| fmt_f(*x)).collect();
    format!("[{}]", v.join(","))
}

#[derive(Default, Clone)]
pub struct GroupStat {
    pub cases: u64,
    pub nontrivial: u64,
    pub distinct_nontrivial: u64,
    pub tags: BTreeMap<String, u64>,
}

pub struct Case {
    pub op: i64,
    pub group: &'static str,
    pub args: Vec<f64>,
    pub exp: Vec<f64>,
}

/// A violation of the property itself, observed on the implementation alone.
pub struct Violation {
    pub class: String,
    pub desc: String,
    pub input: String, // JSON value
}

/// Collects correspondence cases, oracle results, statistics; writes the Coq case files.
pub struct Out {
    pub prop: String,
    pub coq_module: String,
    pub cases: Vec<Case>,
    pub stats: BTreeMap<&'static str, GroupStat>,
    seen: HashSet<u64>,
    pub samples: Vec<String>,
    pub oracle_evals: u64,
    pub oracle_stats: BTreeMap<String, u64>,
    pub violations: Vec<Violation>,
    /// every violation counted by class, also beyond the cap on recorded violations
    pub class_counts: BTreeMap<String, u64>,
    pub known: Vec<(String, bool, String)>, // id, still fails, description
    pub notes: Vec<String>,
}

fn fnv(bytes: &[u8]) -> u64 {
    let mut h: u64 = 0xcbf29ce484222325;
    for b in bytes {
        h ^= *b as u64;
        h = h.wrapping_mul(0x100000001b3);
    }
    h
}

impl Out {
    pub fn new(prop: &str) -> Out {
        Out {
            prop: prop.to_string(),
            coq_module: format!("{}_corr", prop),
            cases: Vec::new(),
            stats: BTreeMap::new(),
            seen: HashSet::new(),
            samples: Vec::new(),
            oracle_evals: 0,
            oracle_stats: BTreeMap::new(),
            violations: Vec::new(),
            class_counts: BTreeMap::new(),
            known: Vec::new(),
            notes: Vec::new(),
        }
    }

    /// Record one correspondence case. `nontrivial`: by the group's own rule
    /// (reaches a non-default branch / non-degenerate input). `tag`: branch label for the distribution.
    pub fn case(&mut self, op: i64, group: &'static str, args: Vec<f64>, exp: Vec<f64>, nontrivial: bool, tag: &str) {
        let mut key: Vec<u8> = Vec::with_capacity(8 * (args.len() + 1));
        key.extend_from_slice(&op.to_le_bytes());
        for a in &args {
            key.extend_from_slice(&a.to_bits().to_le_bytes());
        }
        let h = fnv(&key);
        let fresh = self.seen.insert(h);
        let st = self.stats.entry(group).or_default();
        st.cases += 1;
        if nontrivial {
            st.nontrivial += 1;
            if fresh {
                st.distinct_nontrivial += 1;
            }
        }
        if !tag.is_empty() {
            *st.tags.entry(tag.to_string()).or_default() += 1;
        }
        if st.cases <= 2 {
            self.samples.push(format!(
                "{{\"group\":{},\"op\":{},\"args\":{},\"observed\":{}}}",
                json_str(group),
                op,
                fmt_fs(&args),
                fmt_fs(&exp)
            ));
        }
        self.cases.push(Case { op, group, args, exp });
    }

    pub fn oracle_eval(&mut self, name: &str) {
        self.oracle_evals += 1;
        *self.oracle_stats.entry(name.to_string()).or_default() += 1;
    }

    pub fn violation(&mut self, class: &str, desc: String, input: String) {
        *self.class_counts.entry(class.to_string()).or_default() += 1;
        if self.violations.len() < 200 {
            self.violations.push(Violation { class: class.to_string(), desc, input });
        }
    }

    pub fn known(&mut self, id: &str, still_fails: bool, desc: String) {
        self.known.push((id.to_string(), still_fails, desc));
    }

    /// Write `cases_<k>.v` (k < shards), `cases.tsv` (index, group, op, args, observed) and `summary.json`.
    pub fn write(&self, dir: &str, shards: usize) -> std::io::Result<()> {
        fs::create_dir_all(dir)?;
        let n = self.cases.len();
        let shards = shards.max(1);
        let per = (n + shards - 1) / shards.max(1);
        let mut tsv = fs::File::create(format!("{}/cases.tsv", dir))?;
        for (i, c) in self.cases.iter().enumerate() {
            writeln!(tsv, "{}\t{}\t{}\t{}\t{}", i, c.group, c.op, fmt_fs(&c.args), fmt_fs(&c.exp))?;
        }
        for k in 0..shards {
            let lo = (k * per).min(n);
            let hi = ((k + 1) * per).min(n);
            let mut f = std::io::BufWriter::new(fs::File::create(format!("{}/cases_{}.v", dir, k))?);
            writeln!(f, "From Coq Require Import ZArith Floats List.")?;
            writeln!(f, "From KV Require Import Corr {}.", self.coq_module)?;
            writeln!(f, "Import ListNotations.\nOpen Scope list_scope.\nOpen Scope float_scope.")?;
            // chunks of 100 cases per definition keep the parser's stack shallow
            let mut chunk = 0;
            let mut i = lo;
            while i < hi {
                let j = (i + 100).min(hi);
                writeln!(f, "Definition chunk{} : list case := [", chunk)?;
                for (q, c) in self.cases[i..j].iter().enumerate() {
                    let a: Vec<String> = c.args.iter().map(|x| hexf(*x)).collect();
                    let e: Vec<String> = c.exp.iter().map(|x| hexf(*x)).collect();
                    writeln!(
                        f,
                        " mkCase {}%Z [{}] [{}]{}",
                        c.op,
                        a.join("; "),
                        e.join("; "),
                        if q + 1 == j - i { "" } else { ";" }
                    )?;
                }
                writeln!(f, "].")?;
                writeln!(f, "Eval vm_compute in ({}.failures {}%Z chunk{}).", self.coq_module, i, chunk)?;
                chunk += 1;
                i = j;
            }
            f.flush()?;
        }
        let mut s = String::new();
        s.push_str("{\n");
        let _ = writeln!(s, " \"property\": {},", json_str(&self.prop));
        let _ = writeln!(s, " \"cases\": {},", n);
        let _ = writeln!(s, " \"shards\": {},", shards);
        s.push_str(" \"groups\": {");
        let mut first = true;
        for (g, st) in &self.stats {
            if !first {
                s.push(',');
            }
            first = false;
            let tags: Vec<String> = st.tags.iter().map(|(k, v)| format!("{}:{}", json_str(k), v)).collect();
            let _ = write!(
                s,
                "\n  {}: {{\"cases\":{},\"nontrivial\":{},\"distinct_nontrivial\":{},\"tags\":{{{}}}}}",
                json_str(g),
                st.cases,
                st.nontrivial,
                st.distinct_nontrivial,
                tags.join(",")
            );
        }
        s.push_str("\n },\n");
        let _ = writeln!(s, " \"samples\": [{}],", self.samples.iter().take(24).cloned().collect::<Vec<_>>().join(",\n  "));
        let _ = writeln!(s, " \"oracle_evaluations\": {},", self.oracle_evals);
        let os: Vec<String> = self.oracle_stats.iter().map(|(k, v)| format!("{}:{}", json_str(k), v)).collect();
        let _ = writeln!(s, " \"oracle_stats\": {{{}}},", os.join(","));
        let vs: Vec<String> = self
            .violations
            .iter()
            .map(|v| format!("{{\"class\":{},\"desc\":{},\"input\":{}}}", json_str(&v.class), json_str(&v.desc), v.input))
            .collect();
        let _ = writeln!(s, " \"violations\": [{}],", vs.join(",\n  "));
        let cc: Vec<String> = self.class_counts.iter().map(|(k, v)| format!("{}:{}", json_str(k), v)).collect();
        let _ = writeln!(s, " \"class_counts\": {{{}}},", cc.join(","));
        let ks: Vec<String> = self
            .known
            .iter()
            .map(|(id, f, d)| format!("{{\"id\":{},\"still_fails\":{},\"desc\":{}}}", json_str(id), f, json_str(d)))
            .collect();
        let _ = writeln!(s, " \"known\": [{}],", ks.join(",\n  "));
        let ns: Vec<String> = self.notes.iter().map(|n| json_str(n)).collect();
        let _ = writeln!(s, " \"notes\": [{}]", ns.join(","));
        s.push_str("}\n");
        fs::write(format!("{}/summary.json", dir), s)?;
        Ok(())
    }
}

pub fn b2f(b: bool) -> f64 {
    if b {
        1.0
    } else {
        0.0
    }
}

/// `BezPath::to_svg` exists only with kurbo's `std` feature. The libm build of the harness (C19's second
/// build) gets a transcription of it here so that modules which print paths still compile; the writer itself
/// is checked by C16 against the std build only.
#[cfg(feature = "libm")]
pub trait ToSvgCompat {
    fn to_svg(&self) -> String;
}
#[cfg(feature = "libm")]
impl ToSvgCompat for kurbo::BezPath {
    fn to_svg(&self) -> String {
        use kurbo::PathEl;
        let mut s = String::new();
        for (i, el) in self.elements().iter().enumerate() {
            if i > 0 {
                s.push(' ');
            }
            match *el {
                PathEl::MoveTo(p) => s.push_str(&format!("M{},{}", p.x, p.y)),
                PathEl::LineTo(p) => s.push_str(&format!("L{},{}", p.x, p.y)),
                PathEl::QuadTo(p1, p2) => s.push_str(&format!("Q{},{} {},{}", p1.x, p1.y, p2.x, p2.y)),
                PathEl::CurveTo(p1, p2, p3) => s.push_str(&format!("C{},{} {},{} {},{}", p1.x, p1.y, p2.x, p2.y, p3.x, p3.y)),
                PathEl::ClosePath => s.push('Z'),
            }
        }
        s
    }
}
