//! C14 — core algorithms terminate with finite results on every finite input.
//!
//! What a theorem reaches (coq/Properties/C14.v) is the control structure of the modelled
//! machines.  Everything numeric below the skeletons (the stroker / offsetter / fitter dividing
//! by tangent lengths) is decided HERE, by testing: every algorithm the property names is run on
//! the property's degenerate families under `catch_unwind`, on a worker thread with a time limit,
//! with the deterministic work counter `kurbo::verif::{reset, work}` instead of the wall clock:
//!   no panic, work <= a stated budget, output length bounded, EVERY output number finite.
//! Failure classes are narrow: `<algorithm>:<panic|hang|work-budget|output-size|nonfinite>:<family>`.
//!
//! corr: (1) the `t == start || t == end` guard and the float midpoint `0.5 * (start + end)` of
//!       `fit_to_bezpath_rec`: the real `fit_to_bezpath` is run on a source that is never fitted on
//!       the ranges that contain one of k marked parameters; the number of
//!       `fit_to_bezpath_rec` calls and the emitted straight cubics must equal the binary64 run of
//!       `Totality.bisect` exactly; (2) `CubicBez::regularize` (bit-exact in its nudging branches,
//!       1e-9 in the cusp branch that calls hypot).
use crate::geom::*;
use crate::util::{b2f, Out, Rng};
use crate::{Law, Prop};
use kurbo::common::{solve_cubic, solve_itp, solve_quadratic, solve_quartic};
use kurbo::offset::CubicOffset;
use kurbo::simplify::{simplify_bezpath, SimplifyBezPath, SimplifyOptLevel, SimplifyOptions};
use kurbo::{
    dash, fit_to_bezpath, fit_to_bezpath_opt, flatten, stroke, BezPath, Cap, CubicBez, CurveFitSample, Join, Line, ParamCurve,
    ParamCurveArclen, ParamCurveFit, ParamCurveNearest, PathEl, PathSeg, Point, QuadBez, Shape, Stroke, StrokeOpts, Vec2,
};
use std::ops::Range;
use std::sync::atomic::{AtomicU32, AtomicU64, Ordering};

pub fn prop() -> Prop {
    Prop { id: "C14", corr, laws, extra, law_budget: (60, 1500) }
}

// =====================================================================================
// guarded execution: worker thread, time limit, work counter
// =====================================================================================

/// number of evaluations that did not return in time; their threads keep running (and keep ticking the
/// global work counter), so after the first one the work-budget assertions are switched off and after
/// three the remaining guarded evaluations are skipped
static HUNG: AtomicU32 = AtomicU32::new(0);
const TIME_LIMIT_S: u64 = 6;

enum Run<R> {
    Done(R, u64),
    Panic(String),
    Hang,
    Skipped,
}

fn panic_text(p: Box<dyn std::any::Any + Send>) -> String {
    if let Some(s) = p.downcast_ref::<&str>() {
        s.to_string()
    } else if let Some(s) = p.downcast_ref::<String>() {
        s.clone()
    } else {
        "panic".into()
    }
}

/// run `f` on a worker thread (256 MB stack: deep but finite recursion must not be mistaken for a
/// crash) with `reset()` before and `work()` after
/// hangs that belong to a known finding (the exact-cusp inputs): they do not count towards the threshold
/// after which guarded evaluations are skipped, but at most three of them are provoked per run
static KNOWN_HUNG: AtomicU32 = AtomicU32::new(0);
fn guarded<R: Send + 'static>(f: impl FnOnce() -> R + Send + 'static) -> Run<R> {
    if HUNG.load(Ordering::Relaxed).saturating_sub(KNOWN_HUNG.load(Ordering::Relaxed)) >= 3 {
        return Run::Skipped;
    }
    let (tx, rx) = std::sync::mpsc::channel();
    let h = std::thread::Builder::new().stack_size(256 << 20).spawn(move || {
        kurbo::verif::reset();
        let r = std::panic::catch_unwind(std::panic::AssertUnwindSafe(f));
        let w = kurbo::verif::work();
        let _ = tx.send((r, w));
    });
    if h.is_err() {
        return Run::Skipped;
    }
    match rx.recv_timeout(std::time::Duration::from_secs(TIME_LIMIT_S)) {
        Ok((Ok(r), w)) => Run::Done(r, w),
        Ok((Err(p), _)) => Run::Panic(panic_text(p)),
        Err(_) => {
            HUNG.fetch_add(1, Ordering::Relaxed);
            Run::Hang
        }
    }
}

/// same, on the calling thread (for calls that cannot loop: solvers, nearest, winding, svg)
fn direct<R>(f: impl FnOnce() -> R) -> Run<R> {
    kurbo::verif::reset();
    match std::panic::catch_unwind(std::panic::AssertUnwindSafe(f)) {
        Ok(r) => Run::Done(r, kurbo::verif::work()),
        Err(p) => Run::Panic(panic_text(p)),
    }
}

fn counter_clean() -> bool {
    HUNG.load(Ordering::Relaxed) == 0
}

fn fail(class: String, d: String) -> Option<(String, String)> {
    Some((class, d))
}

// calibration aid: C14_STATS=1 prints the largest observed work / budget ratio per algorithm at exit of `extra`
static STATS: [AtomicU64; 16] = [
    AtomicU64::new(0), AtomicU64::new(0), AtomicU64::new(0), AtomicU64::new(0), AtomicU64::new(0), AtomicU64::new(0), AtomicU64::new(0), AtomicU64::new(0),
    AtomicU64::new(0), AtomicU64::new(0), AtomicU64::new(0), AtomicU64::new(0), AtomicU64::new(0), AtomicU64::new(0), AtomicU64::new(0), AtomicU64::new(0),
];
const STAT_NAMES: [&str; 16] = [
    "flatten-out", "stroke-work", "stroke-out", "dash-work", "dash-out", "fit-work", "fit-out", "simplify-work", "simplify-out", "arclen-work", "inv-arclen-work",
    "to_quads-n", "itp-work", "fitopt-work", "spline", "-",
];
fn stat(ix: usize, observed: f64, budget: f64) {
    let r = (1e6 * observed / budget.max(1e-300)).min(1e18) as u64;
    STATS[ix].fetch_max(r, Ordering::Relaxed);
}

/// one outcome -> the generic part of a law: panic / hang / work budget
fn judge<R>(what: &str, fam: &str, run: Run<R>, budget: u64, stat_ix: usize, input: &dyn Fn() -> String) -> Result<Option<R>, (String, String)> {
    match run {
        Run::Skipped => Ok(None),
        Run::Hang => Err((format!("{}:hang:{}", what, fam), format!("no result within {} s on {}", TIME_LIMIT_S, input()))),
        Run::Panic(m) => {
            let kind = if m.starts_with("C14: more than") {
                "output-size"
            } else if m.contains("Option::unwrap") {
                "panic-unwrap"
            } else if m.contains("shift left with overflow") {
                "panic-shift-overflow"
            } else if m.contains("uninitialized subpath") {
                "panic-uninitialized-subpath"
            } else {
                "panic"
            };
            Err((format!("{}:{}:{}", what, kind, fam), format!("panic '{}' on {}", m, input())))
        }
        Run::Done(r, w) => {
            stat(stat_ix, w as f64, budget as f64);
            if counter_clean() && w > budget {
                return Err((format!("{}:work-budget:{}", what, fam), format!("{} units of work (budget {}) on {}", w, budget, input())));
            }
            Ok(Some(r))
        }
    }
}

// =====================================================================================
// the property's input families
// =====================================================================================

const FAMS: [&str; 12] = ["generic", "repeat", "collinear", "abab", "pqqq", "pppq", "ppqq", "pqqp", "loop", "cusp", "quad-degenerate", "mixed"];

struct Frame {
    s: f64,
    c: f64,
    sn: f64,
    tx: f64,
    ty: f64,
}
impl Frame {
    fn ap(&self, p: (i64, i64)) -> Point {
        let (x, y) = (p.0 as f64, p.1 as f64);
        Point::new(self.tx + self.s * (self.c * x - self.sn * y), self.ty + self.s * (self.sn * x + self.c * y))
    }
}

/// similarity frame: distinct grid points stay >= s apart (>= 1e-2 of the extent), identical grid
/// points stay bit-identical, |coordinates| <= 1e6
fn gen_frame(r: &mut Rng) -> Frame {
    let s = *r.pick(&[1e-2, 0.1, 1.0, 1.0, 1.0, 3.7, 10.0, 1e3, 2.5e4]);
    let (c, sn) = match r.below(7) {
        0 | 1 => (1.0, 0.0),
        2 => (0.0, 1.0),
        3 => (std::f64::consts::FRAC_1_SQRT_2, std::f64::consts::FRAC_1_SQRT_2),
        4 => (0.6, 0.8),
        _ => {
            let a = r.uniform(0.0, 2.0 * std::f64::consts::PI);
            (a.cos(), a.sin())
        }
    };
    let room = 1e6 - 36.0 * s; // |grid coordinates| <= 24 in every family, times sqrt 2 for the rotation
    let (tx, ty) = match r.below(6) {
        0 | 1 => (0.0, 0.0),
        2 => (r.uniform(-10.0, 10.0), r.uniform(-10.0, 10.0)),
        3 => (r.uniform(-10.0, 10.0) * s, r.uniform(-10.0, 10.0) * s),
        4 => (r.uniform(-room, room), r.uniform(-room, room)),
        _ => (if r.bool() { room } else { -room }, if r.bool() { room } else { -room }),
    };
    Frame { s, c, sn, tx, ty }
}

fn gp(r: &mut Rng) -> (i64, i64) {
    (r.range_i(-8, 8), r.range_i(-8, 8))
}
fn gp_other(r: &mut Rng, p: (i64, i64)) -> (i64, i64) {
    loop {
        let q = gp(r);
        if q != p {
            return q;
        }
    }
}

/// one curve segment of family `fam` starting at the grid point `p0`: control points (cubic: 3, quadratic: 2)
fn fam_segment(r: &mut Rng, fam: usize, p0: (i64, i64)) -> Vec<(i64, i64)> {
    let add = |a: (i64, i64), b: (i64, i64)| (a.0 + b.0, a.1 + b.1);
    let sub = |a: (i64, i64), b: (i64, i64)| (a.0 - b.0, a.1 - b.1);
    match fam {
        0 => vec![gp(r), gp(r), gp(r)],
        1 => {
            // repeated control points: every point is one of p0, a, b; at least one repeat by pigeonhole
            let a = gp_other(r, p0);
            let b = gp(r);
            let pk = |r: &mut Rng| *r.pick(&[p0, a, b]);
            vec![pk(r), pk(r), pk(r)]
        }
        2 => {
            // collinear, in any order along the line (fold-backs, coincidences)
            let d = loop {
                let d = (r.range_i(-2, 2), r.range_i(-2, 2));
                if d != (0, 0) {
                    break d;
                }
            };
            let k = |r: &mut Rng| {
                let k = r.range_i(-3, 4);
                (p0.0 + k * d.0, p0.1 + k * d.1)
            };
            vec![k(r), k(r), k(r)]
        }
        3 => {
            let b = gp_other(r, p0);
            vec![b, p0, b]
        }
        4 => {
            let q = gp_other(r, p0);
            vec![q, q, q]
        }
        5 => {
            let q = gp_other(r, p0);
            vec![p0, p0, q]
        }
        6 => {
            let q = gp_other(r, p0);
            vec![p0, q, q]
        }
        7 => {
            let q = gp_other(r, p0);
            vec![q, q, p0]
        }
        8 => {
            // p0 = p3 loop; sometimes with collinear or coincident arms
            let a = gp_other(r, p0);
            let b = match r.below(4) {
                0 => a,
                1 => add(p0, sub(p0, a)),
                _ => gp(r),
            };
            vec![a, b, p0]
        }
        9 => {
            // zero derivative at t = 1/2: p3 + p2 = p1 + p0
            let a = gp(r);
            let b = gp(r);
            vec![a, b, sub(add(p0, a), b)]
        }
        10 => {
            // quadratics: P,P,Q / P,Q,Q / P,Q,P / collinear / P,P,P
            let q = gp_other(r, p0);
            match r.below(6) {
                0 => vec![p0, q],
                1 => vec![q, q],
                2 => vec![q, p0],
                3 => vec![p0, p0],
                _ => {
                    let k1 = r.range_i(-3, 4);
                    let k2 = r.range_i(-3, 4);
                    let d = sub(q, p0);
                    let d = (d.0.signum() * d.0.abs().min(2), d.1.signum() * d.1.abs().min(2));
                    vec![(p0.0 + k1 * d.0, p0.1 + k1 * d.1), (p0.0 + k2 * d.0, p0.1 + k2 * d.1)]
                }
            }
        }
        _ => {
            let f = r.below(11) as usize;
            fam_segment(r, f, p0)
        }
    }
}

/// a path of the family: MoveTo, 1-3 segments (family curves, lines, zero-length lines), maybe ClosePath,
/// maybe a second (possibly empty) sub-path.  Returns (family, elements, frame scale).
fn gen_family_path(r: &mut Rng) -> (usize, Vec<PathEl>, f64) {
    let fam = r.below(FAMS.len() as u64) as usize;
    let fr = gen_frame(r);
    let mut els = Vec::new();
    let nsub = if r.chance(1, 6) { 2 } else { 1 };
    for sub in 0..nsub {
        let mut cur = gp(r);
        let start = cur;
        els.push(PathEl::MoveTo(fr.ap(cur)));
        let nseg = if sub == 1 { r.below(3) } else { 1 + r.below(3) };
        for i in 0..nseg {
            let kind = if i == 0 && sub == 0 { 0 } else { r.below(10) };
            match kind {
                0..=6 => {
                    let ps = fam_segment(r, fam, cur);
                    if ps.len() == 3 {
                        els.push(PathEl::CurveTo(fr.ap(ps[0]), fr.ap(ps[1]), fr.ap(ps[2])));
                        cur = ps[2];
                    } else {
                        els.push(PathEl::QuadTo(fr.ap(ps[0]), fr.ap(ps[1])));
                        cur = ps[1];
                    }
                }
                7 | 8 => {
                    cur = gp(r);
                    els.push(PathEl::LineTo(fr.ap(cur)));
                }
                _ => els.push(PathEl::LineTo(fr.ap(cur))), // zero-length line
            }
        }
        if r.chance(1, 3) {
            if r.chance(1, 4) && cur != start {
                // close exactly on the start point first
                els.push(PathEl::LineTo(fr.ap(start)));
            }
            els.push(PathEl::ClosePath);
        }
    }
    (fam, els, fr.s)
}

fn els_points(els: &[PathEl]) -> Vec<Point> {
    let mut v = Vec::new();
    for e in els {
        match e {
            PathEl::MoveTo(p) | PathEl::LineTo(p) => v.push(*p),
            PathEl::QuadTo(a, b) => {
                v.push(*a);
                v.push(*b)
            }
            PathEl::CurveTo(a, b, c) => {
                v.push(*a);
                v.push(*b);
                v.push(*c)
            }
            PathEl::ClosePath => {}
        }
    }
    v
}
fn nonfinite_in(els: &[PathEl]) -> Option<usize> {
    els.iter().position(|e| match e {
        PathEl::MoveTo(p) | PathEl::LineTo(p) => !(p.x.is_finite() && p.y.is_finite()),
        PathEl::QuadTo(a, b) => ![a, b].iter().all(|p| p.x.is_finite() && p.y.is_finite()),
        PathEl::CurveTo(a, b, c) => ![a, b, c].iter().all(|p| p.x.is_finite() && p.y.is_finite()),
        PathEl::ClosePath => false,
    })
}
/// length of the control polygon (an upper bound of the arc length) and the number of drawing elements
fn poly_len(els: &[PathEl]) -> (f64, usize) {
    let mut len = 0.0;
    let mut n = 0;
    let mut cur = Point::ORIGIN;
    let mut start = Point::ORIGIN;
    for e in els {
        match e {
            PathEl::MoveTo(p) => {
                cur = *p;
                start = *p;
            }
            PathEl::LineTo(p) => {
                len += (*p - cur).hypot();
                cur = *p;
                n += 1;
            }
            PathEl::QuadTo(a, b) => {
                len += (*a - cur).hypot() + (*b - *a).hypot();
                cur = *b;
                n += 1;
            }
            PathEl::CurveTo(a, b, c) => {
                len += (*a - cur).hypot() + (*b - *a).hypot() + (*c - *b).hypot();
                cur = *c;
                n += 1;
            }
            PathEl::ClosePath => {
                len += (start - cur).hypot();
                cur = start;
                n += 1;
            }
        }
    }
    (len, n)
}
fn path_str(els: &[PathEl]) -> String {
    let f = |p: &Point| format!("({:?},{:?})", p.x, p.y);
    els.iter()
        .map(|e| match e {
            PathEl::MoveTo(p) => format!("M{}", f(p)),
            PathEl::LineTo(p) => format!("L{}", f(p)),
            PathEl::QuadTo(a, b) => format!("Q{}{}", f(a), f(b)),
            PathEl::CurveTo(a, b, c) => format!("C{}{}{}", f(a), f(b), f(c)),
            PathEl::ClosePath => "Z".to_string(),
        })
        .collect::<Vec<_>>()
        .join(" ")
}

fn gen_tol(r: &mut Rng) -> f64 {
    // the property's range 1e-3 .. 1
    match r.below(5) {
        0 => 1e-3,
        1 => 1.0,
        2 => 0.1,
        _ => 10f64.powf(r.uniform(-3.0, 0.0)),
    }
}

fn fam_of(a: &[f64]) -> &'static str {
    FAMS[(a[0] as usize).min(FAMS.len() - 1)]
}

// =====================================================================================
// laws
// =====================================================================================

// ---- flatten: args = [fam, tol, els...]
fn g_flatten(r: &mut Rng) -> Vec<f64> {
    let (fam, els, _) = gen_family_path(r);
    let mut v = vec![fam as f64, gen_tol(r)];
    v.extend(enc_els(&els));
    v
}
fn flatten_budget(els: &[PathEl], tol: f64) -> u64 {
    // a quadratic of control length L needs about sqrt(L / tol) / 2 edges (proved: subdiv_count = ceil(val / (2 sqrt tol)),
    // C14_flatten_loop_bounds); a cubic is first cut into <= (err / (432 (tol/10)^2))^(1/6) quadratics
    let (len, n) = poly_len(els);
    (16.0 + n as f64 * (16.0 + 8.0 * (len / tol).sqrt())) as u64
}
fn law_flatten(a: &[f64]) -> Option<(String, String)> {
    let fam = fam_of(a);
    let tol = a[1];
    let els = dec_els(&a[2..]);
    let budget = flatten_budget(&els, tol);
    let els2 = els.clone();
    let input = move || format!("flatten({}, tolerance {:?})", path_str(&els2), tol);
    let run = guarded(move || {
        let mut out = Vec::new();
        let mut n = 0u64;
        flatten(els.iter().cloned(), tol, |e| {
            n += 1;
            if n > 4 * budget + 1000 {
                panic!("C14: more than 4x the output budget");
            }
            out.push(e)
        });
        out
    });
    let out = match judge("flatten", fam, run, u64::MAX, 15, &input) {
        Err(v) => return Some(v),
        Ok(None) => return None,
        Ok(Some(o)) => o,
    };
    stat(0, out.len() as f64, budget as f64);
    if out.len() as u64 > budget {
        return fail(format!("flatten:output-size:{}", fam), format!("{} elements (budget {}) from {}", out.len(), budget, input()));
    }
    if let Some(i) = nonfinite_in(&out) {
        return fail(format!("flatten:nonfinite:{}", fam), format!("element {} = {:?} of {}", i, out[i], input()));
    }
    if out.iter().any(|e| matches!(e, PathEl::QuadTo(..) | PathEl::CurveTo(..))) {
        return fail(format!("flatten:curve-in-output:{}", fam), input());
    }
    None
}

// ---- stroke: args = [fam, width, tol, join, miter, cap0, cap1, ndash, offset, d0..d3, els...]
const SH: usize = 13;
fn gen_dashes(r: &mut Rng, s: f64, v: &mut Vec<f64>) {
    let nd = *r.pick(&[0usize, 0, 1, 2, 2, 3, 4]);
    v.push(nd as f64);
    // offset: zero, inside the first dash, beyond one period, negative
    let mut ds = [0.0f64; 4];
    for d in ds.iter_mut().take(nd) {
        *d = s * *r.pick(&[0.25, 0.5, 1.0, 1.0, 2.0, 3.3, 7.0, 25.0]);
    }
    let period: f64 = ds.iter().sum();
    let off = match r.below(5) {
        0 | 1 => 0.0,
        2 => r.unit() * ds[0],
        3 => r.uniform(0.0, 3.0) * period,
        _ => -r.unit() * period,
    };
    v.push(if nd == 0 { 0.0 } else { off });
    v.extend_from_slice(&ds);
}
fn g_stroke(r: &mut Rng) -> Vec<f64> {
    let (fam, els, s) = gen_family_path(r);
    let width = s * *r.pick(&[1e-3, 0.01, 0.1, 0.5, 1.0, 1.0, 2.0, 10.0, 100.0]);
    let mut v = vec![fam as f64, width, gen_tol(r), r.below(3) as f64, *r.pick(&[1.0, 4.0, 4.0, 10.0]), r.below(3) as f64, r.below(3) as f64];
    gen_dashes(r, s, &mut v);
    v.extend(enc_els(&els));
    v
}
fn dec_style(a: &[f64]) -> Stroke {
    let join = [Join::Bevel, Join::Miter, Join::Round][(a[3] as usize).min(2)];
    let cap = |x: f64| [Cap::Butt, Cap::Square, Cap::Round][(x as usize).min(2)];
    let mut st = Stroke::new(a[1]).with_join(join).with_miter_limit(a[4]).with_start_cap(cap(a[5])).with_end_cap(cap(a[6]));
    let nd = (a[7] as usize).min(4);
    if nd > 0 {
        st = st.with_dashes(a[8], a[9..9 + nd].to_vec());
    }
    st
}
fn style_str(a: &[f64]) -> String {
    let nd = (a[7] as usize).min(4);
    format!(
        "width {:?}, join {}, miter limit {:?}, caps {}/{}, dashes {:?} offset {:?}, tolerance {:?}",
        a[1],
        ["bevel", "miter", "round"][(a[3] as usize).min(2)],
        a[4],
        ["butt", "square", "round"][(a[5] as usize).min(2)],
        ["butt", "square", "round"][(a[6] as usize).min(2)],
        &a[9..9 + nd],
        a[8],
        a[2]
    )
}
/// number of dash pieces an exact dasher can produce on a path of polygon length `len`
fn dash_pieces(a: &[f64], len: f64, nels: usize) -> f64 {
    let nd = (a[7] as usize).min(4);
    if nd == 0 {
        return nels as f64;
    }
    let dmin = a[9..9 + nd].iter().cloned().fold(f64::INFINITY, f64::min);
    nels as f64 + 2.0 * (len / dmin + 1.0)
}
/// Known finding C14-exact-cusp: `detect_cusp` does not report a cusp through which the derivative passes exactly
/// (up to rounding), so `regularize` leaves a zero derivative inside the cubic handed to the offsetter.  The test
/// is the one the declined repair (proposed_fixes/C14-detect-cusp-through-origin.diff) would add to `detect_cusp`:
/// the point of the derivative curve nearest to the origin, at an interior parameter, is within 1e-12 |q''| of it.
fn derivative_through_origin(c: &CubicBez) -> bool {
    use kurbo::ParamCurveDeriv;
    let q = c.deriv();
    let nr = match direct(|| q.nearest(Point::ORIGIN, 1e-9)) {
        Run::Done(n, _) => n,
        _ => return false,
    };
    let d2 = q.deriv().eval(nr.t).to_vec2().hypot2();
    nr.t > 0.0 && nr.t < 1.0 && d2 > 0.0 && nr.distance_sq <= 1e-24 * d2
}
/// does the stroker regularize a cubic of this kind: a curve of the path itself or, with a dash pattern, one of the
/// pieces the dasher cuts (computed here on a worker thread, capped)
fn exact_cusp_in(els: &[PathEl], dashes: &[f64], offset: f64) -> bool {
    if cubics_of(els).iter().any(derivative_through_origin) {
        return true;
    }
    if dashes.is_empty() || !matches!(els.first(), Some(PathEl::MoveTo(_))) {
        return false;
    }
    let (e2, d2) = (els.to_vec(), dashes.to_vec());
    let pieces = match guarded(move || dash(e2.iter().cloned(), offset, &d2).take(20_000).collect::<Vec<_>>()) {
        Run::Done(p, _) => p,
        _ => return false,
    };
    let mut cur = Point::ORIGIN;
    for e in pieces {
        match e {
            PathEl::MoveTo(p) | PathEl::LineTo(p) => cur = p,
            PathEl::QuadTo(p1, p2) => {
                if derivative_through_origin(&QuadBez::new(cur, p1, p2).raise()) {
                    return true;
                }
                cur = p2;
            }
            PathEl::CurveTo(p1, p2, p3) => {
                if derivative_through_origin(&CubicBez::new(cur, p1, p2, p3)) {
                    return true;
                }
                cur = p3;
            }
            PathEl::ClosePath => {}
        }
    }
    false
}

fn law_stroke(a: &[f64]) -> Option<(String, String)> {
    let nd0 = (a[7] as usize).min(4);
    let exact_cusp = exact_cusp_in(&dec_els(&a[SH..]), &a[9..9 + nd0], a[8]);
    if exact_cusp && KNOWN_HUNG.load(Ordering::Relaxed) >= 3 {
        return None; // three hangs of the known finding have been provoked already
    }
    let fam = if exact_cusp { "exact-cusp" } else { fam_of(a) };
    let (width, tol) = (a[1], a[2]);
    let els = dec_els(&a[SH..]);
    let style = dec_style(a);
    let (len, n) = poly_len(&els);
    let pieces = dash_pieces(a, len, n);
    // per drawn piece: two offset curves, each fitted by recursive halving; every accepted leaf costs a bounded number of
    // arclen_rec / solve_itp ticks (fit_to_cubic's arc-length error metric: <= 20 samples x ITP budget x 2^k leaves)
    let work_budget = (20_000.0 + pieces * 400_000.0) as u64;
    let out_budget = (64.0 + pieces * (48.0 + 4.0 * ((len + width) / tol).powf(0.5))) as u64;
    let (a2, els2) = (a.to_vec(), els.clone());
    let input = move || format!("stroke({}; {})", path_str(&els2), style_str(&a2));
    let run = guarded(move || stroke(els.iter().cloned(), &style, &StrokeOpts::default(), tol));
    let out = match judge("stroke", fam, run, work_budget, 1, &input) {
        Err(v) => {
            if exact_cusp && v.0.contains(":hang:") {
                KNOWN_HUNG.fetch_add(1, Ordering::Relaxed);
            }
            return Some(v);
        }
        Ok(None) => return None,
        Ok(Some(o)) => o,
    };
    let oe = out.elements();
    stat(2, oe.len() as f64, out_budget as f64);
    if oe.len() as u64 > out_budget {
        return fail(format!("stroke:output-size:{}", fam), format!("{} elements (budget {}) from {}", oe.len(), out_budget, input()));
    }
    if let Some(i) = nonfinite_in(oe) {
        return fail(format!("stroke:nonfinite:{}", fam), format!("element {} of {} is {:?}: {}", i, oe.len(), oe[i], input()));
    }
    None
}

// ---- dash: args as for stroke (width etc. unused)
fn g_dash(r: &mut Rng) -> Vec<f64> {
    let mut v = g_stroke(r);
    if v[7] == 0.0 {
        // always a pattern here
        let s = v[1].abs().max(1e-3);
        v[7] = 2.0;
        v[9] = s;
        v[10] = 0.5 * s;
    }
    v
}
fn law_dash(a: &[f64]) -> Option<(String, String)> {
    let fam = fam_of(a);
    let els = dec_els(&a[SH..]);
    let nd = (a[7] as usize).clamp(1, 4);
    let pattern = a[9..9 + nd].to_vec();
    let offset = a[8];
    let (len, n) = poly_len(&els);
    let pieces = dash_pieces(a, len, n);
    // proved on the model (C14_dash_ticks_bound): iterations <= 4 per input element and stash replay + 2 per switch;
    // curve segments add the ticks of arclen / inv_arclen at DASH_ACCURACY = 1e-6 (arclen_rec, solve_itp)
    let work_budget = (64.0 + pieces * 30_000.0) as u64;
    let out_budget = (16.0 + 2.0 * pieces) as u64;
    let (els2, pat2) = (els.clone(), pattern.clone());
    let input = move || format!("dash({}; pattern {:?}, offset {:?})", path_str(&els2), pat2, offset);
    let run = guarded(move || {
        let mut out = Vec::new();
        for e in dash(els.iter().cloned(), offset, &pattern) {
            out.push(e);
            if out.len() as u64 > 4 * out_budget + 1000 {
                panic!("C14: more than 4x the output budget");
            }
        }
        out
    });
    let out = match judge("dash", fam, run, work_budget, 3, &input) {
        Err(v) => return Some(v),
        Ok(None) => return None,
        Ok(Some(o)) => o,
    };
    stat(4, out.len() as f64, out_budget as f64);
    if out.len() as u64 > out_budget {
        return fail(format!("dash:output-size:{}", fam), format!("{} elements (budget {}) from {}", out.len(), out_budget, input()));
    }
    if let Some(i) = nonfinite_in(&out) {
        return fail(format!("dash:nonfinite:{}", fam), format!("element {} = {:?} of {}", i, out[i], input()));
    }
    None
}

// ---- fit: args = [fam, mode, accuracy, offset d, dimension, els...]
// mode 0: fit_to_bezpath on CubicOffset::new_regularized of every cubic of the path (what the stroker does)
// mode 1: fit_to_bezpath on SimplifyBezPath of each segment; mode 2: fit_to_bezpath_opt on the same
fn g_fit(r: &mut Rng) -> Vec<f64> {
    let (fam, els, s) = gen_family_path(r);
    let acc = gen_tol(r);
    let d = s * *r.pick(&[0.005, 0.05, 0.5, 1.0, 5.0, -0.005, -0.5, -1.0, -5.0]);
    let mut v = vec![fam as f64, r.below(2) as f64, acc, d, acc * 0.25];
    v.extend(enc_els(&els));
    v
}
/// stroke.rs do_cubic: the test that sends a cubic to do_linear instead of the offsetter
fn stroker_treats_as_linear(c: &CubicBez, tolerance: f64) -> bool {
    let chord = c.p3 - c.p0;
    let mut chord_ref = chord;
    let mut h2 = chord_ref.hypot2();
    let d01 = c.p1 - c.p0;
    if d01.hypot2() > h2 {
        chord_ref = d01;
        h2 = chord_ref.hypot2();
    }
    let d23 = c.p3 - c.p2;
    if d23.hypot2() > h2 {
        chord_ref = d23;
        h2 = chord_ref.hypot2();
    }
    let p0 = c.p0.to_vec2().dot(chord_ref);
    let p1 = c.p1.to_vec2().dot(chord_ref);
    let p2 = c.p2.to_vec2().dot(chord_ref);
    let p3 = c.p3.to_vec2().dot(chord_ref);
    if p3 <= p0 || p1 > p2 || p1 < p0 + 0.01 * (p3 - p0) || p2 > p3 - 0.01 * (p3 - p0) {
        let x01 = d01.cross(chord_ref);
        let x23 = d23.cross(chord_ref);
        let x03 = chord.cross(chord_ref);
        let thresh = tolerance.powi(2) * h2;
        return x01 * x01 < thresh && x23 * x23 < thresh && x03 * x03 < thresh;
    }
    false
}
fn cubics_of(els: &[PathEl]) -> Vec<CubicBez> {
    let mut v = Vec::new();
    if let Some(PathEl::MoveTo(_)) = els.first() {
        for s in BezPath::from_vec(els.to_vec()).segments() {
            match s {
                PathSeg::Cubic(c) => v.push(c),
                PathSeg::Quad(q) => v.push(q.raise()),
                PathSeg::Line(_) => {}
            }
        }
    }
    v
}
fn law_fit(a: &[f64]) -> Option<(String, String)> {
    let (mode, acc, d, dim) = (a[1] as usize, a[2], a[3], a[4]);
    let els = dec_els(&a[5..]);
    let exact_cusp = mode == 0 && cubics_of(&els).iter().any(derivative_through_origin);
    if exact_cusp && KNOWN_HUNG.load(Ordering::Relaxed) >= 3 {
        return None;
    }
    let fam = if exact_cusp { "exact-cusp" } else { fam_of(a) };
    let (len, n) = poly_len(&els);
    let work_budget = (20_000 + n * 800_000) as u64;
    let out_budget = (16.0 + n as f64 * (48.0 + 4.0 * ((len + d.abs()) / acc).sqrt())) as u64;
    let els2 = els.clone();
    let input = move || {
        format!(
            "{} (accuracy {:?}, offset {:?}, dimension {:?}) on {}",
            ["fit_to_bezpath(CubicOffset::new_regularized)", "fit_to_bezpath(SimplifyBezPath)", "fit_to_bezpath_opt(SimplifyBezPath)"][mode.min(2)],
            acc,
            d,
            dim,
            path_str(&els2)
        )
    };
    let what = ["fit-offset", "fit-simplify", "fit-opt"][mode.min(2)];
    let run = guarded(move || {
        let mut outs: Vec<PathEl> = Vec::new();
        match mode {
            0 => {
                for c in cubics_of(&els) {
                    // the stroker never offsets a cubic all of whose points coincide (it skips the element), nor one it
                    // classifies as a line with cusps (do_cubic's collinearity test); those are not inputs of the offsetter
                    if (c.p0 == c.p1 && c.p0 == c.p2 && c.p0 == c.p3) || stroker_treats_as_linear(&c, acc) {
                        continue;
                    }
                    for dd in [d, -d] {
                        let co = CubicOffset::new_regularized(c, dd, dim);
                        outs.extend(fit_to_bezpath(&co, acc).elements().iter().cloned());
                    }
                }
            }
            _ => {
                // SimplifyBezPath "is not dealing with discontinuities at all" (its doc comment): one source per
                // segment of non-zero length, as simplify_bezpath queues them (chains are law_simplify's business)
                if let Some(PathEl::MoveTo(_)) = els.first() {
                    for sg in BezPath::from_vec(els.clone()).segments() {
                        let c = sg.to_cubic();
                        if c.p0 == c.p1 && c.p0 == c.p2 && c.p0 == c.p3 {
                            continue;
                        }
                        let one = [PathEl::MoveTo(sg.start()), sg.as_path_el()];
                        let src = SimplifyBezPath::new(one.iter().cloned());
                        let p = if mode == 1 { fit_to_bezpath(&src, acc) } else { fit_to_bezpath_opt(&src, acc) };
                        outs.extend(p.elements().iter().cloned());
                    }
                }
            }
        }
        outs
    });
    let out = match judge(what, fam, run, work_budget, if mode == 2 { 13 } else { 5 }, &input) {
        Err(v) => {
            if exact_cusp && v.0.contains(":hang:") {
                KNOWN_HUNG.fetch_add(1, Ordering::Relaxed);
            }
            return Some(v);
        }
        Ok(None) => return None,
        Ok(Some(o)) => o,
    };
    stat(6, out.len() as f64, out_budget as f64);
    if out.len() as u64 > out_budget {
        return fail(format!("{}:output-size:{}", what, fam), format!("{} elements (budget {}) from {}", out.len(), out_budget, input()));
    }
    if let Some(i) = nonfinite_in(&out) {
        return fail(format!("{}:nonfinite:{}", what, fam), format!("element {} = {:?} of {}", i, out[i], input()));
    }
    None
}

// ---- simplify: args = [fam, opt(0/1), accuracy, angle_thresh, els...]
fn g_simplify(r: &mut Rng) -> Vec<f64> {
    let (fam, els, s) = gen_family_path(r);
    // accuracy relative to the drawing's scale as well as the property's absolute range
    let acc = if r.bool() { gen_tol(r) } else { s * gen_tol(r) };
    let mut v = vec![fam as f64, 0.0, acc, *r.pick(&[1e-3, 1e-3, 0.1, 10.0])];
    v.extend(enc_els(&els));
    v
}
/// the non-default, "experimental" optimising fitter: fit_to_bezpath_opt on one segment (args as g_fit, mode 2) or
/// simplify_bezpath with SimplifyOptLevel::Optimize (args as g_simplify, opt 1); args[0] += 100 marks the second kind
fn g_opt(r: &mut Rng) -> Vec<f64> {
    if r.bool() {
        let mut v = g_fit(r);
        v[1] = 2.0;
        v
    } else {
        let mut v = g_simplify(r);
        v[1] = 1.0;
        v[0] += 100.0;
        v
    }
}
static OPT_HUNG: AtomicU32 = AtomicU32::new(0);
fn law_opt(a: &[f64]) -> Option<(String, String)> {
    // one hang is enough to report (the hung thread keeps a core busy), and so are a dozen findings of this
    // known-defective, non-default function: the list of violations is capped
    static REPORTED: AtomicU32 = AtomicU32::new(0);
    if OPT_HUNG.load(Ordering::Relaxed) >= 1 || REPORTED.load(Ordering::Relaxed) >= 12 {
        return None;
    }
    let r = if a[0] >= 100.0 {
        let mut b = a.to_vec();
        b[0] -= 100.0;
        law_simplify(&b)
    } else {
        law_fit(a)
    };
    // classes of the optimising fitter: opt:<kind>:<entry point>:<family>
    r.map(|(c, d)| {
        REPORTED.fetch_add(1, Ordering::Relaxed);
        if c.contains(":hang:") {
            OPT_HUNG.fetch_add(1, Ordering::Relaxed);
        }
        let mut it = c.splitn(3, ':');
        let (what, kind, fam) = (it.next().unwrap_or(""), it.next().unwrap_or(""), it.next().unwrap_or(""));
        (format!("opt:{}:{}:{}", kind, what, fam), d)
    })
}
fn law_simplify(a: &[f64]) -> Option<(String, String)> {
    let fam = fam_of(a);
    let (opt, acc, ang) = (a[1] as usize, a[2], a[3]);
    let els = dec_els(&a[4..]);
    let (len, n) = poly_len(&els);
    let work_budget = (20_000 + n * 800_000) as u64;
    let out_budget = (16.0 + n as f64 * (48.0 + 4.0 * (len / acc).sqrt())) as u64;
    let els2 = els.clone();
    let input = move || format!("simplify_bezpath({}; accuracy {:?}, {}, angle_thresh {:?})", path_str(&els2), acc, ["Subdivide", "Optimize"][opt.min(1)], ang);
    let what = ["simplify", "simplify-opt"][opt.min(1)];
    let run = guarded(move || {
        let o = SimplifyOptions::default().opt_level(if opt == 0 { SimplifyOptLevel::Subdivide } else { SimplifyOptLevel::Optimize }).angle_thresh(ang);
        simplify_bezpath(els.iter().cloned(), acc, &o)
    });
    let out = match judge(what, fam, run, work_budget, 7, &input) {
        Err(v) => return Some(v),
        Ok(None) => return None,
        Ok(Some(o)) => o,
    };
    let oe = out.elements();
    stat(8, oe.len() as f64, out_budget as f64);
    if oe.len() as u64 > out_budget {
        return fail(format!("{}:output-size:{}", what, fam), format!("{} elements (budget {}) from {}", oe.len(), out_budget, input()));
    }
    if let Some(i) = nonfinite_in(oe) {
        return fail(format!("{}:nonfinite:{}", what, fam), format!("element {} = {:?} of {}", i, oe[i], input()));
    }
    None
}

// ---- per-segment queries: nearest, arclen, inv_arclen, winding, to_quads, approx_spline
// args = [fam, accuracy, qx, qy, frac, els...]
fn g_seg_queries(r: &mut Rng) -> Vec<f64> {
    let (fam, els, s) = gen_family_path(r);
    let pts = els_points(&els);
    let p = *r.pick(&pts);
    // query points: control points themselves, midpoints of two of them, nearby, far away
    let q = match r.below(5) {
        0 => p,
        1 => p.midpoint(*r.pick(&pts)),
        2 => p + Vec2::new(r.uniform(-1.0, 1.0) * s, r.uniform(-1.0, 1.0) * s),
        3 => p + Vec2::new(r.uniform(-30.0, 30.0) * s, 0.0),
        _ => Point::new(r.uniform(-1e6, 1e6), r.uniform(-1e6, 1e6)),
    };
    let acc = match r.below(4) {
        0 => gen_tol(r),
        1 => s * 1e-6,
        2 => s * 1e-9,
        _ => s * gen_tol(r),
    };
    let frac = *r.pick(&[0.0, 1.0, 0.5, 0.25, 1e-9, 0.999999999, 1.5, -0.5, 0.3333333333333333]);
    let mut v = vec![fam as f64, acc, q.x, q.y, frac];
    v.extend(enc_els(&els));
    v
}
fn seg_str(s: &PathSeg) -> String {
    format!("{:?}", s)
}
fn law_seg_queries(a: &[f64]) -> Option<(String, String)> {
    let fam = fam_of(a);
    let (acc, q, frac) = (a[1], Point::new(a[2], a[3]), a[4]);
    let els = dec_els(&a[5..]);
    let bp = BezPath::from_vec(els.clone());
    // winding on the whole path
    match direct(|| (bp.winding(q), bp.contains(q))) {
        Run::Panic(m) => return fail(format!("winding:panic:{}", fam), format!("'{}' on winding({:?}) of {}", m, q, path_str(&els))),
        Run::Done((w, _), _) => {
            if w.unsigned_abs() as usize > 2 * els.len() + 2 {
                return fail(format!("winding:range:{}", fam), format!("winding {} of a path with {} elements at {:?}: {}", w, els.len(), q, path_str(&els)));
            }
        }
        _ => {}
    }
    let segs: Vec<PathSeg> = match direct(|| bp.segments().collect::<Vec<_>>()) {
        Run::Done(s, _) => s,
        Run::Panic(m) => return fail(format!("segments:panic:{}", fam), format!("'{}' on {}", m, path_str(&els))),
        _ => return None,
    };
    for s in segs {
        // nearest
        match direct(|| s.nearest(q, acc)) {
            Run::Panic(m) => return fail(format!("nearest:panic:{}", fam), format!("'{}' on {}.nearest({:?}, {:?})", m, seg_str(&s), q, acc)),
            Run::Done(nr, _) => {
                if !(nr.t.is_finite() && nr.distance_sq.is_finite()) || nr.distance_sq < 0.0 || !(-1e-9..=1.0 + 1e-9).contains(&nr.t) {
                    return fail(format!("nearest:nonfinite:{}", fam), format!("{}.nearest({:?}, {:?}) = t {:?}, distance_sq {:?}", seg_str(&s), q, acc, nr.t, nr.distance_sq));
                }
            }
            _ => {}
        }
        // arclen: at most 2^21 - 1 calls of arclen_rec (C14_arclen_rec_calls)
        let len = match direct(|| s.arclen(acc)) {
            Run::Panic(m) => return fail(format!("arclen:panic:{}", fam), format!("'{}' on {}.arclen({:?})", m, seg_str(&s), acc)),
            Run::Done(l, w) => {
                stat(9, w as f64, 2097151.0);
                if counter_clean() && w > 2097151 {
                    return fail(format!("arclen:work-budget:{}", fam), format!("{} calls of arclen_rec (proved bound 2^21 - 1) on {}.arclen({:?})", w, seg_str(&s), acc));
                }
                if !l.is_finite() || l < 0.0 {
                    // QuadBez with coincident control points (P,P,Q / P,Q,Q / P,P,P): the closed form is 0/0 or the square root of a rounding-size negative number (property C03's open issue, proposed_fixes/C03-quad-arclen-degenerate.diff)
                    let ppp = matches!(s, PathSeg::Quad(q) if q.p0 == q.p1 || q.p1 == q.p2);
                    let cls = if ppp { "arclen:nonfinite:degenerate-quad".to_string() } else { format!("arclen:nonfinite:{}", fam) };
                    static SEEN: AtomicU32 = AtomicU32::new(0);
                    if ppp && SEEN.fetch_add(1, Ordering::Relaxed) >= 3 {
                        continue;
                    }
                    return fail(cls, format!("{}.arclen({:?}) = {:?}", seg_str(&s), acc, l));
                }
                l
            }
            _ => continue,
        };
        // inv_arclen: ITP iterations <= 1 + log2(total / accuracy) + 2, each one arclen of a sub-segment
        let target = frac * len;
        let sc = s;
        let run = guarded(move || sc.inv_arclen(target, acc));
        let iters = 4.0 + (len / acc).max(2.0).log2().ceil();
        let inv_budget = if acc > 0.0 && len > 0.0 { ((iters + 2.0) * 2097151.0).min(3.0e8) as u64 } else { u64::MAX };
        let input = || format!("{}.inv_arclen({:?}, {:?}) (arclen {:?})", seg_str(&s), target, acc, len);
        match judge("inv_arclen", fam, run, inv_budget, 10, &input) {
            Err(v) => return Some(v),
            Ok(Some(t)) => {
                // (a line's inv_arclen extrapolates outside [0, len]: only finiteness is the claim here)
                if !t.is_finite() {
                    let zero_line = matches!(s, PathSeg::Line(l) if l.p0 == l.p1);
                    if zero_line {
                        // known finding C14-line-inv-arclen-zero-length: report it three times per run at most, the
                        // list of violations is capped and must keep room for anything else
                        static SEEN: AtomicU32 = AtomicU32::new(0);
                        if SEEN.fetch_add(1, Ordering::Relaxed) >= 3 {
                            continue;
                        }
                        return fail("inv_arclen:nonfinite:zero-length-line".to_string(), format!("{} = {:?}", input(), t));
                    }
                    return fail(format!("inv_arclen:nonfinite:{}", fam), format!("{} = {:?}", input(), t));
                }
                if !matches!(s, PathSeg::Line(_)) && !(0.0..=1.0).contains(&t) {
                    return fail(format!("inv_arclen:range:{}", fam), format!("{} = {:?}", input(), t));
                }
            }
            Ok(None) => {}
        }
        // to_quads / approx_spline
        if let PathSeg::Cubic(c) = s {
            let err = {
                let p1x2 = 3.0 * c.p1.to_vec2() - c.p0.to_vec2();
                let p2x2 = 3.0 * c.p2.to_vec2() - c.p3.to_vec2();
                (p2x2 - p1x2).hypot2()
            };
            // proved (C17_to_quads_count_enough / C14_to_quads_count_finite): n = max(1, ceil((err / (432 acc^2))^(1/6)))
            let nmax = ((err / (432.0 * acc * acc)).powf(1.0 / 6.0) * (1.0 + 1e-9)).ceil().max(1.0) + 1.0;
            match direct(|| c.to_quads(acc).take(nmax as usize + 64).collect::<Vec<_>>()) {
                Run::Panic(m) => return fail(format!("to_quads:panic:{}", fam), format!("'{}' on {:?}.to_quads({:?})", m, c, acc)),
                Run::Done(qs, _) => {
                    stat(11, qs.len() as f64, nmax);
                    if qs.is_empty() || qs.len() as f64 > nmax {
                        return fail(format!("to_quads:count:{}", fam), format!("{} quadratics (bound {}) from {:?}.to_quads({:?})", qs.len(), nmax, c, acc));
                    }
                    for (t0, t1, qd) in &qs {
                        let ok = t0.is_finite() && t1.is_finite() && [qd.p0, qd.p1, qd.p2].iter().all(|p| p.x.is_finite() && p.y.is_finite());
                        if !ok {
                            return fail(format!("to_quads:nonfinite:{}", fam), format!("{:?}.to_quads({:?}) yields ({:?},{:?},{:?})", c, acc, t0, t1, qd));
                        }
                    }
                }
                _ => {}
            }
            let run = guarded(move || c.approx_spline(acc).map(|sp| sp.points().to_vec()));
            let input = || format!("{:?}.approx_spline({:?})", c, acc);
            match judge("approx_spline", fam, run, u64::MAX, 14, &input) {
                Err(v) => return Some(v),
                Ok(Some(Some(pts))) => {
                    // n <= MAX_SPLINE_SPLIT = 100 pieces: n + 2 points
                    if pts.len() > 102 || pts.len() < 3 {
                        return fail(format!("approx_spline:output-size:{}", fam), format!("{} points from {}", pts.len(), input()));
                    }
                    if pts.iter().any(|p| !(p.x.is_finite() && p.y.is_finite())) {
                        return fail(format!("approx_spline:nonfinite:{}", fam), format!("{} -> {:?}", input(), pts));
                    }
                }
                _ => {}
            }
        }
    }
    None
}

// ---- solvers: args = [degree, c0, c1, c2, c3, c4]
fn expand(roots: &[f64], lead: f64) -> [f64; 5] {
    let mut c = [0.0f64; 5];
    c[0] = lead;
    let mut deg = 0;
    for r in roots {
        // multiply by (x - r)
        for i in (0..=deg).rev() {
            c[i + 1] += c[i];
            c[i] *= -r;
        }
        // shift: we kept ascending order with c[0] constant term after the loop above
        deg += 1;
    }
    c
}
fn g_solver(r: &mut Rng) -> Vec<f64> {
    let kind = 2 + r.below(3) as usize;
    let mut c = [0.0f64; 5];
    match r.below(7) {
        6 => {
            // repeated roots of very small magnitude (products and discriminants underflow to exact zeros while the
            // rounded intermediate quantities keep a sign: the clamps in the solvers are what keeps sqrt from NaN; seed C14g)
            let deg = 2 + r.below((kind - 1) as u64) as usize;
            let a = r.uniform(1.0, 10.0) * if r.bool() { -1.0 } else { 1.0 } * 10f64.powi(-(r.range_i(20, 95) as i32));
            let roots: Vec<f64> = (0..deg).map(|_| a).collect();
            let lead = *r.pick(&[1.0, -1.0, 2.0, 0.5, 3.0, 1e3, 1e-3]);
            c = expand(&roots, lead);
        }
        0 => {
            // small integers with exact zeros anywhere (degree-degenerate, all-zero, constant)
            for x in c.iter_mut().take(kind + 1) {
                *x = if r.chance(2, 5) { 0.0 } else { r.range_i(-6, 6) as f64 };
            }
        }
        _ => {
            // product of linear factors with dyadic roots (repeated roots, zero roots), exact leading zeros above the degree
            let deg = r.below(kind as u64 + 1) as usize;
            let pool: Vec<f64> = (0..3).map(|_| r.range_i(-40, 40) as f64 / 4.0).collect();
            let roots: Vec<f64> = (0..deg).map(|_| *r.pick(&pool)).collect();
            let lead = *r.pick(&[1.0, -1.0, 2.0, 0.5, 3.0, 1e3, 1e-3, 1e6, 1e-6]);
            c = expand(&roots, lead);
            if r.chance(1, 4) {
                // an irreducible quadratic factor x^2 + 1 when there is room
                if deg + 2 <= kind {
                    let mut d = [0.0f64; 5];
                    for i in 0..=deg {
                        d[i] += c[i];
                        d[i + 2] += c[i];
                    }
                    c = d;
                }
            }
        }
    }
    vec![kind as f64, c[0], c[1], c[2], c[3], c[4]]
}
fn law_solver(a: &[f64]) -> Option<(String, String)> {
    let kind = a[0] as usize;
    let (c0, c1, c2, c3, c4) = (a[1], a[2], a[3], a[4], a[5]);
    let (name, cap, run) = match kind {
        2 => ("solve_quadratic", 2, direct(|| solve_quadratic(c0, c1, c2).to_vec())),
        3 => ("solve_cubic", 3, direct(|| solve_cubic(c0, c1, c2, c3).to_vec())),
        _ => ("solve_quartic", 4, direct(|| solve_quartic(c0, c1, c2, c3, c4).to_vec())),
    };
    let input = format!("{}{:?}", name, &a[1..kind + 2]);
    match run {
        Run::Panic(m) => fail(format!("{}:panic", name), format!("'{}' on {}", m, input)),
        Run::Done(roots, _) => {
            if roots.len() > cap {
                return fail(format!("{}:capacity", name), format!("{} roots from {}", roots.len(), input));
            }
            if roots.iter().any(|x| !x.is_finite()) {
                return fail(format!("{}:nonfinite", name), format!("{} = {:?}", input, roots));
            }
            None
        }
        _ => None,
    }
}

// ---- solve_itp: args = [kind, a, b, eps, n0, root, scale]
fn g_itp(r: &mut Rng) -> Vec<f64> {
    let kind = r.below(7) as f64;
    let a = *r.pick(&[0.0, 0.0, -1.0, -1e6, 3.0]);
    let w = *r.pick(&[1.0, 1.0, 2.0, 1e-3, 1e6, 17.0]);
    let b = a + w;
    let eps = w * *r.pick(&[1e-3, 1e-6, 1e-9, 1e-12, 1e-15, 0.25, 0.6]);
    let n0 = r.below(3) as f64;
    let root = a + w * *r.pick(&[0.5, 1e-9, 0.999999, 0.3333333333333333, 0.123456789, 0.75]);
    let scale = *r.pick(&[1.0, 1e-6, 1e6, 1e150]);
    vec![kind, a, b, eps, n0, root, scale]
}
fn itp_fn(kind: usize, root: f64, scale: f64) -> impl Fn(f64) -> f64 {
    move |x: f64| {
        let d = x - root;
        match kind {
            0 => scale * d,
            1 => scale * d * d * d,
            2 => {
                if d < 0.0 {
                    -scale
                } else {
                    scale
                }
            } // discontinuous, never zero
            3 => scale * d.clamp(-1e-3, 1e-3) + if d > 0.25 { scale } else { 0.0 }, // flat tails and a jump
            4 => {
                if d.abs() < 1e-4 {
                    0.0
                } else {
                    scale * d
                }
            } // a whole interval of exact zeros
            5 => scale * d.signum() * d.abs().sqrt(),
            _ => scale * (d * 1e6).atan(),
        }
    }
}
fn law_itp(a: &[f64]) -> Option<(String, String)> {
    let (kind, lo, hi, eps, n0, root, scale) = (a[0] as usize, a[1], a[2], a[3], a[4] as usize, a[5], a[6]);
    let f = itp_fn(kind, root, scale);
    let (ya, yb) = (f(lo), f(hi));
    if !(ya < 0.0 && yb > 0.0) {
        return None;
    }
    // proved (C15_solve_itp_spec, re-exported as C14_itp_terminates): at most n0 + n1_2 iterations,
    // n1_2 = max(ceil(log2((b - a) / eps)) - 1, 0); one more for the rounding of the bracket width
    let n12 = (((hi - lo) / eps).log2().ceil() - 1.0).max(0.0);
    let budget = n0 as u64 + n12 as u64 + 2;
    let input = format!("solve_itp(f{}, a {:?}, b {:?}, eps {:?}, n0 {}, k1 {:?}; root {:?}, scale {:?})", kind, lo, hi, eps, n0, 0.2 / (hi - lo), root, scale);
    let mut calls = 0u64;
    let run = direct(|| {
        solve_itp(
            |x| {
                calls += 1;
                if calls > 10_000 {
                    panic!("C14: more than 10000 evaluations");
                }
                f(x)
            },
            lo,
            hi,
            eps,
            n0,
            0.2 / (hi - lo),
            ya,
            yb,
        )
    });
    match run {
        Run::Panic(m) => fail("solve_itp:panic".into(), format!("'{}' on {}", m, input)),
        Run::Done(x, _) => {
            // one evaluation of f per iteration (the closure's own counter: independent of the global one)
            stat(12, calls as f64, budget as f64);
            if calls > budget {
                return fail("solve_itp:work-budget".into(), format!("{} iterations (budget n0 + n1_2 + 2 = {}) on {}", calls, budget, input));
            }
            if !x.is_finite() || x < lo || x > hi {
                return fail("solve_itp:nonfinite".into(), format!("{} = {:?}", input, x));
            }
            None
        }
        _ => None,
    }
}

// ---- SVG: args = the bytes
const SVG_ALPHABET: &[u8] = b"MmLlHhVvCcSsQqTtAaZz0123456789.-+eE, \t\n";
fn g_svg_bytes(r: &mut Rng) -> Vec<f64> {
    let n = r.below(65) as usize;
    // bias towards command letters followed by plausible numbers, so that deep parser states are reached
    let mut v: Vec<u8> = Vec::with_capacity(n);
    if r.chance(3, 4) {
        v.extend_from_slice(b"M");
    }
    while v.len() < n {
        match r.below(8) {
            0 => v.push(*r.pick(SVG_ALPHABET)),
            1 => v.push(*r.pick(b"MmLlHhVvCcSsQqTtAaZz")),
            2 => v.push(*r.pick(b" ,")),
            3 => v.extend_from_slice(r.pick(&["0", "1", "-1", ".5", "1e3", "1e-3", "00", "0 0 ", "1 1 ", "1 0 1 "]).as_bytes()),
            4 => v.extend_from_slice(r.pick(&["A1 1 0 0 0 ", "a0 0 0 1 1 ", "a1,1,0,1,0,0,0", "A.1.1 0 01", "Z", "zm"]).as_bytes()),
            _ => v.push(*r.pick(b"0123456789.-")),
        }
    }
    v.truncate(n);
    v.iter().map(|b| *b as f64).collect()
}
fn bytes_of(a: &[f64]) -> String {
    String::from_utf8_lossy(&a.iter().map(|x| (*x as u32).min(127) as u8).collect::<Vec<_>>()).into_owned()
}
/// An arc command costs (1.1163 * radius / 0.1)^(1/6) cubics: a 24-byte string with a radius of 1e60 asks for 1e10 cubics
/// (finding C14-svg-arc-huge-radius, replayed with a radius the machine survives in `extra`).  Strings with an arc
/// command and a literal of more than 9 digits or an exponent of 9 or more are not executed.
fn svg_astronomical_arc(s: &str) -> bool {
    if !(s.contains('a') || s.contains('A')) {
        return false;
    }
    let b = s.as_bytes();
    let (mut run, mut maxrun, mut maxexp) = (0usize, 0usize, 0u64);
    let mut i = 0;
    while i < b.len() {
        if b[i].is_ascii_digit() {
            run += 1;
            maxrun = maxrun.max(run);
        } else {
            run = 0;
            if b[i] == b'e' || b[i] == b'E' {
                let mut j = i + 1;
                if j < b.len() && (b[j] == b'+' || b[j] == b'-') {
                    j += 1;
                }
                let mut x = 0u64;
                while j < b.len() && b[j].is_ascii_digit() {
                    x = (x * 10 + (b[j] - b'0') as u64).min(10_000);
                    j += 1;
                }
                if !(i + 1 < b.len() && b[i + 1] == b'-') {
                    maxexp = maxexp.max(x);
                }
            }
        }
        i += 1;
    }
    maxrun > 9 || maxexp >= 9
}
fn check_svg(s: &str, assert_finite: bool) -> Option<(String, String)> {
    check_svg_run(s, assert_finite, false)
}
fn check_svg_run(s: &str, assert_finite: bool, on_thread: bool) -> Option<(String, String)> {
    if svg_astronomical_arc(s) {
        return None;
    }
    let run = if on_thread {
        let owned = s.to_string();
        guarded(move || BezPath::from_svg(&owned))
    } else {
        direct(|| BezPath::from_svg(s))
    };
    match run {
        Run::Hang => fail("svg:hang".into(), format!("BezPath::from_svg({:?}) did not return within {} s", s, TIME_LIMIT_S)),
        Run::Panic(m) => {
            let class = if m.contains("sum_of_sq") { "svg:panic:arc-degenerate" } else { "svg:panic" };
            fail(class.into(), format!("'{}' on BezPath::from_svg({:?})", m, s))
        }
        Run::Done(Ok(p), _) => {
            // proved (C16_svg_consumes, re-exported as C14_svg_consumes): every loop iteration consumes a byte;
            // an iteration emits one element, or for an arc command (>= 8 bytes) ceil((1.1163 r / 0.1)^(1/6) sweep / 2 pi) cubics
            // (literals below 1e10: at most 48 cubics) per 8 bytes
            let arcs = if s.contains('a') || s.contains('A') { s.len() / 8 + 1 } else { 0 };
            if p.elements().len() > s.len() + 1 + 48 * arcs {
                return fail("svg:output-size".into(), format!("{} elements from the {} bytes {:?}", p.elements().len(), s.len(), s));
            }
            if assert_finite {
                if let Some(i) = nonfinite_in(p.elements()) {
                    return fail("svg:nonfinite".into(), format!("element {} = {:?} of BezPath::from_svg({:?})", i, p.elements()[i], s));
                }
            }
            None
        }
        _ => None,
    }
}
fn law_svg_bytes(a: &[f64]) -> Option<(String, String)> {
    let s = bytes_of(a);
    // numbers like 1e999 or sums of 1e308 denote no finite f64: finiteness is asserted only without exponents
    // (at most 64 digits: every literal is below 1e64 and there are at most 32 of them)
    let no_exp = !s.contains('e') && !s.contains('E');
    check_svg_run(&s, no_exp, true)
}
/// grammatical paths with coordinates of magnitude <= 1e6: degenerate arcs, smooth commands, repeated points
fn g_svg_valid(r: &mut Rng) -> Vec<f64> {
    let num = |r: &mut Rng| -> String {
        match r.below(8) {
            0 => "0".into(),
            1 => format!("{}", r.range_i(-9, 9)),
            2 => format!("{}", r.range_i(-100, 100) as f64 / 4.0),
            3 => "1e6".into(),
            4 => "-1e6".into(),
            5 => "1e-3".into(),
            6 => format!("{:e}", r.uniform(-1e6, 1e6)),
            _ => format!("{}", r.range_i(-3, 3)),
        }
    };
    let mut s = format!("M{} {}", num(r), num(r));
    let n = 1 + r.below(5);
    for _ in 0..n {
        let rel = r.bool();
        let c = |u: char| if rel { u.to_ascii_lowercase() } else { u };
        match r.below(9) {
            0 => s += &format!("{}{} {}", c('L'), num(r), num(r)),
            1 => s += &format!("{}{}", c('H'), num(r)),
            2 => s += &format!("{}{}", c('V'), num(r)),
            3 => s += &format!("{}{} {} {} {} {} {}", c('C'), num(r), num(r), num(r), num(r), num(r), num(r)),
            4 => s += &format!("{}{} {} {} {}", c('S'), num(r), num(r), num(r), num(r)),
            5 => s += &format!("{}{} {} {} {}", c('Q'), num(r), num(r), num(r), num(r)),
            6 => s += &format!("{}{} {}", c('T'), num(r), num(r)),
            7 => {
                // arcs: zero / negative / huge radii, coincident end points, every flag combination
                let rad = |r: &mut Rng| (*r.pick(&["0", "1", "-2", "1e-3", "1e6", "3.5", "0.5"])).to_string();
                s += &format!("{}{} {} {} {} {} {} {}", c('A'), rad(r), rad(r), *r.pick(&["0", "45", "90", "-30", "720"]), r.below(2), r.below(2), num(r), num(r));
            }
            _ => s += "Z",
        }
    }
    s.bytes().map(|b| b as f64).collect()
}
fn law_svg_valid(a: &[f64]) -> Option<(String, String)> {
    // coordinates stay below 6 * 2e6: every number must be finite
    check_svg_run(&bytes_of(a), true, true)
}

fn laws() -> Vec<Law> {
    vec![
        Law { name: "flatten_total", gen: g_flatten, check: law_flatten, weight: 4 },
        Law { name: "stroke_total", gen: g_stroke, check: law_stroke, weight: 8 },
        Law { name: "dash_total", gen: g_dash, check: law_dash, weight: 3 },
        Law { name: "fit_total", gen: g_fit, check: law_fit, weight: 3 },
        Law { name: "simplify_total", gen: g_simplify, check: law_simplify, weight: 3 },
        Law { name: "segment_queries_total", gen: g_seg_queries, check: law_seg_queries, weight: 3 },
        Law { name: "solvers_total", gen: g_solver, check: law_solver, weight: 8 },
        Law { name: "itp_total", gen: g_itp, check: law_itp, weight: 4 },
        Law { name: "svg_bytes_total", gen: g_svg_bytes, check: law_svg_bytes, weight: 20 },
        Law { name: "svg_valid_total", gen: g_svg_valid, check: law_svg_valid, weight: 6 },
        // last: a hang here leaves a thread ticking the global work counter
        Law { name: "opt_total", gen: g_opt, check: law_opt, weight: 2 },
    ]
}

// =====================================================================================
// correspondence
// =====================================================================================

/// A source that `fit_to_bezpath_rec` can never fit on a range that contains one of the marked parameters
/// (end points included: the recursion runs down to adjacent floats on both sides of a mark and ends by
/// the guard `t == start || t == end` alone): the end points of every range are 1000 apart in y (so `try_fit_line` is not tried), and
/// `break_cusp` answers the float midpoint of such a range, the range start (a leaf by the guard
/// `t == start`) of any other.
struct Marked {
    marks: Vec<f64>,
    limit: u64,
}
impl ParamCurveFit for Marked {
    fn sample_pt_tangent(&self, t: f64, sign: f64) -> CurveFitSample {
        let y = if sign > 0.0 { 0.0 } else { 1000.0 };
        CurveFitSample { p: Point::new(t, y), tangent: Vec2::new(1.0, 0.0) }
    }
    fn sample_pt_deriv(&self, t: f64) -> (Point, Vec2) {
        (Point::new(t, 0.0), Vec2::new(1.0, 0.0))
    }
    fn break_cusp(&self, range: Range<f64>) -> Option<f64> {
        if kurbo::verif::work() > self.limit {
            panic!("C14: fit_to_bezpath_rec called more than {} times", self.limit);
        }
        if self.marks.iter().any(|m| range.start <= *m && *m <= range.end) {
            Some(0.5 * (range.start + range.end))
        } else {
            Some(range.start)
        }
    }
}

fn gen_mark(r: &mut Rng) -> f64 {
    match r.below(10) {
        0 => 0.5,
        1 => r.range_i(1, 15) as f64 / 16.0,
        2 => f64::from_bits(r.below(64) + 1),          // the smallest subnormals
        3 => f64::MIN_POSITIVE * (1.0 + r.unit()),      // just above the subnormals
        4 => 1.0 - f64::EPSILON * r.range_i(1, 8) as f64 / 2.0,
        5 => 2f64.powi(-(r.range_i(1, 1070) as i32)),
        6 => 2f64.powi(-(r.range_i(1, 1000) as i32)) * (1.0 + r.unit()),
        7 => (1.0f64 / 3.0) * r.range_i(1, 2) as f64,
        _ => r.unit(),
    }
}

fn corr_bisect(r: &mut Rng, thorough: bool, o: &mut Out) {
    let n = if thorough { 1500 } else { 150 };
    for _ in 0..n {
        let k = 1 + r.below(3) as usize;
        let mut marks: Vec<f64> = (0..k).map(|_| gen_mark(r)).collect();
        if r.chance(1, 5) {
            // a cluster of neighbouring floats: the recursion visits every float between them
            let m = marks[0];
            let w = r.below(12) + 1;
            marks.push(f64::from_bits(m.to_bits() + w));
        }
        let marks2 = marks.clone();
        let run = guarded(move || {
            let src = Marked { marks: marks2, limit: 40_000 };
            fit_to_bezpath(&src, 1e-3)
        });
        match run {
            Run::Done(path, calls) => {
                let els = path.elements();
                // observed: calls, number of elements, the abscissa of the last control point of every cubic (= the end of its leaf range)
                let mut obs = vec![calls as f64, els.len() as f64];
                for e in els {
                    if let PathEl::CurveTo(_, _, p3) = e {
                        obs.push(p3.x);
                    }
                }
                let mut args = vec![marks.len() as f64];
                args.extend_from_slice(&marks);
                let depthish = calls / 2;
                let tag = if marks.iter().any(|m| *m < 1e-300) { "subnormal-range" } else if depthish > 60 { "deep" } else { "shallow" };
                o.case(1, "fit-midpoint-guard", args, obs, calls > 3, tag);
            }
            Run::Panic(m) => o.violation("fit:work-budget:marked-source", format!("'{}' with marks {:?}", m, marks), format!("{{\"marks\":{:?}}}", marks)),
            Run::Hang => o.violation("fit:hang:marked-source", format!("marks {:?}", marks), format!("{{\"marks\":{:?}}}", marks)),
            Run::Skipped => {}
        }
    }
}

fn cubic8(c: &CubicBez) -> Vec<f64> {
    vec![c.p0.x, c.p0.y, c.p1.x, c.p1.y, c.p2.x, c.p2.y, c.p3.x, c.p3.y]
}

fn corr_regularize(r: &mut Rng, thorough: bool, o: &mut Out) {
    let n = if thorough { 4000 } else { 500 };
    for i in 0..n {
        // structured cubics (all branches of the nudging part), and generic ones for the cusp branch
        let structured = i % 2 == 0;
        let (c, dim) = if structured {
            let p0 = gp(r);
            let fam = r.below(11) as usize;
            let mut ps = fam_segment(r, fam, p0);
            if ps.len() == 2 {
                ps.push(gp(r));
            }
            let f = |p: (i64, i64)| Point::new(p.0 as f64 / 4.0, p.1 as f64 / 4.0);
            let mut c = CubicBez::new(f(p0), f(ps[0]), f(ps[1]), f(ps[2]));
            // short control arms relative to the dimension
            if r.chance(1, 3) {
                c.p1 = c.p0 + Vec2::new(r.grid(4, 64.0), r.grid(4, 64.0));
            }
            if r.chance(1, 3) {
                c.p2 = c.p3 + Vec2::new(r.grid(4, 64.0), r.grid(4, 64.0));
            }
            (c, *r.pick(&[0.25, 0.0625, 1.0, 0.025, 2.5]))
        } else {
            // near-cusp generic cubics: p3 + p2 close to p1 + p0
            let (p0, p1, p2) = (gen_point(r), gen_point(r), gen_point(r));
            let jit = Vec2::new(r.uniform(-1.0, 1.0), r.uniform(-1.0, 1.0)) * *r.pick(&[0.0, 1e-3, 0.05, 0.5, 3.0]);
            let p3 = (p0.to_vec2() + p1.to_vec2() - p2.to_vec2() + jit).to_point();
            (CubicBez::new(p0, p1, p2, p3), 10f64.powf(r.uniform(-3.0, 0.5)))
        };
        let cusp = c.verif_detect_cusp(dim);
        let reg = c.verif_regularize(dim);
        let mut args = cubic8(&c);
        args.push(dim);
        args.push(cusp as f64);
        let dim2 = dim * dim;
        // which branch of the two nudging steps was taken (recomputed here for the tag only)
        let near0 = c.p0.distance_squared(c.p1) < dim2;
        let line0 = near0 && c.p0.distance_squared(c.p2) < dim2;
        let near3 = !line0 && c.p3.distance_squared(c.p2) < dim2;
        let p1_after = if near0 && !line0 { reg.p1 } else { c.p1 };
        let line3 = near3 && p1_after.distance_squared(c.p2) < dim2;
        let tag = format!(
            "{}{}{}",
            if line0 { "p1:line" } else if near0 { "p1:nudged" } else { "p1:kept" },
            if line0 { "" } else if line3 { ",p2:line" } else if near3 { ",p2:nudged" } else { ",p2:kept" },
            ["", "+loop", "+dblinfl"][cusp as usize]
        );
        let exact = cusp == 0;
        let finite = cubic8(&reg).iter().all(|x| x.is_finite());
        if exact {
            o.case(2, "regularize-nudge", args.clone(), cubic8(&reg), near0 || near3, &tag);
        } else if !structured && finite {
            o.case(3, "regularize-cusp", args.clone(), cubic8(&reg), true, &tag);
        }
    }
}

/// A loop that never ends AND allocates (a parser that stops consuming input, a dasher that stops advancing) would
/// take the machine down long before any time limit: cap the address space of this process at 12 GB.  An allocation
/// failure aborts the harness, which the driver reports as a failed run of this property.
fn limit_memory() {
    #[repr(C)]
    struct Rlimit {
        cur: u64,
        max: u64,
    }
    extern "C" {
        fn setrlimit(resource: i32, rlim: *const Rlimit) -> i32;
    }
    const RLIMIT_AS: i32 = 9; // Linux
    let lim = Rlimit { cur: 12 << 30, max: 12 << 30 };
    if cfg!(target_os = "linux") {
        unsafe {
            setrlimit(RLIMIT_AS, &lim);
        }
    }
}

fn corr(r: &mut Rng, thorough: bool, o: &mut Out) {
    limit_memory();
    corr_bisect(r, thorough, o);
    corr_regularize(r, thorough, o);
}

// =====================================================================================
// extra: exhaustive small SVG strings, known-finding replays
// =====================================================================================

fn svg_exhaustive(o: &mut Out, alphabet: &[u8], maxlen: usize) {
    let k = alphabet.len() as u64;
    let mut evals = 0u64;
    for len in 0..=maxlen {
        let total = k.pow(len as u32);
        // batches of 4096 strings per worker thread: a parser that stops consuming input is reported as a hang
        // of the batch (with its first and last string) instead of stalling the whole run
        let mut lo = 0u64;
        while lo < total {
            let hi = (lo + 4096).min(total);
            let alpha = alphabet.to_vec();
            let nth = move |code: u64, alpha: &[u8]| -> String {
                let mut c = code;
                let mut b = Vec::with_capacity(len);
                for _ in 0..len {
                    b.push(alpha[(c % alpha.len() as u64) as usize]);
                    c /= alpha.len() as u64;
                }
                String::from_utf8(b).unwrap()
            };
            let (a2, nth2) = (alpha.clone(), nth.clone());
            let run = guarded(move || {
                let mut found = Vec::new();
                for code in lo..hi {
                    let s = nth2(code, &a2);
                    if let Some((class, desc)) = check_svg(&s, !s.contains('e')) {
                        found.push((class, desc, s));
                    }
                }
                found
            });
            match run {
                Run::Done(found, _) => {
                    for (class, desc, s) in found {
                        o.violation(&class, desc, format!("{{\"svg\":{}}}", crate::util::json_str(&s)));
                    }
                }
                Run::Panic(m) => o.violation("svg:panic", format!("'{}' in the sweep {:?}..{:?}", m, nth(lo, &alpha), nth(hi - 1, &alpha)), "{}".into()),
                Run::Hang => o.violation("svg:hang", format!("the sweep over the strings {:?}..{:?} (length {}, alphabet {:?}) did not return within {} s", nth(lo, &alpha), nth(hi - 1, &alpha), len, String::from_utf8_lossy(&alpha), TIME_LIMIT_S), "{}".into()),
                Run::Skipped => {}
            }
            evals += hi - lo;
            lo = hi;
        }
    }
    for _ in 0..evals {
        o.oracle_eval("svg_exhaustive");
    }
    o.notes.push(format!("svg_exhaustive: every string of length <= {} over {:?} ({} strings)", maxlen, String::from_utf8_lossy(alphabet), evals));
}

/// the inverse of `path_str`
fn parse_path(s: &str) -> Vec<PathEl> {
    let mut v = Vec::new();
    for tok in s.split_whitespace() {
        let nums: Vec<f64> = tok[1..].replace(")(", ",").trim_matches(|c| c == '(' || c == ')').split(',').filter(|x| !x.is_empty()).map(|x| x.parse().unwrap()).collect();
        let p = |i: usize| Point::new(nums[2 * i], nums[2 * i + 1]);
        v.push(match tok.as_bytes()[0] {
            b'M' => PathEl::MoveTo(p(0)),
            b'L' => PathEl::LineTo(p(0)),
            b'Q' => PathEl::QuadTo(p(0), p(1)),
            b'C' => PathEl::CurveTo(p(0), p(1), p(2)),
            _ => PathEl::ClosePath,
        });
    }
    v
}
fn fam_ix(name: &str) -> f64 {
    FAMS.iter().position(|f| *f == name).unwrap_or(0) as f64
}
/// args of law_stroke / law_dash for a written-out witness
#[allow(clippy::too_many_arguments)]
fn stroke_args(fam: &str, path: &str, width: f64, tol: f64, join: usize, miter: f64, caps: (usize, usize), dashes: &[f64], offset: f64) -> Vec<f64> {
    let mut v = vec![fam_ix(fam), width, tol, join as f64, miter, caps.0 as f64, caps.1 as f64, dashes.len() as f64, offset];
    let mut ds = [0.0; 4];
    ds[..dashes.len()].copy_from_slice(dashes);
    v.extend_from_slice(&ds);
    v.extend(enc_els(&parse_path(path)));
    v
}

/// Witnesses of the defects this check found on the pinned tree (docs/C14.md), replayed on every run:
/// a regression guard for the repairs, and the KNOWN-FINDING status of the rest.
fn replay_witnesses(o: &mut Out) {
    let (bevel, miter, round) = (0usize, 1usize, 2usize);
    let (butt, square, rcap) = (0usize, 1usize, 2usize);
    let _ = (bevel, square);
    let strokes: Vec<(&str, Vec<f64>)> = vec![
        // double root of the projected derivative -> two equal "cusps" -> zero tangent (stroke.rs do_linear)
        ("A,B,A,B", stroke_args("abab", "M(-5.132474604986208,4.288249363508541) C(4.461635398694163,-2.0746081740091498)(-5.132474604986208,4.288249363508541)(4.461635398694163,-2.0746081740091498)", 1.0, 0.1, round, 4.0, (rcap, rcap), &[], 0.0)),
        // P,Q,Q,Q far from the origin: the double root at t = 1 splits, the last piece of do_linear has length zero
        ("P,Q,Q,Q", stroke_args("pqqq", "M(568583.2549003004,-939358.0410520267) C(568568.4549003005,-939332.1410520267)(568568.4549003005,-939332.1410520267)(568568.4549003005,-939332.1410520267) Z", 0.037000000000000005, 0.030837080761638297, miter, 10.0, (square, rcap), &[25.900000000000002, 3.7, 3.7, 3.7], 0.0)),
        // solve_itp never leaves `while b - a > 2 eps` once a, b are adjacent floats (inv_arclen of a wild candidate cubic)
        ("cusp, ITP stall", stroke_args("cusp", "M(-999963.0034207865,-999958.0051407118) C(-999953.013711009,-999951.9880235812)(-999967.0034149205,-999958.0119910836)(-999949.013716875,-999951.9811732094)", 1.0, 0.1, round, 4.0, (rcap, rcap), &[], 0.0)),
        // the dasher emits a piece two ulps long; do_cubic's projection test cannot order its points; the offsetter sees NaN
        ("two-ulp dash piece", stroke_args("abab", "M(999996.1,-999995.4) C(999996.2,-999995.4)(999996.1,-999995.4)(999996.2,-999995.4) C(999996.0,-999996.8)(999996.2,-999995.4)(999996.0,-999996.8) L(999996.2,-999995.9)", 0.1, 0.001, round, 4.0, (rcap, rcap), &[0.1], 0.0)),
        // an exact cusp: detect_cusp's curvature test is 0/0 (cross == 0.0, distance_sq a few ulps above)
        ("exact cusp", stroke_args("cusp", "M(921943.8867939675,817150.4316114683) C(921935.4015125933,817140.5321165317)(921932.5730854685,817139.1179029694)(921946.7152210922,817151.8458250307)", 1.0, 0.002064726455013298, miter, 4.0, (butt, rcap), &[], 0.0)),
        // a dash piece that contains the cusp: detect_cusp's determinant gate is closed although the derivative vanishes
        ("cusp inside a dash", stroke_args("cusp", "M(6.465042596158229,-3.912728149393138) C(0.10108156547930047,-6.03404849295278)(0.10108156547930047,-4.619834930579685)(6.465042596158229,-5.326941711766233) C(12.12189684565061,-2.4985145870200425)(-2.0202387780803424,-3.9127281493931374)(20.607178219889178,-3.9127281493931374) Z", 1.0, 0.1, round, 1.0, (butt, butt), &[7.0, 1.0, 7.0], 31.488958794700856)),
        // the dasher ends with a piece P, P - 1ulp, P, P: PathSeg::tangents gives up with (0, 0)
        ("zero tangent", stroke_args("ppqq", "M(-147487.3734152917,135355.33905932738) C(-147487.3734152917,135355.33905932738)(-76776.6952966369,206066.01717798214)(-76776.6952966369,206066.01717798214)", 25000.0, 0.31046689262561, miter, 4.0, (rcap, rcap), &[50000.0], 0.0)),
    ];
    for (name, a) in strokes {
        o.oracle_eval("witness_replay");
        if let Some((class, desc)) = law_stroke(&a) {
            o.violation(&class, format!("[witness {}] {}", name, desc), format!("{{\"law\":\"stroke_total\",\"args\":{}}}", crate::util::fmt_fs(&a)));
        }
    }
    // solve_cubic on a triple root with a small leading coefficient: sqrt of a rounding-size positive d0
    for a in [vec![3.0, -0.000125, 7.5e-5, -1.4999999999999999e-5, 1e-6, 0.0], vec![4.0, 465484375.0, 180187500.0, 23250000.0, 1000000.0, 0.0]] {
        o.oracle_eval("witness_replay");
        if let Some((class, desc)) = law_solver(&a) {
            o.violation(&class, format!("[witness triple root] {}", desc), format!("{{\"law\":\"solvers_total\",\"args\":{}}}", crate::util::fmt_fs(&a)));
        }
    }
    // simplify_bezpath: ClosePath of a sub-path without a segment of non-zero length; `1u64 << nmax` in solve_itp
    let simp: Vec<(&str, f64, f64, &str)> = vec![
        ("degenerate closed sub-path", 0.03849981666102676, 0.1, "M(2.0,-4.0) Q(2.0,-4.0)(2.0,-4.0) Z"),
        ("shift overflow", 10.0, 10.0, "M(-62.337149018645434,-88.73047888949137) C(17.66285098135457,-58.730478889491366)(-92.33714901864543,-28.730478889491366)(-12.33714901864543,-98.73047888949137) C(17.66285098135457,-128.73047888949137)(-72.33714901864543,-48.730478889491366)(-32.337149018645434,-68.73047888949137) L(-22.33714901864543,-138.73047888949137) L(-62.337149018645434,-88.73047888949137) Z"),
    ];
    for (name, acc, ang, path) in simp {
        let mut a = vec![fam_ix("generic"), 0.0, acc, ang];
        a.extend(enc_els(&parse_path(path)));
        o.oracle_eval("witness_replay");
        if let Some((class, desc)) = law_simplify(&a) {
            o.violation(&class, format!("[witness {}] {}", name, desc), format!("{{\"law\":\"simplify_total\",\"args\":{}}}", crate::util::fmt_fs(&a)));
        }
    }
    // QuadBez P,P,P: arclen NaN (repair: proposed_fixes/C03-quad-arclen-degenerate.diff)
    {
        let mut a = vec![fam_ix("quad-degenerate"), 0.0018777190754769677, 0.0, 0.0, 0.5];
        a.extend(enc_els(&parse_path("M(0.02,-0.04) Q(0.02,-0.04)(0.02,-0.04)")));
        o.oracle_eval("witness_replay");
        if let Some((class, desc)) = law_seg_queries(&a) {
            o.violation(&class, format!("[witness P,P,P quadratic] {}", desc), format!("{{\"law\":\"segment_queries_total\",\"args\":{}}}", crate::util::fmt_fs(&a)));
        }
    }
    // ---- known findings (no small safe repair, or the repair is another property's / was declined)
    {
        let a = stroke_args("cusp", "M(921943.8867939675,817150.4316114683) C(921935.4015125933,817140.5321165317)(921932.5730854685,817139.1179029694)(921946.7152210922,817151.8458250307)", 1.0, 0.002064726455013298, 1, 4.0, (0, 2), &[], 0.0);
        // (not through law_stroke: after three hangs of this finding the law stops executing exact cusps)
        let (els, style, tol) = (dec_els(&a[SH..]), dec_style(&a), a[2]);
        let classified = exact_cusp_in(&els, &[], 0.0);
        let nan = match guarded(move || stroke(els.iter().cloned(), &style, &StrokeOpts::default(), tol)) {
            Run::Done(out, _) => nonfinite_in(out.elements()).is_some(),
            Run::Skipped => false,
            _ => true,
        };
        o.known(
            "C14-exact-cusp",
            classified && nan,
            "stroke of the exact cusp M(921943.8867939675,817150.4316114683) C(921935.4015125933,817140.5321165317)(921932.5730854685,817139.1179029694)(921946.7152210922,817151.8458250307), width 1, tolerance 0.002064726455013298 contains NaN (detect_cusp: cross == 0.0)".into(),
        );
        let q = QuadBez::new((0.02, -0.04), (0.02, -0.04), (0.02, -0.04));
        let l = q.arclen(1e-3);
        o.known("C14-degenerate-quad-arclen", !l.is_finite(), format!("QuadBez((0.02,-0.04),(0.02,-0.04),(0.02,-0.04)).arclen(1e-3) = {:?}", l));
    }
    let zero_line = Line::new((1.0, 1.0), (1.0, 1.0));
    let t = zero_line.inv_arclen(0.0, 1e-3);
    o.known("C14-line-inv-arclen-zero-length", !t.is_finite(), format!("Line((1,1),(1,1)).inv_arclen(0, 1e-3) = {:?} (0/0)", t));
    let n = match direct(|| BezPath::from_svg("M0 0A1e28 1e28 0 1 0 1e20 0")) {
        Run::Done(Ok(p), _) => p.elements().len(),
        _ => 0,
    };
    o.known("C14-svg-arc-huge-radius", n > 1000, format!("BezPath::from_svg(\"M0 0A1e28 1e28 0 1 0 1e20 0\") (27 bytes) yields {} elements: (1.1163 r / 0.1)^(1/6) cubics per turn", n));
    {
        let mut a = vec![fam_ix("repeat"), 2.0, 1.0, 0.5, 0.25];
        a.extend(enc_els(&parse_path("M(-999968.0,-999965.0) C(-999959.0,-999959.0)(-999971.0,-999962.0)(-999968.0,-999965.0) C(-999961.0,-999958.0)(-999961.0,-999958.0)(-999968.0,-999965.0)")));
        let r = law_fit(&a);
        o.known("C14-fit-opt-unwrap", matches!(&r, Some((c, _)) if c.contains(":panic-unwrap:")), "fit_to_bezpath_opt panics in fit_to_cubic(..).unwrap() on a closed cubic loop (SimplifyBezPath source)".into());
    }
}

fn extra(_r: &mut Rng, thorough: bool, o: &mut Out) {
    // every string up to length 4 (5 in the thorough tier) over a small alphabet that reaches every lexer state
    svg_exhaustive(o, b"MLZa01.-e ,", if thorough { 5 } else { 4 });
    svg_exhaustive(o, b"mzhqtsc1 -", if thorough { 5 } else { 4 });
    replay_witnesses(o);
    // arclen_rec at an accuracy no quadrature estimate can meet: the full tree down to the depth limit,
    // 2^21 - 1 calls (C14_arclen_rec_leaves) and not one more
    {
        let c = CubicBez::new((0.0, 0.0), (1.0, 2.0), (3.0, 2.0), (4.0, 0.0));
        o.oracle_eval("arclen_depth_limit");
        match guarded(move || c.arclen(1e-300)) {
            Run::Done(l, w) => {
                if counter_clean() && w > 2097151 {
                    o.violation("arclen:work-budget:depth-limit", format!("{:?}.arclen(1e-300): {} calls of arclen_rec (proved bound 2^21 - 1 = 2097151)", c, w), "{}".into());
                }
                if !l.is_finite() {
                    o.violation("arclen:nonfinite:depth-limit", format!("{:?}.arclen(1e-300) = {:?}", c, l), "{}".into());
                }
            }
            Run::Hang => o.violation("arclen:hang:depth-limit", format!("{:?}.arclen(1e-300) did not return within {} s (2^21 - 1 calls take 0.3 s)", c, TIME_LIMIT_S), "{}".into()),
            Run::Panic(m) => o.violation("arclen:panic:depth-limit", format!("'{}' on {:?}.arclen(1e-300)", m, c), "{}".into()),
            Run::Skipped => {}
        }
    }
    if std::env::var("C14_STATS").is_ok() {
        for (i, s) in STATS.iter().enumerate() {
            eprintln!("C14 stat {:>16}: max observed/budget = {:.6}", STAT_NAMES[i], s.load(Ordering::Relaxed) as f64 / 1e6);
        }
    }
    let _ = (b2f(true), Line::new((0.0, 0.0), (1.0, 0.0)), QuadBez::new((0.0, 0.0), (1.0, 1.0), (2.0, 0.0)).eval(0.5));
}
