//! C04 — stroke outline fills exactly the offset region of the path.
//!
//! corr: whole `stroke()` output for MoveTo/LineTo/ClosePath input against coq/model/Stroke.v
//!   (op 1 bit-exact on Pythagorean edge vectors, op 2 to 1e-9 for every style, op 3 the join arc).
//! laws: point-membership oracle (own flattening + own crossing-number winding, own distance to the
//!   source path), exact ideal shapes for one- and two-segment polylines, contour closure, finiteness.
#[cfg(feature = "libm")]
#[allow(unused_imports)]
use crate::util::ToSvgCompat;
use crate::geom::*;
use crate::util::{Out, Rng};
use crate::{Law, Prop};
use kurbo::{dash, stroke, Arc, Cap, CubicBez, Join, ParamCurve, ParamCurveDeriv, ParamCurveNearest, PathEl, Point, Stroke, StrokeOpts, Vec2};
use std::collections::BTreeMap;
use std::f64::consts::PI;

pub fn prop() -> Prop {
    Prop { id: "C04", corr, laws, extra, law_budget: (250, 1800) }
}

// ------------------------------------------------------------------ style encoding

fn join_of(j: f64) -> Join {
    match j as i32 {
        0 => Join::Bevel,
        1 => Join::Miter,
        _ => Join::Round,
    }
}
fn cap_of(c: f64) -> Cap {
    match c as i32 {
        0 => Cap::Butt,
        1 => Cap::Square,
        _ => Cap::Round,
    }
}
fn style_of(a: &[f64]) -> Stroke {
    Stroke::new(a[0]).with_join(join_of(a[1])).with_miter_limit(a[2]).with_start_cap(cap_of(a[3])).with_end_cap(cap_of(a[4]))
}
fn jname(j: f64) -> &'static str {
    ["bevel", "miter", "round"][(j as usize).min(2)]
}
fn cname(c: f64) -> &'static str {
    ["butt", "square", "round"][(c as usize).min(2)]
}

// ------------------------------------------------------------------ correspondence

const PY: [(f64, f64); 16] = [
    (3.0, 4.0), (4.0, 3.0), (5.0, 12.0), (12.0, 5.0), (8.0, 15.0), (15.0, 8.0), (7.0, 24.0), (24.0, 7.0),
    (20.0, 21.0), (21.0, 20.0), (1.0, 0.0), (0.0, 1.0), (2.0, 0.0), (0.0, 2.0), (5.0, 0.0), (0.0, 3.0),
];

fn pyth(r: &mut Rng) -> Vec2 {
    let (a, b) = *r.pick(&PY);
    let k = r.range_i(1, 3) as f64;
    let sa = if r.bool() { -1.0 } else { 1.0 };
    let sb = if r.bool() { -1.0 } else { 1.0 };
    Vec2::new(sa * a * k, sb * b * k)
}

/// polylines all of whose edge vectors (including the closing edges) are axis-aligned or Pythagorean,
/// on a dyadic grid: `hypot` of every tangent and of every (cross, dot) pair is exact
fn gen_pyth_path(r: &mut Rng) -> Vec<PathEl> {
    let s = *r.pick(&[0.125, 0.25, 0.5, 1.0, 2.0]);
    let mut els = Vec::new();
    let nsub = r.range_i(1, 3);
    let mut cur = Point::ORIGIN;
    let mut start = Point::ORIGIN;
    for k in 0..nsub {
        if !(k == 0 && r.chance(1, 8)) {
            start = Point::new(r.grid(40, 4.0), r.grid(40, 4.0));
            els.push(PathEl::MoveTo(start));
            cur = start;
        }
        let mut runs = 1;
        while runs > 0 {
            runs -= 1;
            let nedges = r.range_i(0, 5);
            let mut prev: Option<Vec2> = None;
            for _ in 0..nedges {
                let v = match (prev, r.below(12)) {
                    (Some(p), 0) | (Some(p), 1) => p * (r.range_i(1, 2) as f64), // straight on: cross = 0, dot > 0
                    (Some(p), 2) => -p,                                          // exact reversal: cross = 0, dot < 0
                    (Some(p), 3) => Vec2::new(-p.y, p.x),                        // right angle: dot = 0
                    _ => pyth(r) * s,
                };
                prev = Some(v);
                cur += v;
                els.push(PathEl::LineTo(cur));
                if r.chance(1, 10) {
                    els.push(PathEl::LineTo(cur)); // repeated point: skipped by the stroker
                }
            }
            match r.below(5) {
                0 | 1 => {}
                c => {
                    // close with axis-aligned edges
                    if cur.x != start.x && cur.y != start.y {
                        cur = Point::new(start.x, cur.y);
                        els.push(PathEl::LineTo(cur));
                    }
                    if c == 4 && cur != start {
                        cur = start;
                        els.push(PathEl::LineTo(cur)); // explicit return: ClosePath with p0 == start_pt
                    }
                    els.push(PathEl::ClosePath);
                    cur = start;
                    if r.chance(1, 4) {
                        runs += 1; // LineTo directly after ClosePath
                    }
                }
            }
        }
    }
    els
}

fn gen_generic_path(r: &mut Rng) -> Vec<PathEl> {
    let mut els = Vec::new();
    let nsub = r.range_i(1, 3);
    let mode = r.below(3);
    let gp = |r: &mut Rng| match mode {
        0 => Point::new(r.uniform(-10.0, 10.0), r.uniform(-10.0, 10.0)),
        1 => Point::new(r.generic(-3, 5), r.generic(-3, 5)),
        _ => gen_point(r),
    };
    for k in 0..nsub {
        if !(k == 0 && r.chance(1, 10)) {
            els.push(PathEl::MoveTo(gp(r)));
        }
        for _ in 0..r.range_i(0, 5) {
            let p = gp(r);
            els.push(PathEl::LineTo(p));
            if r.chance(1, 12) {
                els.push(PathEl::LineTo(p));
            }
        }
        if r.chance(2, 5) {
            els.push(PathEl::ClosePath);
            if r.chance(1, 4) {
                els.push(PathEl::LineTo(gp(r)));
            }
        }
    }
    els
}

/// which branches of the modelled code a polyline takes (shadow of the control flow, for statistics only)
fn branch_tags(els: &[PathEl], a: &[f64], tags: &mut BTreeMap<String, u64>) -> bool {
    let (w, j, ml, tol) = (a[0], a[1] as i32, a[2], a[5]);
    let thresh = 2.0 * tol / w;
    let mut fwd_empty = true;
    let (mut last_pt, mut start_pt) = (Point::ORIGIN, Point::ORIGIN);
    let (mut last_tan, mut start_tan) = (Vec2::ZERO, Vec2::ZERO);
    let mut any = false;
    let mut bump = |t: &str| *tags.entry(t.to_string()).or_default() += 1;
    let mut join = |fwd_empty: &mut bool, last_tan: Vec2, start_tan: &mut Vec2, tan: Vec2, bump: &mut dyn FnMut(&str)| {
        if *fwd_empty {
            *fwd_empty = false;
            *start_tan = tan;
            bump("join:first");
            return;
        }
        let (cross, dot) = (last_tan.cross(tan), last_tan.dot(tan));
        let hyp = cross.hypot(dot);
        if dot <= 0.0 || cross.abs() >= hyp * thresh {
            match j {
                0 => bump("join:bevel"),
                1 => {
                    if 2.0 * hyp < (hyp + dot) * ml * ml {
                        bump(if cross > 0.0 { "join:miter-forward" } else if cross < 0.0 { "join:miter-backward" } else { "join:miter-cross0" })
                    } else {
                        bump("join:miter-limit-exceeded")
                    }
                }
                _ => bump(if cross.atan2(dot) > 0.0 { "join:round-forward" } else { "join:round-backward" }),
            }
        } else {
            bump("join:skipped-below-threshold");
        }
    };
    for el in els {
        match *el {
            PathEl::MoveTo(p) => {
                if !fwd_empty {
                    bump("finish:open");
                    any = true;
                } else {
                    bump("finish:empty");
                }
                fwd_empty = true;
                start_pt = p;
                last_pt = p;
            }
            PathEl::LineTo(p) => {
                if p != last_pt {
                    let tan = p - last_pt;
                    join(&mut fwd_empty, last_tan, &mut start_tan, tan, &mut bump);
                    last_tan = tan;
                    last_pt = p;
                } else {
                    bump("lineto:degenerate-skipped");
                }
            }
            PathEl::ClosePath => {
                if last_pt != start_pt {
                    let tan = start_pt - last_pt;
                    join(&mut fwd_empty, last_tan, &mut start_tan, tan, &mut bump);
                    last_tan = tan;
                    last_pt = start_pt;
                    bump("close:with-line");
                } else {
                    bump("close:at-start");
                }
                if !fwd_empty {
                    let st = start_tan;
                    join(&mut fwd_empty, last_tan, &mut start_tan, st, &mut bump);
                    bump("finish_closed:two-contours");
                    any = true;
                    fwd_empty = true;
                } else {
                    bump("finish_closed:empty");
                }
            }
            _ => {}
        }
    }
    if !fwd_empty {
        bump("finish:open");
        any = true;
    } else {
        bump("finish:empty");
    }
    any
}

fn gen_style(r: &mut Rng, exact: bool) -> Vec<f64> {
    let w = match r.below(4) {
        0 => *r.pick(&[1.0, 2.0, 0.5, 10.0, 0.05]),
        1 => r.uniform(0.05, 1.0),
        _ => r.uniform(0.05, 10.0),
    };
    let j = if exact { r.below(2) } else { r.below(3) } as f64;
    let ml = match r.below(4) {
        0 => 4.0,
        1 => r.uniform(0.5, 2.0),
        _ => r.uniform(1.0, 12.0),
    };
    let sc = if exact { r.below(2) } else { r.below(3) } as f64;
    let ec = if exact { r.below(2) } else { r.below(3) } as f64;
    // join_thresh = 2 tol / w: make both outcomes of the threshold test frequent
    let tol = match r.below(if exact { 5 } else { 4 }) {
        4 => 0.0, // join_thresh = 0: a join is emitted even straight on (cross = 0, dot > 0)
        0 => w * r.uniform(0.0, 0.6),
        1 => *r.pick(&[1e-3, 0.1, 0.25, 0.5]),
        _ => 10f64.powf(r.uniform(-3.0, -0.3)),
    };
    vec![w, j, ml, sc, ec, tol]
}

fn corr(r: &mut Rng, thorough: bool, o: &mut Out) {
    let n = if thorough { 12000 } else { 1200 };
    let mut tags: BTreeMap<String, u64> = BTreeMap::new();
    for i in 0..n {
        let exact = i % 2 == 0;
        let mut a = gen_style(r, exact);
        let els = if exact { gen_pyth_path(r) } else { gen_generic_path(r) };
        let st = style_of(&a);
        let out = stroke(els.iter().cloned(), &st, &StrokeOpts::default(), a[5]);
        let nontrivial = branch_tags(&els, &a, &mut tags);
        let tag = format!("{}/{}-{}", jname(a[1]), cname(a[3]), cname(a[4]));
        a.extend(enc_els(&els));
        o.case(if exact { 1 } else { 2 }, if exact { "stroke-polyline-exact" } else { "stroke-polyline-1e-9" }, a, enc_els(out.elements()), nontrivial, &tag);
    }
    // the arc of round_join / round_cap (unit radii, tolerance 1e-3) and a few other tolerances
    let m = if thorough { 1500 } else { 120 };
    for i in 0..m {
        let sweep = match i % 6 {
            0 => PI,
            1 => PI / 2.0,
            2 => r.uniform(-PI, PI),
            _ => r.uniform(1e-3, PI),
        };
        let tol = if i % 5 == 4 { 10f64.powf(r.uniform(-6.0, -1.0)) } else { 1e-3 };
        let start = PI - sweep;
        let mut v = Vec::new();
        Arc::new(Point::ORIGIN, (1.0, 1.0), start, sweep, 0.0).to_cubic_beziers(tol, |p1, p2, p3| {
            for p in [p1, p2, p3] {
                v.push(p.x);
                v.push(p.y);
            }
        });
        let tag = format!("n={}", v.len() / 6);
        o.case(3, "join-arc", vec![start, sweep, tol], v, true, &tag);
    }
    let t: Vec<String> = tags.iter().map(|(k, v)| format!("{}={}", k, v)).collect();
    o.notes.push(format!("corr: branches of stroke_undashed/do_join/finish/finish_closed reached by the polyline cases: {}", t.join(" ")));
    for b in ["join:first", "join:bevel", "join:miter-forward", "join:miter-backward", "join:miter-cross0", "join:miter-limit-exceeded", "join:round-forward",
        "join:round-backward", "join:skipped-below-threshold", "finish:open", "finish:empty", "finish_closed:two-contours", "finish_closed:empty",
        "close:with-line", "close:at-start", "lineto:degenerate-skipped"]
    {
        if !tags.contains_key(b) {
            o.notes.push(format!("corr: branch NOT reached: {}", b));
        }
    }
}

// ------------------------------------------------------------------ geometry for the oracles

fn fail(class: &str, d: String) -> Option<(String, String)> {
    Some((class.to_string(), d))
}

#[derive(Clone)]
struct Poly {
    pts: Vec<Point>,
    cum: Vec<f64>, // cumulative length at each vertex
    is_line: bool,
    curv_ok: bool, // min radius of curvature comfortably above w/2 (lines: true)
    ctrl: Option<[Point; 4]>, // control points when the piece is a curve the stroker offsets (not the do_linear route)
    lin_ctrl: Option<[Point; 4]>, // control points of a cubic routed to do_linear (only used to place query points)
}

impl Poly {
    fn new(pts: Vec<Point>, is_line: bool, curv_ok: bool) -> Poly {
        let mut cum = Vec::with_capacity(pts.len());
        let mut s = 0.0;
        cum.push(0.0);
        for i in 1..pts.len() {
            s += (pts[i] - pts[i - 1]).hypot();
            cum.push(s);
        }
        Poly { pts, cum, is_line, curv_ok, ctrl: None, lin_ctrl: None }
    }
    fn len(&self) -> f64 {
        *self.cum.last().unwrap()
    }
    /// (distance, arclength position of the foot)
    fn dist(&self, q: Point) -> (f64, f64) {
        let mut best = (f64::INFINITY, 0.0);
        for i in 1..self.pts.len() {
            let (a, b) = (self.pts[i - 1], self.pts[i]);
            let ab = b - a;
            let l2 = ab.hypot2();
            let t = if l2 > 0.0 { ((q - a).dot(ab) / l2).clamp(0.0, 1.0) } else { 0.0 };
            let f = a + ab * t;
            let d = (q - f).hypot();
            if d < best.0 {
                best = (d, self.cum[i - 1] + t * (self.cum[i] - self.cum[i - 1]));
            }
        }
        if self.pts.len() == 1 {
            best = ((q - self.pts[0]).hypot(), 0.0);
        }
        best
    }
}

fn cubic_pt(p: &[Point; 4], t: f64) -> Point {
    let mt = 1.0 - t;
    let (a, b, c, d) = (mt * mt * mt, 3.0 * mt * mt * t, 3.0 * mt * t * t, t * t * t);
    Point::new(a * p[0].x + b * p[1].x + c * p[2].x + d * p[3].x, a * p[0].y + b * p[1].y + c * p[2].y + d * p[3].y)
}

/// uniform flattening of a cubic with Hausdorff error <= eps (|c''| <= 6 max |second difference|)
fn flatten_cubic(p: &[Point; 4], eps: f64, out: &mut Vec<Point>) {
    let d2a = (p[2].to_vec2() - 2.0 * p[1].to_vec2() + p[0].to_vec2()).hypot();
    let d2b = (p[3].to_vec2() - 2.0 * p[2].to_vec2() + p[1].to_vec2()).hypot();
    let m = 6.0 * d2a.max(d2b);
    let n = ((m / (8.0 * eps)).sqrt().ceil() as usize).clamp(1, 20000);
    for i in 1..=n {
        out.push(if i == n { p[3] } else { cubic_pt(p, i as f64 / n as f64) });
    }
}

fn raise(p0: Point, p1: Point, p2: Point) -> [Point; 4] {
    [p0, p0 + (2.0 / 3.0) * (p1 - p0), p2 + (2.0 / 3.0) * (p1 - p2), p2]
}

/// min radius of curvature of a cubic over dense samples (0 if the derivative vanishes somewhere)
fn min_curv_radius(p: &[Point; 4]) -> f64 {
    let mut best = f64::INFINITY;
    let n = 400;
    for i in 0..=n {
        let t = i as f64 / n as f64;
        let mt = 1.0 - t;
        let d = 3.0 * (mt * mt * (p[1] - p[0]) + 2.0 * mt * t * (p[2] - p[1]) + t * t * (p[3] - p[2]));
        let dd = 6.0 * (mt * (p[2].to_vec2() - 2.0 * p[1].to_vec2() + p[0].to_vec2()) + t * (p[3].to_vec2() - 2.0 * p[2].to_vec2() + p[1].to_vec2()));
        let sp = d.hypot();
        let k = d.cross(dd).abs();
        let rad = if k > 0.0 { sp * sp * sp / k } else { f64::INFINITY };
        if sp < 1e-9 {
            return 0.0;
        }
        best = best.min(rad);
    }
    best
}

/// control points exactly on the chord p0 -> p3 and in order along it (p0 <= p1 <= p2 <= p3), p3 != p0:
/// the cubic traces the chord once, monotonically (its speed may vanish at an end)
fn straight_monotone(p: &[Point; 4]) -> bool {
    let d = p[3] - p[0];
    let l2 = d.hypot2();
    if l2 == 0.0 {
        return false;
    }
    let (a, b) = (p[1] - p[0], p[2] - p[0]);
    if a.cross(d) != 0.0 || b.cross(d) != 0.0 {
        return false;
    }
    let (s1, s2) = (a.dot(d) / l2, b.dot(d) / l2);
    0.0 <= s1 && s1 <= s2 && s2 <= 1.0
}

/// source segments exactly as the stroker walks the elements (degenerate elements are skipped)
fn source_polys(els: &[PathEl], w: f64, eps: f64) -> Vec<Poly> {
    let tol = eps / 0.02; // every caller flattens with eps = 0.02 * tolerance
    let mut v = Vec::new();
    let (mut last, mut start) = (Point::ORIGIN, Point::ORIGIN);
    let need = 0.5 * w * 1.3 + 4.0 * eps;
    for el in els {
        match *el {
            PathEl::MoveTo(p) => {
                start = p;
                last = p;
            }
            PathEl::LineTo(p) => {
                if p != last {
                    v.push(Poly::new(vec![last, p], true, true));
                }
                last = p;
            }
            PathEl::QuadTo(p1, p2) => {
                if p1 != last || p2 != last {
                    let c = raise(last, p1, p2);
                    let mut pts = vec![last];
                    flatten_cubic(&c, eps, &mut pts);
                    let mut po = Poly::new(pts, false, min_curv_radius(&c) > need);
                    if ref_routes_linear(&CubicBez::new(c[0], c[1], c[2], c[3]), tol) {
                        po.lin_ctrl = Some(c);
                    } else {
                        po.ctrl = Some(c);
                    }
                    v.push(po);
                }
                last = p2;
            }
            PathEl::CurveTo(p1, p2, p3) => {
                if p1 != last || p2 != last || p3 != last {
                    let c = [last, p1, p2, p3];
                    if straight_monotone(&c) {
                        // geometrically the line segment last -> p3 traversed monotonically (coincident or collinear,
                        // ordered control points): as a point set it is a line, whatever the parametrisation
                        v.push(Poly::new(vec![last, p3], true, true));
                    } else {
                        let mut pts = vec![last];
                        flatten_cubic(&c, eps, &mut pts);
                        let mut po = Poly::new(pts, false, min_curv_radius(&c) > need);
                        if ref_routes_linear(&CubicBez::new(c[0], c[1], c[2], c[3]), tol) {
                            po.lin_ctrl = Some(c);
                        } else {
                            po.ctrl = Some(c);
                        }
                        v.push(po);
                    }
                }
                last = p3;
            }
            PathEl::ClosePath => {
                if last != start {
                    v.push(Poly::new(vec![last, start], true, true));
                }
                last = start;
            }
        }
    }
    v
}

/// the outline as closed polygons (every contour closed implicitly), flattening error <= eps
fn outline_polys(els: &[PathEl], eps: f64) -> Vec<Vec<Point>> {
    let mut v: Vec<Vec<Point>> = Vec::new();
    let mut cur: Vec<Point> = Vec::new();
    let mut start = Point::ORIGIN;
    for el in els {
        match *el {
            PathEl::MoveTo(p) => {
                if cur.len() > 1 {
                    v.push(std::mem::take(&mut cur));
                }
                cur = vec![p];
                start = p;
            }
            PathEl::LineTo(p) => {
                if cur.is_empty() {
                    cur.push(start);
                }
                cur.push(p)
            }
            PathEl::QuadTo(p1, p2) => {
                if cur.is_empty() {
                    cur.push(start);
                }
                let c = raise(*cur.last().unwrap(), p1, p2);
                flatten_cubic(&c, eps, &mut cur);
            }
            PathEl::CurveTo(p1, p2, p3) => {
                if cur.is_empty() {
                    cur.push(start);
                }
                let c = [*cur.last().unwrap(), p1, p2, p3];
                flatten_cubic(&c, eps, &mut cur);
            }
            PathEl::ClosePath => {
                if cur.len() > 1 {
                    v.push(std::mem::take(&mut cur));
                }
                cur = Vec::new();
            }
        }
    }
    if cur.len() > 1 {
        v.push(cur);
    }
    v
}

/// winding number of closed polygons about q (crossing count, half-open in y) and the distance from q to them
fn winding_and_dist(polys: &[Vec<Point>], q: Point) -> (i32, f64) {
    let mut w = 0;
    let mut dmin = f64::INFINITY;
    for poly in polys {
        let n = poly.len();
        for i in 0..n {
            let (a, b) = (poly[i], poly[(i + 1) % n]);
            if a == b {
                continue;
            }
            let ab = b - a;
            let t = ((q - a).dot(ab) / ab.hypot2()).clamp(0.0, 1.0);
            let d = (q - (a + ab * t)).hypot();
            if d < dmin {
                dmin = d;
            }
            if (a.y <= q.y) != (b.y <= q.y) {
                let side = ab.cross(q - a);
                if b.y > a.y {
                    if side > 0.0 {
                        w += 1;
                    }
                } else if side < 0.0 {
                    w -= 1;
                }
            }
        }
    }
    (w, dmin)
}

fn all_finite(els: &[PathEl]) -> bool {
    els.iter().all(|e| match e {
        PathEl::MoveTo(p) | PathEl::LineTo(p) => p.is_finite(),
        PathEl::QuadTo(a, b) => a.is_finite() && b.is_finite(),
        PathEl::CurveTo(a, b, c) => a.is_finite() && b.is_finite() && c.is_finite(),
        PathEl::ClosePath => true,
    })
}

/// a control point of the outline absurdly far from the source: farther from the bounding box of the
/// source's control points than reach + 2 * (diagonal of that box + width)
fn wild_control_point(src: &[PathEl], out: &[PathEl], a: &[f64]) -> Option<Point> {
    let (mut x0, mut y0, mut x1, mut y1) = (f64::INFINITY, f64::INFINITY, f64::NEG_INFINITY, f64::NEG_INFINITY);
    let mut add = |p: Point| {
        x0 = x0.min(p.x);
        y0 = y0.min(p.y);
        x1 = x1.max(p.x);
        y1 = y1.max(p.y);
    };
    if !matches!(src.first(), Some(PathEl::MoveTo(_))) {
        add(Point::ORIGIN);
    }
    for e in src {
        match *e {
            PathEl::MoveTo(p) | PathEl::LineTo(p) => add(p),
            PathEl::QuadTo(p, q) => {
                add(p);
                add(q)
            }
            PathEl::CurveTo(p, q, r) => {
                add(p);
                add(q);
                add(r)
            }
            PathEl::ClosePath => {}
        }
    }
    if x0 > x1 {
        return None;
    }
    let diag = (x1 - x0).hypot(y1 - y0);
    let lim = reach_factor(a) * 0.5 * a[0] + 2.0 * (diag + a[0]) + 10.0 * a[5];
    let far = |p: Point| p.x < x0 - lim || p.x > x1 + lim || p.y < y0 - lim || p.y > y1 + lim;
    for e in out {
        let ps: Vec<Point> = match *e {
            PathEl::MoveTo(p) | PathEl::LineTo(p) => vec![p],
            PathEl::QuadTo(p, q) => vec![p, q],
            PathEl::CurveTo(p, q, r) => vec![p, q, r],
            PathEl::ClosePath => vec![],
        };
        for p in ps {
            if far(p) {
                return Some(p);
            }
        }
    }
    None
}

/// Cause of C04-hairpin-wild-outline, demonstrated on the output: the fitter emitted a cubic whose control arm
/// is out of all proportion to its chord - a control point farther from the source path than
/// reach + band + 2 * chord (a cubic that approximates a stretch of an offset curve turning by at most half a
/// turn keeps its control points within 0.7 chord of that curve).
fn runaway_cubic(out: &[PathEl], src: &[Poly], reach: f64, band: f64) -> Option<(Point, Point, Point)> {
    let mut last = Point::ORIGIN;
    let dist = |p: Point| src.iter().fold(f64::INFINITY, |m, s| m.min(s.dist(p).0));
    for e in out {
        match *e {
            PathEl::MoveTo(p) | PathEl::LineTo(p) => last = p,
            PathEl::QuadTo(a, b) => {
                let chord = (b - last).hypot();
                if dist(a) > reach + band + 2.0 * chord {
                    return Some((last, a, b));
                }
                last = b;
            }
            PathEl::CurveTo(a, b, c) => {
                let chord = (c - last).hypot();
                let lim = reach + band + 2.0 * chord;
                let (arm0, arm1) = ((a - last).hypot(), (b - c).hypot());
                if arm0.max(arm1) > 2.0 * chord && (dist(a) > lim || dist(b) > lim) {
                    return Some((last, if dist(a) > lim { a } else { b }, c));
                }
                // a control arm longer than the whole width plus twice the chord: no offset of a piece of the path is
                // shaped like that (a cubic spanning a half turn of radius r has arms 4r/3 on a chord 2r), wherever the
                // control point happens to land
                if arm0.max(arm1) > 2.0 * (reach + band) + 2.0 * chord {
                    return Some((last, if arm0 > arm1 { a } else { b }, c));
                }
                last = c;
            }
            PathEl::ClosePath => {}
        }
    }
    None
}

fn is_polyline(els: &[PathEl]) -> bool {
    els.iter().all(|e| !matches!(e, PathEl::QuadTo(..) | PathEl::CurveTo(..)))
}

// ------------------------------------------------------------------ classifiers for the known findings
// A violation is attributed to a known finding only if its known CAUSE is demonstrated on the input;
// everything else is a plain region:* violation.

/// Reference copy of `CubicBez::detect_cusp` as of the pinned tree (0 none, 1 loop, 2 double inflection).
/// Independent of the tree under test on purpose: a change to the library's own regularisation must not
/// excuse itself.
fn ref_detect_cusp(c: &CubicBez, dimension: f64) -> u8 {
    let d01 = c.p1 - c.p0;
    let d02 = c.p2 - c.p0;
    let d03 = c.p3 - c.p0;
    let d12 = c.p2 - c.p1;
    let d23 = c.p3 - c.p2;
    let det_012 = d01.cross(d02);
    let det_123 = d12.cross(d23);
    let det_013 = d01.cross(d03);
    let det_023 = d02.cross(d03);
    if det_012 * det_123 > 0.0 && det_012 * det_013 < 0.0 && det_012 * det_023 < 0.0 {
        let q = c.deriv();
        let nearest = q.nearest(Point::ORIGIN, 1e-9);
        let d = q.eval(nearest.t);
        let d2 = q.deriv().eval(nearest.t);
        let cross = d.to_vec2().cross(d2.to_vec2());
        if nearest.distance_sq.powi(3) <= (cross * dimension).powi(2) {
            let a = 3. * det_012 + det_023 - 2. * det_013;
            let b = -3. * det_012 + det_013;
            let cc = det_012;
            let disc = b * b - 4. * a * cc;
            return if disc > 0.0 { 2 } else { 1 };
        }
    }
    0
}

/// Reference copy of `CubicBez::regularize` as of the pinned tree, with the branch it takes:
/// "none", "start-nudge", "end-nudge", "thirds", "loop", "double-inflection" (nudges may combine with a cusp branch)
fn ref_regularize(cin: &CubicBez, dimension: f64) -> (CubicBez, String) {
    let mut c = *cin;
    let mut tag = String::new();
    let dim2 = dimension * dimension;
    if c.p0.distance_squared(c.p1) < dim2 {
        let d02 = c.p0.distance_squared(c.p2);
        if d02 >= dim2 {
            c.p1 = c.p0.lerp(c.p2, (dim2 / d02).sqrt());
            tag.push_str("start-nudge");
        } else {
            c.p1 = c.p0.lerp(c.p3, 1.0 / 3.0);
            c.p2 = c.p3.lerp(c.p0, 1.0 / 3.0);
            return (c, "thirds".into());
        }
    }
    if c.p3.distance_squared(c.p2) < dim2 {
        let d13 = c.p1.distance_squared(c.p2);
        if d13 >= dim2 {
            c.p2 = c.p3.lerp(c.p1, (dim2 / d13).sqrt());
            if !tag.is_empty() {
                tag.push('+');
            }
            tag.push_str("end-nudge");
        } else {
            c.p1 = c.p0.lerp(c.p3, 1.0 / 3.0);
            c.p2 = c.p3.lerp(c.p0, 1.0 / 3.0);
            return (c, "thirds".into());
        }
    }
    let ct = ref_detect_cusp(cin, dimension);
    if ct != 0 {
        let d01 = c.p1 - c.p0;
        let d01h = d01.hypot();
        let d23 = c.p3 - c.p2;
        let d23h = d23.hypot();
        if !tag.is_empty() {
            tag.push('+');
        }
        if ct == 1 {
            c.p1 += (dimension / d01h) * d01;
            c.p2 -= (dimension / d23h) * d23;
            tag.push_str("loop");
        } else {
            if d01h > 2.0 * dimension {
                c.p1 -= (dimension / d01h) * d01;
            }
            if d23h > 2.0 * dimension {
                c.p2 += (dimension / d23h) * d23;
            }
            tag.push_str("double-inflection");
        }
    }
    if tag.is_empty() {
        tag.push_str("none");
    }
    (c, tag)
}

fn cubic_d1(c: &[Point; 4], t: f64) -> Vec2 {
    let mt = 1.0 - t;
    3.0 * (mt * mt * (c[1] - c[0]) + 2.0 * mt * t * (c[2] - c[1]) + t * t * (c[3] - c[2]))
}
fn cubic_d2(c: &[Point; 4], t: f64) -> Vec2 {
    let mt = 1.0 - t;
    6.0 * (mt * (c[2].to_vec2() - 2.0 * c[1].to_vec2() + c[0].to_vec2()) + t * (c[3].to_vec2() - 2.0 * c[2].to_vec2() + c[1].to_vec2()))
}
fn curv_radius_at(c: &[Point; 4], t: f64) -> f64 {
    let (v, a) = (cubic_d1(c, t), cubic_d2(c, t));
    let sp = v.hypot();
    let k = v.cross(a).abs();
    if k > 0.0 { sp * sp * sp / k } else { f64::INFINITY }
}

/// radius of curvature of the source at its point nearest to q (infinite on straight pieces), and whether some
/// OTHER stretch of the source with radius of curvature below `half` comes within `lim` of q
fn tightness_near(src: &[Poly], q: Point, half: f64, lim: f64) -> (f64, bool, Option<[Point; 4]>) {
    let mut best = (f64::INFINITY, f64::INFINITY);
    let mut best_c: Option<[Point; 4]> = None;
    let mut tight_near = false;
    for s in src {
        if let Some(c) = s.ctrl {
            let n = s.pts.len() - 1;
            for (i, p) in s.pts.iter().enumerate() {
                let d = (q - *p).hypot();
                let rad = curv_radius_at(&c, i as f64 / n as f64);
                if d < best.0 {
                    best = (d, rad);
                    best_c = Some(c);
                }
                if rad < half && d <= lim {
                    tight_near = true;
                }
            }
        } else {
            let (d, _) = s.dist(q);
            if d < best.0 {
                best = (d, f64::INFINITY);
                best_c = None;
            }
        }
    }
    (best.1, tight_near, best_c)
}

/// a known cause demonstrated on the input: where (cusp point / affected end point), on which source cubic, for
/// arm mismatches the gap between the offset end points, which cause, and the demonstration in words
type Cause = (Point, [Point; 4], Option<f64>, &'static str, String);

/// the cause (if any) that explains a failure at query point q. An exact or unrecognised cusp: q is within `near`
/// of the cusp or q's nearest source point lies on the cusp's cubic (the offset fitted next to the cusp is what is
/// wrong). An arm mismatch: q is within `near` of the affected end, or q's nearest source point lies on the affected
/// cubic or on the segment joined to it at the affected end (whose offset starts from the misplaced point), and the
/// failure is by no more than twice the gap between the offset end points.
fn find_cause(causes: &[Cause], src: &[Poly], q: Point, near: f64, excess: f64) -> Option<(Point, &'static str, String)> {
    if causes.is_empty() {
        return None;
    }
    let mut np = 0;
    let mut bd = f64::INFINITY;
    for (i, s) in src.iter().enumerate() {
        let d = s.dist(q).0;
        if d < bd {
            bd = d;
            np = i;
        }
    }
    let np = &src[np];
    for (p, c, gap, name, why) in causes {
        let close = (q - *p).hypot() <= near;
        let on_cubic = np.ctrl == Some(*c);
        let hit = match gap {
            None => close || on_cubic,
            Some(gap) => (close || on_cubic || (np.lin_ctrl.is_none() && (np.pts.first() == Some(p) || np.pts.last() == Some(p)))) && excess <= 2.0 * gap,
        };
        if hit {
            return Some((*p, name, why.clone()));
        }
    }
    None
}

/// the sharpest point of a cubic (smallest radius of curvature) and that radius
fn cusp_tip(c: &[Point; 4]) -> (Point, f64) {
    let n = 2000;
    let mut best = (f64::INFINITY, 0.5);
    for i in 0..=n {
        let t = i as f64 / n as f64;
        let r = curv_radius_at(c, t);
        if r < best.0 {
            best = (r, t);
        }
    }
    (cubic_pt(c, best.1), best.0)
}

/// is the point of the cubic nearest to q within `win` of arc length from the cubic's sharpest point?
fn within_tip_window(c: &[Point; 4], q: Point, win: f64) -> bool {
    let n = 2000;
    let (mut it, mut rt) = (0usize, f64::INFINITY);
    let (mut iq, mut dq) = (0usize, f64::INFINITY);
    let pts: Vec<Point> = (0..=n).map(|i| cubic_pt(c, i as f64 / n as f64)).collect();
    for i in 0..=n {
        let r = curv_radius_at(c, i as f64 / n as f64);
        if r < rt {
            rt = r;
            it = i;
        }
        let d = (q - pts[i]).hypot();
        if d < dq {
            dq = d;
            iq = i;
        }
    }
    let (lo, hi) = (it.min(iq), it.max(iq));
    let mut len = 0.0;
    for i in lo..hi {
        len += (pts[i + 1] - pts[i]).hypot();
        if len > win {
            return false;
        }
    }
    true
}

/// Cause of C04-exact-cusp: the derivative of a source cubic vanishes (to 1e-6 of its largest control arm) at an
/// interior parameter: the normal flips there, the two parallel curves swap sides discontinuously.
fn exact_cusp(src: &[Poly]) -> Vec<(Point, [Point; 4], f64)> {
    let mut found = Vec::new();
    for s in src {
        if let Some(c) = s.ctrl {
            let arm = (c[1] - c[0]).hypot().max((c[2] - c[1]).hypot()).max((c[3] - c[2]).hypot());
            if arm == 0.0 {
                continue;
            }
            let n = 2000;
            let mut best = (f64::INFINITY, 0.0);
            for i in 1..n {
                let t = i as f64 / n as f64;
                let sp = cubic_d1(&c, t).hypot();
                if sp < best.0 {
                    best = (sp, t);
                }
            }
            // local refinement (ternary search on the speed)
            let (mut lo, mut hi) = ((best.1 - 1.0 / n as f64).max(0.0), (best.1 + 1.0 / n as f64).min(1.0));
            for _ in 0..80 {
                let (m1, m2) = (lo + (hi - lo) / 3.0, hi - (hi - lo) / 3.0);
                if cubic_d1(&c, m1).hypot() < cubic_d1(&c, m2).hypot() {
                    hi = m2;
                } else {
                    lo = m1;
                }
            }
            let t = 0.5 * (lo + hi);
            let sp = cubic_d1(&c, t).hypot();
            if t > 1e-3 && t < 1.0 - 1e-3 && sp <= 3e-5 * arm {
                found.push((cubic_pt(&c, t), c, sp / arm));
            }
        }
    }
    found
}

/// Cause of C04-unrecognised-cusp: a source cubic has an interior point whose radius of curvature is below the
/// regularisation dimension (tolerance/4) - a near-cusp that needs regularising - but the reference detect_cusp
/// does not classify it (its control polygon is not of the self-crossing shape the test looks for), so the raw
/// curve is offset across a half-turn of the normal within a stretch shorter than the tolerance.
fn unrecognised_cusp(src: &[Poly], tol: f64) -> Vec<(Point, [Point; 4], f64)> {
    let dim = 0.25 * tol;
    let mut found = Vec::new();
    for s in src {
        if let Some(c) = s.ctrl {
            let cb = CubicBez::new(c[0], c[1], c[2], c[3]);
            if ref_detect_cusp(&cb, dim) != 0 {
                continue;
            }
            let n = 4000;
            let mut best = (f64::INFINITY, 0.5);
            for i in 1..n {
                let t = i as f64 / n as f64;
                let r = curv_radius_at(&c, t);
                if r < best.0 {
                    best = (r, t);
                }
            }
            let (mut lo, mut hi) = ((best.1 - 1.0 / n as f64).max(0.0), (best.1 + 1.0 / n as f64).min(1.0));
            for _ in 0..80 {
                let (m1, m2) = (lo + (hi - lo) / 3.0, hi - (hi - lo) / 3.0);
                if curv_radius_at(&c, m1) < curv_radius_at(&c, m2) {
                    hi = m2;
                } else {
                    lo = m1;
                }
            }
            let t = 0.5 * (lo + hi);
            let r = curv_radius_at(&c, t).min(best.0);
            if t > 1e-3 && t < 1.0 - 1e-3 && r < dim {
                found.push((cubic_pt(&c, t), c, r));
            }
        }
    }
    found
}

/// Cause of C04-tight-curve-uncovered: q lies past the centre of curvature of a point of the source whose
/// normal passes through q within width/2 (the normal sweep folds over there: Jacobian 1 - s*kappa < 0),
/// so the parallel-curve outline (not the exact sweep) winds around q with cancelling signs.
fn past_evolute(src: &[Poly], q: Point, half: f64, band: f64) -> bool {
    for s in src {
        let c = match s.ctrl {
            Some(c) => c,
            None => continue,
        };
        let d1 = |t: f64| {
            let mt = 1.0 - t;
            3.0 * (mt * mt * (c[1] - c[0]) + 2.0 * mt * t * (c[2] - c[1]) + t * t * (c[3] - c[2]))
        };
        let d2 = |t: f64| {
            let mt = 1.0 - t;
            6.0 * (mt * (c[2].to_vec2() - 2.0 * c[1].to_vec2() + c[0].to_vec2()) + t * (c[3].to_vec2() - 2.0 * c[2].to_vec2() + c[1].to_vec2()))
        };
        let g = |t: f64| (q - cubic_pt(&c, t)).dot(d1(t));
        let n = 1000;
        let mut prev = g(0.0);
        for i in 1..=n {
            let t1 = i as f64 / n as f64;
            let cur = g(t1);
            if (prev > 0.0) != (cur > 0.0) {
                // a foot of q on the curve: refine
                let (mut lo, mut hi, mut glo) = (t1 - 1.0 / n as f64, t1, prev);
                for _ in 0..50 {
                    let mid = 0.5 * (lo + hi);
                    let gm = g(mid);
                    if (gm > 0.0) == (glo > 0.0) {
                        lo = mid;
                        glo = gm;
                    } else {
                        hi = mid;
                    }
                }
                let t = 0.5 * (lo + hi);
                let (v, a) = (d1(t), d2(t));
                let sp = v.hypot();
                if sp > 0.0 {
                    let nrm = Vec2::new(-v.y, v.x) / sp;
                    let off = (q - cubic_pt(&c, t)).dot(nrm);
                    let kappa = v.cross(a) / (sp * sp * sp);
                    if std::env::var("C04_DEBUG2").is_ok() {
                        eprintln!("FOOT t={} off={} kappa={} J={} speed={}", t, off, kappa, 1.0 - off * kappa, sp);
                    }
                    if off.abs() <= half + band && 1.0 - off * kappa < -0.05 {
                        return true;
                    }
                }
            }
            prev = cur;
        }
    }
    false
}

/// Reference copy (pinned tree) of the test in `StrokeCtx::do_cubic` that routes a cubic to `do_linear`
/// (control points nearly collinear and not monotone along the reference chord). On that route the stroker
/// neither regularises nor fits: none of the cusp / tip / tight-curve known findings applies to such a cubic.
fn ref_routes_linear(c: &CubicBez, tolerance: f64) -> bool {
    let chord = c.p3 - c.p0;
    let mut chord_ref = chord;
    let mut chord_ref_hypot2 = chord_ref.hypot2();
    let d01 = c.p1 - c.p0;
    if d01.hypot2() > chord_ref_hypot2 {
        chord_ref = d01;
        chord_ref_hypot2 = chord_ref.hypot2();
    }
    let d23 = c.p3 - c.p2;
    if d23.hypot2() > chord_ref_hypot2 {
        chord_ref = d23;
        chord_ref_hypot2 = chord_ref.hypot2();
    }
    let p0 = c.p0.to_vec2().dot(chord_ref);
    let p1 = c.p1.to_vec2().dot(chord_ref);
    let p2 = c.p2.to_vec2().dot(chord_ref);
    let p3 = c.p3.to_vec2().dot(chord_ref);
    const ENDPOINT_D: f64 = 0.01;
    if chord_ref_hypot2 <= tolerance.powi(2) || p3 <= p0 || p1 > p2 || p1 < p0 + ENDPOINT_D * (p3 - p0) || p2 > p3 - ENDPOINT_D * (p3 - p0) {
        let x01 = d01.cross(chord_ref);
        let x23 = d23.cross(chord_ref);
        let x03 = chord.cross(chord_ref);
        let thresh = tolerance.powi(2) * chord_ref_hypot2;
        if x01 * x01 < thresh && x23 * x23 < thresh && x03 * x03 < thresh {
            return true;
        }
    }
    false
}

/// reference copy of the cubic arm of `PathSeg::tangents` as of the pinned tree
fn ref_tangents(c: &CubicBez) -> (Vec2, Vec2) {
    const EPS: f64 = 1e-12;
    let d01 = c.p1 - c.p0;
    let d0 = if d01.hypot2() > EPS {
        d01
    } else {
        let d02 = c.p2 - c.p0;
        if d02.hypot2() > EPS { d02 } else { c.p3 - c.p0 }
    };
    let d23 = c.p3 - c.p2;
    let d1 = if d23.hypot2() > EPS {
        d23
    } else {
        let d13 = c.p3 - c.p1;
        if d13.hypot2() > EPS { d13 } else { c.p3 - c.p0 }
    };
    (d0, d1)
}

/// Cause of C04-short-arm-tangent-mismatch: a control arm shorter than the regularisation dimension (tolerance/4)
/// but longer than 1e-6 gives the direction of the cap / join at that end, while the offset curves are computed
/// from the regularised cubic whose arm points elsewhere; the two directions differ by so much that the end of
/// the offset curve is more than the band away from where the cap / join expects it.
fn arm_mismatch(els: &[PathEl], tol: f64, half: f64, band: f64) -> Vec<(Point, [Point; 4], f64, String)> {
    let dim = 0.25 * tol;
    let mut found = Vec::new();
    let mut last = Point::ORIGIN;
    let mut start = Point::ORIGIN;
    for el in els {
        let cubic = match *el {
            PathEl::MoveTo(p) => {
                start = p;
                last = p;
                None
            }
            PathEl::LineTo(p) => {
                last = p;
                None
            }
            PathEl::QuadTo(p1, p2) => {
                let c = raise(last, p1, p2);
                last = p2;
                Some(CubicBez::new(c[0], c[1], c[2], c[3]))
            }
            PathEl::CurveTo(p1, p2, p3) => {
                let c = CubicBez::new(last, p1, p2, p3);
                last = p3;
                Some(c)
            }
            PathEl::ClosePath => {
                last = start;
                None
            }
        };
        if let Some(c) = cubic {
            if ref_routes_linear(&c, tol) {
                continue;
            }
            let (rc, tag) = ref_regularize(&c, dim);
            if tag.contains("nudge") || tag.contains("thirds") {
                let (a0, a1) = ref_tangents(&c);
                let (b0, b1) = ref_tangents(&rc);
                for (a, b, which) in [(a0, b0, "start"), (a1, b1, "end")] {
                    let (la, lb) = (a.hypot(), b.hypot());
                    if la > 0.0 && lb > 0.0 {
                        let gap = half * ((a / la) - (b / lb)).hypot();
                        if gap > band {
                            found.push((if which == "start" { c.p0 } else { c.p3 }, [c.p0, c.p1, c.p2, c.p3], gap, format!("{} arm of {:?}: raw direction {:?}, regularised direction {:?}, offset end points {} apart", which, c, a / la, b / lb, gap)));
                        }
                    }
                }
            }
        }
    }
    found
}

/// the regularize branches (reference copy) of the curves of a path, for diagnostics
fn regularize_tags(els: &[PathEl], tol: f64) -> String {
    let dim = 0.25 * tol;
    let mut last = Point::ORIGIN;
    let mut start = Point::ORIGIN;
    let mut v: Vec<String> = Vec::new();
    for el in els {
        match *el {
            PathEl::MoveTo(p) => {
                start = p;
                last = p;
            }
            PathEl::LineTo(p) => last = p,
            PathEl::QuadTo(p1, p2) => {
                let c = raise(last, p1, p2);
                v.push(ref_regularize(&CubicBez::new(c[0], c[1], c[2], c[3]), dim).1);
                last = p2;
            }
            PathEl::CurveTo(p1, p2, p3) => {
                v.push(ref_regularize(&CubicBez::new(last, p1, p2, p3), dim).1);
                last = p3;
            }
            PathEl::ClosePath => last = start,
        }
    }
    v.join(",")
}

/// the path with every curve replaced by its reference regularisation (what the stroker actually offsets)
fn regularized_polys(els: &[PathEl], tol: f64, eps: f64) -> Vec<Poly> {
    let dim = 0.25 * tol;
    let mut v = Vec::new();
    let (mut last, mut start) = (Point::ORIGIN, Point::ORIGIN);
    for el in els {
        match *el {
            PathEl::MoveTo(p) => {
                start = p;
                last = p;
            }
            PathEl::LineTo(p) => last = p,
            PathEl::QuadTo(p1, p2) => {
                let c = raise(last, p1, p2);
                let cb = CubicBez::new(c[0], c[1], c[2], c[3]);
                let (rc, _) = if ref_routes_linear(&cb, tol) { (cb, String::new()) } else { ref_regularize(&cb, dim) };
                let mut pts = vec![rc.p0];
                flatten_cubic(&[rc.p0, rc.p1, rc.p2, rc.p3], eps, &mut pts);
                v.push(Poly::new(pts, false, true));
                last = p2;
            }
            PathEl::CurveTo(p1, p2, p3) => {
                let cb = CubicBez::new(last, p1, p2, p3);
                let (rc, _) = if ref_routes_linear(&cb, tol) { (cb, String::new()) } else { ref_regularize(&cb, dim) };
                let mut pts = vec![rc.p0];
                flatten_cubic(&[rc.p0, rc.p1, rc.p2, rc.p3], eps, &mut pts);
                v.push(Poly::new(pts, false, true));
                last = p3;
            }
            PathEl::ClosePath => last = start,
        }
    }
    v
}

// ------------------------------------------------------------------ law arguments
// [w, join, ml, start_cap, end_cap, tol, qseed, nq, ndash, dash_offset, dashes..., elements...]

struct Inst {
    a: Vec<f64>,
    st: Stroke,
    tol: f64,
    qseed: u64,
    nq: usize,
    dashes: Vec<f64>,
    dash_offset: f64,
    els: Vec<PathEl>,
}

fn decode(a: &[f64]) -> Inst {
    let nd = a[8] as usize;
    let dashes = a[10..10 + nd].to_vec();
    let els = dec_els(&a[10 + nd..]);
    let mut st = style_of(a);
    if nd > 0 {
        st = st.with_dashes(a[9], dashes.clone());
    }
    Inst { a: a.to_vec(), st, tol: a[5], qseed: a[6] as u64, nq: a[7] as usize, dashes, dash_offset: a[9], els }
}

fn encode(style: &[f64], qseed: u64, nq: usize, dash_offset: f64, dashes: &[f64], els: &[PathEl]) -> Vec<f64> {
    let mut v = style.to_vec();
    v.push((qseed % (1 << 40)) as f64);
    v.push(nq as f64);
    v.push(dashes.len() as f64);
    v.push(dash_offset);
    v.extend_from_slice(dashes);
    v.extend(enc_els(els));
    v
}

fn describe(i: &Inst) -> String {
    format!(
        "width={} join={} miter_limit={} caps={}/{} tolerance={} dashes={:?}@{} path={:?}",
        i.a[0], jname(i.a[1]), i.a[2], cname(i.a[3]), cname(i.a[4]), i.tol, i.dashes, i.dash_offset, i.els
    )
}

/// the farthest the style allows the fill to reach from the path, in units of width/2
fn reach_factor(a: &[f64]) -> f64 {
    let mut f: f64 = 1.0;
    if a[3] as i32 == 1 || a[4] as i32 == 1 {
        f = f.max(std::f64::consts::SQRT_2);
    }
    if a[1] as i32 == 1 {
        f = f.max(a[2]);
    }
    f
}

// ------------------------------------------------------------------ the region law

/// Point-membership oracle. Inside: every query whose nearest point on some source segment is interior to
/// it (by more than the band) and closer than width/2 - band, for straight segments and for curves whose
/// radius of curvature exceeds 1.3 * width/2 (any curve and any nearest point when joins and caps are round).
/// Outside: every query farther than reach * width/2 + band from the whole path.
/// band = 3 * tolerance + flattening errors of both oracles. Queries within the flattening error of the
/// outline itself are skipped. Non-finite outlines are not judged here (C14).
/// the known classes are frequent on the cusp families; only the first few of each are reported per run so that
/// the (capped) violation list keeps room for anything else
fn throttle(res: Option<(String, String)>) -> Option<(String, String)> {
    use std::sync::atomic::{AtomicUsize, Ordering};
    static COUNTS: [AtomicUsize; 7] = [AtomicUsize::new(0), AtomicUsize::new(0), AtomicUsize::new(0), AtomicUsize::new(0), AtomicUsize::new(0), AtomicUsize::new(0), AtomicUsize::new(0)];
    const KNOWN: [&str; 7] = ["outline:runaway-cubic:curve", "region:uncovered:past-evolute", "region:overreach:regularized-cusp", "region:uncovered:regularized-cusp",
        "region:short-arm-tangent-mismatch", "region:exact-cusp", "region:unrecognised-cusp"];
    if let Some((c, _)) = &res {
        for (i, k) in KNOWN.iter().enumerate() {
            if c.starts_with(k) {
                if COUNTS[i].fetch_add(1, Ordering::Relaxed) >= 12 && std::env::var("C04_NOTHROTTLE").is_err() {
                    return None;
                }
            }
        }
    }
    res
}

/// class of a wild outline: the known finding (runaway cubic next to a hairpin) only when the path has a curve
/// that the stroker offsets; for polylines and for cubics on the do_linear route (reference copy of the routing
/// test) the outline consists of lines and join / cap arcs and a wild outline is a violation
fn runaway_class(inst: &Inst) -> String {
    let mut last = Point::ORIGIN;
    let mut start = Point::ORIGIN;
    let mut offset_curve = false;
    for el in &inst.els {
        match *el {
            PathEl::MoveTo(p) => {
                start = p;
                last = p;
            }
            PathEl::LineTo(p) => last = p,
            PathEl::QuadTo(a, b) => {
                let c = raise(last, a, b);
                offset_curve |= !ref_routes_linear(&CubicBez::new(c[0], c[1], c[2], c[3]), inst.tol);
                last = b;
            }
            PathEl::CurveTo(a, b, c) => {
                offset_curve |= !ref_routes_linear(&CubicBez::new(last, a, b, c), inst.tol);
                last = c;
            }
            PathEl::ClosePath => last = start,
        }
    }
    let dashed = if inst.dashes.is_empty() { "" } else { ":dashed" };
    if offset_curve {
        format!("outline:runaway-cubic:curve{}", dashed)
    } else {
        format!("outline:wild:{}{}", if is_polyline(&inst.els) { "polyline" } else { "collinear" }, dashed)
    }
}

fn law_region(a: &[f64]) -> Option<(String, String)> {
    let res = region_core(decode(a), None);
    if std::env::var("C04_LINREPORT").is_ok() {
        // development aid: failures on inputs that contain a cubic on the do_linear route
        if let Some((c, d)) = &res {
            let inst = decode(a);
            let src = source_polys(&inst.els, inst.a[0], 0.02 * inst.tol);
            if src.iter().any(|s| s.lin_ctrl.is_some()) {
                eprintln!("LINROUTE {} {}", c, d);
            }
        }
    }
    throttle(res)
}

/// the region law on the collinear family (lines and cubics on the do_linear route only): no known finding applies
/// there, so whatever fails is reported under a class of its own that no known: line matches, unthrottled
fn law_region_collinear(a: &[f64]) -> Option<(String, String)> {
    region_core(decode(a), None).map(|(c, d)| (format!("collinear-route:{}", c), d))
}

/// the same judgement at one given query point: args = [qx, qy] ++ the arguments of the region law
fn law_region_at(a: &[f64]) -> Option<(String, String)> {
    region_core(decode(&a[2..]), Some(Point::new(a[0], a[1])))
}

fn region_core(inst: Inst, fixed_q: Option<Point>) -> Option<(String, String)> {
    let w = inst.a[0];
    let out = stroke(inst.els.iter().cloned(), &inst.st, &StrokeOpts::default(), inst.tol);
    if !all_finite(out.elements()) {
        return None;
    }
    if let Some(p) = wild_control_point(&inst.els, out.elements(), &inst.a) {
        return fail(
            &runaway_class(&inst),
            format!("outline control point {:?} is absurdly far from the path; {}", p, describe(&inst)),
        );
    }
    // the path whose offset region is the ideal: the dashes themselves when dashed (C13 owns dashing)
    let src_els: Vec<PathEl> = if inst.dashes.is_empty() { inst.els.clone() } else { dash(inst.els.iter().cloned(), inst.dash_offset, &inst.dashes).collect() };
    let eps = 0.02 * inst.tol;
    let src = source_polys(&src_els, w, eps);
    if src.is_empty() {
        if !out.elements().is_empty() && inst.dashes.is_empty() {
            return fail("region:output-for-empty-path", describe(&inst));
        }
        return None;
    }
    let polys = outline_polys(out.elements(), eps);
    let scale = src.iter().flat_map(|p| p.pts.iter()).fold(1.0f64, |m, p| m.max(p.x.abs()).max(p.y.abs()));
    let band = 3.0 * inst.tol + 2.0 * eps + 1e-9 * scale;
    let half = 0.5 * w;
    let reach = reach_factor(&inst.a) * half;
    let all_round = inst.a[1] as i32 == 2 && inst.a[3] as i32 == 2 && inst.a[4] as i32 == 2;
    if let Some((a, c, b)) = runaway_cubic(out.elements(), &src, reach, band) {
        return fail(
            &runaway_class(&inst),
            format!("the outline contains the cubic {:?} .. {:?} with control point {:?}, out of proportion to its chord and far from the path; {}", a, b, c, describe(&inst)),
        );
    }
    // points of the source around which an instance-level known cause is demonstrated (never on the do_linear route)
    let mut cause_pts: Vec<Cause> = Vec::new();
    for (pt, c, gap, why) in arm_mismatch(&src_els, inst.tol, half, band) {
        cause_pts.push((pt, c, Some(gap), "short-arm-tangent-mismatch", why));
    }
    for (cp, c, rel) in exact_cusp(&src) {
        cause_pts.push((cp, c, None, "exact-cusp", format!("the derivative of a source cubic vanishes at {:?} (speed / arm = {:e})", cp, rel)));
    }
    for (cp, c, rad) in unrecognised_cusp(&src, inst.tol) {
        cause_pts.push((cp, c, None, "unrecognised-cusp", format!("radius of curvature {:e} < tolerance/4 at {:?} of a cubic that detect_cusp does not classify", rad, cp)));
    }
    // how far beyond the band a Loop-regularised tip may be off and still be attributed (observed on the pinned tree: 0.2 * width/2)
    let loop_bound = (30.0 * inst.tol).max(0.25 * half);
    // "curve-tight": some curved source segment has a radius of curvature not comfortably above width/2
    // (there the parallel-curve construction is not the exact sweep; only round joins + caps reach such input)
    let kind = if is_polyline(&inst.els) { "polyline" } else if src.iter().all(|s| s.curv_ok) { "curve" } else { "curve-tight" };
    let dashed = if inst.dashes.is_empty() { "" } else { ":dashed" };
    // bounding box of the source
    let (mut x0, mut y0, mut x1, mut y1) = (f64::INFINITY, f64::INFINITY, f64::NEG_INFINITY, f64::NEG_INFINITY);
    for p in src.iter().flat_map(|p| p.pts.iter()) {
        x0 = x0.min(p.x);
        y0 = y0.min(p.y);
        x1 = x1.max(p.x);
        y1 = y1.max(p.y);
    }
    let infl = reach + band + 0.25 * w + 0.1;
    let mut r = Rng::new(inst.qseed ^ 0x5eed);
    // the sharpest points of the curved pieces (hairpin tips, cusps): query points are also placed around them
    let mut tips: Vec<(Point, Vec2)> = Vec::new();
    for s in &src {
        if let Some(c) = s.ctrl.or(s.lin_ctrl) {
            let mut best = (f64::INFINITY, 0.5);
            for i in 0..=400 {
                let t = i as f64 / 400.0;
                let mt = 1.0 - t;
                let v = 3.0 * (mt * mt * (c[1] - c[0]) + 2.0 * mt * t * (c[2] - c[1]) + t * t * (c[3] - c[2]));
                let a = 6.0 * (mt * (c[2].to_vec2() - 2.0 * c[1].to_vec2() + c[0].to_vec2()) + t * (c[3].to_vec2() - 2.0 * c[2].to_vec2() + c[1].to_vec2()));
                let sp = v.hypot();
                let k = v.cross(a).abs();
                let rad = if k > 0.0 { sp * sp * sp / k } else { f64::INFINITY };
                if rad < best.0 {
                    best = (rad, t);
                }
            }
            if best.0 < 2.0 * half {
                let t = best.1;
                let dt = 1e-3;
                let dir = cubic_pt(&c, (t + dt).min(1.0)) - cubic_pt(&c, (t - dt).max(0.0));
                tips.push((cubic_pt(&c, t), dir));
            }
        }
    }
    for s in &src {
        if let Some(c) = s.lin_ctrl {
            // turning points of a collinear cubic: local minima of the speed
            let sp: Vec<f64> = (0..=400).map(|i| cubic_d1(&c, i as f64 / 400.0).hypot()).collect();
            let mx = sp.iter().cloned().fold(0.0, f64::max);
            for i in 1..400 {
                if sp[i] <= sp[i - 1] && sp[i] <= sp[i + 1] && sp[i] < 0.05 * mx {
                    tips.push((cubic_pt(&c, i as f64 / 400.0), Vec2::ZERO));
                }
            }
        }
    }
    let mut known_hit: Option<(String, String)> = None;
    for _ in 0..(if fixed_q.is_some() { 1 } else { inst.nq }) {
        let q = if let Some(q) = fixed_q {
            q
        } else if !tips.is_empty() && r.chance(1, 3) {
            let (tp, _) = tips[r.below(tips.len() as u64) as usize];
            let th = r.uniform(0.0, 2.0 * PI);
            let rad = match r.below(4) {
                0 => half - band * r.uniform(1.0, 3.0),
                1 => reach + band * r.uniform(1.0, 3.0),
                _ => r.uniform(0.0, reach + 2.0 * band),
            };
            tp + Vec2::new(th.cos(), th.sin()) * rad.max(0.0)
        } else if r.chance(1, 4) {
            Point::new(r.uniform(x0 - infl, x1 + infl), r.uniform(y0 - infl, y1 + infl))
        } else {
            // near a random point of the path, offset by a distance concentrated around the interesting radii
            let s = &src[r.below(src.len() as u64) as usize];
            let i = 1 + r.below((s.pts.len() - 1) as u64) as usize;
            let (pa, pb) = (s.pts[i - 1], s.pts[i]);
            let u = match r.below(6) {
                0 => 0.0,
                1 => 1.0,
                _ => r.unit(),
            };
            let base = pa + (pb - pa) * u;
            let rad = match r.below(6) {
                0 => r.uniform(0.0, half),
                1 => half - band * r.uniform(1.0, 2.0),
                2 => reach + band * r.uniform(1.0, 2.0),
                3 => half + band * r.uniform(1.0, 2.0),
                4 => r.uniform(0.0, reach + band + 0.2 * w),
                _ => half * r.uniform(0.5, 1.0),
            };
            let th = if r.chance(1, 2) {
                // along the normal of this piece
                let d = pb - pa;
                d.y.atan2(d.x) + if r.bool() { PI / 2.0 } else { -PI / 2.0 }
            } else {
                r.uniform(0.0, 2.0 * PI)
            };
            base + Vec2::new(th.cos(), th.sin()) * rad.max(0.0)
        };
        // distances to the source
        let mut dmin = f64::INFINITY;
        let mut must_in = false;
        for s in &src {
            let (d, pos) = s.dist(q);
            dmin = dmin.min(d);
            // (a tight curve elsewhere in the path can cancel coverage here: outside the property's domain unless round/round)
            if d <= half - band && (s.is_line || s.curv_ok) && kind != "curve-tight" {
                let l = s.len();
                let interior = pos >= band && pos <= l - band;
                let de = (q - s.pts[0]).hypot().min((q - *s.pts.last().unwrap()).hypot());
                if interior && (s.is_line || de >= d + 4.0 * eps) {
                    must_in = true;
                }
            }
        }
        if all_round && dmin <= half - band {
            must_in = true;
        }
        let must_out = dmin >= reach + band;
        if !must_in && !must_out {
            continue;
        }
        let (wn, dout) = winding_and_dist(&polys, q);
        if std::env::var("C04_DEBUG3").is_ok() {
            eprintln!("WN q={:?} wn={} dmin={} must_in={} must_out={} nout={}", q, wn, dmin, must_in, must_out, out.elements().len());
        }
        if dout <= 2.0 * eps + 1e-12 * scale {
            continue;
        }
        if must_in && wn == 0 {
            if std::env::var("C04_DEBUG").is_ok() {
                eprintln!("SRC {}", kurbo::BezPath::from_vec(src_els.clone()).to_svg());
                eprintln!("OUT {}", out.to_svg());
                eprintln!("Q {:?} dmin {} kurbo-winding {}", q, dmin, kurbo::Shape::winding(&out, q));
            }
            let style = format!("{}-{}-{}{}", jname(inst.a[1]), cname(inst.a[3]), cname(inst.a[4]), dashed);
            let desc = format!("point {:?} at distance {} from the path (width/2 = {}, band {}) has winding number 0 in the outline; {} regularize=[{}]", q, dmin, half, band, describe(&inst), regularize_tags(&src_els, inst.tol));
            let slack = 12.0 * inst.tol;
            let (rad_near, tight_other, near_c) = tightness_near(&src, q, half, half + band);
            let near_cause = find_cause(&cause_pts, &src, q, 2.0 * reach + band, half - band - dmin);
            let near_tag = near_c.map(|c| ref_regularize(&CubicBez::new(c[0], c[1], c[2], c[3]), 0.25 * inst.tol).1).unwrap_or_default();
            let in_window = near_c.map(|c| within_tip_window(&c, q, half + band)).unwrap_or(false);
            if std::env::var("C04_DEBUG").is_ok() {
                eprintln!("CLS rad_near={} tight_other={} near_tag={} in_window={} short={} tol", rad_near, tight_other, near_tag, in_window, (half - band - dmin) / inst.tol);
            }
            let cause: Option<(String, String)> = if let Some((p, c, why)) = near_cause.clone() {
                Some((format!("{}:uncovered", c), format!("cause demonstrated at {:?}: {}", p, why)))
            } else if past_evolute(&src, q, half, band) {
                Some(("uncovered:past-evolute".into(), "q lies past the centre of curvature of a source point whose normal reaches it".to_string()))
            } else if rad_near >= half && tight_other {
                Some(("uncovered:past-evolute".into(), "q's nearest source point is regular but a stretch with radius of curvature below width/2 is within reach of q (its inner parallel curve is a swallowtail)".to_string()))
            } else if rad_near < half && in_window {
                // the tip of a hairpin / cusp: the stroker offsets the (reference-)regularised cubic and fits across the swing
                let reg = regularized_polys(&src_els, inst.tol, eps);
                let dreg = reg.iter().fold(f64::INFINITY, |m, s| m.min(s.dist(q).0));
                let short = half - band - dmin;
                if dreg > half - band - slack {
                    Some(("uncovered:regularized-cusp".into(), format!("q is {} from the regularised curve: not (robustly) inside its stroke; short by {:.2} tolerances beyond the band; tip of a [{}] cubic", dreg, short / inst.tol, near_tag)))
                } else if near_tag.contains("loop") && short <= loop_bound {
                    Some(("uncovered:regularized-cusp".into(), format!("q is at the tip (within width/2 of arc length) of a near-cusp that regularize treats as a Loop, short by {:.2} tolerances beyond the band (bound {:.2})", short / inst.tol, loop_bound / inst.tol)))
                } else if near_tag.contains("double-inflection") && short <= 30.0 * inst.tol {
                    Some(("uncovered:regularized-cusp".into(), format!("q is at the tip of a near-cusp that regularize treats as a double inflection, short by {:.2} <= 30 tolerances beyond the band", short / inst.tol)))
                } else {
                    None
                }
            } else {
                None
            };
            if let Some((c, why)) = cause {
                // known cause demonstrated: keep looking for a failure that is not explained
                if known_hit.is_none() {
                    known_hit = Some((format!("region:{}:{}", c, style), format!("({}) {}", why, desc)));
                }
                continue;
            }
            return fail(&format!("region:uncovered:{}:{}", kind, style), desc);
        }
        if must_out && wn != 0 {
            let style = format!("{}-{}-{}{}", jname(inst.a[1]), cname(inst.a[3]), cname(inst.a[4]), dashed);
            let desc = format!("point {:?} at distance {} from the path (allowed reach {} + band {}) has winding number {} in the outline; {} regularize=[{}]", q, dmin, reach, band, wn, describe(&inst), regularize_tags(&src_els, inst.tol));
            // known cause: the stroker offsets the REGULARISED cubic; near a cusp its tip lies more than the
            // tolerance away from the source's (reference copy of regularize, not the tree's own)
            let reg = regularized_polys(&src_els, inst.tol, eps);
            let dreg = reg.iter().fold(f64::INFINITY, |m, s| m.min(s.dist(q).0));
            let (rad_near, _, near_c) = tightness_near(&src, q, half, 0.0);
            let near_cause = find_cause(&cause_pts, &src, q, 2.0 * reach + band, dmin - reach - band);
            let near_tag = near_c.map(|c| ref_regularize(&CubicBez::new(c[0], c[1], c[2], c[3]), 0.25 * inst.tol).1).unwrap_or_default();
            let in_window = near_c.map(|c| within_tip_window(&c, q, half + band)).unwrap_or(false);
            let over = dmin - reach - band;
            // the tip of a Loop-regularised cubic close enough for its (bounded) overshoot to be what covers q
            let loop_tip_near = over <= loop_bound
                && src.iter().any(|s| match s.ctrl {
                    Some(c) if ref_regularize(&CubicBez::new(c[0], c[1], c[2], c[3]), 0.25 * inst.tol).1.contains("loop") => {
                        let (tp, rad) = cusp_tip(&c);
                        rad < half && (q - tp).hypot() <= reach + band + loop_bound
                    }
                    _ => false,
                });
            let tip = rad_near < half
                && in_window
                && (dreg < reach + band + 8.0 * inst.tol || (near_tag.contains("loop") && over <= loop_bound) || (near_tag.contains("double-inflection") && over <= 30.0 * inst.tol));
            if let Some((p, c, why)) = near_cause.clone() {
                if known_hit.is_none() {
                    known_hit = Some((format!("region:{}:overreach:{}", c, style), format!("(cause demonstrated at {:?}: {}) {}", p, why, desc)));
                }
                continue;
            }
            if dreg < reach + band || tip || loop_tip_near {
                if known_hit.is_none() {
                    known_hit = Some((format!("region:overreach:regularized-cusp:{}", style), format!("(q is {} from the regularised curve; nearest source point has radius of curvature {}; over by {:.2} tolerances) {}", dreg, rad_near, over / inst.tol, desc)));
                }
                continue;
            }
            return fail(&format!("region:overreach:{}:{}", kind, style), desc);
        }
    }
    known_hit
}

/// every contour starts with MoveTo and returns to its starting point (ClosePath, or a final point equal to
/// the first up to rounding); polyline input gives a finite outline made of lines (and arcs for round styles)
fn law_closed_finite(a: &[f64]) -> Option<(String, String)> {
    let inst = decode(a);
    let out = stroke(inst.els.iter().cloned(), &inst.st, &StrokeOpts::default(), inst.tol);
    let els = out.elements();
    let poly = is_polyline(&inst.els);
    if !all_finite(els) {
        if poly {
            return fail("nonfinite:polyline", describe(&inst));
        }
        return None; // curves: C14's finding, reported in the notes by `extra`
    }
    let scale = els.iter().filter_map(|e| e.end_point()).fold(1.0f64, |m, p| m.max(p.x.abs()).max(p.y.abs()));
    let mut start: Option<Point> = None;
    let mut last = Point::ORIGIN;
    let mut open = false;
    let check_return = |start: Option<Point>, last: Point| -> bool {
        match start {
            Some(s) => (s - last).hypot() <= 1e-9 * scale,
            None => true,
        }
    };
    for (i, e) in els.iter().enumerate() {
        match *e {
            PathEl::MoveTo(p) => {
                if open && !check_return(start, last) {
                    return fail("closure:contour-not-returning", format!("contour ending before element {} stops at {:?}, started at {:?}; {}", i, last, start, describe(&inst)));
                }
                start = Some(p);
                last = p;
                open = true;
            }
            PathEl::ClosePath => {
                if !open {
                    return fail("closure:closepath-without-contour", format!("element {}; {}", i, describe(&inst)));
                }
                open = false;
            }
            _ => {
                if !open {
                    return fail("closure:segment-outside-contour", format!("element {} follows a ClosePath without MoveTo; {}", i, describe(&inst)));
                }
                last = e.end_point().unwrap();
                if poly && matches!(e, PathEl::QuadTo(..)) {
                    return fail("closure:unexpected-quad", describe(&inst));
                }
            }
        }
    }
    if open && !check_return(start, last) {
        return fail("closure:contour-not-returning", format!("last contour stops at {:?}, started at {:?}; {}", last, start, describe(&inst)));
    }
    // contour count for a single sub-path of lines: open -> 1, closed -> 2 (undashed)
    if poly && inst.dashes.is_empty() {
        let nmove = inst.els.iter().filter(|e| matches!(e, PathEl::MoveTo(_))).count();
        let nclose = inst.els.iter().filter(|e| matches!(e, PathEl::ClosePath)).count();
        let nseg = source_polys(&inst.els, inst.a[0], 1.0).len();
        if nmove == 1 && matches!(inst.els[0], PathEl::MoveTo(_)) && nseg > 0 {
            let contours = els.iter().filter(|e| matches!(e, PathEl::MoveTo(_))).count();
            let closed_last = nclose == 1 && matches!(inst.els.last(), Some(PathEl::ClosePath));
            let want = if closed_last { 2 } else if nclose == 0 { 1 } else { contours };
            if contours != want {
                return fail("closure:contour-count", format!("{} contours, expected {}; {}", contours, want, describe(&inst)));
            }
        }
    }
    None
}

/// One- and two-segment polylines: the fill against the exact ideal shape of the style.
/// One segment: rectangle (butt), rectangle extended by width/2 (square), stadium (round), each end by its own cap.
/// Two segments: union of the two such pieces and the join shape on the outer side (bevel triangle,
/// miter quadrilateral when within the limit, circular sector).
fn law_exact_shape(a: &[f64]) -> Option<(String, String)> {
    let inst = decode(a);
    let w = inst.a[0];
    let half = 0.5 * w;
    let pts: Vec<Point> = inst.els.iter().filter_map(|e| e.end_point()).collect();
    if pts.len() < 2 || pts.len() > 3 || !is_polyline(&inst.els) || inst.els.len() != pts.len() {
        return None;
    }
    let out = stroke(inst.els.iter().cloned(), &inst.st, &StrokeOpts::default(), inst.tol);
    if !all_finite(out.elements()) {
        return fail("nonfinite:polyline", describe(&inst));
    }
    let eps = 0.02 * inst.tol.min(0.1 * w);
    let polys = outline_polys(out.elements(), eps);
    // band: join skipped below the threshold leaves a notch of depth <= tolerance; arcs are within 3e-4 * width/2
    let band = 1.5 * inst.tol + 1e-3 * half + 2.0 * eps + 1e-9;
    let (jn, sc, ec, ml) = (inst.a[1] as i32, inst.a[3] as i32, inst.a[4] as i32, inst.a[2]);
    let nseg = pts.len() - 1;
    // signed "depth" of q inside the ideal shape: > 0 inside by that much (lower bound), < 0 outside by that much
    let depth = |q: Point| -> f64 {
        let mut best = f64::NEG_INFINITY;
        for k in 0..nseg {
            let (p0, p1) = (pts[k], pts[k + 1]);
            let t = p1 - p0;
            let l = t.hypot();
            let u = t / l;
            let x = (q - p0).dot(u);
            let y = (q - p0).cross(u).abs();
            // extension at each end: caps at the path's ends; interior ends get no extension (the join shape covers)
            let ext = |cap: i32| if cap == 1 { half } else { 0.0 };
            let e0 = if k == 0 { ext(sc) } else { 0.0 };
            let e1 = if k == nseg - 1 { ext(ec) } else { 0.0 };
            let d_rect = (half - y).min(x + e0).min(l + e1 - x);
            best = best.max(d_rect);
            if k == 0 && sc == 2 {
                best = best.max(half - (q - p0).hypot());
            }
            if k == nseg - 1 && ec == 2 {
                best = best.max(half - (q - p1).hypot());
            }
        }
        if nseg == 2 {
            let p = pts[1];
            let (ab, cd) = (pts[1] - pts[0], pts[2] - pts[1]);
            let (cross, dot) = (ab.cross(cd), ab.dot(cd));
            let hyp = cross.hypot(dot);
            let n1 = Vec2::new(-ab.y, ab.x) * (half / ab.hypot());
            let n2 = Vec2::new(-cd.y, cd.x) * (half / cd.hypot());
            // outer side: forward (minus) when cross > 0
            let s = if cross > 0.0 { -1.0 } else { 1.0 };
            let (a1, a2) = (p + n1 * s, p + n2 * s);
            let tri_depth = |a: Point, b: Point, c: Point, q: Point| -> f64 {
                // signed distance to a triangle: min over edges of the inward distance (any orientation)
                let o = (b - a).cross(c - a).signum();
                let e = |u: Point, v: Point| o * (v - u).cross(q - u) / (v - u).hypot().max(1e-300);
                e(a, b).min(e(b, c)).min(e(c, a))
            };
            match jn {
                2 => best = best.max(half - (q - p).hypot()),
                _ => {
                    if hyp > 0.0 && (a1 - a2).hypot() > 1e-12 {
                        best = best.max(tri_depth(p, a1, a2, q));
                        if jn == 1 && cross != 0.0 && 2.0 * hyp < (hyp + dot) * ml * ml {
                            let m = p + (n1 + n2) * (s / (1.0 + dot / hyp));
                            best = best.max(tri_depth(a1, m, a2, q));
                        }
                    }
                }
            }
        }
        best
    };
    let jt = 2.0 * inst.tol / w;
    // when the join test is within rounding of its threshold, or the miter test of its limit, the shape is ambiguous
    if nseg == 2 {
        let (ab, cd) = (pts[1] - pts[0], pts[2] - pts[1]);
        let (cross, dot) = (ab.cross(cd), ab.dot(cd));
        let hyp = cross.hypot(dot);
        if (cross.abs() - hyp * jt).abs() <= 1e-9 * hyp || (jn == 1 && (2.0 * hyp - (hyp + dot) * ml * ml).abs() <= 1e-9 * hyp * (1.0 + ml * ml)) || dot.abs() <= 1e-12 * hyp {
            return None;
        }
    }
    let mut r = Rng::new(inst.qseed ^ 0xca9);
    let reach = reach_factor(&inst.a) * half + band;
    for _ in 0..inst.nq {
        let k = r.below(pts.len() as u64) as usize;
        let base = if r.chance(1, 3) { pts[k] } else { pts[k.min(nseg - 1)].lerp(pts[k.min(nseg - 1) + 1], r.unit()) };
        let th = r.uniform(0.0, 2.0 * PI);
        let rad = match r.below(4) {
            0 => r.uniform(0.0, reach * 1.2),
            1 => half + band * r.uniform(-3.0, 3.0),
            2 => half * std::f64::consts::SQRT_2 + band * r.uniform(-3.0, 3.0),
            _ => r.uniform(0.0, half),
        };
        let q = base + Vec2::new(th.cos(), th.sin()) * rad.max(0.0);
        let d = depth(q);
        if d.abs() <= band {
            continue;
        }
        let (wn, dout) = winding_and_dist(&polys, q);
        if dout <= 2.0 * eps + 1e-12 {
            continue;
        }
        let cls = format!("{}seg:{}-{}-{}", nseg, jname(inst.a[1]), cname(inst.a[3]), cname(inst.a[4]));
        if d > 0.0 && wn == 0 {
            return fail(&format!("shape:uncovered:{}", cls), format!("point {:?} is {} inside the ideal shape but has winding number 0; {}", q, d, describe(&inst)));
        }
        if d < 0.0 && wn != 0 {
            return fail(&format!("shape:overreach:{}", cls), format!("point {:?} is {} outside the ideal shape but has winding number {}; {}", q, -d, wn, describe(&inst)));
        }
    }
    None
}

/// no control point of the outline lies absurdly far from the path (finite but meaningless outlines)
fn law_outline_bounded(a: &[f64]) -> Option<(String, String)> {
    throttle(outline_bounded_core(a))
}

fn outline_bounded_core(a: &[f64]) -> Option<(String, String)> {
    let inst = decode(a);
    let out = stroke(inst.els.iter().cloned(), &inst.st, &StrokeOpts::default(), inst.tol);
    if !all_finite(out.elements()) {
        return None;
    }
    let cls = runaway_class(&inst);
    if let Some(p) = wild_control_point(&inst.els, out.elements(), &inst.a) {
        return fail(&cls, format!("outline control point {:?} is absurdly far from the path; {}", p, describe(&inst)));
    }
    let src_els: Vec<PathEl> = if inst.dashes.is_empty() { inst.els.clone() } else { dash(inst.els.iter().cloned(), inst.dash_offset, &inst.dashes).collect() };
    let eps = 0.02 * inst.tol;
    let src = source_polys(&src_els, inst.a[0], eps);
    if src.is_empty() {
        return None;
    }
    let half = 0.5 * inst.a[0];
    let band = 3.0 * inst.tol + 2.0 * eps;
    if let Some((p0, c, p3)) = runaway_cubic(out.elements(), &src, reach_factor(&inst.a) * half, band) {
        return fail(&cls, format!("the outline contains the cubic {:?} .. {:?} with control point {:?}, out of proportion to its chord and far from the path; {}", p0, p3, c, describe(&inst)));
    }
    None
}

// ------------------------------------------------------------------ generators for the laws

fn log_uniform(r: &mut Rng, lo: f64, hi: f64) -> f64 {
    (lo.ln() + (hi.ln() - lo.ln()) * r.unit()).exp()
}

fn law_style(r: &mut Rng) -> Vec<f64> {
    let w = log_uniform(r, 0.05, 10.0);
    let tol = log_uniform(r, 1e-3, 0.5);
    let ml = if r.chance(1, 3) { 4.0 } else { r.uniform(1.0, 10.0) };
    vec![w, r.below(3) as f64, ml, r.below(3) as f64, r.below(3) as f64, tol]
}

/// polylines with sharp turns and short segments
fn gen_sharp_polyline(r: &mut Rng, w: f64) -> Vec<PathEl> {
    let mut els = Vec::new();
    if r.chance(1, 4) {
        // a short segment next to a long one, sharp turn between them (inner side of the join is decisive),
        // or a polygon much smaller than the stroke is wide
        let p = Point::new(r.uniform(-10.0, 10.0), r.uniform(-10.0, 10.0));
        let d0 = r.uniform(0.0, 2.0 * PI);
        if r.bool() {
            let short = w * r.uniform(0.05, 0.45);
            let long = w * r.uniform(1.0, 4.0) + 1.0;
            let turn = r.uniform(0.3 * PI, 0.7 * PI) * if r.bool() { 1.0 } else { -1.0 };
            let p1 = p + Vec2::new(d0.cos(), d0.sin()) * short;
            let p2 = p1 + Vec2::new((d0 + turn).cos(), (d0 + turn).sin()) * long;
            els.push(PathEl::MoveTo(p));
            els.push(PathEl::LineTo(p1));
            els.push(PathEl::LineTo(p2));
            if r.chance(1, 3) {
                let t2 = d0 + turn + r.uniform(-2.5, 2.5);
                els.push(PathEl::LineTo(p2 + Vec2::new(t2.cos(), t2.sin()) * w * r.uniform(0.05, 2.0)));
            }
        } else {
            let n = r.range_i(3, 5);
            let rad = w * r.uniform(0.05, 0.6);
            els.push(PathEl::MoveTo(p + Vec2::new(d0.cos(), d0.sin()) * rad));
            for k in 1..n {
                let th = d0 + 2.0 * PI * k as f64 / n as f64 + r.uniform(-0.3, 0.3);
                els.push(PathEl::LineTo(p + Vec2::new(th.cos(), th.sin()) * rad * r.uniform(0.6, 1.4)));
            }
            els.push(PathEl::ClosePath);
        }
        return els;
    }
    let nsub = if r.chance(1, 4) { 2 } else { 1 };
    for _ in 0..nsub {
        let mut p = Point::new(r.uniform(-10.0, 10.0), r.uniform(-10.0, 10.0));
        els.push(PathEl::MoveTo(p));
        let n = r.range_i(1, 7);
        let mut dir = r.uniform(0.0, 2.0 * PI);
        for _ in 0..n {
            let len = match r.below(5) {
                0 => w * r.uniform(0.01, 0.5),   // shorter than the half width
                1 => w * r.uniform(0.5, 3.0),
                _ => r.uniform(0.5, 12.0),
            };
            dir += match r.below(6) {
                0 => PI * r.uniform(0.9, 1.1),     // nearly reversing
                1 => r.uniform(-0.05, 0.05),       // nearly straight
                2 => PI * r.uniform(0.6, 0.95) * if r.bool() { 1.0 } else { -1.0 },
                _ => r.uniform(-PI, PI),
            };
            p += Vec2::new(dir.cos(), dir.sin()) * len;
            els.push(PathEl::LineTo(p));
            if r.chance(1, 15) {
                els.push(PathEl::LineTo(p));
            }
        }
        if r.chance(1, 3) {
            els.push(PathEl::ClosePath);
        }
    }
    els
}

/// G1 chains of cubics/quads (tangent-continuous, so no join geometry), open
fn gen_smooth_chain(r: &mut Rng) -> Vec<PathEl> {
    let n = r.range_i(1, 4) as usize;
    let mut p = Point::new(r.uniform(-10.0, 10.0), r.uniform(-10.0, 10.0));
    let mut dir = r.uniform(0.0, 2.0 * PI);
    let mut els = vec![PathEl::MoveTo(p)];
    for _ in 0..n {
        let len = r.uniform(2.0, 12.0);
        let turn = r.uniform(-1.2, 1.2);
        let d0 = Vec2::new(dir.cos(), dir.sin());
        let dir1 = dir + turn;
        let d1 = Vec2::new(dir1.cos(), dir1.sin());
        let chord_dir = dir + 0.5 * turn;
        let p3 = p + Vec2::new(chord_dir.cos(), chord_dir.sin()) * len;
        let (k0, k1) = (r.uniform(0.25, 0.45), r.uniform(0.25, 0.45));
        if r.chance(1, 4) {
            // a quadratic with the same end tangents: control point at the intersection of the tangent lines
            let den = d0.cross(d1);
            if den.abs() > 0.05 {
                let t = (p3 - p).cross(d1) / den;
                if t > 0.1 * len && t < 2.0 * len {
                    let c = p + d0 * t;
                    if (p3 - c).dot(d1) > 0.05 * len {
                        els.push(PathEl::QuadTo(c, p3));
                        p = p3;
                        dir = dir1;
                        continue;
                    }
                }
            }
        }
        els.push(PathEl::CurveTo(p + d0 * (k0 * len), p3 - d1 * (k1 * len), p3));
        p = p3;
        dir = dir1;
    }
    els
}

/// arbitrary cubics, including loops and cusps
fn gen_wild_cubics(r: &mut Rng) -> Vec<PathEl> {
    let n = r.range_i(1, 3);
    let gp = |r: &mut Rng| Point::new(r.uniform(-10.0, 10.0), r.uniform(-10.0, 10.0));
    let mut p = gp(r);
    let mut els = vec![PathEl::MoveTo(p)];
    for _ in 0..n {
        match r.below(8) {
            0 => {
                // loop: control arms crossing
                let q = gp(r);
                let d = q - p;
                let nrm = Vec2::new(-d.y, d.x);
                els.push(PathEl::CurveTo(q + nrm * r.uniform(0.3, 1.5), p + nrm * r.uniform(0.3, 1.5), q));
                p = q;
            }
            1 => {
                // cusp: p1 - p0 and p3 - p2 arranged so that the derivative vanishes inside
                let q = gp(r);
                let m = p.midpoint(q);
                let d = q - p;
                let nrm = Vec2::new(-d.y, d.x);
                els.push(PathEl::CurveTo(q + nrm * 0.5, p + nrm * 0.5, q));
                let _ = m;
                p = q;
            }
            2 => {
                if r.bool() {
                    let (a, b) = (gp(r), gp(r));
                    els.push(PathEl::QuadTo(a, b));
                    p = b;
                } else {
                    // control points on one line (do_linear): overshoot and return, cusps inside or at the ends
                    let d = gp(r) - p;
                    let (s1, s2, s3) = match r.below(4) {
                        0 => (r.uniform(0.5, 2.0), r.uniform(-0.5, 0.5), r.uniform(0.3, 1.0)),
                        1 => (r.uniform(-0.5, 0.5), r.uniform(0.8, 1.8), 1.0),
                        2 => (r.uniform(0.2, 0.4), r.uniform(0.6, 0.8), 1.0),
                        _ => (r.uniform(-1.0, 2.0), r.uniform(-1.0, 2.0), r.uniform(-1.0, 2.0)),
                    };
                    let e = p + d * s3;
                    if e != p {
                        els.push(PathEl::CurveTo(p + d * s1, p + d * s2, e));
                        p = e;
                    }
                }
            }
            3 => {
                let b = gp(r);
                els.push(PathEl::LineTo(b));
                p = b;
            }
            4 => {
                // coincident control points (bit-identical): the tangent fall-backs of PathSeg::tangents are
                // what keeps these from being dropped or stroked with a zero normal
                // (added after seeded change C14a was missed by this check)
                let q = gp(r);
                let m = gp(r);
                let (a, b) = match r.below(6) {
                    0 => (p, p),  // P,P,P,Q: a straight line traversed as t^3
                    1 => (q, q),  // P,Q,Q,Q
                    2 => (p, q),  // P,P,Q,Q: the to_cubic of a line
                    3 => (p, m),  // P,P,M,Q
                    4 => (m, q),  // P,M,Q,Q
                    _ => (m, m),  // P,M,M,Q
                };
                if q != p {
                    els.push(PathEl::CurveTo(a, b, q));
                    p = q;
                }
            }
            _ => {
                let (a, b, c) = (gp(r), gp(r), gp(r));
                els.push(PathEl::CurveTo(a, b, c));
                p = c;
            }
        }
    }
    if r.chance(1, 4) {
        els.push(PathEl::ClosePath);
    }
    els
}

/// near-cusp cubics: an exact cusp at parameter t0 (derivative zero) perturbed by a multiple of the
/// regularisation dimension, control arms in ratios 1:1 .. 1:100 in both orders, several scales; also control
/// points within the dimension of an end point. Exercises every branch of `regularize` (tags in the evidence).
fn gen_near_cusp(r: &mut Rng) -> (Vec<f64>, Vec<PathEl>) {
    let scale = *r.pick(&[0.3, 1.0, 3.0, 10.0, 30.0]) * r.uniform(0.7, 1.4);
    let ratio = if r.chance(1, 4) { log_uniform(r, 100.0, 1000.0) } else { log_uniform(r, 1.0, 100.0) };
    let (la, lb) = if r.bool() { (scale, scale * ratio) } else { (scale * ratio, scale) };
    // keep the whole thing within a few hundred units
    let shrink = (200.0 / la.max(lb)).min(1.0);
    let (la, lb) = (la * shrink, lb * shrink);
    let w = (la.min(lb) * log_uniform(r, 0.05, 4.0)).clamp(0.05, 10.0);
    let tol = log_uniform(r, 1e-3, 0.5).min(0.08 * w).max(1e-3);
    let dim = 0.25 * tol;
    let phi = r.uniform(0.15, PI - 0.15) * if r.bool() { 1.0 } else { -1.0 };
    let (u, v) = (Vec2::new(1.0, 0.0), Vec2::new(phi.cos(), phi.sin()));
    let t0 = r.uniform(0.12, 0.88);
    let (d01, d23) = (u * la, v * lb);
    let pert = match r.below(6) {
        0 => 0.0,
        1 => dim * r.uniform(-3.0, 3.0),
        2 => dim * r.uniform(-40.0, 40.0),
        3 => la.min(lb) * r.uniform(-0.05, 0.05),
        _ => dim * log_uniform(r, 0.1, 100.0) * if r.bool() { 1.0 } else { -1.0 },
    };
    let pd = r.uniform(0.0, 2.0 * PI);
    let d12 = -((1.0 - t0) * (1.0 - t0) * d01 + t0 * t0 * d23) / (2.0 * t0 * (1.0 - t0)) + Vec2::new(pd.cos(), pd.sin()) * pert;
    let rot = r.uniform(0.0, 2.0 * PI);
    let org = Point::new(r.uniform(-5.0, 5.0), r.uniform(-5.0, 5.0));
    let tf = |x: Vec2| Vec2::new(x.x * rot.cos() - x.y * rot.sin(), x.x * rot.sin() + x.y * rot.cos());
    let p0 = org;
    let mut p1 = p0 + tf(d01);
    let mut p2 = p1 + tf(d12);
    let p3 = p2 + tf(d23);
    match r.below(10) {
        0 => p1 = p0 + tf(u) * (dim * r.uniform(0.0, 0.9)),          // start nudge
        1 => p2 = p3 - tf(v) * (dim * r.uniform(0.0, 0.9)),          // end nudge
        2 => {
            // both control points next to p0: the "thirds" fall-back
            p1 = p0 + tf(u) * (dim * r.uniform(0.0, 0.9));
            p2 = p0 + tf(v) * (dim * r.uniform(0.0, 0.9));
        }
        _ => {}
    }
    let mut els = vec![PathEl::MoveTo(p0)];
    if r.chance(1, 4) {
        let a = p0 - tf(Vec2::new(-0.6, 0.8)) * (la.min(lb) * r.uniform(0.5, 2.0));
        els = vec![PathEl::MoveTo(a), PathEl::LineTo(p0)];
    }
    els.push(PathEl::CurveTo(p1, p2, p3));
    if r.chance(1, 4) {
        els.push(PathEl::LineTo(p3 + tf(Vec2::new(0.6, 0.8)) * (la.min(lb) * r.uniform(0.5, 2.0))));
    }
    (vec![w, 2.0, 4.0, 2.0, 2.0, tol], els)
}

fn g_region_cusp(r: &mut Rng) -> Vec<f64> {
    let (st, els) = gen_near_cusp(r);
    let (qs, nq) = (r.next_u64(), 100 + r.below(60) as usize);
    encode(&st, qs, nq, 0.0, &[], &els)
}

/// cubics whose control points lie on one line (to within less than the tolerance): the stroker's `do_linear`
/// route. Doubling back once or twice, first / last control arm longer than the chord, coincident points.
/// No known class applies on this route: every unexplained point is a violation.
fn gen_collinear(r: &mut Rng) -> (Vec<f64>, Vec<PathEl>) {
    let len = *r.pick(&[1.0, 3.0, 10.0, 30.0]) * r.uniform(0.7, 1.4);
    let ang = r.uniform(0.0, 2.0 * PI);
    let d = Vec2::new(ang.cos(), ang.sin()) * len;
    let nrm = Vec2::new(-ang.sin(), ang.cos());
    let p0 = Point::new(r.uniform(-5.0, 5.0), r.uniform(-5.0, 5.0));
    let (s1, s2, s3) = match r.below(8) {
        0 => (r.uniform(-1.5, -0.1), r.uniform(0.5, 2.0), r.uniform(0.1, 0.9)),   // back, far forward, back: two cusps
        1 => (r.uniform(1.2, 3.0), r.uniform(0.3, 1.5), r.uniform(0.1, 1.0)),     // first arm longer than the chord
        2 => (r.uniform(-1.0, 0.5), r.uniform(-2.0, 0.5), r.uniform(0.1, 1.0)),   // last arm longer than the chord
        3 => (r.uniform(0.5, 2.0), r.uniform(-0.5, 0.5), r.uniform(0.3, 1.0)),
        4 => (r.uniform(-0.5, 0.5), r.uniform(0.8, 1.8), 1.0),
        5 => (0.0, r.uniform(1.1, 2.0), 1.0),                                      // p1 = p0, overshoot
        6 => (r.uniform(-1.0, 0.0), 1.0, 1.0),                                     // p2 = p3, start backwards
        _ => (r.uniform(-2.0, 3.0), r.uniform(-2.0, 3.0), r.uniform(-2.0, 3.0)),
    };
    let w = (len * log_uniform(r, 0.05, 1.0)).clamp(0.05, 10.0);
    let tol = log_uniform(r, 1e-3, 0.3).min(0.1 * w).max(1e-3);
    // off the line by less than the tolerance (still the do_linear route), or exactly on it
    let off = if r.chance(1, 3) { tol * r.uniform(-0.4, 0.4) } else { 0.0 };
    let off2 = if r.chance(1, 3) { tol * r.uniform(-0.4, 0.4) } else { 0.0 };
    let (p1, p2, p3) = (p0 + d * s1 + nrm * off, p0 + d * s2 + nrm * off2, p0 + d * s3);
    let mut els = vec![PathEl::MoveTo(p0)];
    if r.chance(1, 4) {
        let a = p0 - Vec2::new((ang + 0.9).cos(), (ang + 0.9).sin()) * (len * r.uniform(0.3, 1.0));
        els = vec![PathEl::MoveTo(a), PathEl::LineTo(p0)];
    }
    if p3 != p0 {
        els.push(PathEl::CurveTo(p1, p2, p3));
    } else {
        els.push(PathEl::LineTo(p0 + d));
    }
    if r.chance(1, 4) {
        let last = if p3 != p0 { p3 } else { p0 + d };
        els.push(PathEl::LineTo(last + Vec2::new((ang - 1.1).cos(), (ang - 1.1).sin()) * (len * r.uniform(0.3, 1.0))));
    }
    let st = if r.chance(2, 3) {
        vec![w, 2.0, 4.0, 2.0, 2.0, tol]
    } else {
        let mut st = law_style(r);
        st[0] = w;
        st[5] = tol;
        st
    };
    (st, els)
}

fn g_region_collinear(r: &mut Rng) -> Vec<f64> {
    let (st, els) = gen_collinear(r);
    let (qs, nq) = (r.next_u64(), 70 + r.below(40) as usize);
    encode(&st, qs, nq, 0.0, &[], &els)
}

fn nq_for(r: &mut Rng) -> usize {
    60 + r.below(40) as usize
}

fn g_region_polyline(r: &mut Rng) -> Vec<f64> {
    let st = law_style(r);
    let els = gen_sharp_polyline(r, st[0]);
    let (qs, nq) = (r.next_u64(), nq_for(r));
    encode(&st, qs, nq, 0.0, &[], &els)
}

fn g_region_smooth(r: &mut Rng) -> Vec<f64> {
    let mut st = law_style(r);
    let els = gen_smooth_chain(r);
    // keep the radius of curvature above 1.3 * width/2 on every segment by shrinking the width
    let mut rmin = f64::INFINITY;
    let mut last = Point::ORIGIN;
    for e in &els {
        match *e {
            PathEl::MoveTo(p) | PathEl::LineTo(p) => last = p,
            PathEl::QuadTo(a, b) => {
                rmin = rmin.min(min_curv_radius(&raise(last, a, b)));
                last = b;
            }
            PathEl::CurveTo(a, b, c) => {
                rmin = rmin.min(min_curv_radius(&[last, a, b, c]));
                last = c;
            }
            _ => {}
        }
    }
    if rmin.is_finite() && 0.5 * st[0] * 1.5 > rmin {
        st[0] = (rmin / 0.75 * r.uniform(0.5, 0.95)).clamp(0.05, 10.0);
    }
    let (qs, nq) = (r.next_u64(), nq_for(r));
    encode(&st, qs, nq, 0.0, &[], &els)
}

fn g_region_round(r: &mut Rng) -> Vec<f64> {
    let mut st = law_style(r);
    st[1] = 2.0;
    st[3] = 2.0;
    st[4] = 2.0;
    let els = if r.chance(1, 4) { gen_sharp_polyline(r, st[0]) } else { gen_wild_cubics(r) };
    let (qs, nq) = (r.next_u64(), nq_for(r));
    encode(&st, qs, nq, 0.0, &[], &els)
}

fn g_region_dashed(r: &mut Rng) -> Vec<f64> {
    let mut st = law_style(r);
    let els = match r.below(3) {
        0 => gen_sharp_polyline(r, st[0]),
        1 => gen_smooth_chain(r),
        _ => {
            st[1] = 2.0;
            st[3] = 2.0;
            st[4] = 2.0;
            gen_wild_cubics(r)
        }
    };
    let nd = 2 * r.range_i(1, 2) as usize;
    let dashes: Vec<f64> = (0..nd).map(|_| r.uniform(0.3, 6.0)).collect();
    let off = if r.bool() { 0.0 } else { r.uniform(0.0, 8.0) };
    let (qs, nq) = (r.next_u64(), nq_for(r));
    encode(&st, qs, nq, off, &dashes, &els)
}

/// the inner-join configuration with the decisive query point computed: first segment shorter than
/// width/2 * sin(turn), query inside the second segment's rectangle just behind the first segment
fn g_region_at(r: &mut Rng) -> Vec<f64> {
    let mut st = law_style(r);
    st[5] = st[5].min(0.02 * st[0]).max(1e-3);
    let w = st[0];
    let p = Point::new(r.uniform(-10.0, 10.0), r.uniform(-10.0, 10.0));
    let d0 = r.uniform(0.0, 2.0 * PI);
    let turn = r.uniform(0.35 * PI, 0.65 * PI) * if r.bool() { 1.0 } else { -1.0 };
    let short = 0.5 * w * turn.sin().abs() * r.uniform(0.2, 0.5);
    let u0 = Vec2::new(d0.cos(), d0.sin());
    let u1 = Vec2::new((d0 + turn).cos(), (d0 + turn).sin());
    let p1 = p + u0 * short;
    let p2 = p1 + u1 * (w * r.uniform(2.0, 4.0) + 1.0);
    // inner side: +normal of the second segment when turning left
    let n1 = Vec2::new(-u1.y, u1.x) * turn.signum();
    let q = p1 + u1 * (0.25 * w * r.uniform(0.02, 0.1) + 4.0 * st[5]) + n1 * (0.5 * w * r.uniform(0.75, 0.9) - 4.0 * st[5]).max(0.0);
    let els = vec![PathEl::MoveTo(p), PathEl::LineTo(p1), PathEl::LineTo(p2)];
    let mut v = vec![q.x, q.y];
    v.extend(encode(&st, 0, 1, 0.0, &[], &els));
    v
}

fn g_closed_finite(r: &mut Rng) -> Vec<f64> {
    match r.below(6) {
        0 => g_region_smooth(r),
        1 => g_region_round(r),
        2 => g_region_dashed(r),
        3 => {
            let st = law_style(r);
            let els = gen_generic_path(r);
            encode(&st, 0, 0, 0.0, &[], &els)
        }
        _ => g_region_polyline(r),
    }
}

fn g_exact_shape(r: &mut Rng) -> Vec<f64> {
    let mut st = law_style(r);
    // the ideal shape is only unambiguous when the tolerance is small against the width
    st[5] = st[5].min(0.05 * st[0]).max(1e-3);
    let p0 = Point::new(r.uniform(-10.0, 10.0), r.uniform(-10.0, 10.0));
    let d0 = r.uniform(0.0, 2.0 * PI);
    let l0 = st[0] * r.uniform(1.5, 6.0) + r.uniform(0.0, 3.0);
    let p1 = p0 + Vec2::new(d0.cos(), d0.sin()) * l0;
    let mut els = vec![PathEl::MoveTo(p0), PathEl::LineTo(p1)];
    if r.chance(2, 3) {
        // second segment: long enough that the pieces do not interfere beyond the join
        let turn = r.uniform(-0.97 * PI, 0.97 * PI);
        let l1 = st[0] * r.uniform(1.5, 6.0) + r.uniform(0.0, 3.0);
        let d1 = d0 + turn;
        els.push(PathEl::LineTo(p1 + Vec2::new(d1.cos(), d1.sin()) * l1));
    }
    let (qs, nq) = (r.next_u64(), 80);
    encode(&st, qs, nq, 0.0, &[], &els)
}

fn laws() -> Vec<Law> {
    vec![
        Law { name: "region_polyline", gen: g_region_polyline, check: law_region, weight: 4 },
        Law { name: "region_smooth", gen: g_region_smooth, check: law_region, weight: 3 },
        Law { name: "region_round", gen: g_region_round, check: law_region, weight: 3 },
        Law { name: "region_cusp", gen: g_region_cusp, check: law_region, weight: 6 },
        Law { name: "region_collinear", gen: g_region_collinear, check: law_region_collinear, weight: 3 },
        Law { name: "region_dashed", gen: g_region_dashed, check: law_region, weight: 1 },
        Law { name: "region_at_point", gen: g_region_at, check: law_region_at, weight: 1 },
        Law { name: "closed_finite", gen: g_closed_finite, check: law_closed_finite, weight: 6 },
        Law { name: "outline_bounded", gen: g_closed_finite, check: law_outline_bounded, weight: 12 },
        Law { name: "exact_shape", gen: g_exact_shape, check: law_exact_shape, weight: 6 },
    ]
}

fn extra(r: &mut Rng, thorough: bool, o: &mut Out) {
    // non-finite outlines on curved input are C14's business: counted and reported, never judged here
    let n = if thorough { 3000 } else { 200 };
    let mut bad = 0;
    let mut first: Option<String> = None;
    for _ in 0..n {
        let a = if r.bool() { g_region_round(r) } else { g_region_smooth(r) };
        let inst = decode(&a);
        let out = stroke(inst.els.iter().cloned(), &inst.st, &StrokeOpts::default(), inst.tol);
        if !all_finite(out.elements()) {
            bad += 1;
            if first.is_none() {
                first = Some(describe(&inst));
            }
        }
    }
    o.notes.push(format!("non-finite outlines on curved input (C14's finding; excluded from the region laws): {} of {} random instances{}", bad, n,
        first.map(|f| format!("; first: {}", f)).unwrap_or_default()));
    // which branch of CubicBez::regularize the near-cusp family reaches (reference copy), and whether the tree's own
    // detect_cusp agrees with the reference copy
    {
        let m = if thorough { 20000 } else { 2000 };
        let mut tags: BTreeMap<String, u64> = BTreeMap::new();
        let mut ratios: BTreeMap<String, u64> = BTreeMap::new();
        let mut differ = 0;
        for _ in 0..m {
            let (st, els) = gen_near_cusp(r);
            let dim = 0.25 * st[5];
            let mut last = Point::ORIGIN;
            for e in &els {
                match *e {
                    PathEl::MoveTo(p) | PathEl::LineTo(p) => last = p,
                    PathEl::CurveTo(a, b, c) => {
                        let cb = CubicBez::new(last, a, b, c);
                        let (_, tag) = ref_regularize(&cb, dim);
                        *tags.entry(tag.clone()).or_default() += 1;
                        if cb.verif_detect_cusp(dim) != ref_detect_cusp(&cb, dim) {
                            differ += 1;
                        }
                        if tag.contains("loop") || tag.contains("double") {
                            let ra = (b - c).hypot() / (a - last).hypot().max(1e-300);
                            let bucket = if ra < 0.03 { "<1:30" } else if ra < 0.3 { "1:30..1:3" } else if ra < 3.0 { "~1:1" } else if ra < 30.0 { "3:1..30:1" } else { ">30:1" };
                            *ratios.entry(format!("{}@{}", if tag.contains("loop") { "loop" } else { "dbl-infl" }, bucket)).or_default() += 1;
                        }
                        last = c;
                    }
                    _ => {}
                }
            }
        }
        let t: Vec<String> = tags.iter().map(|(k, v)| format!("{}={}", k, v)).collect();
        let q: Vec<String> = ratios.iter().map(|(k, v)| format!("{}={}", k, v)).collect();
        o.notes.push(format!("near-cusp family: regularize branches reached: {}; cusp type by last-arm:first-arm ratio: {}; tree's detect_cusp differs from the reference copy on {} of {} cubics", t.join(" "), q.join(" "), differ, m));
    }
    // regression: a double-inflection hairpin with arms 1:200 (seeded change to CubicBez::regularize, C14c/C04): the
    // unchanged tree strokes its tip correctly at this tolerance
    {
        let els = [PathEl::MoveTo(Point::new(0.0, 0.0)), PathEl::CurveTo(Point::new(0.5, 0.0), Point::new(0.255, -49.995), Point::new(0.255, 50.005))];
        let a = encode(&[1.0, 2.0, 4.0, 2.0, 2.0, 0.01], 12345, 400, 0.0, &[], &els);
        o.oracle_eval("region_cusp");
        if let Some((class, desc)) = region_core(decode(&a), None) {
            o.violation(&class, desc, format!("{{\"law\":\"region_cusp\",\"args\":{}}}", crate::util::fmt_fs(&a)));
        }
    }
    // regressions: collinear cubics on the do_linear route (seeded changes to StrokeCtx::do_linear / do_cubic):
    // doubling back twice; first control arm longer than the chord. The unchanged tree strokes them correctly.
    {
        let c = |a: (f64, f64), b: (f64, f64), c: (f64, f64), d: (f64, f64)| [PathEl::MoveTo(Point::new(a.0, a.1)), PathEl::CurveTo(Point::new(b.0, b.1), Point::new(c.0, c.1), Point::new(d.0, d.1))];
        for (w, els) in [
            (4.0, c((0.0, 0.0), (-10.0, 0.0), (14.0, 0.0), (3.0, 0.0))),
            (3.0, c((1.0, 10.0), (1.0, 0.0), (1.0, 20.0), (1.0, 10.0))),
            (3.0, c((0.0, 10.0), (-6.0, 0.0), (6.0, 20.0), (0.6, 11.0))),
            (2.0, c((0.0, 0.0), (18.0, 24.0), (9.0, 12.0), (6.0, 8.0))),
        ] {
            let a = encode(&[w, 2.0, 4.0, 2.0, 2.0, 0.01], 777, 400, 0.0, &[], &els);
            o.oracle_eval("region_collinear");
            if let Some((class, desc)) = law_region_collinear(&a) {
                o.violation(&class, desc, format!("{{\"law\":\"region_collinear\",\"args\":{}}}", crate::util::fmt_fs(&a)));
            }
        }
    }
    // witness of the inner-join defect (repaired by proposed_fixes/C04-inner-join-pivot.diff):
    // M(0,0) L(1,0) L(1,10), width 4, bevel, butt: (-0.5, 0.25) is 1.5 from the interior point (1, 0.25)
    {
        let els = [PathEl::MoveTo(Point::new(0.0, 0.0)), PathEl::LineTo(Point::new(1.0, 0.0)), PathEl::LineTo(Point::new(1.0, 10.0))];
        let mut a = vec![-0.5, 0.25];
        a.extend(encode(&[4.0, 0.0, 4.0, 0.0, 0.0, 0.01], 0, 1, 0.0, &[], &els));
        o.oracle_eval("region_at_point");
        if let Some((class, desc)) = law_region_at(&a) {
            o.violation(&class, desc, format!("{{\"law\":\"region_at_point\",\"args\":{}}}", crate::util::fmt_fs(&a)));
        }
    }
    // known findings: witnesses, each judged by the law whose classifier must demonstrate the known cause on it
    {
        let cub = |p0: (f64, f64), p1: (f64, f64), p2: (f64, f64), p3: (f64, f64), close: bool| {
            let mut v = vec![PathEl::MoveTo(Point::new(p0.0, p0.1)), PathEl::CurveTo(Point::new(p1.0, p1.1), Point::new(p2.0, p2.1), Point::new(p3.0, p3.1))];
            if close {
                v.push(PathEl::ClosePath);
            }
            v
        };
        let mut at = |id: &str, want: &str, q: (f64, f64), st: [f64; 6], els: Vec<PathEl>, o: &mut Out| {
            let mut a = vec![q.0, q.1];
            a.extend(encode(&st, 0, 1, 0.0, &[], &els));
            let res = law_region_at(&a);
            let hit = matches!(&res, Some((c, _)) if c.starts_with(want));
            o.known(id, hit, res.map(|x| format!("{}: {}", x.0, x.1)).unwrap_or_else(|| "the witness no longer fails".into()));
        };
        let els = cub((7.668605785057374, -0.028511970636109663), (2.9263895180411756, 1.6903958755584907), (2.3052348387148136, 0.7266178054876502), (2.4106899362622545, 0.848889309684042), false);
        let a = encode(&[0.24274319433519495, 2.0, 4.0, 2.0, 2.0, 0.011027175279603778], 0, 0, 0.0, &[], &els);
        let res = outline_bounded_core(&a);
        o.known("C04-hairpin-wild-outline", res.is_some(), res.map(|x| x.1).unwrap_or_else(|| "outline of the witness is bounded".into()));
        at("C04-tight-curve-uncovered", "region:uncovered:past-evolute", (2.797532786320815, -0.6642382095771762), [0.6955085470872964, 2.0, 4.0, 2.0, 2.0, 0.05564068376698371],
            cub((2.931439491793409, -0.6738683902987939), (3.1875764235728115, 0.2753771382530463), (0.5238841942716137, -1.2028278670763584), (9.013916576239716, 1.0646005642220562), false), o);
        at("C04-tight-curve-overreach", "region:overreach:regularized-cusp", (1.7939114907387634, 0.469703120115587), [2.6475379754299553, 2.0, 4.0, 2.0, 2.0, 0.0015106742541396117],
            vec![PathEl::MoveTo(Point::new(4.565792371093728, 1.177169700155142)), PathEl::LineTo(Point::new(0.9507811342691959, 2.789052816943417)),
                 PathEl::CurveTo(Point::new(4.26392518068368, 4.633024882441313), Point::new(1.3677931111350223, -1.8559245297297506), Point::new(3.554624582939456, 4.742761446527548)),
                 PathEl::LineTo(Point::new(4.271678933757974, 9.997012060321804))], o);
        at("C04-unrecognised-cusp", "region:unrecognised-cusp", (-5.20413822695242, 0.1090127940283), [1.413459109700561, 2.0, 4.0, 2.0, 2.0, 0.00778829969079009],
            cub((-4.7054032645368, -0.7271798595249628), (-5.633765030884642, -0.08978645310175293), (-4.093026857342927, 0.05168164555888333), (-3.156971929117649, -9.219458667630754), false), o);
        at("C04-cusp-tip-short", "region:uncovered:regularized-cusp", (97.63251517702321, -0.23636747138676206), [2.641168287167404, 2.0, 4.0, 2.0, 2.0, 0.017678796959989657],
            cub((-0.05711805948388182, -3.4302413087626116), (199.8748688960256, 1.785177372608283), (27.698872612477857, -2.156844534475717), (27.0393911765674, -4.050032572791746), false), o);
        at("C04-short-arm-tangent-mismatch", "region:short-arm-tangent-mismatch", (1.6437865968322547, -2.1086731508489813), [10.0, 2.0, 4.0, 2.0, 2.0, 0.0017],
            cub((1.6951992645032563, -2.091204299996441), (1.6949764177316848, -2.091208694175947), (9.855149038048495, -0.545197359770941), (41.779410760159024, -6.35659470420728), false), o);
        at("C04-exact-cusp", "region:exact-cusp", (-4.098747237573293, -3.044811972943113), [4.569130538947639, 2.0, 3.9578143732688287, 2.0, 2.0, 0.028255313886926862],
            cub((-7.12468275121468, -9.842733580771599), (-3.5780006572324767, -0.06767752923288128), (-10.325368753033725, -6.469049532870974), (-0.37731465541343034, -3.441361577133506), false), o);
    }
    // the collinear cubic A,B,A,B named in DESIGN.md section 5 (#8): random instances, counted only
    let (mut nan, tot) = (0, if thorough { 2000 } else { 200 });
    let mut first: Option<String> = None;
    for _ in 0..tot {
        let (pa, pb) = (Point::new(r.uniform(-10.0, 10.0), r.uniform(-10.0, 10.0)), Point::new(r.uniform(-10.0, 10.0), r.uniform(-10.0, 10.0)));
        let els = [PathEl::MoveTo(pa), PathEl::CurveTo(pb, pa, pb)];
        let w = log_uniform(r, 0.05, 10.0);
        let tol = log_uniform(r, 1e-3, 0.5);
        let out = stroke(els.iter().cloned(), &Stroke::new(w), &StrokeOpts::default(), tol);
        if !all_finite(out.elements()) {
            nan += 1;
            if first.is_none() {
                first = Some(format!("A={:?} B={:?} width={} tolerance={}", pa, pb, w, tol));
            }
        }
    }
    o.notes.push(format!("collinear cubic A,B,A,B (C14): non-finite outline in {} of {} random instances{}", nan, tot, first.map(|f| format!("; first: {}", f)).unwrap_or_default()));
}
