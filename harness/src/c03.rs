//! C03 — arc length is accurate to the requested accuracy and invertible.
//!
//! Correspondence: Line/QuadBez/CubicBez/PathSeg arclen, the hook `verif_arclen_rec` (value and the
//! number of arclen_rec calls from the work counter), inv_arclen (parameter and work = arclen_rec calls
//! + ITP iterations), perimeter. Everything reaches libm (hypot, ln, powf, log2): tolerance 1e-9,
//! generic inputs; the integer outputs are thereby compared exactly.
//!
//! Laws: the accuracy claim itself against an independent reference integrator (adaptive composite
//! Gauss-Legendre with its own nodes, split at the stationary points of the speed, two orders that
//! must agree), additivity under split, perimeter = sum, inv_arclen range / ends / residual / monotone.
use crate::geom::*;
use crate::util::{Out, Rng};
use crate::{Law, Prop};
use kurbo::{BezPath, CubicBez, Line, ParamCurve, ParamCurveArclen, PathSeg, Point, QuadBez, Shape};
use std::sync::OnceLock;

pub fn prop() -> Prop {
    Prop { id: "C03", corr, laws, extra, law_budget: (400, 30000) }
}

// ------------------------------------------------------------------ reference integrator

pub struct Gl {
    pub x: Vec<f64>,
    pub w: Vec<f64>,
}

/// Gauss-Legendre nodes and weights on [-1,1] by Newton iteration on the Legendre recurrence
/// (independent of kurbo's tables).
pub fn gl_nodes(n: usize) -> Gl {
    let mut x = vec![0.0; n];
    let mut w = vec![0.0; n];
    let leg = |z: f64| {
        let (mut p0, mut p1) = (1.0, z);
        for k in 2..=n {
            let p2 = ((2 * k - 1) as f64 * z * p1 - (k - 1) as f64 * p0) / k as f64;
            p0 = p1;
            p1 = p2;
        }
        (p1, n as f64 * (z * p1 - p0) / (z * z - 1.0))
    };
    for i in 0..n {
        let mut z = (std::f64::consts::PI * (i as f64 + 0.75) / (n as f64 + 0.5)).cos();
        for _ in 0..100 {
            let (p, dp) = leg(z);
            let dz = p / dp;
            z -= dz;
            if dz.abs() < 1e-16 {
                break;
            }
        }
        let (_, dp) = leg(z);
        x[i] = z;
        w[i] = 2.0 / ((1.0 - z * z) * dp * dp);
    }
    Gl { x, w }
}

fn gls() -> &'static (Gl, Gl) {
    static G: OnceLock<(Gl, Gl)> = OnceLock::new();
    G.get_or_init(|| (gl_nodes(16), gl_nodes(24)))
}

/// derivative vector of the segment at t, from the control points (own formulas)
fn deriv(s: &PathSeg, t: f64) -> (f64, f64) {
    let mt = 1.0 - t;
    match s {
        PathSeg::Line(l) => (l.p1.x - l.p0.x, l.p1.y - l.p0.y),
        PathSeg::Quad(q) => {
            let f = |a: f64, b: f64, c: f64| 2.0 * (mt * (b - a) + t * (c - b));
            (f(q.p0.x, q.p1.x, q.p2.x), f(q.p0.y, q.p1.y, q.p2.y))
        }
        PathSeg::Cubic(c) => {
            let f = |a: f64, b: f64, cc: f64, d: f64| 3.0 * (mt * mt * (b - a) + 2.0 * mt * t * (cc - b) + t * t * (d - cc));
            (f(c.p0.x, c.p1.x, c.p2.x, c.p3.x), f(c.p0.y, c.p1.y, c.p2.y, c.p3.y))
        }
    }
}
fn speed(s: &PathSeg, t: f64) -> f64 {
    let (x, y) = deriv(s, t);
    x.hypot(y)
}

fn gl_int(g: &Gl, s: &PathSeg, a: f64, b: f64) -> f64 {
    let h = 0.5 * (b - a);
    let m = 0.5 * (a + b);
    let mut acc = 0.0;
    for i in 0..g.x.len() {
        acc += g.w[i] * speed(s, m + h * g.x[i]);
    }
    acc * h
}

fn adapt(g: &Gl, s: &PathSeg, a: f64, b: f64, whole: f64, tol: f64, depth: u32) -> f64 {
    let m = 0.5 * (a + b);
    let l = gl_int(g, s, a, m);
    let r = gl_int(g, s, m, b);
    let sum = l + r;
    if ((sum - whole).abs() <= tol && depth >= 2) || depth >= 60 || m <= a || m >= b {
        sum
    } else {
        adapt(g, s, a, m, l, tol, depth + 1) + adapt(g, s, m, b, r, tol, depth + 1)
    }
}

fn poly_len(s: &PathSeg) -> f64 {
    let d = |a: Point, b: Point| (b.x - a.x).hypot(b.y - a.y);
    match s {
        PathSeg::Line(l) => d(l.p0, l.p1),
        PathSeg::Quad(q) => d(q.p0, q.p1) + d(q.p1, q.p2),
        PathSeg::Cubic(c) => d(c.p0, c.p1) + d(c.p1, c.p2) + d(c.p2, c.p3),
    }
}
fn max_abs(s: &PathSeg) -> f64 {
    let c = s.to_cubic();
    [c.p0, c.p1, c.p2, c.p3].iter().fold(0.0f64, |m, p| m.max(p.x.abs()).max(p.y.abs()))
}

/// power-basis coefficients of the derivative: B'(t) = A + B t + C t^2
fn deriv_poly(s: &PathSeg) -> [(f64, f64); 3] {
    match s {
        PathSeg::Line(l) => [(l.p1.x - l.p0.x, l.p1.y - l.p0.y), (0.0, 0.0), (0.0, 0.0)],
        PathSeg::Quad(q) => {
            let a = (2.0 * (q.p1.x - q.p0.x), 2.0 * (q.p1.y - q.p0.y));
            let b = (2.0 * (q.p2.x - 2.0 * q.p1.x + q.p0.x), 2.0 * (q.p2.y - 2.0 * q.p1.y + q.p0.y));
            [a, b, (0.0, 0.0)]
        }
        PathSeg::Cubic(c) => {
            let f = |p0: f64, p1: f64, p2: f64, p3: f64| {
                let (d0, d1, d2) = (p1 - p0, p2 - p1, p3 - p2);
                (3.0 * d0, 6.0 * (d1 - d0), 3.0 * (d2 - 2.0 * d1 + d0))
            };
            let x = f(c.p0.x, c.p1.x, c.p2.x, c.p3.x);
            let y = f(c.p0.y, c.p1.y, c.p2.y, c.p3.y);
            [(x.0, y.0), (x.1, y.1), (x.2, y.2)]
        }
    }
}

/// all parameters in (t0,t1) where d/dt |B'|^2 = 2 B'.B'' vanishes (stationary points of the speed,
/// among them every cusp and near-cusp): roots of the cubic g = B'.B'' isolated between the roots of
/// g' (quadratic formula) and bisected; the roots of g' are added as well (double roots of g).
fn stationary_params(s: &PathSeg, t0: f64, t1: f64) -> Vec<f64> {
    let [a, b, c] = deriv_poly(s);
    let dot = |u: (f64, f64), v: (f64, f64)| u.0 * v.0 + u.1 * v.1;
    let g0 = dot(a, b);
    let g1 = dot(b, b) + 2.0 * dot(a, c);
    let g2 = 3.0 * dot(b, c);
    let g3 = 2.0 * dot(c, c);
    let g = |t: f64| ((g3 * t + g2) * t + g1) * t + g0;
    let mut cuts = vec![t0, t1];
    let (qa, qb, qc) = (3.0 * g3, 2.0 * g2, g1);
    if qa != 0.0 {
        let disc = qb * qb - 4.0 * qa * qc;
        if disc >= 0.0 {
            let sq = disc.sqrt();
            let q = -0.5 * (qb + if qb >= 0.0 { sq } else { -sq });
            let r1 = q / qa;
            let r2 = if q != 0.0 { qc / q } else { r1 };
            for r in [r1, r2] {
                if r > t0 && r < t1 {
                    cuts.push(r);
                }
            }
        }
    } else if qb != 0.0 {
        let r = -qc / qb;
        if r > t0 && r < t1 {
            cuts.push(r);
        }
    }
    cuts.sort_by(|x, y| x.partial_cmp(y).unwrap());
    let mut out = Vec::new();
    for k in 0..cuts.len() - 1 {
        let (mut lo, mut hi) = (cuts[k], cuts[k + 1]);
        let (glo, ghi) = (g(lo), g(hi));
        if (glo < 0.0 && ghi > 0.0) || (glo > 0.0 && ghi < 0.0) {
            for _ in 0..200 {
                let m = 0.5 * (lo + hi);
                if m <= lo || m >= hi {
                    break;
                }
                if (g(m) < 0.0) == (glo < 0.0) {
                    lo = m;
                } else {
                    hi = m;
                }
            }
            out.push(0.5 * (lo + hi));
        }
    }
    for &r in &cuts[1..cuts.len() - 1] {
        out.push(r);
    }
    out.retain(|&t| t > t0 && t < t1);
    out.sort_by(|x, y| x.partial_cmp(y).unwrap());
    out.dedup();
    out
}

fn ref_len_range_with(g: &Gl, s: &PathSeg, t0: f64, t1: f64) -> f64 {
    if !(t1 > t0) {
        return 0.0;
    }
    if let PathSeg::Line(_) = s {
        return speed(s, 0.0) * (t1 - t0);
    }
    let mut brk = vec![t0];
    brk.extend(stationary_params(s, t0, t1));
    brk.push(t1);
    let tol = 1e-15 * poly_len(s);
    let mut total = 0.0;
    for k in 0..brk.len() - 1 {
        let (a, b) = (brk[k], brk[k + 1]);
        if b > a {
            let whole = gl_int(g, s, a, b);
            total += adapt(g, s, a, b, whole, tol, 0);
        }
    }
    total
}

/// reference length of s over [t0,t1]: `None` when the two orders (16 and 24 points) disagree by more
/// than 1e-13 of the control-polygon length (the oracle then abstains rather than guess).
fn ref_len_range(s: &PathSeg, t0: f64, t1: f64) -> Option<f64> {
    let (g16, g24) = gls();
    let a = ref_len_range_with(g16, s, t0, t1);
    let b = ref_len_range_with(g24, s, t0, t1);
    if a.is_finite() && (a - b).abs() <= 1e-13 * poly_len(s) {
        Some(a)
    } else {
        None
    }
}
fn ref_len(s: &PathSeg) -> Option<f64> {
    ref_len_range(s, 0.0, 1.0)
}

// ------------------------------------------------------------------ the estimate, replicated for tags only

/// (est, [est8_error, est16_error, est24_error]) exactly as arclen_rec computes them (used for branch
/// tags and for steering generators; never for a verdict)
fn ests(c: &CubicBez) -> (f64, [f64; 3]) {
    let d03 = c.p3 - c.p0;
    let d01 = c.p1 - c.p0;
    let d12 = c.p2 - c.p1;
    let d23 = c.p3 - c.p2;
    let lp_lc = d01.hypot() + d12.hypot() + d23.hypot() - d03.hypot();
    let dd1 = d12 - d01;
    let dd2 = d23 - d12;
    let dm = 0.25 * (d01 + d23) + 0.5 * d12;
    let dm1 = 0.5 * (dd2 + dd1);
    let dm2 = 0.25 * (dd2 - dd1);
    let est = kurbo::common::GAUSS_LEGENDRE_COEFFS_8
        .iter()
        .map(|&(wi, xi)| {
            wi * {
                let d_norm2 = (dm + dm1 * xi + dm2 * (xi * xi)).hypot2();
                let dd_norm2 = (dm1 + dm2 * (2.0 * xi)).hypot2();
                dd_norm2 / d_norm2
            }
        })
        .sum::<f64>();
    (est, [(est.powi(3) * 2.5e-6).min(3e-2) * lp_lc, (est.powi(6) * 1.5e-11).min(9e-3) * lp_lc, (est.powi(9) * 3.5e-16).min(3.5e-3) * lp_lc])
}

fn rule_tag(c: &CubicBez, acc: f64, depth: usize) -> &'static str {
    let (_, e) = ests(c);
    if e[0] < acc {
        "rule8"
    } else if e[1] < acc {
        "rule16"
    } else if e[2] < acc {
        "rule24"
    } else if depth >= 20 {
        "rule24-depth-cap"
    } else {
        "subdivide"
    }
}

/// is the cap of the estimate of rule k (0: 8-point, 1: 16-point, 2: 24-point) active for this `est`?
fn cap_active(est: f64, k: usize) -> bool {
    match k {
        0 => !(est.powi(3) * 2.5e-6 < 3e-2),
        1 => !(est.powi(6) * 1.5e-11 < 9e-3),
        _ => !(est.powi(9) * 3.5e-16 < 3.5e-3),
    }
}

fn quad_tag(q: &QuadBez) -> &'static str {
    let d2 = q.p0.to_vec2() - 2.0 * q.p1.to_vec2() + q.p2.to_vec2();
    let a = d2.hypot2();
    let d1 = q.p1 - q.p0;
    let c = d1.hypot2();
    if a <= 5e-4 * c {
        return if a == 0.0 && c == 0.0 { "zero-length" } else { "near-straight" };
    }
    let b = 2.0 * d2.dot(d1);
    let a2 = a.powf(-0.5);
    let c2 = 2.0 * c.sqrt();
    let ba_c2 = b * a2 + c2;
    if ba_c2 <= 1e-14 * c2 {
        "sharp-kink"
    } else {
        "closed-form"
    }
}

// ------------------------------------------------------------------ generators

fn upt(r: &mut Rng, s: f64) -> Point {
    Point::new(r.uniform(-s, s), r.uniform(-s, s))
}
fn log_uniform(r: &mut Rng, lo: f64, hi: f64) -> f64 {
    10f64.powf(r.uniform(lo.log10(), hi.log10()))
}

/// cubics over the classes the property names: generic, near-cusp, cusp family, near-straight,
/// collinear with fold-back, repeated control points, loops, zero-length
fn gen_cubic_class(r: &mut Rng) -> (CubicBez, &'static str) {
    match r.below(10) {
        0 => {
            let a = upt(r, 10.0);
            let b = upt(r, 10.0);
            let e = log_uniform(r, 1e-6, 1.0);
            (
                CubicBez::new(
                    a,
                    b,
                    Point::new(a.x + (b.y - a.y) + e * r.uniform(-1.0, 1.0), b.y + e * r.uniform(-1.0, 1.0)),
                    Point::new(a.x + e * r.uniform(-1.0, 1.0) + (b.x - a.x) * 0.3, a.y + e * r.uniform(-1.0, 1.0)),
                ),
                "near-cusp",
            )
        }
        1 => {
            let e = log_uniform(r, 1e-8, 0.1);
            let s = r.uniform(0.1, 10.0);
            (CubicBez::new((0.0, 0.0), (s, s), (e * r.uniform(-1.0, 1.0), s + e * r.uniform(-1.0, 1.0)), (s, 0.0)), "cusp-family")
        }
        2 => {
            let a = upt(r, 10.0);
            let b = upt(r, 10.0);
            let e = log_uniform(r, 1e-8, 0.1);
            let mut l = |t: f64| Point::new(a.x + t * (b.x - a.x) + e * r.uniform(-1.0, 1.0), a.y + t * (b.y - a.y) + e * r.uniform(-1.0, 1.0));
            let p1 = l(0.33);
            let p2 = l(0.66);
            (CubicBez::new(a, p1, p2, b), "near-straight")
        }
        3 => {
            let a = upt(r, 10.0);
            let b = upt(r, 10.0);
            let e = if r.bool() { 0.0 } else { log_uniform(r, 1e-8, 0.1) };
            let (t1, t2) = (r.uniform(-2.0, 3.0), r.uniform(-2.0, 3.0));
            let mut l = |t: f64| Point::new(a.x + t * (b.x - a.x) + e * r.uniform(-1.0, 1.0), a.y + t * (b.y - a.y) + e * r.uniform(-1.0, 1.0));
            let p1 = l(t1);
            let p2 = l(t2);
            (CubicBez::new(a, p1, p2, b), "collinear-fold")
        }
        4 => {
            let a = upt(r, 10.0);
            let b = upt(r, 10.0);
            let c = upt(r, 10.0);
            (
                match r.below(5) {
                    0 => CubicBez::new(a, a, b, c),
                    1 => CubicBez::new(a, b, b, c),
                    2 => CubicBez::new(a, b, c, c),
                    3 => CubicBez::new(a, b, c, a),
                    _ => CubicBez::new(a, a, c, c),
                },
                "repeated-points",
            )
        }
        5 => {
            // loop: handles cross
            let a = upt(r, 5.0);
            let d = upt(r, 5.0);
            let w = r.uniform(1.5, 6.0);
            (CubicBez::new(a, Point::new(a.x + w * d.x - d.y, a.y + w * d.y + d.x), Point::new(a.x - (w - 1.0) * d.x - d.y, a.y - (w - 1.0) * d.y + d.x), Point::new(a.x + d.x, a.y + d.y)), "loop")
        }
        6 => {
            if r.chance(1, 4) {
                let a = upt(r, 10.0);
                (CubicBez::new(a, a, a, a), "zero-length")
            } else {
                // both inner control points close to one end point, on (or near) the chord line: the curve
                // runs out along the chord and folds at the end (where the capped estimates are weakest)
                let a = upt(r, 10.0);
                let b = upt(r, 10.0);
                let e = if r.bool() { 0.0 } else { log_uniform(r, 1e-8, 1e-2) };
                let at_end = r.bool();
                let (u1, u2) = (r.uniform(-0.15, 0.1), r.uniform(-0.15, 0.1));
                let (t1, t2) = if at_end { (1.0 + u1, 1.0 + u2) } else { (u1, u2) };
                let mut l = |t: f64| Point::new(a.x + t * (b.x - a.x) + e * r.uniform(-1.0, 1.0), a.y + t * (b.y - a.y) + e * r.uniform(-1.0, 1.0));
                let p1 = l(t1);
                let p2 = l(t2);
                (CubicBez::new(a, p1, p2, b), "end-fold")
            }
        }
        _ => (CubicBez::new(upt(r, 10.0), upt(r, 10.0), upt(r, 10.0), upt(r, 10.0)), "generic"),
    }
}

/// quadratics: generic, near-straight, kinked (collinear fold-back), coincident control points, zero-length
fn gen_quad_class(r: &mut Rng) -> (QuadBez, &'static str) {
    let a = upt(r, 10.0);
    let b = upt(r, 10.0);
    let e = log_uniform(r, 1e-14, 0.1);
    let l = |t: f64| Point::new(a.x + t * (b.x - a.x), a.y + t * (b.y - a.y));
    let jit = |p: Point, r: &mut Rng| Point::new(p.x + e * r.uniform(-1.0, 1.0), p.y + e * r.uniform(-1.0, 1.0));
    match r.below(10) {
        0 => {
            // gently curved: |p0 - 2 p1 + p2|^2 / |p1 - p0|^2 log-uniform across the near-straight
            // threshold 5e-4 of QuadBez::arclen (the 3-point rule is only good below it)
            let ratio = log_uniform(r, 1e-5, 0.3);
            let d = Point::new(b.x - a.x, b.y - a.y);
            let len = (d.x * d.x + d.y * d.y).sqrt().max(1e-9);
            // p1 = midpoint + h * normal: a = 4 h^2, c ~ len^2 / 4
            let h = 0.25 * len * ratio.sqrt();
            let m = l(0.5);
            (QuadBez::new(a, Point::new(m.x - h * d.y / len, m.y + h * d.x / len), b), "near-straight")
        }
        1 => {
            let m = l(r.uniform(-2.0, 3.0));
            (QuadBez::new(a, jit(m, r), b), "near-collinear")
        }
        2 => (QuadBez::new(a, l(r.uniform(-2.0, 3.0)), b), "collinear"),
        3 => (QuadBez::new(a, b, jit(b, r)), "p2~p1"),
        4 => (QuadBez::new(a, b, b), "p2=p1"),
        5 => (QuadBez::new(a, if r.bool() { a } else { jit(a, r) }, b), "p1~p0"),
        6 => (QuadBez::new(a, b, if r.bool() { a } else { jit(a, r) }), "p2~p0"),
        7 => (QuadBez::new(a, a, a), "zero-length"),
        _ => (QuadBez::new(a, upt(r, 10.0), b), "generic"),
    }
}

fn scale_seg(s: &PathSeg, k: f64, off: (f64, f64)) -> PathSeg {
    let f = |p: Point| Point::new(p.x * k + off.0, p.y * k + off.1);
    match s {
        PathSeg::Line(l) => PathSeg::Line(Line::new(f(l.p0), f(l.p1))),
        PathSeg::Quad(q) => PathSeg::Quad(QuadBez::new(f(q.p0), f(q.p1), f(q.p2))),
        PathSeg::Cubic(c) => PathSeg::Cubic(CubicBez::new(f(c.p0), f(c.p1), f(c.p2), f(c.p3))),
    }
}

/// segment of any kind over the property's classes, at a random scale (and sometimes offset)
fn gen_seg_class(r: &mut Rng) -> PathSeg {
    let s = match r.below(8) {
        0 => PathSeg::Line(if r.chance(1, 6) {
            let a = upt(r, 10.0);
            Line::new(a, a)
        } else {
            Line::new(upt(r, 10.0), upt(r, 10.0))
        }),
        1 | 2 => PathSeg::Quad(gen_quad_class(r).0),
        _ => PathSeg::Cubic(gen_cubic_class(r).0),
    };
    let k = if r.chance(1, 2) { 1.0 } else { log_uniform(r, 1e-3, 1e3) };
    let off = if r.chance(1, 8) { (r.uniform(-1e3, 1e3), r.uniform(-1e3, 1e3)) } else { (0.0, 0.0) };
    scale_seg(&s, k, off)
}

fn gen_acc(r: &mut Rng) -> f64 {
    match r.below(6) {
        0 => 1e-9,
        1 => 1.0,
        2 => 10f64.powi(-(r.range_i(0, 9) as i32)),
        _ => log_uniform(r, 1e-9, 1.0),
    }
}

// ------------------------------------------------------------------ correspondence

fn with(e: &[f64], extra: &[f64]) -> Vec<f64> {
    e.iter().cloned().chain(extra.iter().cloned()).collect()
}

fn arclen_counted(c: &CubicBez, acc: f64) -> (f64, u64) {
    kurbo::verif::reset();
    let v = c.arclen(acc);
    (v, kurbo::verif::work())
}

/// generic coordinates only (libm class): structured inputs sit on decision boundaries
fn gpt(r: &mut Rng) -> Point {
    Point::new(r.generic(-2, 3), r.generic(-2, 3))
}

/// Shadow run of the provided `inv_arclen` (same closure, same `solve_itp`) that records the brackets:
/// returns (result, true if some evaluation of the loop test `b - a > 2 epsilon` was within 1e-9 relative
/// of equality).  ITP keeps the bracket at exactly the largest admissible width whenever its projection
/// step is active, so `b - a == 2 epsilon` can hold *structurally* at the last iteration and rounding
/// decides whether one more iteration runs; such cases are legitimate for the implementation (both answers
/// are within epsilon) but cannot be compared with a model whose libm differs in the last bit.
fn inv_arclen_shadow(s: &PathSeg, target: f64, accuracy: f64) -> (f64, bool) {
    let total = s.arclen(accuracy);
    if target <= 0.0 {
        return (0.0, false);
    }
    if target >= total {
        return (1.0, false);
    }
    let mut t_last = 0.0;
    let mut arclen_last = 0.0;
    let epsilon = accuracy / total;
    let n = 1.0 - epsilon.log2().ceil().min(0.0);
    let inner = accuracy / n;
    let mut evals: Vec<(f64, f64)> = Vec::new();
    let f = |t: f64| {
        let (range, dir) = if t > t_last { (t_last..t, 1.0) } else { (t..t_last, -1.0) };
        let arc = s.subsegment(range).arclen(inner);
        arclen_last += arc * dir;
        t_last = t;
        evals.push((t, arclen_last - target));
        arclen_last - target
    };
    let r = kurbo::common::solve_itp(f, 0.0, 1.0, epsilon, 1, 0.2, -target, total - target);
    let (mut a, mut b) = (0.0f64, 1.0f64);
    let mut knife = false;
    let mut test = |a: f64, b: f64| {
        if ((b - a) - 2.0 * epsilon).abs() <= 1e-9 * epsilon {
            knife = true;
        }
    };
    test(a, b);
    let mut tiny_y = false;
    for (x, y) in evals {
        // the interpolation step can land on the root to rounding accuracy: the sign of y is then noise
        if y.abs() <= 1e-11 * total {
            tiny_y = true;
        }
        if y > 0.0 {
            b = x;
        } else if y < 0.0 {
            a = x;
        }
        test(a, b);
    }
    (r, knife || tiny_y)
}

fn corr(r: &mut Rng, thorough: bool, o: &mut Out) {
    let n = if thorough { 2000 } else { 160 };
    let max_work: u64 = if thorough { 3000 } else { 400 };
    // ---- lines (op 1, 2)
    for i in 0..n {
        let l = match i % 6 {
            0 => {
                let a = gpt(r);
                Line::new(a, a)
            }
            1 => gen_line(r),
            _ => Line::new(gpt(r), gpt(r)),
        };
        let e = enc_seg(&PathSeg::Line(l));
        let len = l.arclen(1e-3);
        o.case(1, "line-arclen", e.clone(), vec![len], len > 0.0, if len > 0.0 { "positive" } else { "zero-length" });
        let s = match r.below(5) {
            0 => 0.0,
            1 => len,
            2 => -r.unit(),
            3 => len * (1.0 + r.unit()),
            _ => len * r.unit(),
        };
        o.case(2, "line-inv-arclen", with(&e, &[s]), vec![l.inv_arclen(s, 1e-3)], len > 0.0, if len > 0.0 { "positive" } else { "zero-length" });
    }
    // ---- quadratics (op 3): every branch; generic coordinates
    for i in 0..(2 * n) {
        let a = gpt(r);
        let b = gpt(r);
        let l = |t: f64| Point::new(a.x + t * (b.x - a.x), a.y + t * (b.y - a.y));
        let q = match i % 8 {
            0 => {
                // gently curved, across the near-straight threshold: a / c log-uniform in [1e-6, 0.1]
                let ratio = log_uniform(r, 1e-6, 0.1);
                let d = Point::new(b.x - a.x, b.y - a.y);
                let len = (d.x * d.x + d.y * d.y).sqrt();
                let h = 0.25 * len * ratio.sqrt();
                let m = l(0.5);
                QuadBez::new(a, Point::new(m.x - h * d.y / len, m.y + h * d.x / len), b)
            }
            1 => {
                // sharp kink: exactly collinear fold-back on an axis at unit scale (ba_c2 is rounding noise << 1e-13)
                let x0 = r.uniform(-0.5, 0.5);
                let d = r.uniform(0.2, 1.0);
                let back = r.uniform(0.1, 0.9) * d;
                if r.bool() {
                    QuadBez::new((x0, 0.25), (x0 + d, 0.25), (x0 + d - back, 0.25))
                } else {
                    QuadBez::new((0.5, x0), (0.5, x0 + d), (0.5, x0 + d - back))
                }
            }
            2 => QuadBez::new(a, a, b), // p1 = p0: c = 0, kink branch
            3 => {
                // p2 = p1 (the repaired code clamps the rounded a + b + c at 0)
                let a = Point::new(r.uniform(-1.0, 1.0), r.uniform(-1.0, 1.0));
                let b = Point::new(r.uniform(-1.0, 1.0), r.uniform(-1.0, 1.0));
                QuadBez::new(a, b, b)
            }
            4 if i % 64 == 4 => QuadBez::new(a, a, a), // zero-length
            _ => QuadBez::new(a, gpt(r), b),
        };
        let v = q.arclen(1e-6);
        let tag = quad_tag(&q);
        o.case(3, "quad-arclen", enc_seg(&PathSeg::Quad(q)), vec![v], tag != "closed-form" || i % 8 >= 4, tag);
    }
    // ---- cubics: hook (op 4), CubicBez::arclen (op 5), PathSeg::arclen (op 6)
    let mut done = 0;
    let mut tries = 0;
    while done < 2 * n && tries < 20 * n {
        tries += 1;
        let (c0, class) = gen_cubic_class(r);
        // keep the class geometry but make every coordinate a generic double
        let j = |p: Point, r: &mut Rng| Point::new(p.x * (1.0 + 1e-9 * r.unit()) + 1e-12 * r.unit(), p.y * (1.0 + 1e-9 * r.unit()) + 1e-12 * r.unit());
        let c = if class == "zero-length" { c0 } else { CubicBez::new(j(c0.p0, r), j(c0.p1, r), j(c0.p2, r), j(c0.p3, r)) };
        let (_, e) = ests(&c);
        // accuracies: generic, or just beside one of the three estimates (factor well away from 1)
        let acc = match r.below(6) {
            0 => e[0] * r.uniform(1.05, 3.0),
            1 => e[1] * r.uniform(1.05, 3.0),
            2 => e[2] * r.uniform(1.05, 3.0),
            3 => e[2] * r.uniform(0.01, 0.9),
            _ => log_uniform(r, 1e-9, 1.0),
        };
        if !(acc >= 1e-10 && acc <= 10.0) {
            continue;
        }
        let (v, w) = arclen_counted(&c, acc);
        if w > max_work || !v.is_finite() {
            continue;
        }
        done += 1;
        let enc = enc_seg(&PathSeg::Cubic(c));
        let tag = format!("{}:{}", class, if w == 1 { rule_tag(&c, acc, 0) } else { "subdivide" });
        o.case(5, "cubic-arclen", with(&enc, &[acc]), vec![v, w as f64], w > 1 || rule_tag(&c, acc, 0) != "rule8", &tag);
        if done % 3 == 0 {
            o.case(6, "pathseg-arclen", with(&enc, &[acc]), vec![PathSeg::Cubic(c).arclen(acc)], true, "cubic");
        }
        // the hook at a depth: near and beyond the cap the 24-point rule is forced
        let depth = *r.pick(&[0usize, 1, 7, 17, 18, 19, 20, 21, 30]);
        kurbo::verif::reset();
        let vh = c.verif_arclen_rec(acc, depth);
        let wh = kurbo::verif::work();
        if wh <= max_work && vh.is_finite() {
            let tag = format!("depth{}:{}", if depth >= 20 { ">=20" } else if depth >= 17 { "17-19" } else { "<17" }, if wh == 1 { rule_tag(&c, acc, depth) } else { "subdivide" });
            o.case(4, "arclen-rec-hook", with(&enc, &[acc, depth as f64]), vec![vh, wh as f64], wh > 1 || depth >= 20, &tag);
        }
    }
    // PathSeg::arclen on lines and quadratics
    for _ in 0..n / 2 {
        let s = if r.bool() { PathSeg::Line(Line::new(gpt(r), gpt(r))) } else { PathSeg::Quad(QuadBez::new(gpt(r), gpt(r), gpt(r))) };
        let acc = gen_acc(r);
        o.case(6, "pathseg-arclen", with(&enc_seg(&s), &[acc]), vec![s.arclen(acc)], true, if let PathSeg::Line(_) = s { "line" } else { "quad" });
    }
    // ---- inv_arclen (op 7 concrete provided method with the work counter, op 8 PathSeg dispatch)
    let mut done = 0;
    let mut tries = 0;
    let mut knife_edge = 0;
    while done < n && tries < 20 * n {
        tries += 1;
        let s = match r.below(3) {
            0 => PathSeg::Quad(QuadBez::new(gpt(r), gpt(r), gpt(r))),
            _ => PathSeg::Cubic(CubicBez::new(gpt(r), gpt(r), gpt(r), gpt(r))),
        };
        let acc = log_uniform(r, 1e-7, 1e-1);
        let total = s.arclen(acc);
        if !(total > 1e-3) {
            continue;
        }
        let (target, tag) = match r.below(8) {
            0 => (0.0, "target<=0"),
            1 => (-r.unit(), "target<=0"),
            2 => (total * (1.0 + r.unit()), "target>=total"),
            _ => (total * r.uniform(0.02, 0.98), "itp"),
        };
        kurbo::verif::reset();
        let t = match s {
            PathSeg::Quad(q) => q.inv_arclen(target, acc),
            PathSeg::Cubic(c) => c.inv_arclen(target, acc),
            PathSeg::Line(l) => l.inv_arclen(target, acc),
        };
        let w = kurbo::verif::work();
        if w > max_work || !t.is_finite() {
            continue;
        }
        let (t_shadow, knife) = inv_arclen_shadow(&s, target, acc);
        if knife && t_shadow == t {
            knife_edge += 1;
            continue;
        }
        done += 1;
        let enc = enc_seg(&s);
        let kind = if let PathSeg::Quad(_) = s { "quad" } else { "cubic" };
        o.case(7, "inv-arclen", with(&enc, &[target, acc]), vec![t, w as f64], tag == "itp", &format!("{}:{}", kind, tag));
        if done % 2 == 0 {
            o.case(8, "pathseg-inv-arclen", with(&enc, &[target, acc]), vec![s.inv_arclen(target, acc)], tag == "itp", &format!("{}:{}", kind, tag));
        }
    }
    o.notes.push(format!(
        "inv-arclen correspondence: {} generated cases left out because a decision of the ITP loop sat on rounding noise: the loop test b - a > 2 epsilon within 1e-9 relative of equality (structural: the projection step keeps the bracket at exactly the admissible width) or an evaluated |f| below 1e-11 of the length (the interpolation step landed on the root); {} compared",
        knife_edge, done
    ));
    for _ in 0..n / 4 {
        let l = Line::new(gpt(r), gpt(r));
        let target = l.arclen(1e-3) * r.uniform(-0.2, 1.2);
        o.case(8, "pathseg-inv-arclen", with(&enc_seg(&PathSeg::Line(l)), &[target, 1e-3]), vec![PathSeg::Line(l).inv_arclen(target, 1e-3)], true, "line");
    }
    // ---- solve_itp driven directly (op 10): exact f, including epsilon far below the resolution of f64
    // (the loop then leaves through the collapsed-bracket test of repair 75101ed) and budgets nmax > 64
    for i in 0..n {
        let lo = r.uniform(0.1, 2.0);
        let hi = lo + r.uniform(0.5, 3.0);
        let c = {
            let m = r.uniform(lo, hi);
            m * m
        };
        let eps = match i % 4 {
            // (epsilon below 2^-1023 of the bracket, e.g. subnormal or 0, is not generated: 2^min(nmax,1023) *
            // epsilon is then smaller than half the bracket, r < 0, the projected point is an end point of the
            // bracket and the loop makes no progress -- solve_itp does not return even after repair 75101ed)
            0 => log_uniform(r, 1e-30, 1e-17),
            1 => log_uniform(r, 1e-300, 1e-40),
            _ => log_uniform(r, 1e-12, 1e-2),
        };
        let n0 = r.below(3) as usize;
        let k1 = r.uniform(0.05, 0.4) / (hi - lo);
        let (ya, yb) = (lo * lo - c, hi * hi - c);
        if !(ya < 0.0 && yb > 0.0) {
            continue;
        }
        kurbo::verif::reset();
        let x = kurbo::common::solve_itp(|x| x * x - c, lo, hi, eps, n0, k1, ya, yb);
        let w = kurbo::verif::work();
        let tag = if eps < 1e-35 { "eps<2^-116" } else if eps < 1e-16 { "eps-below-resolution" } else { "ordinary" };
        o.case(10, "solve-itp-direct", vec![lo, hi, eps, n0 as f64, k1, c], vec![x, w as f64], true, tag);
    }
    // ---- perimeter (op 9)
    for i in 0..n / 3 {
        let nsub = 1 + r.below(2) as usize;
        let bp0 = gen_closed_path(r, nsub, 4, 3);
        // generic coordinates, keeping the closing structure
        let jit = |p: Point| Point::new(p.x * (1.0 + 3e-10) + 1e-11, p.y * (1.0 - 2e-10) - 1e-11);
        let mut bp = BezPath::new();
        for el in drop_some_movetos(r, bp0.elements()).iter() {
            bp.push(match *el {
                kurbo::PathEl::MoveTo(p) => kurbo::PathEl::MoveTo(jit(p)),
                kurbo::PathEl::LineTo(p) => kurbo::PathEl::LineTo(jit(p)),
                kurbo::PathEl::QuadTo(a, b) => kurbo::PathEl::QuadTo(jit(a), jit(b)),
                kurbo::PathEl::CurveTo(a, b, c) => kurbo::PathEl::CurveTo(jit(a), jit(b), jit(c)),
                kurbo::PathEl::ClosePath => kurbo::PathEl::ClosePath,
            });
        }
        let acc = log_uniform(r, 1e-6, 1e-1);
        kurbo::verif::reset();
        let p = if i % 2 == 0 { bp.perimeter(acc) } else { bp.elements().perimeter(acc) };
        if kurbo::verif::work() > max_work || !p.is_finite() {
            continue;
        }
        let mut a = vec![acc];
        a.extend(enc_els(bp.elements()));
        o.case(9, "perimeter", a, vec![1.0, p], true, if i % 2 == 0 { "BezPath" } else { "&[PathEl]" });
    }
}

// ------------------------------------------------------------------ laws

fn fail(class: &str, d: String) -> Option<(String, String)> {
    Some((class.to_string(), d))
}
fn kind(s: &PathSeg) -> &'static str {
    match s {
        PathSeg::Line(_) => "line",
        PathSeg::Quad(_) => "quad",
        PathSeg::Cubic(_) => "cubic",
    }
}
/// rounding slack: 1e-12 of the control-polygon length plus of the coordinate magnitude
fn slack(s: &PathSeg) -> f64 {
    1e-12 * (poly_len(s) + max_abs(s))
}

fn g_seg_acc(r: &mut Rng) -> Vec<f64> {
    let s = gen_seg_class(r);
    let mut acc = gen_acc(r);
    if matches!(s, PathSeg::Quad(_)) && r.chance(1, 2) {
        acc = 1e-9; // the closed form ignores the accuracy: judge it at the tightest request
    }
    // over-sample the worst case for each rule: an accuracy just above the estimate that admits it
    // (est_conservative, the unproved hypothesis of arclen_rec_budget, is judged exactly there)
    if let PathSeg::Cubic(c) = s {
        if r.chance(1, 2) {
            let (_, e) = ests(&c);
            let a = e[r.below(3) as usize] * r.uniform(1.0, 1.25);
            if a >= 1e-9 && a <= 1.0 {
                acc = a;
            }
        }
    }
    let mut v = enc_seg(&s);
    v.push(acc);
    v
}

/// |arclen - true length| <= accuracy (+ rounding), for every segment kind and class
fn law_accuracy(a: &[f64]) -> Option<(String, String)> {
    let (s, rest) = dec_seg(a);
    let acc = rest[0];
    let k = kind(&s);
    let v = s.arclen(acc);
    if !v.is_finite() {
        let sub = match s {
            PathSeg::Quad(q) if q.p0 == q.p1 && q.p1 == q.p2 => ":zero-length",
            PathSeg::Quad(q) if (q.p2 - q.p1).hypot() <= 1e-6 * (q.p1 - q.p0).hypot() => ":p2~p1",
            _ => "",
        };
        return fail(&format!("arclen-not-finite:{}{}", k, sub), format!("{:?}.arclen({:e}) = {}", s, acc, v));
    }
    let l = ref_len(&s)?;
    let err = (v - l).abs();
    let bound = acc + slack(&s);
    if err > bound {
        // the known finding: the capped / tuned estimate of arclen_rec is optimistic by a bounded factor
        // on strongly curved (cusp-like, folded) cubics; anything beyond a factor 2, or on a curve the
        // estimate calls smooth, is a different violation
        let class = match s {
            PathSeg::Cubic(c) => {
                let (est, e) = ests(&c);
                kurbo::verif::reset();
                let _ = c.arclen(acc);
                let leaf = kurbo::verif::work() == 1;
                let rule = (0..3).find(|&k| e[k] < acc);
                // window of the known finding: factor 2 where the cap of the estimate is active, factor 1.25
                // for the uncapped 24-point estimate (observed 1.07); the uncapped 8- and 16-point estimates
                // have never been seen optimistic (worst 0.73 / 0.78), so any excess there is a new violation
                let window = match (leaf, rule) {
                    (true, Some(k)) if cap_active(est, k) => 2.0,
                    (true, Some(2)) if est >= 20.0 => 1.25,
                    (true, _) => 0.0,
                    (false, _) if est >= 20.0 => 2.0,
                    (false, _) => 0.0,
                };
                if window > 0.0 && err <= window * bound {
                    "arclen-accuracy:cubic:est-optimistic".to_string()
                } else if window > 0.0 {
                    "arclen-accuracy:cubic:gross".to_string()
                } else if leaf {
                    "arclen-accuracy:cubic:est-uncapped".to_string()
                } else {
                    "arclen-accuracy:cubic:smooth".to_string()
                }
            }
            _ => format!("arclen-accuracy:{}", k),
        };
        return fail(&class, format!("{:?}.arclen({:e}) = {:?}, reference length {:?}: error {:e} > accuracy + rounding slack {:e}", s, acc, v, l, err, bound));
    }
    None
}

fn g_seg_acc_t(r: &mut Rng) -> Vec<f64> {
    let mut v = enc_seg(&gen_seg_class(r));
    v.push(gen_acc(r));
    v.push(match r.below(5) {
        0 => 0.5,
        1 => 0.0,
        2 => 1.0,
        _ => r.unit(),
    });
    v
}

/// the true length is additive under a split, so the reported lengths are additive up to 3 accuracies;
/// checked against the implementation alone (no reference) and, for the reference, exactly
fn law_additive(a: &[f64]) -> Option<(String, String)> {
    let (s, rest) = dec_seg(a);
    let (acc, t) = (rest[0], rest[1]);
    let k = kind(&s);
    let whole = s.arclen(acc);
    let (s0, s1) = (s.subsegment(0.0..t), s.subsegment(t..1.0));
    let (l0, l1) = (s0.arclen(acc), s1.arclen(acc));
    if !(whole.is_finite() && l0.is_finite() && l1.is_finite()) {
        return None; // non-finite lengths are reported by the accuracy law
    }
    let mut bound = 3.0 * acc + 3.0 * slack(&s);
    // the known finding inflates each of the three terms by at most a factor 2
    let est_big = match s {
        PathSeg::Cubic(c) => ests(&c).0 >= 20.0,
        _ => false,
    };
    if est_big {
        bound *= 2.0;
    }
    if (whole - l0 - l1).abs() > bound {
        return fail(&format!("arclen-additive:{}", k), format!("{:?} acc {:e} split at {}: {} vs {} + {}", s, acc, t, whole, l0, l1));
    }
    if matches!(s, PathSeg::Line(_)) && t > 0.0 && t < 1.0 {
        // a line: exact up to rounding
        if (whole - l0 - l1).abs() > 8.0 * f64::EPSILON * (whole + max_abs(&s)) {
            return fail("arclen-additive:line-exact", format!("{:?} split at {}: {} vs {} + {}", s, t, whole, l0, l1));
        }
    }
    None
}

fn g_path_acc(r: &mut Rng) -> Vec<f64> {
    let nsub = 1 + r.below(3) as usize;
    let bp = gen_closed_path(r, nsub, 5, 3);
    let els = drop_some_movetos(r, bp.elements());
    let mut v = vec![gen_acc(r).max(1e-7)];
    v.extend(enc_els(&els));
    v
}

/// Drop, with probability 1/3 each, the `MoveTo` that follows a `ClosePath`: the next sub-path then starts implicitly at
/// the previous sub-path's start point (what `BezPath::line_to` documents and `Segments::next` implements).
/// (Added after a seeded change — `Segments::next` not moving the current point back on `ClosePath` — was missed by C03.)
fn drop_some_movetos(r: &mut Rng, els: &[kurbo::PathEl]) -> Vec<kurbo::PathEl> {
    let mut out: Vec<kurbo::PathEl> = Vec::new();
    for e in els {
        if let kurbo::PathEl::MoveTo(_) = e {
            if matches!(out.last(), Some(kurbo::PathEl::ClosePath)) && r.chance(1, 3) {
                continue;
            }
        }
        out.push(*e);
    }
    out
}

/// the segments of an element list by the documented rule, written independently of `Segments::next`
fn own_segments(els: &[kurbo::PathEl]) -> Vec<PathSeg> {
    use kurbo::{CubicBez, Line, PathEl, QuadBez};
    let mut v = Vec::new();
    let (mut start, mut cur) = (Point::ORIGIN, Point::ORIGIN);
    for e in els {
        match *e {
            PathEl::MoveTo(p) => {
                start = p;
                cur = p;
            }
            PathEl::LineTo(p) => {
                v.push(PathSeg::Line(Line::new(cur, p)));
                cur = p;
            }
            PathEl::QuadTo(a, b) => {
                v.push(PathSeg::Quad(QuadBez::new(cur, a, b)));
                cur = b;
            }
            PathEl::CurveTo(a, b, c) => {
                v.push(PathSeg::Cubic(CubicBez::new(cur, a, b, c)));
                cur = c;
            }
            PathEl::ClosePath => {
                if cur != start {
                    v.push(PathSeg::Line(Line::new(cur, start)));
                }
                cur = start;
            }
        }
    }
    v
}

/// a path's perimeter is the sum of the arc lengths of its segments (same accuracy each)
fn law_perimeter(a: &[f64]) -> Option<(String, String)> {
    let acc = a[0];
    let els = dec_els(&a[1..]);
    let bp = BezPath::from_vec(els.clone());
    let p = bp.perimeter(acc);
    let p2 = els.as_slice().perimeter(acc);
    let segs: Vec<PathSeg> = own_segments(&els);
    let sum: f64 = segs.iter().map(|s| s.arclen(acc)).sum();
    if !sum.is_finite() {
        return None;
    }
    let tol = 4.0 * f64::EPSILON * sum.abs() * (segs.len() as f64 + 1.0);
    if !((p - sum).abs() <= tol) || !((p2 - sum).abs() <= tol) {
        return fail("perimeter-sum", format!("acc {:e} path {:?}: perimeter {} / {} vs sum of segments {}", acc, bp, p, p2, sum));
    }
    // a PathSeg's own perimeter is its arc length
    for s in &segs {
        let (x, y) = (Shape::perimeter(s, acc), s.arclen(acc));
        if x != y {
            return fail("perimeter-sum:pathseg", format!("{:?}: perimeter {} vs arclen {}", s, x, y));
        }
    }
    None
}

fn g_inv(r: &mut Rng) -> Vec<f64> {
    // segments of positive length; relative accuracy acc/length >= 1e-11 (beyond that the request is
    // below the rounding of the length itself)
    let s = gen_seg_class(r);
    let mut v = enc_seg(&s);
    v.push(gen_acc(r));
    v.push(match r.below(6) {
        0 => 0.0,
        1 => 1.0,
        _ => r.unit(),
    });
    v.push(r.unit());
    v
}

/// inv_arclen: result in [0,1]; 0 at target <= 0 and 1 at target >= total; the arc length up to the
/// returned parameter differs from the request by at most a small multiple (4) of the accuracy scaled
/// by the peak-to-mean speed ratio; non-decreasing in the request up to that same amount
fn law_inv(a: &[f64]) -> Option<(String, String)> {
    let (s, rest) = dec_seg(a);
    let (acc, f1, f2) = (rest[0], rest[1], rest[2]);
    let k = kind(&s);
    let total = s.arclen(acc);
    let l = ref_len(&s)?;
    if !(total.is_finite() && l > 0.0 && total > 0.0) {
        return None;
    }
    if acc < 1e-11 * l {
        return None;
    }
    // segments on which arclen itself is off (the known finding or a reported defect) are not judged here
    if (total - l).abs() > acc + slack(&s) {
        return None;
    }
    let peak = (0..=256).map(|i| speed(&s, i as f64 / 256.0)).fold(0.0, f64::max);
    let ratio = (peak / l).max(1.0);
    let bound = 4.0 * acc * ratio + 4.0 * slack(&s);
    let check = |target: f64| -> Result<f64, (String, String)> {
        let t = s.inv_arclen(target, acc);
        if !(t >= 0.0 && t <= 1.0) {
            return Err((format!("inv-arclen-range:{}", k), format!("{:?}.inv_arclen({}, {:e}) = {}", s, target, acc, t)));
        }
        if target <= 0.0 && t != 0.0 {
            return Err((format!("inv-arclen-ends:{}", k), format!("{:?}.inv_arclen({}, {:e}) = {} (want 0)", s, target, acc, t)));
        }
        if target >= total && t != 1.0 && !matches!(s, PathSeg::Line(_)) {
            return Err((format!("inv-arclen-ends:{}", k), format!("{:?}.inv_arclen({}, {:e}) = {} (want 1)", s, target, acc, t)));
        }
        if let Some(lt) = ref_len_range(&s, 0.0, t) {
            let want = target.clamp(0.0, l);
            if (lt - want).abs() > bound + (total - l).abs() {
                return Err((
                    format!("inv-arclen-residual:{}", k),
                    format!("{:?}.inv_arclen({}, {:e}) = {}: length up to it {} (bound {:e}, speed ratio {:.2})", s, target, acc, t, lt, bound, ratio),
                ));
            }
        }
        Ok(t)
    };
    let (ta, tb) = (total * f1.min(f2), total * f1.max(f2));
    let t1 = match check(ta) {
        Ok(t) => t,
        Err((c, d)) => return fail(&c, d),
    };
    let t2 = match check(tb) {
        Ok(t) => t,
        Err((c, d)) => return fail(&c, d),
    };
    if t2 < t1 {
        // allowed only up to the accuracy: the arc between them must be short
        if let Some(back) = ref_len_range(&s, t2, t1) {
            if back > 2.0 * bound {
                return fail(&format!("inv-arclen-monotone:{}", k), format!("{:?} acc {:e}: inv({}) = {} > inv({}) = {}, arc between {:e}", s, acc, ta, t1, tb, t2, back));
            }
        }
    }
    None
}

fn g_line(r: &mut Rng) -> Vec<f64> {
    let l = if r.chance(1, 3) { gen_line(r) } else { Line::new(upt(r, 100.0), upt(r, 100.0)) };
    let mut v = enc_seg(&PathSeg::Line(l));
    v.push(r.uniform(-0.25, 1.25));
    v
}

/// a line's arc length is the Euclidean distance of its end points and inv_arclen is linear
fn law_line(a: &[f64]) -> Option<(String, String)> {
    let (s, rest) = dec_seg(a);
    let l = match s {
        PathSeg::Line(l) => l,
        _ => return None,
    };
    let f = rest[0];
    let (dx, dy) = (l.p1.x - l.p0.x, l.p1.y - l.p0.y);
    let want = (dx * dx + dy * dy).sqrt();
    let len = l.arclen(1e-3);
    if (len - want).abs() > 4.0 * f64::EPSILON * want || len != l.arclen(1.0) || len != s.arclen(1e-9) {
        return fail("line-arclen", format!("{:?}: {} vs {}", l, len, want));
    }
    if len > 0.0 {
        let t = l.inv_arclen(f * len, 1e-3);
        if (t - f).abs() > 4.0 * f64::EPSILON * (1.0 + f.abs()) {
            return fail("line-inv-arclen", format!("{:?}: inv_arclen({} * len) = {}", l, f, t));
        }
    }
    None
}

fn laws() -> Vec<Law> {
    vec![
        Law { name: "arclen_accuracy", gen: g_seg_acc, check: law_accuracy, weight: 6 },
        Law { name: "arclen_additive", gen: g_seg_acc_t, check: law_additive, weight: 2 },
        Law { name: "perimeter_sum", gen: g_path_acc, check: law_perimeter, weight: 1 },
        Law { name: "inv_arclen", gen: g_inv, check: law_inv, weight: 2 },
        Law { name: "line_exact", gen: g_line, check: law_line, weight: 1 },
    ]
}

// ------------------------------------------------------------------ extra: known-finding replay, est_conservative audit

fn extra(r: &mut Rng, thorough: bool, o: &mut Out) {
    // known finding C03-cubic-est-optimistic: a collinear cubic that overshoots its end point and folds
    // back; the capped 8-point estimate 3e-2 * (polygon length - chord) = 0.12 passes accuracy 0.125
    // while the 8-point rule is off by 0.154
    let c = CubicBez::new((0.0, 0.0), (99.0, 0.0), (102.0, 0.0), (100.0, 0.0));
    let acc = 0.125;
    let v = c.arclen(acc);
    if let Some(l) = ref_len(&PathSeg::Cubic(c)) {
        let err = (v - l).abs();
        o.known(
            "C03-cubic-est-optimistic",
            err > acc + 1e-9,
            format!("{:?}.arclen({}) = {:?}, true length {:?}: error {:e} > accuracy", c, acc, v, l, err),
        );
    }
    // audit of the unproved hypothesis est_conservative: for each rule, true error of the rule / estimate,
    // at an accuracy just above the estimate (the worst case for that rule)
    let n = if thorough { 60000 } else { 4000 };
    // index: rule (8,16,24) x (uncapped, capped)
    let mut worst = [[0.0f64; 2]; 3];
    let mut over = [[0u64; 2]; 3];
    let mut tot = [[0u64; 2]; 3];
    for _ in 0..n {
        let (c, _) = gen_cubic_class(r);
        let s = PathSeg::Cubic(c);
        let l = match ref_len(&s) {
            Some(l) => l,
            None => continue,
        };
        let (est, e) = ests(&c);
        for k in 0..3 {
            let acc = e[k] * (1.0 + 1e-9);
            if !(acc > 1e-10 * poly_len(&s)) || (k > 0 && !(e[k - 1] >= acc)) {
                continue;
            }
            let v = c.verif_arclen_rec(acc, 20);
            let rho = (v - l).abs() / (acc + slack(&s));
            let cp = cap_active(est, k) as usize;
            tot[k][cp] += 1;
            if rho > 1.0 {
                over[k][cp] += 1;
            }
            if rho > worst[k][cp] {
                worst[k][cp] = rho;
            }
        }
    }
    o.notes.push(format!(
        "est_conservative audit (testing): true error / estimate of the 8/16/24-point rule at the accuracy that just admits it, over {} cubics. Estimate uncapped: worst {:.3}/{:.3}/{:.3}, above 1 in {}/{}/{} of {}/{}/{}. Estimate capped (min(.., 3e-2/9e-3/3.5e-3) active): worst {:.3}/{:.3}/{:.3}, above 1 in {}/{}/{} of {}/{}/{}",
        n, worst[0][0], worst[1][0], worst[2][0], over[0][0], over[1][0], over[2][0], tot[0][0], tot[1][0], tot[2][0],
        worst[0][1], worst[1][1], worst[2][1], over[0][1], over[1][1], over[2][1], tot[0][1], tot[1][1], tot[2][1]
    ));
}
