//! C08 — bounding boxes are tight and extrema are complete.
//!
//! Correspondence: `extrema`, `extrema_ranges`, `bounding_box` (PathSeg and the concrete types),
//! `Shape::bounding_box` of paths / element slices, `BezPath::control_box` — all bit-exact.
//! Laws: independent dense-sampling oracles on the implementation.
use crate::geom::*;
use crate::util::{Out, Rng};
use crate::{Law, Prop};
use kurbo::common::solve_quadratic;
use kurbo::{BezPath, CubicBez, Line, ParamCurve, ParamCurveExtrema, PathEl, PathSeg, Point, QuadBez, Rect, Shape};

pub fn prop() -> Prop {
    Prop { id: "C08", corr, laws, extra, law_budget: (300, 9000) }
}

// ------------------------------------------------------------------ generators

/// dyadic parameters: inside (0,1), exactly 0 and 1, and outside
const ROOTS: [f64; 15] = [-1.0, -0.5, -0.125, 0.0, 0.125, 0.25, 0.375, 0.5, 0.625, 0.75, 0.875, 1.0, 1.125, 1.5, 2.0];
const GAINS: [f64; 10] = [1.0, -1.0, 2.0, -2.0, 4.0, -4.0, 0.5, -0.5, 64.0, -64.0];

/// Bernstein coefficients (d0, d1, d2) of k (t - r1)(t - r2)
fn bern_two_roots(k: f64, r1: f64, r2: f64) -> [f64; 3] {
    let d0 = k * r1 * r2;
    let d2 = k * (1.0 - r1) * (1.0 - r2);
    let d1 = d0 - k * (r1 + r2) / 2.0;
    [d0, d1, d2]
}

/// one coordinate of a cubic (4 values) with a prescribed derivative shape
fn cubic_axis(r: &mut Rng) -> Vec<f64> {
    let x0 = match r.below(4) {
        0 => 0.0,
        1 => r.grid(8, 2.0),
        2 => r.grid(40, 8.0),
        _ => r.coord(),
    };
    let from_d = |x0: f64, d: [f64; 3]| vec![x0, x0 + d[0], x0 + d[0] + d[1], x0 + d[0] + d[1] + d[2]];
    match r.below(14) {
        // two simple roots anywhere (inside, on the boundary, outside)
        0 | 1 | 2 => {
            let (k, r1, r2) = (*r.pick(&GAINS), *r.pick(&ROOTS), *r.pick(&ROOTS));
            from_d(x0, bern_two_roots(k, r1, r2))
        }
        // double root
        3 => {
            let (k, r1) = (*r.pick(&GAINS), *r.pick(&ROOTS));
            from_d(x0, bern_two_roots(k, r1, r1))
        }
        // linear derivative m (t - r): zero leading coefficient
        4 | 5 => {
            let (m, r1) = (*r.pick(&GAINS), *r.pick(&ROOTS));
            let (d0, d2) = (-m * r1, m * (1.0 - r1));
            from_d(x0, [d0, (d0 + d2) / 2.0, d2])
        }
        // constant derivative (including zero: the coordinate is constant)
        6 => {
            let m = if r.bool() { 0.0 } else { *r.pick(&GAINS) };
            from_d(x0, [m, m, m])
        }
        // no real root: k ((t - r)^2 + s^2)
        7 => {
            let (k, r1, s) = (*r.pick(&GAINS), *r.pick(&ROOTS), *r.pick(&[0.125, 0.5, 1.0]));
            let d0 = k * (r1 * r1 + s * s);
            let d2 = k * ((1.0 - r1) * (1.0 - r1) + s * s);
            from_d(x0, [d0, d0 - k * r1, d2])
        }
        // small integers: many shared coordinates, leading coefficient often zero
        8 | 9 => (0..4).map(|_| r.grid(3, 1.0)).collect(),
        // shared coordinates at the ends (axis-aligned end tangents)
        10 => {
            let mut v: Vec<f64> = (0..4).map(|_| r.coord()).collect();
            match r.below(4) {
                0 => v[1] = v[0],
                1 => v[2] = v[3],
                2 => {
                    v[1] = v[0];
                    v[2] = v[3];
                }
                _ => {
                    v[1] = v[0];
                    v[2] = v[0];
                }
            }
            v
        }
        // leading coefficient of rounding size: a linear-derivative polygon perturbed by an ulp
        11 => {
            let m = r.generic(-3, 6);
            let r1 = r.unit() * 1.5 - 0.25;
            let (d0, d2) = (-m * r1, m * (1.0 - r1));
            let mut v = from_d(x0, [d0, (d0 + d2) / 2.0, d2]);
            let i = 1 + r.below(2) as usize;
            v[i] = f64::from_bits(v[i].to_bits() ^ (1 + r.below(3)));
            v
        }
        // extreme exponent ranges (sub-normal leading coefficient / large magnitudes)
        12 => {
            let e = *r.pick(&[-1060, -1040, -1000, -500, 300, 480]);
            let s = 2f64.powi(e as i32 / 2);
            let s = s * s;
            (0..4).map(|_| r.grid(16, 4.0) * s).collect()
        }
        _ => (0..4).map(|_| r.coord()).collect(),
    }
}

/// one coordinate of a quadratic (3 values): derivative 2 (d0 + t (d1 - d0))
fn quad_axis(r: &mut Rng) -> Vec<f64> {
    let x0 = match r.below(3) {
        0 => 0.0,
        1 => r.grid(8, 2.0),
        _ => r.coord(),
    };
    match r.below(8) {
        // root at a chosen dyadic parameter
        0 | 1 | 2 => {
            let (m, r1) = (*r.pick(&GAINS), *r.pick(&ROOTS));
            let d0 = -m * r1;
            let d1 = d0 + m;
            vec![x0, x0 + d0, x0 + d0 + d1]
        }
        // dd = 0: constant derivative (possibly zero)
        3 => {
            let m = if r.bool() { 0.0 } else { *r.pick(&GAINS) };
            vec![x0, x0 + m, x0 + m + m]
        }
        4 => (0..3).map(|_| r.grid(3, 1.0)).collect(),
        5 => {
            let mut v: Vec<f64> = (0..3).map(|_| r.coord()).collect();
            if r.bool() {
                v[1] = v[0]
            } else {
                v[1] = v[2]
            }
            v
        }
        _ => (0..3).map(|_| r.coord()).collect(),
    }
}

/// x * 2^k, exactly (two steps so that neither factor over/underflows)
fn scale_pow2(x: f64, k: i32) -> f64 {
    let k1 = k / 2;
    x * 2f64.powi(k1) * 2f64.powi(k - k1)
}

fn scale_seg(s: &PathSeg, k: i32) -> PathSeg {
    let f = |p: Point| Point::new(scale_pow2(p.x, k), scale_pow2(p.y, k));
    match s {
        PathSeg::Line(l) => PathSeg::Line(Line::new(f(l.p0), f(l.p1))),
        PathSeg::Quad(q) => PathSeg::Quad(QuadBez::new(f(q.p0), f(q.p1), f(q.p2))),
        PathSeg::Cubic(c) => PathSeg::Cubic(CubicBez::new(f(c.p0), f(c.p1), f(c.p2), f(c.p3))),
    }
}

/// segments over-sampling the configurations the property names; one in ten is an exact
/// power-of-two rescaling of a structured segment into the sub-normal / tiny / huge ranges
fn gen_c08_seg(r: &mut Rng) -> PathSeg {
    if r.chance(1, 10) {
        let s = gen_c08_seg_unit(r);
        let k = *r.pick(&[-1070, -1060, -1045, -1030, -1022, -1000, -800, -670, -660, 600, 900]);
        return scale_seg(&s, k);
    }
    gen_c08_seg_unit(r)
}

fn gen_c08_seg_unit(r: &mut Rng) -> PathSeg {
    if r.chance(1, 4) {
        return gen_seg(r);
    }
    match r.below(8) {
        0 => PathSeg::Line(gen_line(r)),
        1 | 2 | 3 => {
            let (x, y) = if r.chance(1, 8) {
                let x = quad_axis(r);
                (x.clone(), x) // identical coordinates: equal extrema in x and y
            } else {
                (quad_axis(r), quad_axis(r))
            };
            PathSeg::Quad(QuadBez::new((x[0], y[0]), (x[1], y[1]), (x[2], y[2])))
        }
        _ => {
            let (x, y) = if r.chance(1, 10) {
                let x = cubic_axis(r);
                (x.clone(), x)
            } else {
                (cubic_axis(r), cubic_axis(r))
            };
            PathSeg::Cubic(CubicBez::new((x[0], y[0]), (x[1], y[1]), (x[2], y[2]), (x[3], y[3])))
        }
    }
}

fn c08_point(r: &mut Rng, mode: u64) -> Point {
    match mode {
        0 => grid_point(r),
        1 => Point::new(r.grid(4, 1.0), r.grid(4, 1.0)),
        _ => gen_point(r),
    }
}

/// element lists: several sub-paths, with and without ClosePath, repeated MoveTo, curve
/// elements built from the structured segment generator; `any_start`: may begin with any element
fn gen_c08_els(r: &mut Rng, any_start: bool) -> Vec<PathEl> {
    let mut els = Vec::new();
    let n = r.below(9) as usize;
    let mode = r.below(4);
    if !any_start && n > 0 {
        els.push(PathEl::MoveTo(c08_point(r, mode)));
    }
    let mut last = Point::ZERO;
    if let Some(PathEl::MoveTo(p)) = els.first() {
        last = *p;
    }
    for _ in 0..n {
        let k = r.below(12);
        let e = match k {
            0 => PathEl::MoveTo(c08_point(r, mode)),
            1 | 2 => PathEl::ClosePath,
            3 | 4 => PathEl::LineTo(c08_point(r, mode)),
            5 | 6 => PathEl::QuadTo(c08_point(r, mode), c08_point(r, mode)),
            7 | 8 => PathEl::CurveTo(c08_point(r, mode), c08_point(r, mode), c08_point(r, mode)),
            _ => {
                // a structured curve translated so that it starts at the current point
                match gen_c08_seg(r) {
                    PathSeg::Line(l) => PathEl::LineTo(last + (l.p1 - l.p0)),
                    PathSeg::Quad(q) => PathEl::QuadTo(last + (q.p1 - q.p0), last + (q.p2 - q.p0)),
                    PathSeg::Cubic(c) => PathEl::CurveTo(last + (c.p1 - c.p0), last + (c.p2 - c.p0), last + (c.p3 - c.p0)),
                }
            }
        };
        if let Some(p) = e.end_point() {
            last = p;
        }
        els.push(e);
    }
    els
}

// ------------------------------------------------------------------ helpers

fn seg_kind(s: &PathSeg) -> &'static str {
    match s {
        PathSeg::Line(_) => "line",
        PathSeg::Quad(_) => "quad",
        PathSeg::Cubic(_) => "cubic",
    }
}

fn rect_v(r: Rect) -> Vec<f64> {
    vec![r.x0, r.y0, r.x1, r.y1]
}

fn len_v(ts: &[f64]) -> Vec<f64> {
    let mut v = vec![ts.len() as f64];
    v.extend_from_slice(ts);
    v
}

fn concrete_extrema(s: &PathSeg) -> Vec<f64> {
    match s {
        PathSeg::Line(l) => l.extrema().to_vec(),
        PathSeg::Quad(q) => q.extrema().to_vec(),
        PathSeg::Cubic(c) => c.extrema().to_vec(),
    }
}

fn concrete_bbox(s: &PathSeg) -> Rect {
    match s {
        PathSeg::Line(l) => Shape::bounding_box(l),
        PathSeg::Quad(q) => Shape::bounding_box(q),
        PathSeg::Cubic(c) => Shape::bounding_box(c),
    }
}

/// branch tag of an extrema computation, recomputed from the inputs: result length, whether the
/// final sort permuted, leading coefficient zero (linear block), boundary roots excluded
fn extrema_tag(s: &PathSeg, got: &[f64]) -> (String, bool) {
    let mut tag = format!("{}:n{}", seg_kind(s), got.len());
    let mut nontrivial = !got.is_empty();
    match s {
        PathSeg::Line(_) => {}
        PathSeg::Quad(q) => {
            let d0 = q.p1 - q.p0;
            let dd = (q.p2 - q.p1) - d0;
            let mut raw = Vec::new();
            for (a, b) in [(d0.x, dd.x), (d0.y, dd.y)] {
                if b == 0.0 {
                    tag.push_str(",dd0");
                } else {
                    let t = -a / b;
                    if t == 0.0 || t == 1.0 {
                        tag.push_str(",edge");
                        nontrivial = true;
                    }
                    if t > 0.0 && t < 1.0 {
                        raw.push(t);
                    }
                }
            }
            if raw.len() == 2 && raw[0] > raw[1] {
                tag.push_str(",swap");
            }
            if raw.len() == 2 && raw[0] == raw[1] {
                tag.push_str(",dup");
            }
        }
        PathSeg::Cubic(c) => {
            let (d0, d1, d2) = (c.p1 - c.p0, c.p2 - c.p1, c.p3 - c.p2);
            let mut raw = Vec::new();
            for (e0, e1, e2) in [(d0.x, d1.x, d2.x), (d0.y, d1.y, d2.y)] {
                let a = e0 - 2.0 * e1 + e2;
                let b = 2.0 * (e1 - e0);
                if a == 0.0 {
                    tag.push_str(if b != 0.0 { ",lin" } else if e0 == 0.0 { ",zero" } else { ",const" });
                } else if !(e0 * a.recip()).is_finite() || !(b * a.recip()).is_finite() {
                    tag.push_str(",tiny-a");
                } else if b * b == 4.0 * a * e0 {
                    tag.push_str(",dbl");
                }
                for t in solve_quadratic(e0, b, a) {
                    if t == 0.0 || t == 1.0 {
                        tag.push_str(",edge");
                        nontrivial = true;
                    }
                    if t > 0.0 && t < 1.0 {
                        raw.push(t);
                    }
                }
            }
            if raw.windows(2).any(|w| w[0] > w[1]) {
                tag.push_str(",perm");
            }
            if raw.windows(2).any(|w| w[0] == w[1]) {
                tag.push_str(",dup");
            }
        }
    }
    (tag, nontrivial)
}

// ------------------------------------------------------------------ correspondence

fn corr(r: &mut Rng, thorough: bool, o: &mut Out) {
    let n = if thorough { 16000 } else { 900 };
    for _ in 0..n {
        let s = gen_c08_seg(r);
        let e = enc_seg(&s);
        let ex = s.extrema().to_vec();
        let (tag, nt) = extrema_tag(&s, &ex);
        o.case(1, "extrema", e.clone(), len_v(&concrete_extrema(&s)), nt, &tag);
        o.case(2, "pathseg-extrema", e.clone(), len_v(&ex), nt, &tag);
        o.case(3, "extrema-linear-variant", e.clone(), len_v(&ex), nt, &tag);
        let rg = s.extrema_ranges();
        let mut rv = vec![rg.len() as f64];
        for x in rg.iter() {
            rv.push(x.start);
            rv.push(x.end);
        }
        o.case(4, "extrema_ranges", e.clone(), rv, nt, &format!("{}:n{}", seg_kind(&s), rg.len()));
        let bb = ParamCurveExtrema::bounding_box(&s);
        // which points decide the box: only the end points, or an interior extremum enlarges it
        let ends = Rect::from_points(s.start(), s.end());
        let btag = format!("{}:{}", seg_kind(&s), if bb == ends { "ends" } else { "interior" });
        o.case(5, "pathseg-bounding_box", e.clone(), rect_v(bb), bb != ends, &btag);
        o.case(6, "bounding_box", e.clone(), rect_v(concrete_bbox(&s)), bb != ends, &btag);
        o.case(7, "bounding_box-linear-variant", e.clone(), rect_v(bb), bb != ends, &btag);
    }
    let np = if thorough { 5000 } else { 300 };
    for _ in 0..np {
        let els = gen_c08_els(r, false);
        let e = enc_els(&els);
        let bp = BezPath::from_vec(els.clone());
        let b1 = Shape::bounding_box(&bp);
        let b2 = Shape::bounding_box(&&els[..]);
        let nseg = bp.segments().count();
        let tag = format!("segs{}", nseg.min(6));
        let mut obs = vec![1.0];
        obs.extend(rect_v(b1));
        obs.push(1.0);
        obs.extend(rect_v(b2));
        o.case(8, "path-bounding_box", e.clone(), obs.clone(), nseg >= 2, &tag);
        o.case(11, "path-bounding_box-linear-variant", e.clone(), obs, nseg >= 2, &tag);
        o.case(10, "control_box", e.clone(), rect_v(bp.control_box()), els.len() >= 2, &format!("els{}", els.len().min(6)));
    }
    for _ in 0..np / 2 {
        let els = gen_c08_els(r, true);
        let e = enc_els(&els);
        let sl = els.clone();
        let res = std::panic::catch_unwind(move || Shape::bounding_box(&&sl[..]));
        let (obs, tag) = match res {
            Ok(b) => {
                let mut v = vec![1.0];
                v.extend(rect_v(b));
                (v, if matches!(els.first(), Some(PathEl::MoveTo(_)) | None) { "moveto-first" } else { "other-first" })
            }
            Err(_) => (vec![0.0], "panic"),
        };
        o.case(9, "slice-bounding_box", e, obs, !matches!(els.first(), Some(PathEl::MoveTo(_)) | None), tag);
    }
}

// ------------------------------------------------------------------ laws on the implementation

fn fail(class: &str, d: String) -> Option<(String, String)> {
    Some((class.to_string(), d))
}

fn g_seg(r: &mut Rng) -> Vec<f64> {
    enc_seg(&gen_c08_seg(r))
}
fn g_els(r: &mut Rng) -> Vec<f64> {
    enc_els(&gen_c08_els(r, false))
}

/// control coordinates of the segment raised to a cubic, per axis: (xs, ys)
fn ctrl(s: &PathSeg) -> (Vec<f64>, Vec<f64>) {
    match s {
        PathSeg::Line(l) => (vec![l.p0.x, l.p1.x], vec![l.p0.y, l.p1.y]),
        PathSeg::Quad(q) => (vec![q.p0.x, q.p1.x, q.p2.x], vec![q.p0.y, q.p1.y, q.p2.y]),
        PathSeg::Cubic(c) => (vec![c.p0.x, c.p1.x, c.p2.x, c.p3.x], vec![c.p0.y, c.p1.y, c.p2.y, c.p3.y]),
    }
}

/// derivative of the Bernstein polynomial with coefficients `p`, evaluated by de Casteljau
/// on the forward differences (independent of the monomial form the implementation solves)
fn bern_deriv(p: &[f64], t: f64) -> f64 {
    let n = p.len() - 1;
    let mut d: Vec<f64> = (0..n).map(|i| (p[i + 1] - p[i]) * n as f64).collect();
    let mut m = d.len();
    while m > 1 {
        for i in 0..m - 1 {
            d[i] = d[i] + t * (d[i + 1] - d[i]);
        }
        m -= 1;
    }
    d[0]
}

/// value of the Bernstein polynomial by de Casteljau
fn bern_eval(p: &[f64], t: f64) -> f64 {
    let mut d = p.to_vec();
    let mut m = d.len();
    while m > 1 {
        for i in 0..m - 1 {
            d[i] = d[i] + t * (d[i + 1] - d[i]);
        }
        m -= 1;
    }
    d[0]
}

fn max_abs(p: &[f64]) -> f64 {
    p.iter().fold(0.0f64, |m, x| m.max(x.abs()))
}
fn max_diff(p: &[f64]) -> f64 {
    p.windows(2).fold(0.0f64, |m, w| m.max((w[1] - w[0]).abs())) * (p.len() - 1) as f64
}

/// The sampling oracles work on an exact power-of-two rescaling of the control polygon into
/// [1, 2) (the extrema do not depend on the scale; a box scales with the polygon), so that they
/// have head-room at every magnitude.  `sub`: the absolute rounding granularity of the
/// implementation's own arithmetic near the sub-normal range, in rescaled units.
/// Excluded: non-finite input and magnitudes above 1e300 (beyond f64::MAX / 2 the differences
/// of control points, and `eval` itself, overflow).
struct Norm {
    xs: Vec<f64>,
    ys: Vec<f64>,
    kx: i32,
    ky: i32,
    subx: f64,
    suby: f64,
}

/// each axis is rescaled on its own (a zero of x' does not depend on the scale of x)
fn norm(s: &PathSeg) -> Option<Norm> {
    let (xs, ys) = ctrl(s);
    let m = max_abs(&xs).max(max_abs(&ys));
    if !m.is_finite() || m >= 1e300 {
        return None;
    }
    let one = |v: &Vec<f64>| -> (Vec<f64>, i32, f64) {
        let m = max_abs(v);
        if m == 0.0 {
            return (v.clone(), 0, 0.0);
        }
        let k = -(m.log2().floor() as i32);
        (v.iter().map(|x| scale_pow2(*x, k)).collect(), k, 64.0 * scale_pow2(5e-324, k))
    };
    let (xs, kx, subx) = one(&xs);
    let (ys, ky, suby) = one(&ys);
    Some(Norm { xs, ys, kx, ky, subx, suby })
}

fn norm_rect(r: Rect, kx: i32, ky: i32) -> Rect {
    Rect::new(scale_pow2(r.x0, kx), scale_pow2(r.y0, ky), scale_pow2(r.x1, kx), scale_pow2(r.y1, ky))
}

const NS: usize = 4096;

/// Every reported parameter is strictly inside (0,1), the list is ascending and has at most
/// four entries, and x' or y' vanishes there (relative to the derivative's scale).
fn law_extrema_valid(a: &[f64]) -> Option<(String, String)> {
    let (s, _) = dec_seg(a);
    let k = seg_kind(&s);
    let ex = s.extrema().to_vec();
    if ex.len() > 4 {
        return fail(&format!("extrema-count:{}", k), format!("{:?}: {} extrema", s, ex.len()));
    }
    let cap = match s {
        PathSeg::Line(_) => 0,
        PathSeg::Quad(_) => 2,
        PathSeg::Cubic(_) => 4,
    };
    if ex.len() > cap {
        return fail(&format!("extrema-count:{}", k), format!("{:?}: {} extrema", s, ex.len()));
    }
    if ex != concrete_extrema(&s) {
        return fail(&format!("extrema-dispatch:{}", k), format!("{:?}: PathSeg {:?} concrete {:?}", s, ex, concrete_extrema(&s)));
    }
    for &t in &ex {
        if !(t > 0.0 && t < 1.0) {
            return fail(&format!("extrema-range:{}", k), format!("{:?}: reported t={:?} not in (0,1); all {:?}", s, t, ex));
        }
    }
    if ex.windows(2).any(|w| !(w[0] <= w[1])) {
        return fail(&format!("extrema-sorted:{}", k), format!("{:?}: {:?} not ascending", s, ex));
    }
    let nm = match norm(&s) {
        Some(n) => n,
        None => return None,
    };
    let (xs, ys) = (nm.xs, nm.ys);
    let (sx, sy) = (max_diff(&xs), max_diff(&ys));
    for &t in &ex {
        let (gx, gy) = (bern_deriv(&xs, t), bern_deriv(&ys, t));
        let okx = sx > 0.0 && gx.abs() <= 1e-9 * sx;
        let oky = sy > 0.0 && gy.abs() <= 1e-9 * sy;
        if !okx && !oky {
            return fail(&format!("extrema-not-critical:{}", k), format!("{:?}: at reported t={:?} x'={:e} (scale {:e}) y'={:e} (scale {:e})", s, t, gx, sx, gy, sy));
        }
    }
    None
}

/// Dense-sampling oracle for completeness: wherever x' (or y') has significant values of
/// opposite sign at two sample parameters, with nothing significant in between, an extremum
/// must be reported between them (slack 1e-6).
fn law_extrema_complete(a: &[f64]) -> Option<(String, String)> {
    let (s, _) = dec_seg(a);
    let nm = match norm(&s) {
        Some(n) => n,
        None => return None,
    };
    let k = seg_kind(&s);
    let ex = s.extrema().to_vec();
    let (xs, ys) = (nm.xs, nm.ys);
    for (axis, p) in [("x", &xs), ("y", &ys)] {
        let sc = max_diff(p);
        if sc == 0.0 {
            continue;
        }
        let thr = 1e-9 * sc;
        let mut prev: Option<(f64, f64)> = None; // last significant sample (t, value)
        for i in 0..=NS {
            let t = i as f64 / NS as f64;
            let g = bern_deriv(p, t);
            if g.abs() <= thr {
                continue;
            }
            if let Some((tp, gp)) = prev {
                if (gp > 0.0) != (g > 0.0) {
                    let found = ex.iter().any(|&e| e >= tp - 1e-6 && e <= t + 1e-6);
                    if !found {
                        return fail(
                            &format!("extrema-missing:{}:{}", k, axis),
                            format!("{:?}: {}' changes sign between t={} ({:e}) and t={} ({:e}) but extrema() = {:?}", s, axis, tp, gp, t, g, ex),
                        );
                    }
                }
            }
            prev = Some((t, g));
        }
    }
    None
}

/// extrema_ranges tiles [0,1] with the extrema as break points, and on every range both
/// coordinates are monotone (sampled, with rounding slack).
fn law_ranges_monotone(a: &[f64]) -> Option<(String, String)> {
    let (s, _) = dec_seg(a);
    let k = seg_kind(&s);
    let ex = s.extrema().to_vec();
    let rg: Vec<(f64, f64)> = s.extrema_ranges().iter().map(|x| (x.start, x.end)).collect();
    let mut want = Vec::new();
    let mut t0 = 0.0;
    for &t in &ex {
        want.push((t0, t));
        t0 = t;
    }
    want.push((t0, 1.0));
    if rg != want {
        return fail(&format!("ranges-structure:{}", k), format!("{:?}: ranges {:?}, extrema {:?}", s, rg, ex));
    }
    let nm = match norm(&s) {
        Some(n) => n,
        None => return None,
    };
    let (xs, ys) = (nm.xs, nm.ys);
    for (axis, p) in [("x", &xs), ("y", &ys)] {
        let slack = 64.0 * f64::EPSILON * max_abs(p) + 1e-15 * max_diff(p);
        for &(a0, a1) in &rg {
            if !(a0 <= a1) {
                return fail(&format!("ranges-structure:{}", k), format!("{:?}: range {}..{}", s, a0, a1));
            }
            const M: usize = 48;
            let v: Vec<f64> = (0..=M).map(|i| bern_eval(p, a0 + (a1 - a0) * i as f64 / M as f64)).collect();
            let up = v.windows(2).all(|w| w[1] >= w[0] - slack);
            let down = v.windows(2).all(|w| w[1] <= w[0] + slack);
            // also across the whole range, not only between neighbours
            let (lo, hi) = v.iter().fold((f64::INFINITY, f64::NEG_INFINITY), |(l, h), x| (l.min(*x), h.max(*x)));
            let ends_ok = lo >= v[0].min(v[M]) - slack && hi <= v[0].max(v[M]) + slack;
            if !(up || down) || !ends_ok {
                return fail(
                    &format!("ranges-not-monotone:{}:{}", k, axis),
                    format!("{:?}: {} is not monotone on {}..{} (extrema {:?})", s, axis, a0, a1, ex),
                );
            }
        }
    }
    None
}

/// The bounding box contains dense samples of the curve (rounding slack) and is tight: every
/// side is within the sampling resolution of the extreme sample. Oracle: de Casteljau samples.
fn law_bbox(a: &[f64]) -> Option<(String, String)> {
    let (s, _) = dec_seg(a);
    let k = seg_kind(&s);
    let bb = ParamCurveExtrema::bounding_box(&s);
    let cb = concrete_bbox(&s);
    if bb != cb {
        return fail(&format!("bbox-dispatch:{}", k), format!("{:?}: PathSeg {:?} concrete {:?}", s, bb, cb));
    }
    let nm = match norm(&s) {
        Some(n) => n,
        None => return None,
    };
    let bb = norm_rect(bb, nm.kx, nm.ky);
    let (xs, ys) = (nm.xs, nm.ys);
    for (axis, p, lo, hi, sub) in [("x", &xs, bb.x0, bb.x1, nm.subx), ("y", &ys, bb.y0, bb.y1, nm.suby)] {
        let round = 64.0 * f64::EPSILON * max_abs(p) + sub;
        // between two samples the coordinate moves beyond them by at most |f''| h^2 / 8
        let res = 6.0 * max_diff(p) / (NS as f64 * NS as f64);
        let (mut mn, mut mx) = (f64::INFINITY, f64::NEG_INFINITY);
        for i in 0..=NS {
            let v = bern_eval(p, i as f64 / NS as f64);
            mn = mn.min(v);
            mx = mx.max(v);
        }
        if mn < lo - round || mx > hi + round {
            return fail(
                &format!("bbox-not-containing:{}:{}", k, axis),
                format!("{:?}: {} ranges over [{:?},{:?}] but the box has [{:?},{:?}]", s, axis, mn, mx, lo, hi),
            );
        }
        if lo < mn - res - round || hi > mx + res + round {
            return fail(
                &format!("bbox-not-tight:{}:{}", k, axis),
                format!("{:?}: {} ranges over [{:?},{:?}] but the box has [{:?},{:?}]", s, axis, mn, mx, lo, hi),
            );
        }
        // the control polygon's hull contains the box (up to rounding of eval)
        let (cl, ch) = p.iter().fold((f64::INFINITY, f64::NEG_INFINITY), |(l, h), x| (l.min(*x), h.max(*x)));
        if lo < cl - round || hi > ch + round {
            return fail(&format!("bbox-outside-hull:{}:{}", k, axis), format!("{:?}: box [{:?},{:?}] hull [{:?},{:?}]", s, lo, hi, cl, ch));
        }
    }
    None
}

fn union_r(a: Rect, b: Rect) -> Rect {
    Rect::new(a.x0.min(b.x0), a.y0.min(b.y0), a.x1.max(b.x1), a.y1.max(b.y1))
}

/// Path level: the bounding box is exactly the union of the segment boxes (zero rectangle for
/// no segments), the slice and BezPath implementations agree, every segment's samples are
/// inside, and the control box contains the bounding box (rounding slack of eval).
fn law_path(a: &[f64]) -> Option<(String, String)> {
    let els = dec_els(a);
    let bp = BezPath::from_vec(els.clone());
    let bb = Shape::bounding_box(&bp);
    let bs = Shape::bounding_box(&&els[..]);
    if bb != bs {
        return fail("path-bbox:slice-vs-bezpath", format!("{:?}: {:?} vs {:?}", els, bb, bs));
    }
    let segs: Vec<PathSeg> = bp.segments().collect();
    let mut want: Option<Rect> = None;
    for s in &segs {
        let r = ParamCurveExtrema::bounding_box(s);
        want = Some(match want {
            Some(w) => union_r(w, r),
            None => r,
        });
    }
    let want = want.unwrap_or(Rect::ZERO);
    if bb != want {
        return fail("path-bbox:not-union", format!("{:?}: bounding_box {:?}, union of the {} segment boxes {:?}", els, bb, segs.len(), want));
    }
    let mut m = 0.0f64;
    for s in &segs {
        let (xs, ys) = ctrl(s);
        m = m.max(max_abs(&xs)).max(max_abs(&ys));
    }
    let round = 64.0 * f64::EPSILON * m;
    for s in &segs {
        for i in 0..=64 {
            let p = s.eval(i as f64 / 64.0);
            if p.x < bb.x0 - round || p.x > bb.x1 + round || p.y < bb.y0 - round || p.y > bb.y1 + round {
                return fail("path-bbox:not-containing", format!("{:?}: point {:?} of {:?} outside {:?}", els, p, s, bb));
            }
        }
    }
    // control box: exactly the box of the element points
    let cbx = bp.control_box();
    let mut pts: Vec<Point> = Vec::new();
    for e in &els {
        match e {
            PathEl::MoveTo(p) | PathEl::LineTo(p) => pts.push(*p),
            PathEl::QuadTo(p, q) => pts.extend([*p, *q]),
            PathEl::CurveTo(p, q, w) => pts.extend([*p, *q, *w]),
            PathEl::ClosePath => {}
        }
    }
    let wantc = if pts.is_empty() {
        Rect::ZERO
    } else {
        let mut w = Rect::new(pts[0].x, pts[0].y, pts[0].x, pts[0].y);
        for p in &pts {
            w = Rect::new(w.x0.min(p.x), w.y0.min(p.y), w.x1.max(p.x), w.y1.max(p.y));
        }
        w
    };
    if cbx != wantc {
        return fail("control-box:not-point-box", format!("{:?}: control_box {:?}, box of the element points {:?}", els, cbx, wantc));
    }
    if !segs.is_empty() && (bb.x0 < cbx.x0 - round || bb.y0 < cbx.y0 - round || bb.x1 > cbx.x1 + round || bb.y1 > cbx.y1 + round) {
        return fail("control-box:not-containing-bbox", format!("{:?}: control_box {:?} bounding_box {:?}", els, cbx, bb));
    }
    None
}

/// The regime of known finding C08-tiny-derivative, and nothing else: a cubic with a coordinate
/// whose derivative has a NON-zero leading coefficient `a` for which `solve_quadratic` cannot form
/// the scaled coefficients (`c * a.recip()` or `b * a.recip()` not finite: `a` sub-normal) and so
/// solves the linear equation although the quadratic term matters. Law violations on such inputs
/// get the class prefix `tiny-derivative:`; every other input keeps the plain class.
fn tiny_regime(s: &PathSeg) -> bool {
    if let PathSeg::Cubic(c) = s {
        let (d0, d1, d2) = (c.p1 - c.p0, c.p2 - c.p1, c.p3 - c.p2);
        let one = |e0: f64, e1: f64, e2: f64| {
            let a = e0 - 2.0 * e1 + e2;
            let b = 2.0 * (e1 - e0);
            a != 0.0 && a.abs() < 1e-300 && (!(e0 * a.recip()).is_finite() || !(b * a.recip()).is_finite())
        };
        one(d0.x, d1.x, d2.x) || one(d0.y, d1.y, d2.y)
    } else {
        false
    }
}

/// Known-finding violations are reported at most 40 times per run, so that they cannot use up
/// the harness's cap on recorded violations and crowd out a different failure.
static TINY_REPORTED: std::sync::atomic::AtomicUsize = std::sync::atomic::AtomicUsize::new(0);

fn with_regime(a: &[f64], r: Option<(String, String)>) -> Option<(String, String)> {
    match r {
        Some((class, desc)) if tiny_regime(&dec_seg(a).0) => {
            if TINY_REPORTED.fetch_add(1, std::sync::atomic::Ordering::Relaxed) < 40 {
                Some((format!("tiny-derivative:{}", class), desc))
            } else {
                None
            }
        }
        other => other,
    }
}

fn law_extrema_valid_r(a: &[f64]) -> Option<(String, String)> {
    with_regime(a, law_extrema_valid(a))
}
fn law_extrema_complete_r(a: &[f64]) -> Option<(String, String)> {
    with_regime(a, law_extrema_complete(a))
}
fn law_ranges_monotone_r(a: &[f64]) -> Option<(String, String)> {
    with_regime(a, law_ranges_monotone(a))
}
fn law_bbox_r(a: &[f64]) -> Option<(String, String)> {
    with_regime(a, law_bbox(a))
}

fn laws() -> Vec<Law> {
    vec![
        Law { name: "extrema_valid", gen: g_seg, check: law_extrema_valid_r, weight: 4 },
        Law { name: "extrema_complete", gen: g_seg, check: law_extrema_complete_r, weight: 3 },
        Law { name: "ranges_monotone", gen: g_seg, check: law_ranges_monotone_r, weight: 2 },
        Law { name: "bbox_contains_tight", gen: g_seg, check: law_bbox_r, weight: 3 },
        Law { name: "path_bbox_control_box", gen: g_els, check: law_path, weight: 2 },
    ]
}

// ------------------------------------------------------------------ extra: small-scope sweep

/// Every cubic whose x coordinates lie in {-2..2}^4 (thorough) / {-1..1}^4 (quick), paired with a
/// few y patterns (and transposed), and every quadratic over the same grid, through all segment laws.
fn extra(_r: &mut Rng, thorough: bool, o: &mut Out) {
    let g: Vec<f64> = if thorough { vec![-2.0, -1.0, 0.0, 1.0, 2.0] } else { vec![-1.0, 0.0, 1.0] };
    let ys4: [[f64; 4]; 5] = [[0.0, 0.0, 0.0, 0.0], [0.0, 1.0, 2.0, 3.0], [0.0, 2.0, -1.0, 1.0], [0.0, 3.0, 3.0, 0.0], [1.0, 0.0, 0.0, 1.0]];
    let ys3: [[f64; 3]; 4] = [[0.0, 0.0, 0.0], [0.0, 1.0, 2.0], [0.0, 2.0, 0.0], [1.0, -1.0, 2.0]];
    let mut n = 0u64;
    let run_all = |args: &[f64], o: &mut Out| {
        for (name, f) in [
            ("extrema_valid", law_extrema_valid_r as fn(&[f64]) -> Option<(String, String)>),
            ("extrema_complete", law_extrema_complete_r),
            ("ranges_monotone", law_ranges_monotone_r),
            ("bbox_contains_tight", law_bbox_r),
        ] {
            o.oracle_eval(name);
            if let Some((class, desc)) = f(args) {
                o.violation(&class, desc, format!("{{\"law\":{},\"args\":{}}}", crate::util::json_str(name), crate::util::fmt_fs(args)));
            }
        }
    };
    for &x0 in &g {
        for &x1 in &g {
            for &x2 in &g {
                for &x3 in &g {
                    for y in &ys4 {
                        run_all(&[3.0, x0, y[0], x1, y[1], x2, y[2], x3, y[3]], o);
                        run_all(&[3.0, y[0], x0, y[1], x1, y[2], x2, y[3], x3], o);
                        n += 2;
                    }
                }
                for y in &ys3 {
                    run_all(&[2.0, x0, y[0], x1, y[1], x2, y[2]], o);
                    run_all(&[2.0, y[0], x0, y[1], x1, y[2], x2], o);
                    n += 2;
                }
            }
        }
    }
    o.notes.push(format!("small-scope sweep: {} grid segments through the four segment laws", n));
    // the scale-dependence witness (C08_pinned_extrema_scale_refuted) and its rescalings:
    // x' = 18 (6 t^2 - 6 t + 1) * 2^k, y' = 48 (t - 1/4)(t - 3/4) * 2^k
    let mut fails = Vec::new();
    for k in [-1070, -1060, -1045, -1030, -1024, -1000, -700, -600, 0, 600] {
        let f = |v: f64| scale_pow2(v, k);
        let w = [3.0, 0.0, 0.0, f(3.0), f(3.0), f(-3.0), f(-2.0), 0.0, f(1.0)];
        let c = CubicBez::new((w[1], w[2]), (w[3], w[4]), (w[5], w[6]), (w[7], w[8]));
        let ex = c.extrema().to_vec();
        let want = [0.21132486540518713, 0.25, 0.75, 0.7886751345948129];
        let ok = ex.len() == 4 && ex.iter().zip(want.iter()).all(|(a, b)| (a - b).abs() < 1e-12);
        if !ok {
            fails.push(format!("2^{}: {:?}", k, ex));
        }
        run_all(&w, o);
    }
    o.known(
        "C08-tiny-derivative",
        !fails.is_empty(),
        format!(
            "CubicBez (0,0),(3,3),(-3,-2),(0,1) scaled by 2^k must report extrema [0.2113, 0.25, 0.75, 0.7887] for every k; wrong for {}",
            if fails.is_empty() { "none".to_string() } else { fails.join("; ") }
        ),
    );
    let _ = Line::new((0.0, 0.0), (1.0, 1.0));
}
