//! C10 — shape outlines approximate the ideal shape within the tolerance.
//! Correspondence cases for coq/model/ShapePaths.v, and laws on the implementation:
//! dense outline samples within T of the ideal shape (independent nearest-point oracles),
//! contour structure / closure, full single traversal, polygons reproduced verbatim.
use crate::geom::*;
use crate::util::{Out, Rng};
use crate::{Law, Prop};
use kurbo::{
    Affine, Arc, BezPath, Circle, CircleSegment, CubicBez, Ellipse, Line, PathEl, PathSeg, Point, QuadBez, Rect, RoundedRect,
    Shape, Triangle, Vec2,
};
use std::f64::consts::{FRAC_PI_2, PI};

pub fn prop() -> Prop {
    Prop { id: "C10", corr, laws, extra, law_budget: (250, 4000) }
}

const EPS: f64 = f64::EPSILON;
const LIMIT4: f64 = 1.0 / 1.9608e-4;

// ------------------------------------------------------------------ generators

fn log_uniform(r: &mut Rng, lo: f64, hi: f64) -> f64 {
    (lo.ln() + (hi.ln() - lo.ln()) * r.unit()).exp().clamp(lo, hi)
}
fn gen_radius(r: &mut Rng) -> f64 {
    match r.below(10) {
        0 => 1e-3,
        1 => 1e4,
        2 => *r.pick(&[1.0, 2.5, 10.0, 50.0, 0.125, 300.0]),
        _ => log_uniform(r, 1e-3, 1e4),
    }
}
fn gen_tol(r: &mut Rng) -> f64 {
    match r.below(10) {
        0 => 1e-9,
        1 => 1.0,
        2 => *r.pick(&[0.1, 1e-3, 1e-6, 0.25, 1e-2]),
        _ => log_uniform(r, 1e-9, 1.0),
    }
}
fn gen_center(r: &mut Rng) -> Point {
    match r.below(6) {
        0 => Point::new(0.0, 0.0),
        1 => Point::new(r.grid(8, 2.0), r.grid(8, 2.0)),
        2 => Point::new(r.generic(-3, 10), r.generic(-3, 10)),
        _ => Point::new(r.uniform(-1e3, 1e3), r.uniform(-1e3, 1e3)),
    }
}
fn gen_angle(r: &mut Rng) -> f64 {
    match r.below(8) {
        0 => 0.0,
        1 => r.range_i(-8, 8) as f64 * FRAC_PI_2,
        2 => *r.pick(&[4.0 * PI, -4.0 * PI]),
        _ => r.uniform(-4.0 * PI, 4.0 * PI),
    }
}
fn gen_sweep(r: &mut Rng) -> f64 {
    match r.below(12) {
        0 => {
            let k = r.range_i(1, 8) as f64;
            (if r.bool() { k } else { -k }) * FRAC_PI_2
        }
        1 => *r.pick(&[2.0 * PI, -2.0 * PI]),
        2 => *r.pick(&[4.0 * PI, -4.0 * PI]),
        3 => (if r.bool() { 1.0 } else { -1.0 }) * log_uniform(r, 1e-6, 1e-1),
        _ => r.uniform(-4.0 * PI, 4.0 * PI),
    }
}
fn gen_rot(r: &mut Rng) -> f64 {
    match r.below(6) {
        0 => 0.0,
        1 => r.range_i(-4, 4) as f64 * FRAC_PI_2,
        2 => r.uniform(-20.0, 20.0),
        _ => r.uniform(-PI, PI),
    }
}
/// (radius, tolerance) with the ratio placed relative to the branch switch at 1/1.9608e-4
fn gen_r_tol(r: &mut Rng) -> (f64, f64) {
    match r.below(8) {
        0 => {
            // both sides of the switch, very close
            let tol = gen_tol(r);
            let f = *r.pick(&[1.0 - 1e-12, 1.0 + 1e-12, 1.0 - 1e-6, 1.0 + 1e-6, 0.999, 1.001, 1.0]);
            let rad = (LIMIT4 * tol * f).clamp(1e-3, 1e4);
            (rad, tol)
        }
        1 => {
            let rad = gen_radius(r);
            ((rad), (rad * log_uniform(r, 1.0, 1e3)).min(1.0)) // tolerance >> radius (capped at 1)
        }
        2 => {
            let rad = gen_radius(r);
            (rad, (rad * log_uniform(r, 1e-12, 1e-6)).clamp(1e-9, 1.0)) // tolerance << radius
        }
        3 => {
            // at the switch between k-1 and k pieces per turn: (1.1163 * ratio)^(1/6) just below / above k
            let k = r.range_i(1, 16) as f64;
            let f = *r.pick(&[1.0 - 1e-9, 1.0 + 1e-9, 1.0 - 1e-4, 1.0 - 1e-12]);
            let se = k.powi(6) / 1.1163 * f;
            let rad = gen_radius(r);
            let tol = rad / se;
            if (1e-9..=1.0).contains(&tol) {
                (rad, tol)
            } else {
                let tol = gen_tol(r);
                ((tol * se).clamp(1e-3, 1e4), tol)
            }
        }
        _ => (gen_radius(r), gen_tol(r)),
    }
}

fn n_err_of(scaled_err: f64) -> f64 {
    (1.1163 * scaled_err).powf(1.0 / 6.0)
}
fn away_from_integer(q: f64) -> bool {
    (q - q.round()).abs() > 1e-7 * q.abs().max(1.0)
}
/// is the piece count of the circle insensitive to 1e-15 differences in powf?
fn circle_generic(rad: f64, tol: f64) -> bool {
    let se = rad.abs() / tol;
    se < LIMIT4 || away_from_integer(n_err_of(se))
}
fn arc_generic(rx: f64, ry: f64, sweep: f64, tol: f64) -> bool {
    let q = n_err_of(rx.max(ry) / tol).max(3.999_999) * sweep.abs() * (1.0 / (2.0 * PI));
    away_from_integer(q)
}

// ------------------------------------------------------------------ correspondence

fn count_curves(els: &[PathEl]) -> usize {
    els.iter().filter(|e| matches!(e, PathEl::CurveTo(..))).count()
}
fn kinds(els: &[PathEl]) -> Vec<f64> {
    els.iter()
        .map(|e| match e {
            PathEl::MoveTo(_) => 0.0,
            PathEl::LineTo(_) => 1.0,
            PathEl::QuadTo(..) => 2.0,
            PathEl::CurveTo(..) => 3.0,
            PathEl::ClosePath => 4.0,
        })
        .collect()
}
fn summary(els: &[PathEl]) -> Vec<f64> {
    let n = count_curves(els) as f64;
    let first = match els.first() {
        Some(PathEl::MoveTo(p)) => *p,
        _ => Point::new(f64::NAN, f64::NAN),
    };
    let last = els
        .iter()
        .rev()
        .find_map(|e| if let PathEl::CurveTo(_, _, p) = e { Some(*p) } else { None })
        .unwrap_or(Point::new(f64::NAN, f64::NAN));
    let closed = matches!(els.last(), Some(PathEl::ClosePath));
    vec![n, first.x, first.y, last.x, last.y, if closed { 1.0 } else { 0.0 }]
}

fn gen_arc_args(r: &mut Rng) -> Vec<f64> {
    let c = gen_center(r);
    let (rx, tol) = gen_r_tol(r);
    let ry = match r.below(4) {
        0 => rx,
        1 => (rx * log_uniform(r, 1e-3, 1.0)).max(1e-3),
        _ => gen_radius(r),
    };
    let (rx, ry) = if r.bool() { (rx, ry) } else { (ry, rx) };
    vec![c.x, c.y, rx, ry, gen_angle(r), gen_sweep(r), gen_rot(r), tol]
}
fn arc_of(a: &[f64]) -> (Arc, f64) {
    (Arc::new((a[0], a[1]), (a[2], a[3]), a[4], a[5], a[6]), a[7])
}

fn gen_rr_args(r: &mut Rng) -> Vec<f64> {
    let p = gen_center(r);
    let w = match r.below(12) {
        0 => 0.0,
        1 | 2 => -gen_radius(r),
        _ => gen_radius(r),
    };
    let h = match r.below(12) {
        0 | 1 => w,
        2 => 0.0,
        _ => gen_radius(r),
    };
    let m = w.abs().min(h.abs());
    let mut rad = |r: &mut Rng| match r.below(8) {
        0 => 0.0,
        1 => m / 2.0,
        2 => m, // clamped
        3 => -m / 4.0,
        4 => m * 0.25,
        _ => m * r.unit() * 0.6,
    };
    let same = r.chance(1, 3);
    let r0 = rad(r);
    let (tl, tr, br, bl) = if same { (r0, r0, r0, r0) } else { (r0, rad(r), rad(r), rad(r)) };
    vec![p.x, p.y, p.x + w, p.y + h, tl, tr, br, bl, gen_tol(r)]
}
fn rr_of(a: &[f64]) -> (RoundedRect, f64) {
    (RoundedRect::new(a[0], a[1], a[2], a[3], (a[4], a[5], a[6], a[7])), a[8])
}

fn gen_cs_args(r: &mut Rng) -> Vec<f64> {
    let c = gen_center(r);
    let (ro, tol) = gen_r_tol(r);
    let ri = match r.below(6) {
        0 => 0.0,
        1 => ro,
        2 => (ro * 1.5).min(1e4), // inner > outer
        _ => (ro * r.unit()).max(1e-3).min(ro),
    };
    vec![c.x, c.y, ro, ri, gen_angle(r), gen_sweep(r), tol]
}
fn cs_of(a: &[f64]) -> (CircleSegment, f64) {
    (CircleSegment::new((a[0], a[1]), a[2], a[3], a[4], a[5]), a[6])
}

fn corr(r: &mut Rng, thorough: bool, o: &mut Out) {
    let n = if thorough { 700 } else { 70 };
    // ---- circle
    for i in 0..n {
        let c = gen_center(r);
        let (mut rad, tol) = gen_r_tol(r);
        match i % 17 {
            0 => rad = -rad,
            1 => rad = 0.0,
            _ => {}
        }
        if !circle_generic(rad, tol) {
            continue;
        }
        let ci = Circle::new(c, rad);
        let els: Vec<PathEl> = ci.path_elements(tol).collect();
        let nn = count_curves(&els);
        let tag = if rad.abs() / tol < LIMIT4 { "n=4".to_string() } else { format!("n={}", if nn > 12 { ">12".to_string() } else { nn.to_string() }) };
        let args = vec![c.x, c.y, rad, tol];
        o.case(1, "circle", args.clone(), enc_els(&els), rad != 0.0, &tag);
        o.case(19, "circle-exact", args.clone(), summary(&els), rad != 0.0, &tag);
        if i % 4 == 0 {
            let segs: Vec<PathSeg> = ci.path_segments(tol).collect();
            o.case(20, "circle-segments", args, enc_segs(&segs), rad != 0.0, &tag);
        }
    }
    // ---- arcs
    for i in 0..n {
        let mut a = gen_arc_args(r);
        if i % 41 == 0 {
            a[5] = 0.0; // zero sweep: no pieces
        }
        if !arc_generic(a[2], a[3], a[5], a[7]) {
            continue;
        }
        let (arc, tol) = arc_of(&a);
        let app: Vec<PathEl> = arc.append_iter(tol).collect();
        let els: Vec<PathEl> = arc.path_elements(tol).collect();
        let clamped = n_err_of(a[2].max(a[3]) / tol) <= 3.999_999;
        let tag = format!("{}{}", if clamped { "clamped" } else { "powf" }, if a[5] < 0.0 { ",neg" } else if a[5] == 0.0 { ",zero" } else { ",pos" });
        o.case(2, "arc-append", a.clone(), enc_els(&app), !app.is_empty(), &tag);
        o.case(3, "arc-path", a.clone(), enc_els(&els), !app.is_empty(), &tag);
        if i % 3 == 0 {
            let mut v = Vec::new();
            arc.to_cubic_beziers(tol, |p1, p2, p3| {
                pt(&mut v, p1);
                pt(&mut v, p2);
                pt(&mut v, p3);
            });
            o.case(17, "arc-to-cubic-beziers", a.clone(), v, !app.is_empty(), &tag);
        }
    }
    // ---- ellipse from an affine map, and Ellipse::new
    for i in 0..n {
        let tol = gen_tol(r);
        let m: Vec<f64> = match i % 5 {
            0 => {
                // rotation * scale: a well-conditioned ellipse
                let (rx, ry, th) = (gen_radius(r), gen_radius(r), gen_rot(r));
                let (s, c) = th.sin_cos();
                vec![rx * c, rx * s, -ry * s, ry * c, r.coord(), r.coord()]
            }
            1 => {
                let k = gen_radius(r);
                vec![k, 0.0, 0.0, if r.bool() { k } else { -k }, r.coord(), r.coord()] // circle / reflection
            }
            _ => (0..6).map(|_| r.coord()).collect(),
        };
        let e = Ellipse::from_affine(Affine::new([m[0], m[1], m[2], m[3], m[4], m[5]]));
        let (radii, _) = e.radii_and_rotation();
        if radii.x.is_finite() && radii.y.is_finite() && arc_generic(radii.x, radii.y, 2.0 * PI, tol) {
            let els: Vec<PathEl> = e.path_elements(tol).collect();
            let mut a = m.clone();
            a.push(tol);
            let det = m[0] * m[3] - m[1] * m[2];
            o.case(4, "ellipse-affine", a, enc_els(&els), det != 0.0, if det < 0.0 { "det<0" } else if det == 0.0 { "det=0" } else { "det>0" });
        }
        let c = gen_center(r);
        let (rx, ry, rot) = (gen_radius(r), if i % 7 == 0 { -gen_radius(r) } else { gen_radius(r) }, gen_rot(r));
        let e = Ellipse::new(c, (rx, ry), rot);
        let (radii, _) = e.radii_and_rotation();
        // Ellipse::new goes through sin/cos: for (nearly) equal radii the SVD angle is atan2 of rounding noise
        // that differs between libm and the model's sin/cos, so that case is left to the laws
        let circular = (rx.abs() - ry.abs()).abs() < 1e-3 * rx.abs().max(ry.abs());
        if !circular && radii.x.is_finite() && radii.y.is_finite() && arc_generic(radii.x, radii.y, 2.0 * PI, tol) {
            let els: Vec<PathEl> = e.path_elements(tol).collect();
            o.case(5, "ellipse-new", vec![c.x, c.y, rx, ry, rot, tol], enc_els(&els), true, if ry < 0.0 { "neg-radius" } else { "pos" });
        }
    }
    // ---- rounded rectangle
    for _ in 0..n {
        let a = gen_rr_args(r);
        let (rr, tol) = rr_of(&a);
        let q = rr.radii();
        let rmax = q.top_left.max(q.top_right).max(q.bottom_right).max(q.bottom_left);
        let generic = [q.top_left, q.top_right, q.bottom_right, q.bottom_left].iter().all(|x| arc_generic(*x, *x, FRAC_PI_2, tol));
        let els: Vec<PathEl> = rr.path_elements(tol).collect();
        let tag = if rmax == 0.0 { "square-corners" } else if a[4] == a[5] && a[5] == a[6] && a[6] == a[7] { "uniform" } else { "mixed" };
        // exact part: clamped radii and the five rectangle elements
        let rc = rr.rect();
        let mut ex = vec![rc.x0, rc.y0, rc.x1, rc.y1, q.top_left, q.top_right, q.bottom_right, q.bottom_left];
        let rect_els: Vec<PathEl> = els.iter().filter(|e| !matches!(e, PathEl::CurveTo(..))).cloned().collect();
        ex.extend(enc_els(&rect_els));
        o.case(18, "rounded-rect-exact", a[..8].to_vec(), ex, rmax > 0.0, tag);
        if generic {
            o.case(6, "rounded-rect", a.clone(), enc_els(&els), rmax > 0.0, tag);
            o.case(21, "rounded-rect-kinds", a.clone(), kinds(&els), rmax > 0.0, tag);
        }
    }
    // ---- circle segment
    for i in 0..n {
        let mut a = gen_cs_args(r);
        if i % 37 == 0 {
            a[5] = 0.0;
        }
        if !(arc_generic(a[2], a[2], a[5], a[6]) && arc_generic(a[3], a[3], a[5], a[6])) {
            continue;
        }
        let (cs, tol) = cs_of(&a);
        let els: Vec<PathEl> = cs.path_elements(tol).collect();
        let tag = if a[3] == 0.0 { "pie" } else if a[3] > a[2] { "inner>outer" } else if a[5] == 0.0 { "zero-sweep" } else { "annular" };
        o.case(7, "circle-segment", a.clone(), enc_els(&els), a[5] != 0.0, tag);
    }
    // ---- verbatim shapes (exact)
    for i in 0..n {
        let ps = gen_points(r, 4);
        let rect = if i % 9 == 0 { Rect::new(ps[0].x, ps[0].y, ps[1].x, ps[0].y) } else { Rect::new(ps[0].x, ps[0].y, ps[1].x, ps[1].y) };
        let ra = vec![rect.x0, rect.y0, rect.x1, rect.y1];
        let els: Vec<PathEl> = rect.path_elements(0.1).collect();
        o.case(8, "rect", ra.clone(), enc_els(&els), rect.x0 != rect.x1 && rect.y0 != rect.y1, if rect.y0 == rect.y1 { "flat" } else { "proper" });
        let segs: Vec<PathSeg> = rect.path_segments(0.1).collect();
        o.case(14, "rect-segments", ra, enc_segs(&segs), segs.len() == 4, &format!("{}-edges", segs.len()));
        let tri = Triangle::new(ps[0], ps[1], ps[2]);
        let ta = vec![ps[0].x, ps[0].y, ps[1].x, ps[1].y, ps[2].x, ps[2].y];
        o.case(9, "triangle", ta.clone(), enc_els(&tri.path_elements(0.1).collect::<Vec<_>>()), true, "");
        let tsegs: Vec<PathSeg> = tri.path_segments(0.1).collect();
        o.case(22, "triangle-segments", ta, enc_segs(&tsegs), tsegs.len() == 3, &format!("{}-edges", tsegs.len()));
        let l = Line::new(ps[0], ps[1]);
        o.case(10, "line", vec![ps[0].x, ps[0].y, ps[1].x, ps[1].y], enc_els(&l.path_elements(0.1).collect::<Vec<_>>()), true, "");
        let q = QuadBez::new(ps[0], ps[1], ps[2]);
        o.case(11, "quad", enc_seg(&PathSeg::Quad(q))[1..].to_vec(), enc_els(&q.path_elements(0.1).collect::<Vec<_>>()), true, "");
        let c = CubicBez::new(ps[0], ps[1], ps[2], ps[3]);
        o.case(12, "cubic", enc_seg(&PathSeg::Cubic(c))[1..].to_vec(), enc_els(&c.path_elements(0.1).collect::<Vec<_>>()), true, "");
        let s = gen_seg(r);
        let kind = match s {
            PathSeg::Line(_) => "line",
            PathSeg::Quad(_) => "quad",
            PathSeg::Cubic(_) => "cubic",
        };
        o.case(13, "pathseg", enc_seg(&s), enc_els(&s.path_elements(0.1).collect::<Vec<_>>()), true, kind);
    }
    // ---- the private helpers through the hooks
    for _ in 0..n {
        let (rx, ry, rot, ang) = (gen_radius(r), gen_radius(r), gen_rot(r), gen_angle(r) + r.uniform(-1e-3, 1e-3));
        let v = kurbo::verif::verif_sample_ellipse(Vec2::new(rx, ry), rot, ang);
        o.case(15, "sample_ellipse", vec![rx, ry, rot, ang], vec![v.x, v.y], true, "");
        let p = Vec2::new(r.coord(), r.coord());
        let w = kurbo::verif::verif_rotate_pt(p, ang);
        o.case(16, "rotate_pt", vec![p.x, p.y, ang], vec![w.x, w.y], true, "");
    }
}

// ------------------------------------------------------------------ oracles

fn fail(class: &str, d: String) -> Option<(String, String)> {
    Some((class.to_string(), d))
}

/// de Casteljau, independent of kurbo's eval
fn cub(p0: Point, p1: Point, p2: Point, p3: Point, t: f64) -> Point {
    let l = |a: Point, b: Point| Point::new(a.x + (b.x - a.x) * t, a.y + (b.y - a.y) * t);
    let (a, b, c) = (l(p0, p1), l(p1, p2), l(p2, p3));
    let (d, e) = (l(a, b), l(b, c));
    l(d, e)
}

/// sample parameters: uniform plus the places where the radial error of a circular piece peaks
fn sample_ts() -> Vec<f64> {
    let mut v: Vec<f64> = (0..=24).map(|i| i as f64 / 24.0).collect();
    let d = 3f64.sqrt() / 6.0;
    v.extend_from_slice(&[0.5 - d, 0.5 + d, 0.19, 0.81, 0.2113, 0.7887]);
    v
}

/// Every drawn piece of an element list as (kind, control points); also checks that the list is one
/// contour: exactly one MoveTo, first; ClosePath only as the last element.
fn pieces(els: &[PathEl]) -> Result<Vec<(Point, PathEl)>, String> {
    let mut out = Vec::new();
    let start = match els.first() {
        Some(PathEl::MoveTo(p)) => *p,
        _ => return Err("the outline does not start with MoveTo".into()),
    };
    let mut last = start;
    for (i, e) in els.iter().enumerate().skip(1) {
        match e {
            PathEl::MoveTo(_) => return Err(format!("second MoveTo at element {}", i)),
            PathEl::ClosePath => {
                if i + 1 != els.len() {
                    return Err(format!("ClosePath at element {} is not last", i));
                }
            }
            PathEl::LineTo(p) => {
                out.push((last, *e));
                last = *p;
            }
            PathEl::QuadTo(_, p) => {
                out.push((last, *e));
                last = *p;
            }
            PathEl::CurveTo(_, _, p) => {
                out.push((last, *e));
                last = *p;
            }
        }
    }
    Ok(out)
}

fn piece_points(p0: Point, e: &PathEl, ts: &[f64]) -> Vec<Point> {
    match e {
        PathEl::LineTo(p) => ts.iter().map(|&t| Point::new(p0.x + (p.x - p0.x) * t, p0.y + (p.y - p0.y) * t)).collect(),
        PathEl::CurveTo(a, b, c) => ts.iter().map(|&t| cub(p0, *a, *b, *c, t)).collect(),
        PathEl::QuadTo(a, b) => ts
            .iter()
            .map(|&t| {
                let mt = 1.0 - t;
                Point::new(mt * mt * p0.x + 2.0 * mt * t * a.x + t * t * b.x, mt * mt * p0.y + 2.0 * mt * t * a.y + t * t * b.y)
            })
            .collect(),
        _ => vec![],
    }
}

/// Distance from (y0, y1) to the axis-aligned ellipse with semi-axes (a, b) centred at the origin
/// (Eberly, "Distance from a point to an ellipse": bisection on the Lagrange parameter, robust for
/// every aspect ratio). Returns (distance, nearest point).
fn dist_point_ellipse(a: f64, b: f64, px: f64, py: f64) -> (f64, f64, f64) {
    let (a, b) = (a.abs(), b.abs());
    if a < b {
        let (d, x, y) = dist_point_ellipse(b, a, py, px);
        return (d, y, x);
    }
    let (sx, sy) = (if px < 0.0 { -1.0 } else { 1.0 }, if py < 0.0 { -1.0 } else { 1.0 });
    let (y0, y1) = (px.abs(), py.abs());
    let (e0, e1) = (a, b);
    let (x0, x1);
    if e1 == 0.0 {
        // degenerate: the segment [-e0, e0]
        x0 = y0.min(e0);
        x1 = 0.0;
    } else if y1 > 0.0 {
        if y0 > 0.0 {
            let (z0, z1) = (y0 / e0, y1 / e1);
            let g = z0 * z0 + z1 * z1 - 1.0;
            if g != 0.0 {
                let r0 = (e0 / e1) * (e0 / e1);
                // root of (r0 z0/(s+r0))^2 + (z1/(s+1))^2 = 1
                let n0 = r0 * z0;
                let mut s0 = z1 - 1.0;
                let mut s1 = if g < 0.0 { 0.0 } else { n0.hypot(z1) - 1.0 };
                let mut s = 0.0;
                for _ in 0..2200 {
                    s = 0.5 * (s0 + s1);
                    if s == s0 || s == s1 {
                        break;
                    }
                    let (q0, q1) = (n0 / (s + r0), z1 / (s + 1.0));
                    let gg = q0 * q0 + q1 * q1 - 1.0;
                    if gg > 0.0 {
                        s0 = s;
                    } else if gg < 0.0 {
                        s1 = s;
                    } else {
                        break;
                    }
                }
                x0 = r0 * y0 / (s + r0);
                x1 = y1 / (s + 1.0);
            } else {
                x0 = y0;
                x1 = y1;
            }
        } else {
            x0 = 0.0;
            x1 = e1;
        }
    } else {
        let numer0 = e0 * y0;
        let denom0 = e0 * e0 - e1 * e1;
        if numer0 < denom0 {
            let xde0 = numer0 / denom0;
            x0 = e0 * xde0;
            x1 = e1 * (1.0 - xde0 * xde0).max(0.0).sqrt();
        } else {
            x0 = e0;
            x1 = 0.0;
        }
    }
    ((x0 - y0).hypot(x1 - y1), sx * x0, sy * x1)
}

/// unwrap the increments of a sequence of angles (each increment taken in (-pi, pi])
fn swept(angles: &[f64]) -> (f64, f64, f64) {
    // total, most negative increment, most positive increment
    let (mut tot, mut lo, mut hi) = (0.0, 0.0f64, 0.0f64);
    for w in angles.windows(2) {
        let mut d = w[1] - w[0];
        while d > PI {
            d -= 2.0 * PI;
        }
        while d <= -PI {
            d += 2.0 * PI;
        }
        tot += d;
        lo = lo.min(d);
        hi = hi.max(d);
    }
    (tot, lo, hi)
}

// ------------------------------------------------------------------ laws

fn g_circle(r: &mut Rng) -> Vec<f64> {
    let c = gen_center(r);
    let (mut rad, tol) = gen_r_tol(r);
    if r.chance(1, 12) {
        rad = -rad;
    }
    vec![c.x, c.y, rad, tol]
}

/// Circle: contour structure, exact closure, every sampled outline point within T of the ideal
/// circle (radial distance), one full positive turn with the angle never running backwards.
fn law_circle(a: &[f64]) -> Option<(String, String)> {
    let (c, rad, tol) = (Point::new(a[0], a[1]), a[2], a[3]);
    let ci = Circle::new(c, rad);
    let els: Vec<PathEl> = ci.path_elements(tol).collect();
    if ci.to_path(tol).elements() != &els[..] {
        return fail("circle:to_path", format!("to_path differs from path_elements for {:?} tol {}", ci, tol));
    }
    let ps = match pieces(&els) {
        Ok(p) => p,
        Err(e) => return fail("circle:structure", format!("{:?} tol {}: {}", ci, tol, e)),
    };
    let n = ps.len();
    if n < 1 || !matches!(els.last(), Some(PathEl::ClosePath)) || els.len() != n + 2 || ps.iter().any(|(_, e)| !matches!(e, PathEl::CurveTo(..))) {
        return fail("circle:structure", format!("{:?} tol {}: kinds {:?}", ci, tol, kinds(&els)));
    }
    // closed exactly: the last on-curve point is the MoveTo point, bit for bit
    let start = ps[0].0;
    let end = match ps[n - 1].1 {
        PathEl::CurveTo(_, _, p) => p,
        _ => unreachable!(),
    };
    if start != end {
        return fail("circle:closure", format!("{:?} tol {}: starts at {:?}, ends at {:?}", ci, tol, start, end));
    }
    let segs = ci.path_segments(tol).count();
    if segs != n {
        return fail("circle:path_segments", format!("{:?} tol {}: {} segments for {} pieces", ci, tol, segs, n));
    }
    let slack = 16.0 * EPS * (c.x.abs() + c.y.abs() + rad.abs());
    let ts = sample_ts();
    let mut worst = 0.0f64;
    let mut angles = Vec::with_capacity(n * 25);
    for (k, (p0, e)) in ps.iter().enumerate() {
        for (j, p) in piece_points(*p0, e, &ts).iter().enumerate() {
            let d = ((p.x - c.x).hypot(p.y - c.y) - rad.abs()).abs();
            if d > worst {
                worst = d;
            }
            if d > tol * (1.0 + 1e-9) + slack {
                return fail(
                    if n == 4 { "circle:tolerance:n=4" } else { "circle:tolerance:n>4" },
                    format!("{:?} tol {}: piece {} of {} at t={} is {:e} from the ideal circle (ratio err/T = {})", ci, tol, k, n, ts[j], d, d / tol),
                );
            }
        }
        // angles along the piece, uniform parameters only (monotone in t)
        for i in 0..=24 {
            if i == 24 && k + 1 != n {
                continue;
            }
            let p = piece_points(*p0, e, &[i as f64 / 24.0])[0];
            angles.push((p.y - c.y).atan2(p.x - c.x));
        }
    }
    if rad != 0.0 && rad.abs() > 1e3 * slack {
        let (tot, lo, _) = swept(&angles);
        if (tot - 2.0 * PI).abs() > 1e-6 {
            return fail("circle:once", format!("{:?} tol {}: swept angle {} instead of 2pi", ci, tol, tot));
        }
        if lo < -1e-9 {
            return fail("circle:once", format!("{:?} tol {}: the angle runs backwards by {}", ci, tol, lo));
        }
    }
    None
}

fn g_arc(r: &mut Rng) -> Vec<f64> {
    gen_arc_args(r)
}

/// Shared by Arc and Ellipse: `els` must be MoveTo + n CurveTo (+nothing); the ideal shape is the arc of
/// the ellipse (center c, semi-axes rx, ry, rotation rot) from eccentric angle `start` over `sweep`.
#[allow(clippy::too_many_arguments)]
fn check_arc_outline(name: &str, els: &[PathEl], c: Point, rx: f64, ry: f64, rot: f64, start: f64, sweep: f64, tol: f64, closed: bool, desc: &str) -> Option<(String, String)> {
    let ps = match pieces(els) {
        Ok(p) => p,
        Err(e) => return fail(&format!("{}:structure", name), format!("{}: {}", desc, e)),
    };
    let n = ps.len();
    if els.len() != n + 1 || ps.iter().any(|(_, e)| !matches!(e, PathEl::CurveTo(..))) {
        return fail(&format!("{}:structure", name), format!("{}: kinds {:?}", desc, kinds(els)));
    }
    if sweep != 0.0 && n < 1 {
        return fail(&format!("{}:structure", name), format!("{}: no pieces for a non-zero sweep", desc));
    }
    if sweep == 0.0 {
        return None;
    }
    let rmax = rx.abs().max(ry.abs());
    let rmin = rx.abs().min(ry.abs());
    let mag = c.x.abs() + c.y.abs() + rmax;
    // normal displacement: a few units of rounding at the size of the data; along the curve the accumulated
    // angle (angle0 += step, n times) adds up, which matters only for the closure check
    let slack = 16.0 * EPS * mag;
    let slack_closure = 32.0 * EPS * mag * (1.0 + 0.05 * n as f64);
    let (sr, cr) = rot.sin_cos();
    let local = |p: Point| -> (f64, f64) {
        let (dx, dy) = (p.x - c.x, p.y - c.y);
        (dx * cr + dy * sr, -dx * sr + dy * cr)
    };
    let ts = sample_ts();
    let mut angles = Vec::with_capacity(n * 25);
    let mut worst = (0.0f64, 0usize, 0.0f64);
    for (k, (p0, e)) in ps.iter().enumerate() {
        for (j, p) in piece_points(*p0, e, &ts).iter().enumerate() {
            let (u, v) = local(*p);
            let (d, _, _) = dist_point_ellipse(rx, ry, u, v);
            if d > worst.0 {
                worst = (d, k, ts[j]);
            }
        }
        for i in 0..=24 {
            if i == 24 && k + 1 != n {
                continue;
            }
            let p = piece_points(*p0, e, &[i as f64 / 24.0])[0];
            let (u, v) = local(p);
            angles.push((v / ry).atan2(u / rx));
        }
    }
    if worst.0 > tol * (1.0 + 1e-9) + slack {
        return fail(
            &format!("{}:tolerance", name),
            format!("{}: piece {} of {} at t={} is {:e} from the ideal ellipse (ratio err/T = {})", desc, worst.1, n, worst.2, worst.0, worst.0 / tol),
        );
    }
    // the eccentric angle runs from start to start + sweep, once, never backwards
    let noise = 64.0 * EPS * (1.0 + mag / rmin) * (1.0 + n as f64);
    if rmin > 0.0 && noise < 1e-3 {
        let (tot, lo, hi) = swept(&angles);
        if (tot - sweep).abs() > 1e-6 + 4.0 * noise {
            return fail(&format!("{}:once", name), format!("{}: swept eccentric angle {} instead of {}", desc, tot, sweep));
        }
        let back = if sweep > 0.0 { -lo } else { hi };
        if back > 1e-9 + noise {
            return fail(&format!("{}:once", name), format!("{}: the angle runs backwards by {}", desc, back));
        }
        let mut d0 = angles[0] - start;
        d0 -= (d0 / (2.0 * PI)).round() * 2.0 * PI;
        if d0.abs() > 1e-9 + noise {
            return fail(&format!("{}:start", name), format!("{}: outline starts at eccentric angle {} instead of {}", desc, angles[0], start));
        }
    }
    if closed {
        let start_pt = ps[0].0;
        let end_pt = match ps[n - 1].1 {
            PathEl::CurveTo(_, _, p) => p,
            _ => unreachable!(),
        };
        let d = (start_pt.x - end_pt.x).hypot(start_pt.y - end_pt.y);
        if d > slack_closure {
            return fail(&format!("{}:closure", name), format!("{}: starts at {:?}, ends at {:?} ({:e} apart)", desc, start_pt, end_pt, d));
        }
    }
    None
}

fn law_arc(a: &[f64]) -> Option<(String, String)> {
    let (arc, tol) = arc_of(a);
    let els: Vec<PathEl> = arc.path_elements(tol).collect();
    let desc = format!("{:?} tol {}", arc, tol);
    let app: Vec<PathEl> = arc.append_iter(tol).collect();
    if app[..] != els[1..] {
        return fail("arc:append_iter", format!("{}: append_iter differs from path_elements[1..]", desc));
    }
    let mut tri = Vec::new();
    arc.to_cubic_beziers(tol, |p1, p2, p3| tri.push(PathEl::CurveTo(p1, p2, p3)));
    if tri != app {
        return fail("arc:to_cubic_beziers", format!("{}: to_cubic_beziers differs from append_iter", desc));
    }
    if arc.to_path(tol).elements() != &els[..] {
        return fail("arc:to_path", format!("{}: to_path differs from path_elements", desc));
    }
    check_arc_outline("arc", &els, arc.center, a[2], a[3], a[6], a[4], a[5], tol, false, &desc)
}

fn g_ellipse(r: &mut Rng) -> Vec<f64> {
    let c = gen_center(r);
    let (rx, tol) = gen_r_tol(r);
    let ry = match r.below(5) {
        0 => rx,
        1 => (rx * log_uniform(r, 1e-7, 1.0)).max(1e-3),
        2 => (rx * log_uniform(r, 1.0, 1e7)).min(1e4),
        _ => gen_radius(r),
    };
    vec![c.x, c.y, rx, ry, gen_rot(r), tol]
}

/// Ellipse::new(center, radii, rotation): the ideal shape is that ellipse.
fn law_ellipse(a: &[f64]) -> Option<(String, String)> {
    let (c, rx, ry, rot, tol) = (Point::new(a[0], a[1]), a[2], a[3], a[4], a[5]);
    let e = Ellipse::new(c, (rx, ry), rot);
    let els: Vec<PathEl> = e.path_elements(tol).collect();
    let desc = format!("Ellipse::new({:?}, ({}, {}), {}) tol {}", c, rx, ry, rot, tol);
    if e.to_path(tol).elements() != &els[..] {
        return fail("ellipse:to_path", format!("{}: to_path differs from path_elements", desc));
    }
    // structure, distance, closure; the start angle depends on the SVD's choice of axes, so only
    // the swept total is checked (start = the outline's own first angle)
    let ps = match pieces(&els) {
        Ok(p) => p,
        Err(er) => return fail("ellipse:structure", format!("{}: {}", desc, er)),
    };
    if ps.is_empty() {
        return fail("ellipse:structure", format!("{}: no pieces", desc));
    }
    let (sr, cr) = rot.sin_cos();
    let p0 = ps[0].0;
    let (dx, dy) = (p0.x - c.x, p0.y - c.y);
    let start = ((-dx * sr + dy * cr) / ry).atan2((dx * cr + dy * sr) / rx);
    // the SVD may describe the same ellipse with the opposite orientation when radii are swapped; accept either
    let r1 = check_arc_outline("ellipse", &els, c, rx, ry, rot, start, 2.0 * PI, tol, true, &desc);
    match r1 {
        Some((ref cl, _)) if cl == "ellipse:once" => check_arc_outline("ellipse", &els, c, rx, ry, rot, start, -2.0 * PI, tol, true, &desc),
        other => other,
    }
}

fn g_rr(r: &mut Rng) -> Vec<f64> {
    gen_rr_args(r)
}

/// distance from p to the segment ab
fn dist_seg(p: Point, a: Point, b: Point) -> f64 {
    let (dx, dy) = (b.x - a.x, b.y - a.y);
    let l2 = dx * dx + dy * dy;
    let t = if l2 > 0.0 { (((p.x - a.x) * dx + (p.y - a.y) * dy) / l2).clamp(0.0, 1.0) } else { 0.0 };
    (p.x - (a.x + t * dx)).hypot(p.y - (a.y + t * dy))
}
/// distance from p to the circular arc (center c, radius r >= 0, from angle a0 over sweep sw)
fn dist_circ_arc(p: Point, c: Point, r: f64, a0: f64, sw: f64) -> f64 {
    let r = r.abs();
    let ang = (p.y - c.y).atan2(p.x - c.x);
    let inside = if sw.abs() >= 2.0 * PI {
        true
    } else {
        // offset of ang from a0 in the direction of the sweep, in [0, 2pi)
        let mut d = (ang - a0) * sw.signum();
        d -= (d / (2.0 * PI)).floor() * 2.0 * PI;
        d <= sw.abs()
    };
    let e0 = Point::new(c.x + r * a0.cos(), c.y + r * a0.sin());
    let e1 = Point::new(c.x + r * (a0 + sw).cos(), c.y + r * (a0 + sw).sin());
    let de = (p.x - e0.x).hypot(p.y - e0.y).min((p.x - e1.x).hypot(p.y - e1.y));
    if inside {
        de.min(((p.x - c.x).hypot(p.y - c.y) - r).abs())
    } else {
        de
    }
}

/// RoundedRect: M, arc, L, arc, L, arc, L, arc, Z; every sample within T of the ideal boundary
/// (four edges and four quarter circles); straight edges exact; one turn around the centre.
fn law_rounded_rect(a: &[f64]) -> Option<(String, String)> {
    let (rr, tol) = rr_of(a);
    let els: Vec<PathEl> = rr.path_elements(tol).collect();
    let desc = format!("{:?} tol {}", rr, tol);
    if rr.to_path(tol).elements() != &els[..] {
        return fail("rounded_rect:to_path", format!("{}: to_path differs from path_elements", desc));
    }
    let ps = match pieces(&els) {
        Ok(p) => p,
        Err(e) => return fail("rounded_rect:structure", format!("{}: {}", desc, e)),
    };
    // kinds: M C+ L C+ L C+ L C+ Z
    let ks = kinds(&els);
    let mut groups: Vec<(f64, usize)> = Vec::new();
    for k in &ks {
        match groups.last_mut() {
            Some((g, n)) if g == k && *k == 3.0 => *n += 1,
            _ => groups.push((*k, 1)),
        }
    }
    let want = [0.0, 3.0, 1.0, 3.0, 1.0, 3.0, 1.0, 3.0, 4.0];
    if groups.len() != 9 || groups.iter().zip(want.iter()).any(|((g, _), w)| g != w) {
        return fail("rounded_rect:corner_order", format!("{}: kinds {:?}", desc, ks));
    }
    let rc = rr.rect();
    let q = rr.radii();
    // the rectangle elements are exact
    let lines: Vec<Point> = els.iter().filter_map(|e| match e {
        PathEl::MoveTo(p) | PathEl::LineTo(p) => Some(*p),
        _ => None,
    }).collect();
    let want_pts = [
        Point::new(rc.x0, rc.y0 + q.top_left),
        Point::new(rc.x1 - q.top_right, rc.y0),
        Point::new(rc.x1, rc.y1 - q.bottom_right),
        Point::new(rc.x0 + q.bottom_left, rc.y1),
    ];
    if lines[..] != want_pts[..] {
        return fail("rounded_rect:edges", format!("{}: edge points {:?}, expected {:?}", desc, lines, want_pts));
    }
    // ideal boundary
    let corners = [
        (Point::new(rc.x0 + q.top_left, rc.y0 + q.top_left), q.top_left, PI),
        (Point::new(rc.x1 - q.top_right, rc.y0 + q.top_right), q.top_right, 1.5 * PI),
        (Point::new(rc.x1 - q.bottom_right, rc.y1 - q.bottom_right), q.bottom_right, 0.0),
        (Point::new(rc.x0 + q.bottom_left, rc.y1 - q.bottom_left), q.bottom_left, 0.5 * PI),
    ];
    let edges = [
        (Point::new(rc.x0 + q.top_left, rc.y0), Point::new(rc.x1 - q.top_right, rc.y0)),
        (Point::new(rc.x1, rc.y0 + q.top_right), Point::new(rc.x1, rc.y1 - q.bottom_right)),
        (Point::new(rc.x1 - q.bottom_right, rc.y1), Point::new(rc.x0 + q.bottom_left, rc.y1)),
        (Point::new(rc.x0, rc.y1 - q.bottom_left), Point::new(rc.x0, rc.y0 + q.top_left)),
    ];
    let mag = rc.x0.abs().max(rc.x1.abs()) + rc.y0.abs().max(rc.y1.abs());
    let slack = 32.0 * EPS * mag.max(1e-300);
    let ts = sample_ts();
    // the closing edge too
    let mut all = ps.clone();
    let last_pt = match ps.last().map(|x| x.1) {
        Some(PathEl::CurveTo(_, _, p)) => p,
        _ => return fail("rounded_rect:structure", format!("{}: last piece is not a curve", desc)),
    };
    all.push((last_pt, PathEl::LineTo(ps[0].0)));
    let mut corner_ix = 0usize;
    let mut prev_curve = false;
    let ctr = rc.center();
    let mut angles = Vec::new();
    for (k, (p0, e)) in all.iter().enumerate() {
        let is_curve = matches!(e, PathEl::CurveTo(..));
        if !is_curve && prev_curve {
            corner_ix += 1;
        }
        prev_curve = is_curve;
        for (j, p) in piece_points(*p0, e, &ts).iter().enumerate() {
            let d = if is_curve {
                // a corner piece must be near its own quarter circle
                let (cc, r, a0) = corners[corner_ix.min(3)];
                dist_circ_arc(*p, cc, r, a0, FRAC_PI_2)
            } else {
                edges.iter().map(|(a, b)| dist_seg(*p, *a, *b)).fold(f64::INFINITY, f64::min)
            };
            if d > tol * (1.0 + 1e-9) + slack {
                return fail(
                    if is_curve { "rounded_rect:tolerance" } else { "rounded_rect:edges" },
                    format!("{}: element {} at t={} is {:e} from the ideal boundary (ratio err/T = {})", desc, k + 1, ts[j], d, d / tol),
                );
            }
        }
        for i in 0..24 {
            let p = piece_points(*p0, e, &[i as f64 / 24.0])[0];
            angles.push((p.y - ctr.y).atan2(p.x - ctr.x));
        }
    }
    angles.push(angles[0]);
    if rc.width() > 1e6 * slack && rc.height() > 1e6 * slack {
        let (tot, lo, _) = swept(&angles);
        if (tot - 2.0 * PI).abs() > 1e-6 {
            return fail("rounded_rect:once", format!("{}: swept angle about the centre {} instead of 2pi", desc, tot));
        }
        if lo < -1e-7 {
            return fail("rounded_rect:once", format!("{}: the angle about the centre runs backwards by {}", desc, lo));
        }
    }
    None
}

fn g_cs(r: &mut Rng) -> Vec<f64> {
    gen_cs_args(r)
}

/// CircleSegment: M L arc L arc; every sample within T of the ideal boundary (two radial lines,
/// outer arc, inner arc); the contour returns to its start (to rounding).
fn law_circle_segment(a: &[f64]) -> Option<(String, String)> {
    let (cs, tol) = cs_of(a);
    let (c, ro, ri, st, sw) = (cs.center, a[2], a[3], a[4], a[5]);
    let els: Vec<PathEl> = cs.path_elements(tol).collect();
    let desc = format!("{:?} tol {}", cs, tol);
    if cs.to_path(tol).elements() != &els[..] {
        return fail("circle_segment:to_path", format!("{}: to_path differs from path_elements", desc));
    }
    let ps = match pieces(&els) {
        Ok(p) => p,
        Err(e) => return fail("circle_segment:structure", format!("{}: {}", desc, e)),
    };
    let ks = kinds(&els);
    // M L C* L C*
    let nl: Vec<usize> = ks.iter().enumerate().filter(|(_, k)| **k == 1.0).map(|(i, _)| i).collect();
    let ok = ks.first() == Some(&0.0) && nl.len() == 2 && nl[0] == 1 && ks.iter().filter(|k| **k == 3.0).count() == ks.len() - 3 && (sw == 0.0 || (nl[1] > 2 && nl[1] + 1 < ks.len()));
    if !ok {
        return fail("circle_segment:structure", format!("{}: kinds {:?}", desc, ks));
    }
    let n_outer = nl[1] - 2;
    let n_total = ks.len() - 3;
    let mag = c.x.abs() + c.y.abs() + ro.abs().max(ri.abs());
    let slack = 32.0 * EPS * mag * (1.0 + 0.05 * n_total as f64) * (1.0 + st.abs() + sw.abs());
    let pt_at = |r: f64, ang: f64| Point::new(c.x + r * ang.cos(), c.y + r * ang.sin());
    let ts = sample_ts();
    for (k, (p0, e)) in ps.iter().enumerate() {
        // element index k+1: 1 = first radius, 2..2+n_outer = outer arc, then second radius, then inner arc
        for (j, p) in piece_points(*p0, e, &ts).iter().enumerate() {
            let d = if k == 0 {
                dist_seg(*p, pt_at(ri, st), pt_at(ro, st))
            } else if k <= n_outer {
                dist_circ_arc(*p, c, ro, st, sw)
            } else if k == n_outer + 1 {
                dist_seg(*p, pt_at(ro, st + sw), pt_at(ri, st + sw))
            } else {
                dist_circ_arc(*p, c, ri, st + sw, -sw)
            };
            if d > tol * (1.0 + 1e-9) + slack {
                return fail(
                    "circle_segment:tolerance",
                    format!("{}: element {} at t={} is {:e} from the ideal boundary (ratio err/T = {})", desc, k + 1, ts[j], d, d / tol),
                );
            }
        }
    }
    // returns to its starting point
    let start = ps[0].0;
    let end = match ps.last().unwrap().1 {
        PathEl::CurveTo(_, _, p) | PathEl::LineTo(p) => p,
        _ => start,
    };
    let d = (start.x - end.x).hypot(start.y - end.y);
    if d > slack {
        return fail("circle_segment:closure", format!("{}: starts at {:?}, ends at {:?} ({:e} apart)", desc, start, end, d));
    }
    // both arcs sweep the whole range once
    if sw != 0.0 && ro > 1e6 * slack && ri > 1e6 * slack {
        for (name, lo_k, hi_k, want) in [("outer", 1usize, n_outer, sw), ("inner", n_outer + 2, n_total + 1, -sw)] {
            let mut angles = Vec::new();
            for (p0, e) in &ps[lo_k..=hi_k.min(ps.len() - 1)] {
                for i in 0..24 {
                    let p = piece_points(*p0, e, &[i as f64 / 24.0])[0];
                    angles.push((p.y - c.y).atan2(p.x - c.x));
                }
            }
            if let Some((_, PathEl::CurveTo(_, _, p))) = ps.get(hi_k.min(ps.len() - 1)) {
                angles.push((p.y - c.y).atan2(p.x - c.x));
            }
            let (tot, lo, hi) = swept(&angles);
            if (tot - want).abs() > 1e-6 {
                return fail("circle_segment:once", format!("{}: {} arc sweeps {} instead of {}", desc, name, tot, want));
            }
            let back = if want > 0.0 { -lo } else { hi };
            if back > 1e-8 {
                return fail("circle_segment:once", format!("{}: {} arc runs backwards by {}", desc, name, back));
            }
        }
    }
    None
}

fn g_poly(r: &mut Rng) -> Vec<f64> {
    let ps = gen_points(r, 4);
    ps.iter().flat_map(|p| [p.x, p.y]).collect()
}

/// Line, Rect, Triangle, QuadBez, CubicBez, PathSeg: the outline is the shape's own vertices, verbatim.
fn law_polygons(a: &[f64]) -> Option<(String, String)> {
    let p = |i: usize| Point::new(a[2 * i], a[2 * i + 1]);
    let tol = 1e-3 + a[0].abs().fract();
    let rect = Rect::new(a[0], a[1], a[2], a[3]);
    let els: Vec<PathEl> = rect.path_elements(tol).collect();
    let want = vec![
        PathEl::MoveTo(Point::new(rect.x0, rect.y0)),
        PathEl::LineTo(Point::new(rect.x1, rect.y0)),
        PathEl::LineTo(Point::new(rect.x1, rect.y1)),
        PathEl::LineTo(Point::new(rect.x0, rect.y1)),
        PathEl::ClosePath,
    ];
    if els != want || rect.to_path(tol).elements() != &want[..] {
        return fail("polygon:rect", format!("{:?}: {:?}", rect, els));
    }
    let segs: Vec<PathSeg> = rect.path_segments(tol).collect();
    let mut wsegs = vec![
        PathSeg::Line(Line::new((rect.x0, rect.y0), (rect.x1, rect.y0))),
        PathSeg::Line(Line::new((rect.x1, rect.y0), (rect.x1, rect.y1))),
        PathSeg::Line(Line::new((rect.x1, rect.y1), (rect.x0, rect.y1))),
    ];
    if rect.y0 != rect.y1 {
        wsegs.push(PathSeg::Line(Line::new((rect.x0, rect.y1), (rect.x0, rect.y0))));
    }
    if segs != wsegs {
        return fail("polygon:rect-segments", format!("{:?}: {:?}", rect, segs));
    }
    let tri = Triangle::new(p(0), p(1), p(2));
    let want = vec![PathEl::MoveTo(p(0)), PathEl::LineTo(p(1)), PathEl::LineTo(p(2)), PathEl::ClosePath];
    if tri.path_elements(tol).collect::<Vec<_>>() != want || tri.to_path(tol).elements() != &want[..] {
        return fail("polygon:triangle", format!("{:?}", tri));
    }
    let l = Line::new(p(0), p(1));
    let want = vec![PathEl::MoveTo(p(0)), PathEl::LineTo(p(1))];
    if l.path_elements(tol).collect::<Vec<_>>() != want || PathSeg::Line(l).path_elements(tol).collect::<Vec<_>>() != want {
        return fail("polygon:line", format!("{:?}", l));
    }
    let q = QuadBez::new(p(0), p(1), p(2));
    let want = vec![PathEl::MoveTo(p(0)), PathEl::QuadTo(p(1), p(2))];
    if q.path_elements(tol).collect::<Vec<_>>() != want || PathSeg::Quad(q).path_elements(tol).collect::<Vec<_>>() != want {
        return fail("polygon:quad", format!("{:?}", q));
    }
    let c = CubicBez::new(p(0), p(1), p(2), p(3));
    let want = vec![PathEl::MoveTo(p(0)), PathEl::CurveTo(p(1), p(2), p(3))];
    if c.path_elements(tol).collect::<Vec<_>>() != want || PathSeg::Cubic(c).path_elements(tol).collect::<Vec<_>>() != want {
        return fail("polygon:cubic", format!("{:?}", c));
    }
    let bp: BezPath = c.to_path(tol);
    if bp.segments().collect::<Vec<_>>() != vec![PathSeg::Cubic(c)] {
        return fail("polygon:cubic-segments", format!("{:?}", c));
    }
    None
}

fn laws() -> Vec<Law> {
    vec![
        Law { name: "circle", gen: g_circle, check: law_circle, weight: 3 },
        Law { name: "arc", gen: g_arc, check: law_arc, weight: 3 },
        Law { name: "ellipse", gen: g_ellipse, check: law_ellipse, weight: 3 },
        Law { name: "rounded_rect", gen: g_rr, check: law_rounded_rect, weight: 2 },
        Law { name: "circle_segment", gen: g_cs, check: law_circle_segment, weight: 2 },
        Law { name: "polygons", gen: g_poly, check: law_polygons, weight: 2 },
    ]
}

// ------------------------------------------------------------------ extra: sweep over every piece count

/// For every n the code can pick in the property's range: a circle whose radius/tolerance ratio sits
/// just above the switch to n pieces (the worst case for n), through the circle law. Also records the
/// largest err/T ratio seen.
fn extra(_r: &mut Rng, thorough: bool, o: &mut Out) {
    let mut worst = (0.0f64, 0usize);
    let nmax = if thorough { 150 } else { 40 };
    let d = 3f64.sqrt() / 6.0;
    for n in 4..=nmax {
        // n pieces are chosen for (n-1)^6 < 1.1163 se <= n^6
        for f in [1.0 - 1e-9, 0.5, 1e-6] {
            let lo = ((n - 1) as f64).powi(6) / 1.1163;
            let hi = (n as f64).powi(6) / 1.1163;
            let se = (lo + (hi - lo) * f).max(if n == 4 { 1.0 } else { LIMIT4 });
            let se = if n == 4 { LIMIT4 * (1.0 - 1e-9) * f.max(0.5) } else { se };
            for rad in [1e-3, 1.0, 1e4] {
                let tol = rad / se;
                if !(1e-9..=1.0).contains(&tol) {
                    continue;
                }
                let args = [0.25, -3.5, rad, tol];
                o.oracle_eval("extra:circle_n_sweep");
                if let Some((class, desc)) = law_circle(&args) {
                    o.violation(&class, desc, format!("{{\"law\":\"circle\",\"args\":{}}}", crate::util::fmt_fs(&args)));
                }
                let ci = Circle::new((0.25, -3.5), rad);
                let els: Vec<PathEl> = ci.path_elements(tol).collect();
                if let Ok(ps) = pieces(&els) {
                    let (p0, e) = ps[0];
                    for p in piece_points(p0, &e, &[0.5 - d, 0.5 + d, 0.2, 0.8]) {
                        let err = ((p.x - 0.25).hypot(p.y + 3.5) - rad).abs() / tol;
                        if err > worst.0 {
                            worst = (err, ps.len());
                        }
                    }
                }
            }
        }
    }
    o.notes.push(format!("circle n-sweep (n = 4..{}): largest radial error / tolerance = {:.6} at n = {}", nmax, worst.0, worst.1));
    // arcs: the worst case for m pieces over a sweep s is n_err just below m * 2pi / |s|
    let mmax = if thorough { 40 } else { 12 };
    for s in [2.0 * PI, -2.0 * PI, FRAC_PI_2, -PI, 4.0 * PI, 1.0] {
        for m in 1..=mmax {
            let n_err = m as f64 * 2.0 * PI / f64::abs(s);
            for f in [1.0 - 1e-9, 1.0 - 1e-5] {
                let se = n_err.powi(6) / 1.1163 * f;
                for rad in [1e-3, 1.0, 1e4] {
                    let tol = rad / se;
                    if !(1e-9..=1.0).contains(&tol) {
                        continue;
                    }
                    for args in [vec![0.25, -3.5, rad, rad, 0.3, s, 0.7, tol], vec![10.0, 2.0, rad, rad * 0.999, -1.0, s, 0.0, tol]] {
                        o.oracle_eval("extra:arc_n_sweep");
                        if let Some((class, desc)) = law_arc(&args) {
                            o.violation(&class, desc, format!("{{\"law\":\"arc\",\"args\":{}}}", crate::util::fmt_fs(&args)));
                        }
                    }
                    if s == 2.0 * PI {
                        let args = vec![0.25, -3.5, rad, rad * 0.99, 0.7, tol];
                        o.oracle_eval("extra:ellipse_n_sweep");
                        if let Some((class, desc)) = law_ellipse(&args) {
                            o.violation(&class, desc, format!("{{\"law\":\"ellipse\",\"args\":{}}}", crate::util::fmt_fs(&args)));
                        }
                    }
                }
            }
        }
    }
}
