//! C19 — the floating-point backend. The float methods are called the way the crate calls them:
//! through std in the default build, through `kurbo::common::FloatFuncs` (= libm) in the libm build.
use crate::util::{Out, Rng};
use crate::{Law, Prop};

pub fn prop() -> Prop {
    Prop { id: "C19", corr, laws, extra, law_budget: (2000, 40000) }
}

#[cfg(feature = "libm")]
mod m {
    use kurbo::common::FloatFuncs as FF;
    pub const BACKEND: &str = "libm";
    pub fn abs(x: f64) -> f64 { FF::abs(x) }
    pub fn ceil(x: f64) -> f64 { FF::ceil(x) }
    pub fn floor(x: f64) -> f64 { FF::floor(x) }
    pub fn round(x: f64) -> f64 { FF::round(x) }
    pub fn trunc(x: f64) -> f64 { FF::trunc(x) }
    pub fn sqrt(x: f64) -> f64 { FF::sqrt(x) }
    pub fn copysign(x: f64, s: f64) -> f64 { FF::copysign(x, s) }
    pub fn mul_add(x: f64, a: f64, b: f64) -> f64 { FF::mul_add(x, a, b) }
    pub fn signum(x: f64) -> f64 { FF::signum(x) }
    pub fn powi(x: f64, n: i32) -> f64 { FF::powi(x, n) }
    pub fn sin(x: f64) -> f64 { FF::sin(x) }
    pub fn cos(x: f64) -> f64 { FF::cos(x) }
    pub fn tan(x: f64) -> f64 { FF::tan(x) }
    pub fn acos(x: f64) -> f64 { FF::acos(x) }
    pub fn atan2(y: f64, x: f64) -> f64 { FF::atan2(y, x) }
    pub fn cbrt(x: f64) -> f64 { FF::cbrt(x) }
    pub fn hypot(x: f64, y: f64) -> f64 { FF::hypot(x, y) }
    pub fn ln(x: f64) -> f64 { FF::ln(x) }
    pub fn powf(x: f64, y: f64) -> f64 { FF::powf(x, y) }
    pub fn sin_cos(x: f64) -> (f64, f64) { FF::sin_cos(x) }
    pub fn log2(x: f64) -> f64 { FF::log2(x) }
}
#[cfg(not(feature = "libm"))]
mod m {
    pub const BACKEND: &str = "std";
    pub fn abs(x: f64) -> f64 { x.abs() }
    pub fn ceil(x: f64) -> f64 { x.ceil() }
    pub fn floor(x: f64) -> f64 { x.floor() }
    pub fn round(x: f64) -> f64 { x.round() }
    pub fn trunc(x: f64) -> f64 { x.trunc() }
    pub fn sqrt(x: f64) -> f64 { x.sqrt() }
    pub fn copysign(x: f64, s: f64) -> f64 { x.copysign(s) }
    pub fn mul_add(x: f64, a: f64, b: f64) -> f64 { x.mul_add(a, b) }
    pub fn signum(x: f64) -> f64 { x.signum() }
    pub fn powi(x: f64, n: i32) -> f64 { x.powi(n) }
    pub fn sin(x: f64) -> f64 { x.sin() }
    pub fn cos(x: f64) -> f64 { x.cos() }
    pub fn tan(x: f64) -> f64 { x.tan() }
    pub fn acos(x: f64) -> f64 { x.acos() }
    pub fn atan2(y: f64, x: f64) -> f64 { y.atan2(x) }
    pub fn cbrt(x: f64) -> f64 { x.cbrt() }
    pub fn hypot(x: f64, y: f64) -> f64 { x.hypot(y) }
    pub fn ln(x: f64) -> f64 { x.ln() }
    pub fn powf(x: f64, y: f64) -> f64 { x.powf(y) }
    pub fn sin_cos(x: f64) -> (f64, f64) { x.sin_cos() }
    pub fn log2(x: f64) -> f64 { x.log2() }
}

fn special(r: &mut Rng) -> f64 {
    *r.pick(&[0.0, -0.0, 1.0, -1.0, 0.5, -0.5, 1.5, -1.5, 2.5, -2.5, 3.0, 1e-300, -1e-300, 1e300, -1e300, f64::INFINITY, f64::NEG_INFINITY, f64::NAN,
        4503599627370496.0, 4503599627370497.0, 0.49999999999999994, -0.49999999999999994, 1e15 + 0.5])
}
fn exactish(r: &mut Rng) -> f64 {
    match r.below(6) {
        0 => special(r),
        1 => r.grid(40, 8.0),
        2 => r.range_i(-1000, 1000) as f64 + 0.5,
        3 => r.generic(-60, 60),
        4 => r.generic(-1000, 1000),
        _ => r.uniform(-100.0, 100.0),
    }
}
/// well inside the domain, away from the singular points of the function
fn generic(r: &mut Rng) -> f64 {
    match r.below(3) {
        0 => r.uniform(-10.0, 10.0),
        1 => r.generic(-8, 8),
        _ => r.uniform(-1000.0, 1000.0),
    }
}

fn corr(r: &mut Rng, thorough: bool, o: &mut Out) {
    let n = if thorough { 4000 } else { 400 };
    o.notes.push(format!("backend of this harness build: {}", m::BACKEND));
    for _ in 0..n {
        let (x, y, z) = (exactish(r), exactish(r), exactish(r));
        let cls = |v: f64| if v.is_nan() { "nan" } else if v.is_infinite() { "inf" } else if v == 0.0 { "zero" } else { "finite" };
        o.case(1, "abs", vec![x], vec![m::abs(x)], x != 0.0, cls(x));
        o.case(2, "ceil", vec![x], vec![m::ceil(x)], x.fract() != 0.0, cls(x));
        o.case(3, "floor", vec![x], vec![m::floor(x)], x.fract() != 0.0, cls(x));
        o.case(4, "round", vec![x], vec![m::round(x)], x.fract() != 0.0, if x.fract().abs() == 0.5 { "tie" } else { cls(x) });
        o.case(5, "trunc", vec![x], vec![m::trunc(x)], x.fract() != 0.0, cls(x));
        o.case(6, "sqrt", vec![x], vec![m::sqrt(x)], x > 0.0, if x < 0.0 { "negative" } else { cls(x) });
        o.case(7, "copysign", vec![x, y], vec![m::copysign(x, y)], (x < 0.0) != (y < 0.0), cls(y));
        o.case(8, "mul_add", vec![x, y, z], vec![m::mul_add(x, y, z)], x * y + z != m::mul_add(x, y, z), if x * y + z != m::mul_add(x, y, z) { "fused-differs" } else { "same" });
        o.case(9, "signum", vec![x], vec![m::signum(x)], true, cls(x));
        // the libm class: generic arguments only
        let (g, h) = (generic(r), generic(r));
        let k = r.range_i(-9, 9) as i32;
        o.case(10, "powi", vec![g, k as f64], vec![m::powi(g, k)], k != 0 && k != 1, if k < 0 { "negative-exp" } else { "nonneg-exp" });
        o.case(20, "sin", vec![g], vec![m::sin(g)], true, "");
        o.case(21, "cos", vec![g], vec![m::cos(g)], true, "");
        let t = r.uniform(-1.4, 1.4);
        o.case(22, "tan", vec![t], vec![m::tan(t)], true, "");
        let u = r.uniform(-0.999, 0.999);
        o.case(23, "acos", vec![u], vec![m::acos(u)], true, "");
        o.case(24, "atan2", vec![g, h], vec![m::atan2(g, h)], true, if h < 0.0 { "x<0" } else { "x>0" });
        o.case(25, "cbrt", vec![g], vec![m::cbrt(g)], true, if g < 0.0 { "negative" } else { "positive" });
        o.case(26, "hypot", vec![g, h], vec![m::hypot(g, h)], true, "");
        let p = r.uniform(1e-3, 1e3);
        o.case(27, "ln", vec![p], vec![m::ln(p)], true, "");
        let e = r.uniform(-3.0, 3.0);
        o.case(28, "powf", vec![p, e], vec![m::powf(p, e)], true, "");
        let sc = m::sin_cos(g);
        o.case(29, "sin_cos", vec![g], vec![sc.0, sc.1], true, "");
        o.case(30, "log2", vec![p], vec![m::log2(p)], true, "");
        // the whole exponent range, where a naive formula overflows or underflows but the function does not
        let k = r.range_i(-1000, 1000) as i32;
        let sc = 2f64.powi(k);
        let (a3, a4) = (*r.pick(&[3.0, 5.0, 8.0, 7.0]), 0.0);
        let _ = a4;
        let (px, py) = match a3 as i32 { 3 => (3.0, 4.0), 5 => (5.0, 12.0), 8 => (8.0, 15.0), _ => (7.0, 24.0) };
        o.case(26, "hypot-extreme", vec![px * sc, py * sc], vec![m::hypot(px * sc, py * sc)], k.abs() > 500, if k > 500 { "huge" } else if k < -500 { "tiny" } else { "moderate" });
        let big = r.generic(-1000, 1000);
        o.case(25, "cbrt-extreme", vec![big], vec![m::cbrt(big)], true, "");
        o.case(6, "sqrt-extreme", vec![big.abs()], vec![m::sqrt(big.abs())], true, "");
        o.case(27, "ln-extreme", vec![big.abs()], vec![m::ln(big.abs())], true, "");
        let big2 = r.generic(-1000, 1000);
        if (big.abs().log2() - big2.abs().log2()).abs() < 900.0 {
            o.case(24, "atan2-extreme", vec![big, big2], vec![m::atan2(big, big2)], true, "");
        }
    }
}

fn fail(class: &str, d: String) -> Option<(String, String)> {
    Some((class.to_string(), d))
}

fn g3(r: &mut Rng) -> Vec<f64> {
    vec![generic(r), generic(r), exactish(r)]
}

/// Characteristic identities that hold for the functions of the right meaning whatever library
/// computes them (to a generous tolerance), and fail for a swapped mapping or argument order.
fn law_identities(a: &[f64]) -> Option<(String, String)> {
    let (x, y, e) = (a[0], a[1], a[2]);
    let close = |p: f64, q: f64, tol: f64| (p - q).abs() <= tol * (1.0 + p.abs().max(q.abs()));
    let (s, c) = (m::sin(x), m::cos(x));
    if !close(s * s + c * c, 1.0, 1e-12) {
        return fail("identity:sin2+cos2", format!("x={:?}: sin={:?} cos={:?}", x, s, c));
    }
    // sin is odd and cos is even: tells them apart
    if !close(m::sin(-x), -s, 1e-12) || !close(m::cos(-x), c, 1e-12) {
        return fail("identity:parity", format!("x={:?}", x));
    }
    let sc = m::sin_cos(x);
    if !close(sc.0, s, 1e-13) || !close(sc.1, c, 1e-13) {
        return fail("identity:sin_cos-order", format!("x={:?}: sin_cos={:?}, sin={:?}, cos={:?}", x, sc, s, c));
    }
    if c.abs() > 1e-3 && !close(m::tan(x), s / c, 1e-10) {
        return fail("identity:tan", format!("x={:?}", x));
    }
    // atan2(y, x): the angle of the vector (x, y)
    let (px, py) = (x, y);
    let th = m::atan2(py, px);
    let h = m::hypot(px, py);
    if h > 1e-6 && (!close(h * m::cos(th), px, 1e-11) || !close(h * m::sin(th), py, 1e-11)) {
        return fail("identity:atan2-argument-order", format!("atan2({:?},{:?})={:?}", py, px, th));
    }
    if !close(h * h, px * px + py * py, 1e-12) {
        return fail("identity:hypot", format!("hypot({:?},{:?})={:?}", px, py, h));
    }
    // hypot is scale-equivariant over the whole exponent range (no spurious overflow/underflow)
    for k in [-1000i32, -600, 600, 900] {
        let sc = 2f64.powi(k);
        let hs = m::hypot(px * sc, py * sc);
        let want = h * sc;
        if want.is_finite() && want > 1e-290 && !close(hs / sc, h, 1e-12) {
            return fail("identity:hypot-scale", format!("hypot({:?},{:?})={:?}, want {:?}", px * sc, py * sc, hs, want));
        }
    }
    let cb = m::cbrt(x);
    if !close(cb * cb * cb, x, 1e-12) {
        return fail("identity:cbrt", format!("cbrt({:?})={:?}", x, cb));
    }
    let ax = x.abs() + 1e-3;
    if !close(m::powf(ax, 0.5), m::sqrt(ax), 1e-12) || !close(m::powf(ax, 2.0), ax * ax, 1e-12) {
        return fail("identity:powf", format!("x={:?}", ax));
    }
    if !close(m::powi(x, 3), x * x * x, 1e-12) || (x != 0.0 && !close(m::powi(x, -2), 1.0 / (x * x), 1e-12)) {
        return fail("identity:powi", format!("x={:?}: powi3={:?} powi-2={:?}", x, m::powi(x, 3), m::powi(x, -2)));
    }
    if !close(m::ln(ax * 4.0), m::ln(ax) + 2.0 * m::ln(2.0), 1e-12) || !close(m::log2(ax * 4.0), m::log2(ax) + 2.0, 1e-12) || !close(m::log2(8.0), 3.0, 1e-14) {
        return fail("identity:ln-log2", format!("x={:?}", ax));
    }
    let u = (x / 1001.0).clamp(-0.999, 0.999);
    if !close(m::cos(m::acos(u)), u, 1e-12) {
        return fail("identity:acos", format!("u={:?}", u));
    }
    // exactly specified operations
    if e.is_finite() {
        let (fl, ce, tr, ro) = (m::floor(e), m::ceil(e), m::trunc(e), m::round(e));
        if !(fl <= e && e <= ce && ce - fl <= 1.0 && fl == fl.trunc() && ce == ce.trunc()) {
            return fail("exact:floor-ceil", format!("e={:?}: floor={:?} ceil={:?}", e, fl, ce));
        }
        if tr != (if e < 0.0 { ce } else { fl }) {
            return fail("exact:trunc", format!("e={:?}: trunc={:?}", e, tr));
        }
        // e - trunc(e) is exact (a multiple of ulp(e) no larger than e), unlike e - floor(e)
        let frac = e - tr;
        let want_round = if frac.abs() >= 0.5 { tr + 1.0f64.copysign(e) } else { tr };
        if ro != want_round {
            return fail("exact:round-half-away", format!("e={:?}: round={:?}", e, ro));
        }
        if m::abs(e) != (if e < 0.0 { -e } else { e }) || m::abs(e).is_sign_negative() {
            return fail("exact:abs", format!("e={:?}", e));
        }
        if e >= 0.0 {
            let q = m::sqrt(e);
            if !close(q * q, e, 1e-15) {
                return fail("exact:sqrt", format!("e={:?}", e));
            }
        }
    }
    let cs = m::copysign(x, e);
    if cs.abs().to_bits() != x.abs().to_bits() || (!e.is_nan() && cs.is_sign_negative() != e.is_sign_negative()) {
        return fail("exact:copysign-argument-order", format!("copysign({:?},{:?})={:?}", x, e, cs));
    }
    let sg = m::signum(e);
    if e.is_nan() != sg.is_nan() || (!e.is_nan() && sg != if e.is_sign_negative() { -1.0 } else { 1.0 }) {
        return fail("exact:signum", format!("signum({:?})={:?}", e, sg));
    }
    // fma(x, a, b) = x*a + b with one rounding: compare with the exact product split (Dekker) on moderate values
    let fm = m::mul_add(x, y, e);
    if e.is_finite() && e.abs() < 1e100 && (fm - (x * y + e)).abs() > 1e-12 * (1.0 + (x * y).abs() + e.abs()) {
        return fail("exact:mul_add-argument-order", format!("mul_add({:?},{:?},{:?})={:?}", x, y, e, fm));
    }
    None
}

fn laws() -> Vec<Law> {
    vec![Law { name: "float_method_identities", gen: g3, check: law_identities, weight: 1 }]
}

fn extra(_r: &mut Rng, _thorough: bool, _o: &mut Out) {}
