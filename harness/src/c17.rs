//! C17 — cubic-to-quadratic conversion stays within its accuracy
//! (`CubicBez::to_quads`, `approx_spline`, `cubics_to_quadratic_splines`, `QuadSpline::to_quads`).
use crate::geom::*;
use crate::util::{b2f, Out, Rng};
use crate::{Law, Prop};
use kurbo::{cubics_to_quadratic_splines, CubicBez, Line, ParamCurve, Point, QuadBez, QuadSpline, Vec2};

pub fn prop() -> Prop {
    Prop { id: "C17", corr, laws, extra, law_budget: (120, 8000) }
}

// ------------------------------------------------------------------ generators

fn enc_cubic(c: &CubicBez) -> Vec<f64> {
    vec![c.p0.x, c.p0.y, c.p1.x, c.p1.y, c.p2.x, c.p2.y, c.p3.x, c.p3.y]
}
fn dec_cubic(a: &[f64]) -> CubicBez {
    CubicBez::new((a[0], a[1]), (a[2], a[3]), (a[4], a[5]), (a[6], a[7]))
}
fn enc_quad(q: &QuadBez) -> Vec<f64> {
    vec![q.p0.x, q.p0.y, q.p1.x, q.p1.y, q.p2.x, q.p2.y]
}
fn enc_pts(ps: &[Point]) -> Vec<f64> {
    ps.iter().flat_map(|p| [p.x, p.y]).collect()
}

/// accuracies of the property's domain, 1e-6 .. 10, never on a grid
fn gen_acc(r: &mut Rng) -> f64 {
    10f64.powf(r.uniform(-6.0, 1.0))
}

/// random similarity + translation applied to a template control polygon
fn place(r: &mut Rng, t: [(f64, f64); 4]) -> CubicBez {
    let th = r.uniform(0.0, std::f64::consts::TAU);
    let s = 10f64.powf(r.uniform(-1.0, 2.5));
    let (dx, dy) = (r.uniform(-50.0, 50.0), r.uniform(-50.0, 50.0));
    let f = |(x, y): (f64, f64)| Point::new(dx + s * (x * th.cos() - y * th.sin()), dy + s * (x * th.sin() + y * th.cos()));
    CubicBez::new(f(t[0]), f(t[1]), f(t[2]), f(t[3]))
}

/// (cubic, kind): loops, cusps, collinear, degenerate, large third differences, generic, grid
fn gen_cubic17(r: &mut Rng) -> (CubicBez, &'static str) {
    match r.below(12) {
        0 => (place(r, [(0.0, 0.0), (2.0, 1.5), (-1.0, 1.5), (1.0, 0.0)]), "loop"),
        1 => {
            // self-intersecting with random handles
            let (a, b) = (r.uniform(1.2, 4.0), r.uniform(1.2, 4.0));
            let (h1, h2) = (r.uniform(0.5, 2.0), r.uniform(0.5, 2.0));
            (place(r, [(0.0, 0.0), (a, h1), (1.0 - b, h2), (1.0, 0.0)]), "loop")
        }
        2 => (place(r, [(0.0, 0.0), (1.0, 1.0), (0.0, 1.0), (1.0, 0.0)]), "cusp"),
        3 => {
            // collinear, possibly folding back on the chord
            let (t1, t2) = (r.range_i(-8, 16) as f64 / 8.0, r.range_i(-8, 16) as f64 / 8.0);
            let (a, b) = (gen_point(r), gen_point(r));
            let l = |t: f64| Point::new(a.x + t * (b.x - a.x), a.y + t * (b.y - a.y));
            (CubicBez::new(a, l(t1), l(t2), b), "collinear")
        }
        4 => {
            let (a, b) = (gen_point(r), gen_point(r));
            match r.below(5) {
                0 => (CubicBez::new(a, a, a, a), "degenerate:point"),
                1 => (CubicBez::new(a, a, b, b), "degenerate:line"),
                2 => (CubicBez::new(a, b, gen_point(r), a), "degenerate:closed"),
                3 => (CubicBez::new(a, a, gen_point(r), b), "degenerate:p0=p1"),
                _ => (CubicBez::new(a, gen_point(r), b, b), "degenerate:p2=p3"),
            }
        }
        5 => {
            // large third difference: far-out handles
            let g = |r: &mut Rng| Point::new(r.generic(6, 14), r.generic(6, 14));
            (CubicBez::new(gen_point(r), g(r), g(r), gen_point(r)), "large-d3")
        }
        6 => {
            // exactly a degree-raised quadratic: third difference ~ 0
            let q = gen_quad(r);
            (q.raise(), "raised-quad")
        }
        7 | 8 => (gen_cubic(r), "structured"),
        _ => {
            let g = |r: &mut Rng| Point::new(r.uniform(-100.0, 100.0), r.uniform(-100.0, 100.0));
            (CubicBez::new(g(r), g(r), g(r), g(r)), "generic")
        }
    }
}

/// a gentle arc-like cubic (handles near the chord thirds): `approx_spline` succeeds with few pieces
fn gen_gentle(r: &mut Rng) -> CubicBez {
    let (a, b) = (gen_point(r), Point::new(r.uniform(-100.0, 100.0), r.uniform(-100.0, 100.0)));
    let d = b - a;
    let n = Vec2::new(-d.y, d.x);
    let k1 = r.uniform(-0.6, 0.6);
    let k2 = if r.bool() { k1 + r.uniform(-0.2, 0.2) } else { r.uniform(-0.6, 0.6) };
    CubicBez::new(a, a + d * r.uniform(0.15, 0.5) + n * k1, b - d * r.uniform(0.15, 0.5) + n * k2, b)
}

fn scale_of(c: &CubicBez) -> f64 {
    [c.p0, c.p1, c.p2, c.p3].iter().fold(1e-300f64, |m, p| m.max(p.x.abs()).max(p.y.abs()))
}

/// accuracy for the spline search: mostly tied to the curve's size so that every outcome occurs
fn gen_spline_acc(r: &mut Rng, c: &CubicBez) -> f64 {
    if r.chance(1, 4) {
        gen_acc(r)
    } else {
        let ext = [c.p1, c.p2, c.p3].iter().fold(0.0f64, |m, p| m.max((*p - c.p0).hypot()));
        (ext * 10f64.powf(r.uniform(-4.5, -0.3))).clamp(1.0000001e-6, 9.9999)
    }
}

// ------------------------------------------------------------------ independent re-statements (for tags only)

/// branch taken by `fit_inside` at the top level, and the recursion depth reached
fn fit_trace(c: &CubicBez, d: f64, depth: u32, maxd: &mut u32) -> bool {
    *maxd = (*maxd).max(depth);
    if depth > 200 {
        return false;
    }
    if c.p2.to_vec2().hypot() <= d && c.p1.to_vec2().hypot() <= d {
        return true;
    }
    let mid = (c.p0.to_vec2() + 3.0 * (c.p1.to_vec2() + c.p2.to_vec2()) + c.p3.to_vec2()) * 0.125;
    if mid.hypot() > d {
        return false;
    }
    let (l, rr) = c.subdivide();
    fit_trace(&l, d, depth + 1, maxd) && fit_trace(&rr, d, depth + 1, maxd)
}

fn spline_obs(s: &Option<QuadSpline>) -> Vec<f64> {
    match s {
        None => vec![0.0],
        Some(s) => {
            let mut v = vec![1.0, s.points().len() as f64];
            v.extend(enc_pts(s.points()));
            v
        }
    }
}

// ------------------------------------------------------------------ correspondence

fn corr(r: &mut Rng, thorough: bool, o: &mut Out) {
    let n_cases = if thorough { 8000 } else { 220 };
    let mut max_depth = 0u32;
    let mut max_n = 0usize;
    for _ in 0..n_cases {
        let (c, kind) = gen_cubic17(r);
        let e = enc_cubic(&c);
        let with = |extra: &[f64]| -> Vec<f64> { e.iter().cloned().chain(extra.iter().cloned()).collect() };
        let acc = gen_acc(r);

        // --- to_quads: the count (through powf: tolerance, generic inputs only) and the pieces given the count
        let pieces: Vec<(f64, f64, QuadBez)> = {
            let it = c.to_quads(acc);
            if it.size_hint().0 <= 4000 { it.collect() } else { Vec::new() }
        };
        if !pieces.is_empty() {
            let n = pieces.len();
            max_n = max_n.max(n);
            if kind == "generic" || kind == "large-d3" || kind == "loop" {
                o.case(1, "to_quads-count", with(&[acc]), vec![n as f64], n > 1, &format!("n~2^{}", (n as f64).log2().floor()));
            }
            if n <= 40 {
                let obs: Vec<f64> = pieces.iter().flat_map(|(t0, t1, q)| [*t0, *t1].into_iter().chain(enc_quad(q))).collect();
                o.case(2, "to_quads-pieces", with(&[n as f64]), obs, n > 1, kind);
            } else {
                for i in [0, n - 1, r.below(n as u64) as usize] {
                    let (t0, t1, q) = pieces[i];
                    let obs: Vec<f64> = [t0, t1].into_iter().chain(enc_quad(&q)).collect();
                    o.case(3, "to_quads-piece", with(&[n as f64, i as f64]), obs, true, if i == 0 { "first" } else if i == n - 1 { "last" } else { "inner" });
                }
            }
        }

        // --- helpers of the spline search
        let t = match r.below(4) { 0 => 0.0, 1 => 1.0, 2 => r.range_i(0, 8) as f64 / 8.0, _ => r.unit() };
        let p = c.verif_approx_quad_control(t);
        o.case(4, "approx_quad_control", with(&[t]), vec![p.x, p.y], true, kind);
        let (l, m, rr) = c.verif_subdivide_3();
        o.case(5, "subdivide_3", e.clone(), [enc_cubic(&l), enc_cubic(&m), enc_cubic(&rr)].concat(), true, kind);
        let ns = match r.below(10) { 0 => 0, 1 => 1, 2 => 2, 3 => 3, 4 => 4, 5 => 6, 6 => 5, 7 => r.range_i(7, 12) as usize, _ => r.range_i(13, 101) as usize };
        let parts = c.verif_split_into_n(ns);
        let mut obs = vec![parts.len() as f64];
        for q in &parts {
            obs.extend(enc_cubic(q));
        }
        o.case(6, "split_into_n", with(&[ns as f64]), obs, ns >= 2, match ns { 0 => "n=0", 1 => "n=1", 2 => "n=2", 3 => "n=3", 4 => "n=4", 6 => "n=6", _ => "generic-n" });

        // --- fit_inside on "error cubics": small, end points inside or not
        {
            let d = gen_acc(r);
            let mag = d * 10f64.powf(r.uniform(-1.0, 0.8));
            let g = |r: &mut Rng, m: f64| Point::new(r.uniform(-m, m), r.uniform(-m, m));
            let ends = if r.chance(1, 3) { (Point::ZERO, Point::ZERO) } else { (g(r, d * 0.7), g(r, d * 0.7)) };
            let ec = match r.below(6) {
                5 => {
                    // the curve's farthest point just inside or outside d, away from dyadic parameters: deep recursion
                    let raw = CubicBez::new(Point::ZERO, g(r, 1.0), g(r, 1.0), Point::ZERO);
                    let mut best = (0.0f64, 0.5);
                    for k in 0..=4096 {
                        let t = k as f64 / 4096.0;
                        let h = raw.eval(t).to_vec2().hypot();
                        if h > best.0 { best = (h, t); }
                    }
                    let (mut lo, mut hi) = ((best.1 - 1.0 / 4096.0).max(0.0), (best.1 + 1.0 / 4096.0).min(1.0));
                    for _ in 0..80 {
                        let (m1, m2) = (lo + (hi - lo) / 3.0, hi - (hi - lo) / 3.0);
                        if raw.eval(m1).to_vec2().hypot() > raw.eval(m2).to_vec2().hypot() { hi = m2 } else { lo = m1 }
                    }
                    let m = raw.eval(0.5 * (lo + hi)).to_vec2().hypot().max(1e-9);
                    let eps = 10f64.powf(r.uniform(-9.0, -2.0)) * if r.bool() { 1.0 } else { -1.0 };
                    let k = d * (1.0 - eps) / m;
                    CubicBez::new(Point::ZERO, Point::new(raw.p1.x * k, raw.p1.y * k), Point::new(raw.p2.x * k, raw.p2.y * k), Point::ZERO)
                }
                0 => CubicBez::new(ends.0, g(r, mag), g(r, mag), ends.1),
                1 => { let v = g(r, mag * 1.6); CubicBez::new(ends.0, v, Point::new(-v.x, -v.y), ends.1) }      // the to_quads error shape
                2 => { let v = g(r, mag * 1.3); CubicBez::new(Point::ZERO, v, v, Point::ZERO) }                  // bump: mid = 3/4 v
                3 => CubicBez::new(g(r, mag), g(r, mag), g(r, mag), g(r, mag)),
                _ => { let s = 10f64.powf(r.uniform(-3.0, 1.0)); let sc = |p: Point| Point::new(p.x * s * d / scale_of(&c), p.y * s * d / scale_of(&c)); CubicBez::new(sc(c.p0), sc(c.p1), sc(c.p2), sc(c.p3)) }
            };
            let res = ec.verif_fit_inside(d);
            let mut md = 0u32;
            let _ = fit_trace(&ec, d, 0, &mut md);
            max_depth = max_depth.max(md);
            let tag = if md == 0 { if res { "immediate-true" } else { "immediate-false" } } else if res { "recursive-true" } else { "recursive-false" };
            o.case(7, "fit_inside", enc_cubic(&ec).into_iter().chain([d]).collect(), vec![b2f(res)], md > 0, tag);
        }

        // --- approx_spline_n / approx_spline / cubics_to_quadratic_splines
        let sc = if r.chance(2, 3) { gen_gentle(r) } else { c };
        let se = enc_cubic(&sc);
        let sacc = gen_spline_acc(r, &sc);
        let n = match r.below(8) { 0 | 1 => 1, 2 => 2, 3 => 3, 4 => 4, 5 => 6, 6 => 5, _ => r.range_i(7, 24) as usize };
        let s = sc.verif_approx_spline_n(n, sacc);
        let tag = if n == 1 {
            if Line::new(sc.p0, sc.p1).crossing_point(Line::new(sc.p2, sc.p3)).is_none() { "n=1:parallel-none" } else if s.is_some() { "n=1:some" } else { "n=1:fit-none" }
        } else if s.is_some() { "n>1:some" } else { "n>1:none" };
        o.case(8, "approx_spline_n", se.iter().cloned().chain([n as f64, sacc]).collect(), spline_obs(&s), s.is_some(), tag);
        if r.chance(1, if thorough { 2 } else { 4 }) {
            let s = sc.approx_spline(sacc);
            let tag = match &s { None => "none".to_string(), Some(s) => format!("n~2^{}", ((s.points().len() - 2) as f64).log2().floor()) };
            o.case(9, "approx_spline", se.iter().cloned().chain([sacc]).collect(), spline_obs(&s), s.is_some(), &tag);
        }
        if r.chance(1, if thorough { 3 } else { 6 }) {
            let k = r.range_i(0, 5) as usize;
            let cs: Vec<CubicBez> = (0..k).map(|_| if r.chance(4, 5) { gen_gentle(r) } else { gen_cubic17(r).0 }).collect();
            let a = cs.iter().map(|c| gen_spline_acc(r, c)).fold(f64::INFINITY, f64::min).min(9.9999);
            let a = if r.chance(1, 3) { a * 30.0 } else { a }.clamp(1.0000001e-6, 9.9999);
            let res = cubics_to_quadratic_splines(&cs, a);
            let mut args = vec![a, k as f64];
            for c in &cs {
                args.extend(enc_cubic(c));
            }
            let (obs, tag) = match &res {
                None => (vec![0.0], "none".to_string()),
                Some(v) => {
                    let mut ob = vec![1.0, v.len() as f64];
                    for s in v {
                        ob.push(s.points().len() as f64);
                        ob.extend(enc_pts(s.points()));
                    }
                    (ob, format!("k={}", k))
                }
            };
            o.case(10, "cubics_to_quadratic_splines", args, obs, res.is_some() && k > 0, &tag);
        }

        // --- QuadSpline::to_quads on arbitrary point lists
        {
            let len = match r.below(6) { 0 => r.below(3) as usize, 1 => 3, 2 => 4, _ => r.range_i(5, 9) as usize };
            let ps = gen_points(r, len.max(1));
            let ps: Vec<Point> = ps.into_iter().take(len).collect();
            let qs: Vec<QuadBez> = QuadSpline::new(ps.clone()).to_quads().collect();
            let mut obs = vec![qs.len() as f64];
            for q in &qs {
                obs.extend(enc_quad(q));
            }
            o.case(11, "quadspline-to_quads", enc_pts(&ps), obs, len >= 4, match len { 0..=2 => "len<3", 3 => "len=3", _ => "len>3" });
        }
    }
    o.notes.push(format!("fit_inside: deepest recursion over the correspondence cases = {} (model fuel 64)", max_depth));
    o.notes.push(format!("to_quads: largest piece count over the correspondence cases = {}", max_n));
}

// ------------------------------------------------------------------ laws on the implementation

fn fail(class: &str, d: String) -> Option<(String, String)> {
    Some((class.to_string(), d))
}

/// rounding allowance for comparing two evaluations of curves with coordinates up to `s`
fn slack(s: f64) -> f64 {
    256.0 * f64::EPSILON * s
}

/// piece count just above an integer: (|D3|^2 / (432 a^2))^(1/6) = m (1 + delta), so that the code must use
/// m + 1 pieces and any constant that lowers the estimate by more than delta shows as error > accuracy
fn gen_tight(r: &mut Rng) -> Vec<f64> {
    let m = match r.below(3) { 0 => r.range_i(1, 6), 1 => r.range_i(7, 40), _ => r.range_i(41, 400) } as f64;
    let delta = *r.pick(&[1e-5, 1e-4, 1e-3, 1e-2]);
    let acc = gen_acc(r);
    let x = m * (1.0 + delta);
    let d3 = 432f64.sqrt() * acc * x * x * x;
    let th = r.uniform(0.0, std::f64::consts::TAU);
    let g = |r: &mut Rng| Point::new(r.uniform(-10.0, 10.0), r.uniform(-10.0, 10.0));
    let (p0, p1, p2) = (g(r), g(r), g(r));
    // D3 = p3 - 3 p2 + 3 p1 - p0
    let p3 = Point::new(p0.x + 3.0 * (p2.x - p1.x) + d3 * th.cos(), p0.y + 3.0 * (p2.y - p1.y) + d3 * th.sin());
    let mut v = enc_cubic(&CubicBez::new(p0, p1, p2, p3));
    v.push(acc);
    v
}

fn g_to_quads(r: &mut Rng) -> Vec<f64> {
    if r.chance(2, 5) {
        return gen_tight(r);
    }
    let (c, _) = gen_cubic17(r);
    let mut v = enc_cubic(&c);
    v.push(gen_acc(r));
    v
}

/// to_quads: ranges tile [0,1] as [i/n,(i+1)/n]; end points on the cubic, pieces joined;
/// |c(t0 + u (t1 - t0)) - q(u)| <= accuracy at corresponding parameters (dense in u, incl. the two extremal u)
fn law_to_quads(a: &[f64]) -> Option<(String, String)> {
    let c = dec_cubic(a);
    let acc = a[8];
    let it = c.to_quads(acc);
    if it.size_hint().0 > 200_000 {
        return None; // more pieces than we are willing to enumerate
    }
    let ps: Vec<(f64, f64, QuadBez)> = it.collect();
    let n = ps.len();
    if n < 1 {
        return fail("to_quads:empty", format!("{:?} acc={}: no quadratic produced", c, acc));
    }
    if ps[0].0 != 0.0 || ps[n - 1].1 != 1.0 {
        return fail("to_quads:tiling", format!("{:?} acc={}: ranges start at {} and end at {}", c, acc, ps[0].0, ps[n - 1].1));
    }
    let s = scale_of(&c);
    let bound = acc * (1.0 + 1e-9) + slack(s);
    let ex = 0.5 / 3f64.sqrt();
    let us = [0.5 - ex, 0.5 + ex, 0.0, 0.125, 0.25, 0.375, 0.5, 0.625, 0.75, 0.875, 1.0];
    for i in 0..n {
        let (t0, t1, q) = ps[i];
        if t0 != i as f64 / n as f64 || t1 != (i + 1) as f64 / n as f64 || (i + 1 < n && ps[i + 1].0 != t1) {
            return fail("to_quads:tiling", format!("{:?} acc={}: piece {} of {} has range [{}, {}]", c, acc, i, n, t0, t1));
        }
        if q.p0 != c.eval(t0) || q.p2 != c.eval(t1) || (i + 1 < n && ps[i + 1].2.p0 != q.p2) {
            return fail("to_quads:endpoints", format!("{:?} acc={}: piece {} of {}: {:?} does not start/end on the cubic at {}, {}", c, acc, i, n, q, t0, t1));
        }
        let step = if n > 2000 { 2 } else { us.len() };
        for &u in &us[..step] {
            let e = (c.eval(t0 + u * (t1 - t0)) - q.eval(u)).hypot();
            if !(e <= bound) {
                return fail("to_quads:accuracy", format!("{:?} acc={}: piece {} of {} at u={}: error {} > accuracy", c, acc, i, n, u, e));
            }
        }
    }
    if ps[0].2.p0 != c.p0 || ps[n - 1].2.p2 != c.p3 {
        return fail("to_quads:endpoints", format!("{:?} acc={}: first/last quadratic miss the cubic's end points", c, acc));
    }
    None
}

/// distance from `p` to the cubic: dense sampling, then local refinement around the best sample
fn dist_to_cubic(c: &CubicBez, p: Point) -> f64 {
    let n = 1024;
    let mut best = (f64::INFINITY, 0.0);
    for k in 0..=n {
        let t = k as f64 / n as f64;
        let d = (c.eval(t) - p).hypot2();
        if d < best.0 {
            best = (d, t);
        }
    }
    let (mut lo, mut hi) = ((best.1 - 1.0 / n as f64).max(0.0), (best.1 + 1.0 / n as f64).min(1.0));
    for _ in 0..60 {
        let (m1, m2) = (lo + (hi - lo) / 3.0, hi - (hi - lo) / 3.0);
        if (c.eval(m1) - p).hypot2() < (c.eval(m2) - p).hypot2() { hi = m2 } else { lo = m1 }
    }
    best.0.min((c.eval(0.5 * (lo + hi)) - p).hypot2()).sqrt()
}

/// one spline against its cubic: end points exact; every sampled spline point within `acc` of the cubic
/// (fast path: the point of the cubic at the corresponding parameter; otherwise nearest point by sampling,
/// slack factor 1 + 1e-6 plus rounding allowance)
fn check_spline(c: &CubicBez, s: &QuadSpline, acc: f64, what: &str) -> Option<(String, String)> {
    let pts = s.points();
    if pts.len() < 3 {
        return fail(&format!("{}:length", what), format!("{:?} acc={}: spline with {} points", c, acc, pts.len()));
    }
    if pts[0] != c.p0 || pts[pts.len() - 1] != c.p3 {
        return fail(&format!("{}:endpoints", what), format!("{:?} acc={}: spline runs {:?} .. {:?}", c, acc, pts[0], pts[pts.len() - 1]));
    }
    let qs: Vec<QuadBez> = s.to_quads().collect();
    let n = qs.len();
    let sl = slack(scale_of(c).max(pts.iter().fold(0.0f64, |m, p| m.max(p.x.abs()).max(p.y.abs()))));
    for (i, q) in qs.iter().enumerate() {
        for k in 0..=16 {
            let u = k as f64 / 16.0;
            let p = q.eval(u);
            let e = (c.eval((i as f64 + u) / n as f64) - p).hypot();
            if e <= acc * (1.0 + 1e-9) + sl {
                continue;
            }
            let d = dist_to_cubic(c, p);
            if !(d <= acc * (1.0 + 1e-6) + sl) {
                return fail(&format!("{}:accuracy", what), format!("{:?} acc={}: point {:?} of quadratic {} of {} (u={}) is {} from the cubic", c, acc, p, i, n, u, d));
            }
        }
    }
    None
}

fn g_spline(r: &mut Rng) -> Vec<f64> {
    let c = if r.chance(2, 3) { gen_gentle(r) } else { gen_cubic17(r).0 };
    let mut v = enc_cubic(&c);
    v.push(gen_spline_acc(r, &c));
    v
}

fn law_approx_spline(a: &[f64]) -> Option<(String, String)> {
    let c = dec_cubic(a);
    let acc = a[8];
    match c.approx_spline(acc) {
        None => None,
        Some(s) => check_spline(&c, &s, acc, "approx_spline"),
    }
}

fn g_splines(r: &mut Rng) -> Vec<f64> {
    let k = r.range_i(1, 5) as usize;
    let cs: Vec<CubicBez> = (0..k).map(|_| if r.chance(5, 6) { gen_gentle(r) } else { gen_cubic17(r).0 }).collect();
    let a = cs.iter().map(|c| gen_spline_acc(r, c)).fold(f64::INFINITY, f64::min);
    let a = if r.chance(1, 2) { a * 20.0 } else { a }.clamp(1.0000001e-6, 9.9999);
    let mut v = vec![a];
    for c in &cs {
        v.extend(enc_cubic(c));
    }
    v
}

fn law_cubics_to_splines(a: &[f64]) -> Option<(String, String)> {
    let acc = a[0];
    let cs: Vec<CubicBez> = a[1..].chunks(8).map(dec_cubic).collect();
    match cubics_to_quadratic_splines(&cs, acc) {
        None => None,
        Some(v) => {
            if v.len() != cs.len() {
                return fail("cubics_to_quadratic_splines:count", format!("{} cubics, {} splines", cs.len(), v.len()));
            }
            for (c, s) in cs.iter().zip(v.iter()) {
                if s.points().len() != v[0].points().len() {
                    return fail("cubics_to_quadratic_splines:lengths", format!("{:?} acc={}: splines with {} and {} points", cs, acc, v[0].points().len(), s.points().len()));
                }
                if let Some(f) = check_spline(c, s, acc, "cubics_to_quadratic_splines") {
                    return Some(f);
                }
            }
            None
        }
    }
}

fn g_points(r: &mut Rng) -> Vec<f64> {
    let len = match r.below(5) { 0 => r.below(3) as usize, 1 => 3, _ => r.range_i(4, 12) as usize };
    enc_pts(&gen_points(r, len.max(1)).into_iter().take(len).collect::<Vec<_>>())
}

/// QuadSpline::to_quads: len-2 quadratics (none below 3 points), off-curve points kept, implied on-curve
/// points are the midpoints, joined end to end, first/last at the spline's end points
fn law_quadspline(a: &[f64]) -> Option<(String, String)> {
    let ps: Vec<Point> = a.chunks(2).map(|p| Point::new(p[0], p[1])).collect();
    let qs: Vec<QuadBez> = QuadSpline::new(ps.clone()).to_quads().collect();
    let want = if ps.len() >= 3 { ps.len() - 2 } else { 0 };
    if qs.len() != want {
        return fail("quadspline:count", format!("{:?}: {} quadratics", ps, qs.len()));
    }
    for (i, q) in qs.iter().enumerate() {
        let on = |a: Point, b: Point| Point::new((a.x + b.x) / 2.0, (a.y + b.y) / 2.0);
        let p0 = if i == 0 { ps[0] } else { on(ps[i], ps[i + 1]) };
        let p2 = if i + 1 == qs.len() { ps[ps.len() - 1] } else { on(ps[i + 1], ps[i + 2]) };
        // x/2 and 0.5*x are the same double unless the sum overflowed
        if q.p1 != ps[i + 1] || q.p0 != p0 || q.p2 != p2 {
            return fail("quadspline:implied-point", format!("{:?}: quadratic {} is {:?}, expected {:?} {:?} {:?}", ps, i, q, p0, ps[i + 1], p2));
        }
        if i + 1 < qs.len() && qs[i + 1].p0 != q.p2 {
            return fail("quadspline:chain", format!("{:?}: quadratics {} and {} are not joined", ps, i, i + 1));
        }
    }
    None
}

fn laws() -> Vec<Law> {
    vec![
        Law { name: "to_quads", gen: g_to_quads, check: law_to_quads, weight: 6 },
        Law { name: "approx_spline", gen: g_spline, check: law_approx_spline, weight: 3 },
        Law { name: "cubics_to_quadratic_splines", gen: g_splines, check: law_cubics_to_splines, weight: 2 },
        Law { name: "quadspline_to_quads", gen: g_points, check: law_quadspline, weight: 3 },
    ]
}

/// fixed replays: the source's own example (y = x^3), a cusp, a loop, a point cubic
fn extra(_r: &mut Rng, _thorough: bool, o: &mut Out) {
    let fixed: [[f64; 8]; 5] = [
        [0.0, 0.0, 1.0 / 3.0, 0.0, 2.0 / 3.0, 0.0, 1.0, 1.0],
        [0.0, 0.0, 1.0, 1.0, 0.0, 1.0, 1.0, 0.0],
        [0.0, 0.0, 2.0, 1.5, -1.0, 1.5, 1.0, 0.0],
        [3.0, 4.0, 3.0, 4.0, 3.0, 4.0, 3.0, 4.0],
        [550.0, 258.0, 1044.0, 482.0, 2029.0, 1841.0, 1934.0, 1554.0],
    ];
    for c in fixed {
        for acc in [1e-6, 1e-3, 0.1, 1.0, 10.0] {
            let mut a = c.to_vec();
            a.push(acc);
            for (name, f) in [("to_quads", law_to_quads as fn(&[f64]) -> Option<(String, String)>), ("approx_spline", law_approx_spline)] {
                o.oracle_eval(name);
                if let Some((class, desc)) = f(&a) {
                    o.violation(&class, desc, format!("{{\"law\":{},\"args\":{}}}", crate::util::json_str(name), crate::util::fmt_fs(&a)));
                }
            }
        }
    }
}
