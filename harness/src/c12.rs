//! C12 — affine maps: products, inverse, determinant, pre_*/then_*, about-maps, actions on
//! curves / paths / circles / ellipses / arcs, TranslateScale.
use crate::geom::*;
use crate::util::{Out, Rng};
use crate::{Law, Prop};
use kurbo::{
    Affine, Arc, BezPath, Circle, CubicBez, Ellipse, Line, ParamCurve, PathEl, PathSeg, Point, QuadBez, Rect, RoundedRect,
    RoundedRectRadii, Shape, TranslateScale, Vec2,
};
use std::f64::consts::{FRAC_PI_2, PI};

pub fn prop() -> Prop {
    Prop { id: "C12", corr, laws, extra, law_budget: (300, 6000) }
}

// ------------------------------------------------------------------ small helpers

type M = [f64; 6];

fn co(a: Affine) -> M {
    a.as_coeffs()
}
fn pv(p: Point) -> Vec<f64> {
    vec![p.x, p.y]
}
fn mmax(m: &M) -> f64 {
    m.iter().fold(0.0f64, |a, b| a.max(b.abs()))
}
/// independent 2x3 product (column convention of the documentation: x' = a x + c y + e)
fn own_mul(s: &M, o: &M) -> M {
    [
        s[0] * o[0] + s[2] * o[1],
        s[1] * o[0] + s[3] * o[1],
        s[0] * o[2] + s[2] * o[3],
        s[1] * o[2] + s[3] * o[3],
        s[0] * o[4] + s[2] * o[5] + s[4],
        s[1] * o[4] + s[3] * o[5] + s[5],
    ]
}
fn own_apply(m: &M, p: Point) -> Point {
    Point::new(m[0] * p.x + m[2] * p.y + m[4], m[1] * p.x + m[3] * p.y + m[5])
}
fn own_det(m: &M) -> f64 {
    m[0] * m[3] - m[1] * m[2]
}
fn near_m(a: &M, b: &M, tol: f64) -> bool {
    (0..6).all(|i| (a[i] - b[i]).abs() <= tol)
}
/// linear part within `tl`, translation within `tt`
fn near_m2(a: &M, b: &M, tl: f64, tt: f64) -> bool {
    (0..4).all(|i| (a[i] - b[i]).abs() <= tl) && (4..6).all(|i| (a[i] - b[i]).abs() <= tt)
}
fn lin_max(m: &M) -> f64 {
    m[..4].iter().fold(0.0f64, |a, b| a.max(b.abs()))
}
fn tr_max(m: &M) -> f64 {
    m[4].abs().max(m[5].abs())
}
/// the length scale of a set of coordinates (never zero, so that tolerances stay relative)
fn len_of(xs: &[f64]) -> f64 {
    xs.iter().fold(f64::MIN_POSITIVE, |a, b| a.max(b.abs()))
}
fn near_p(a: Point, b: Point, tol: f64) -> bool {
    (a.x - b.x).abs() <= tol && (a.y - b.y).abs() <= tol
}
fn fail(class: &str, d: String) -> Option<(String, String)> {
    Some((class.to_string(), d))
}
/// In the sampling loop a failing class is reported at most `PER_CLASS` times per process, so that
/// one defect (which fails on nearly every sample) cannot crowd the other classes out of the
/// harness's bounded violation list. Replays and the witnesses in `extra` call the laws directly.
const PER_CLASS: u32 = 6;
fn limited(res: Option<(String, String)>) -> Option<(String, String)> {
    use std::collections::HashMap;
    use std::sync::{Mutex, OnceLock};
    static SEEN: OnceLock<Mutex<HashMap<String, u32>>> = OnceLock::new();
    let (class, d) = res?;
    let mut g = SEEN.get_or_init(|| Mutex::new(HashMap::new())).lock().unwrap_or_else(|e| e.into_inner());
    let n = g.entry(class.clone()).or_insert(0);
    *n += 1;
    if *n > PER_CLASS {
        return None;
    }
    Some((class, d))
}
const EPS: f64 = f64::EPSILON;

/// the coefficients of an ellipse's private inner map, read from its (derived) Debug output
fn ellipse_inner(e: &Ellipse) -> Vec<f64> {
    let s = format!("{:?}", e);
    let lo = s.find('[').expect("Debug of Ellipse");
    let hi = s.rfind(']').expect("Debug of Ellipse");
    s[lo + 1..hi].split(',').map(|t| t.trim().parse::<f64>().expect("float in Debug of Ellipse")).collect()
}

// ------------------------------------------------------------------ generators

/// 2^k, exactly (|k| <= 1022)
fn pow2(k: i64) -> f64 {
    f64::from_bits(((1023 + k) as u64) << 52)
}
/// Magnitude diversity: in `num` cases out of `den` a power of two from 2^-kmax..2^kmax, else 1.
/// Multiplying by a power of two is exact, so an input scaled this way has the same mantissas.
fn sweep(r: &mut Rng, kmax: i64, num: u64, den: u64) -> f64 {
    if r.chance(num, den) {
        pow2(r.range_i(-kmax, kmax))
    } else {
        1.0
    }
}
fn scale_tr(a: Affine, f: f64) -> Affine {
    let c = co(a);
    Affine::new([c[0], c[1], c[2], c[3], c[4] * f, c[5] * f])
}
fn scale_all(a: Affine, f: f64) -> Affine {
    let c = co(a);
    Affine::new([c[0] * f, c[1] * f, c[2] * f, c[3] * f, c[4] * f, c[5] * f])
}
fn scale_pt(p: Point, f: f64) -> Point {
    Point::new(p.x * f, p.y * f)
}
fn scale_seg(s: PathSeg, f: f64) -> PathSeg {
    match s {
        PathSeg::Line(l) => PathSeg::Line(Line::new(scale_pt(l.p0, f), scale_pt(l.p1, f))),
        PathSeg::Quad(q) => PathSeg::Quad(QuadBez::new(scale_pt(q.p0, f), scale_pt(q.p1, f), scale_pt(q.p2, f))),
        PathSeg::Cubic(c) => PathSeg::Cubic(CubicBez::new(scale_pt(c.p0, f), scale_pt(c.p1, f), scale_pt(c.p2, f), scale_pt(c.p3, f))),
    }
}
fn scale_el(e: PathEl, f: f64) -> PathEl {
    match e {
        PathEl::MoveTo(p) => PathEl::MoveTo(scale_pt(p, f)),
        PathEl::LineTo(p) => PathEl::LineTo(scale_pt(p, f)),
        PathEl::QuadTo(a, b) => PathEl::QuadTo(scale_pt(a, f), scale_pt(b, f)),
        PathEl::CurveTo(a, b, c) => PathEl::CurveTo(scale_pt(a, f), scale_pt(b, f), scale_pt(c, f)),
        PathEl::ClosePath => PathEl::ClosePath,
    }
}
fn scale_arc(a: Arc, f: f64) -> Arc {
    Arc::new(scale_pt(a.center, f), (a.radii.x * f, a.radii.y * f), a.start_angle, a.sweep_angle, a.x_rotation)
}
fn scale_rect(q: Rect, f: f64) -> Rect {
    Rect::new(q.x0 * f, q.y0 * f, q.x1 * f, q.y1 * f)
}

/// any finite matrix: grids, structured families, singular ones, generic doubles
fn gen_affine_any(r: &mut Rng) -> Affine {
    match r.below(13) {
        0 | 1 => Affine::new([r.grid(6, 2.0), r.grid(6, 2.0), r.grid(6, 2.0), r.grid(6, 2.0), r.grid(16, 2.0), r.grid(16, 2.0)]),
        2 => Affine::new([r.coord(), 0.0, 0.0, r.coord(), r.coord(), r.coord()]),
        3 => {
            let (s, c) = r.uniform(-7.0, 7.0).sin_cos();
            Affine::new([c, s, -s, c, r.coord(), r.coord()])
        }
        4 => {
            // a reflection: rotation followed by a flip
            let (s, c) = r.uniform(-7.0, 7.0).sin_cos();
            Affine::new([c, s, s, -c, r.coord(), r.coord()])
        }
        5 => Affine::new([1.0, r.grid(8, 4.0), r.grid(8, 4.0), 1.0, 0.0, 0.0]),
        6 => {
            // singular (rank <= 1)
            let (u, v, k) = (r.grid(4, 1.0), r.grid(4, 1.0), r.grid(4, 2.0));
            Affine::new([u, v, k * u, k * v, r.coord(), r.coord()])
        }
        7 => Affine::new([1.0, 0.0, 0.0, 1.0, r.coord(), r.coord()]),
        8 => *r.pick(&[Affine::IDENTITY, Affine::FLIP_X, Affine::FLIP_Y]),
        9 => Affine::new([r.generic(-20, 20), r.generic(-20, 20), r.generic(-20, 20), r.generic(-20, 20), r.generic(-20, 20), r.generic(-20, 20)]),
        10 => {
            // the whole matrix at an extreme magnitude (fourth powers, as in svd, stay finite)
            let f = pow2(r.range_i(-200, 200));
            scale_all(Affine::new([r.generic(-3, 3), r.generic(-3, 3), r.generic(-3, 3), r.generic(-3, 3), r.generic(-3, 6), r.generic(-3, 6)]), f)
        }
        _ => Affine::new([r.generic(-3, 3), r.generic(-3, 3), r.generic(-3, 3), r.generic(-3, 3), r.generic(-3, 6), r.generic(-3, 6)]),
    }
}

/// the property's quantifier: finite coefficients, |det| in [1e-3, 1e3]; rotations, reflections,
/// skews, non-uniform scales and generic matrices (linear coefficients bounded by 16)
fn gen_affine_reg(r: &mut Rng) -> Affine {
    loop {
        let a = match r.below(6) {
            0 => {
                let th = r.uniform(-7.0, 7.0);
                Affine::translate((r.uniform(-20.0, 20.0), r.uniform(-20.0, 20.0))) * Affine::rotate(th) * Affine::scale_non_uniform(r.generic(-3, 3), r.generic(-3, 3))
            }
            1 => {
                let (s, c) = r.uniform(-7.0, 7.0).sin_cos();
                let k = r.generic(-2, 2).abs();
                Affine::new([k * c, k * s, k * s, -k * c, r.uniform(-20.0, 20.0), r.uniform(-20.0, 20.0)])
            }
            2 => Affine::skew(r.uniform(-3.0, 3.0), r.uniform(-3.0, 3.0)) * Affine::scale_non_uniform(r.generic(-2, 2), r.generic(-2, 2)),
            3 => Affine::new([r.grid(6, 2.0), r.grid(6, 2.0), r.grid(6, 2.0), r.grid(6, 2.0), r.grid(16, 2.0), r.grid(16, 2.0)]),
            _ => Affine::new([r.generic(-3, 3), r.generic(-3, 3), r.generic(-3, 3), r.generic(-3, 3), r.uniform(-50.0, 50.0), r.uniform(-50.0, 50.0)]),
        };
        let m = co(a);
        let d = own_det(&m).abs();
        if (1e-3..=1e3).contains(&d) && m[..4].iter().all(|x| x.abs() <= 16.0) {
            return a;
        }
    }
}

/// generic matrices for the operations compared with a tolerance: nothing on a decision boundary
fn gen_affine_generic(r: &mut Rng) -> Affine {
    loop {
        let a = Affine::new([r.generic(-2, 2), r.generic(-2, 2), r.generic(-2, 2), r.generic(-2, 2), r.uniform(-20.0, 20.0), r.uniform(-20.0, 20.0)]);
        let d = own_det(&co(a)).abs();
        if (0.05..=50.0).contains(&d) {
            return a;
        }
    }
}

fn gen_ts(r: &mut Rng) -> TranslateScale {
    let s = match r.below(8) {
        0 => r.grid(6, 2.0),
        1 => -r.grid(6, 2.0).abs() - 0.5,
        2 => 1.0,
        3 => -1.0,
        4 => -r.generic(-3, 3).abs(),
        _ => r.generic(-3, 3),
    };
    let (fs, ft) = (sweep(r, 200, 1, 6), sweep(r, 200, 1, 6));
    TranslateScale::new(Vec2::new(r.coord() * ft, r.coord() * ft), s * fs)
}
fn gen_ts_reg(r: &mut Rng) -> TranslateScale {
    let s = match r.below(4) {
        0 => -r.uniform(0.05, 20.0),
        1 => r.uniform(0.05, 20.0),
        2 => r.grid(6, 2.0).abs() + 0.5,
        _ => -(r.grid(6, 2.0).abs() + 0.5),
    };
    TranslateScale::new(Vec2::new(r.uniform(-50.0, 50.0), r.uniform(-50.0, 50.0)), s)
}

fn gen_rect(r: &mut Rng) -> Rect {
    match r.below(3) {
        0 => Rect::new(r.grid(8, 2.0), r.grid(8, 2.0), r.grid(8, 2.0), r.grid(8, 2.0)),
        _ => Rect::new(r.coord(), r.coord(), r.coord(), r.coord()),
    }
}

fn gen_rrect(r: &mut Rng) -> RoundedRect {
    let rect = gen_rect(r);
    let m = rect.width().abs().min(rect.height().abs());
    let rad = |r: &mut Rng| match r.below(4) {
        0 => r.grid(8, 2.0).abs(),
        1 => m * r.unit(), // may exceed half the short side: clamped
        2 => -m * 0.4 * r.unit(),
        _ => m * 0.5 * r.unit(),
    };
    let radii = if r.chance(1, 4) { RoundedRectRadii::from_single_radius(rad(r)) } else { RoundedRectRadii::new(rad(r), rad(r), rad(r), rad(r)) };
    RoundedRect::from_rect(rect, radii)
}

/// paths beginning with MoveTo: open and closed sub-paths, repeated points, degenerate closes
fn gen_path(r: &mut Rng) -> Vec<PathEl> {
    let mut v = Vec::new();
    let nsub = 1 + r.below(3);
    for _ in 0..nsub {
        let mode = r.below(4);
        let gp = |r: &mut Rng| match mode {
            0 => grid_point(r),
            1 => Point::new(r.grid(3, 1.0), r.grid(3, 1.0)),
            _ => gen_point(r),
        };
        let start = gp(r);
        v.push(PathEl::MoveTo(start));
        let n = r.below(5);
        for i in 0..n {
            let end = if i + 1 == n && r.chance(1, 3) { start } else { gp(r) };
            match r.below(4) {
                0 | 1 => v.push(PathEl::LineTo(end)),
                2 => v.push(PathEl::QuadTo(gp(r), end)),
                _ => v.push(PathEl::CurveTo(gp(r), gp(r), end)),
            }
        }
        if r.chance(2, 3) {
            v.push(PathEl::ClosePath);
            if r.chance(1, 4) {
                // elements directly after ClosePath (no MoveTo)
                v.push(PathEl::LineTo(gp(r)));
            }
        }
    }
    v
}

/// arcs for the tolerance comparisons and the laws: positive, clearly distinct radii
fn gen_arc(r: &mut Rng) -> Arc {
    loop {
        let (rx, ry) = (r.uniform(0.2, 10.0), r.uniform(0.2, 10.0));
        if (rx - ry).abs() < 0.15 * rx.max(ry) {
            continue;
        }
        let mut sweep = r.uniform(-7.0, 7.0);
        if sweep.abs() < 0.05 {
            sweep = 1.0;
        }
        return Arc::new((r.uniform(-20.0, 20.0), r.uniform(-20.0, 20.0)), (rx, ry), r.uniform(-7.0, 7.0), sweep, r.uniform(-7.0, 7.0));
    }
}
fn enc_arc(a: &Arc) -> Vec<f64> {
    vec![a.center.x, a.center.y, a.radii.x, a.radii.y, a.start_angle, a.sweep_angle, a.x_rotation]
}
fn dec_arc(a: &[f64]) -> Arc {
    Arc::new((a[0], a[1]), (a[2], a[3]), a[4], a[5], a[6])
}
fn dec_aff(a: &[f64]) -> Affine {
    Affine::new([a[0], a[1], a[2], a[3], a[4], a[5]])
}
fn enc_ts(t: &TranslateScale) -> Vec<f64> {
    vec![t.translation.x, t.translation.y, t.scale]
}
fn dec_ts(a: &[f64]) -> TranslateScale {
    TranslateScale::new(Vec2::new(a[0], a[1]), a[2])
}
fn enc_rect(r: &Rect) -> Vec<f64> {
    vec![r.x0, r.y0, r.x1, r.y1]
}
fn enc_radii(r: &RoundedRectRadii) -> Vec<f64> {
    vec![r.top_left, r.top_right, r.bottom_right, r.bottom_left]
}
fn cat(parts: &[&[f64]]) -> Vec<f64> {
    parts.iter().flat_map(|p| p.iter().cloned()).collect()
}
fn seg_kind(s: &PathSeg) -> &'static str {
    match s {
        PathSeg::Line(_) => "line",
        PathSeg::Quad(_) => "quad",
        PathSeg::Cubic(_) => "cubic",
    }
}
fn det_tag(a: Affine) -> &'static str {
    let d = a.determinant();
    if d > 0.0 {
        "det>0"
    } else if d < 0.0 {
        "det<0"
    } else {
        "det=0"
    }
}
fn scale_tag(s: f64) -> &'static str {
    if s > 0.0 {
        "scale>0"
    } else if s < 0.0 {
        "scale<0"
    } else {
        "scale=0"
    }
}

/// the ellipse of an image is well away from a circle and its rotation from the branch cut of atan2
fn well_conditioned_ellipse(radii: Vec2, rot: f64) -> bool {
    // (the minor radius loses eps * aspect^2 to cancellation in svd: keep that far below the tolerance)
    radii.x.is_finite() && radii.y > 1e-3 && radii.x < 200.0 * radii.y && (radii.x - radii.y) > 0.1 * radii.x && rot.abs() < FRAC_PI_2 - 0.02
}

// ------------------------------------------------------------------ correspondence

fn corr(r: &mut Rng, thorough: bool, o: &mut Out) {
    let n = if thorough { 5000 } else { 220 };
    // ---- exact operations: any finite input
    for _ in 0..n {
        let a = gen_affine_any(r);
        let b = gen_affine_any(r);
        let (ma, mb) = (co(a), co(b));
        // magnitude diversity of the geometry: one case in six has every length at 2^k
        let fl = sweep(r, 200, 1, 6);
        let p = scale_pt(gen_point(r), fl);
        let ident = |m: &M| *m == [1.0, 0.0, 0.0, 1.0, 0.0, 0.0];
        o.case(1, "mul", cat(&[&ma, &mb]), co(a * b).to_vec(), !ident(&ma) && !ident(&mb), det_tag(a));
        o.case(2, "apply", cat(&[&ma, &pv(p)]), pv(a * p), !ident(&ma), det_tag(a));
        o.case(3, "determinant", ma.to_vec(), vec![a.determinant()], a.determinant() != 0.0, det_tag(a));
        o.case(4, "inverse", ma.to_vec(), co(a.inverse()).to_vec(), a.determinant() != 0.0, det_tag(a));
        let s = r.coord();
        let (sx, sy) = (r.coord(), r.coord());
        let t = Vec2::new(r.coord() * fl, r.coord() * fl);
        let c = scale_pt(gen_point(r), fl);
        o.case(5, "pre_scale", cat(&[&ma, &[s]]), co(a.pre_scale(s)).to_vec(), s != 1.0, "");
        o.case(6, "pre_scale_non_uniform", cat(&[&ma, &[sx, sy]]), co(a.pre_scale_non_uniform(sx, sy)).to_vec(), sx != sy, "");
        o.case(7, "pre_translate", cat(&[&ma, &[t.x, t.y]]), co(a.pre_translate(t)).to_vec(), t != Vec2::ZERO, "");
        o.case(8, "then_scale", cat(&[&ma, &[s]]), co(a.then_scale(s)).to_vec(), s != 1.0, "");
        o.case(9, "then_scale_non_uniform", cat(&[&ma, &[sx, sy]]), co(a.then_scale_non_uniform(sx, sy)).to_vec(), sx != sy, "");
        o.case(10, "then_translate", cat(&[&ma, &[t.x, t.y]]), co(a.then_translate(t)).to_vec(), t != Vec2::ZERO, "");
        o.case(11, "then_scale_about", cat(&[&ma, &[s], &pv(c)]), co(a.then_scale_about(s, c)).to_vec(), s != 1.0 && c != Point::ZERO, "");
        o.case(12, "scale_about", cat(&[&[s], &pv(c)]), co(Affine::scale_about(s, c)).to_vec(), s != 1.0 && c != Point::ZERO, "");
        let rc = scale_rect(gen_rect(r), fl);
        o.case(13, "map_unit_square", enc_rect(&rc), co(Affine::map_unit_square(rc)).to_vec(), rc.width() != rc.height(), "");
        let bb = a.transform_rect_bbox(rc);
        let corner = |p: Point| (p.x == bb.x0 || p.x == bb.x1) && (p.y == bb.y0 || p.y == bb.y1);
        let tight = corner(a * Point::new(rc.x0, rc.y0));
        o.case(14, "transform_rect_bbox", cat(&[&ma, &enc_rect(&rc)]), enc_rect(&bb), !tight, if tight { "axis-aligned" } else { "rotated" });
        o.case(15, "f64*affine", cat(&[&[s], &ma]), co(s * a).to_vec(), s != 1.0, "");
        let mut cons = Vec::new();
        for m in [Affine::scale(s), Affine::scale_non_uniform(sx, sy), Affine::translate(t), Affine::skew(sx, sy), Affine::IDENTITY, Affine::FLIP_Y, Affine::FLIP_X] {
            cons.extend_from_slice(&co(m));
        }
        o.case(16, "constructors", vec![s, sx, sy, t.x, t.y, sx, sy], cons, true, "");
        let sg = scale_seg(gen_seg(r), fl);
        o.case(17, "affine*seg", cat(&[&ma, &enc_seg(&sg)]), enc_seg(&(a * sg)), !ident(&ma), seg_kind(&sg));
        // the concrete curve types agree with the PathSeg dispatch
        let conc = match sg {
            PathSeg::Line(l) => PathSeg::Line(a * l),
            PathSeg::Quad(q) => PathSeg::Quad(a * q),
            PathSeg::Cubic(c) => PathSeg::Cubic(a * c),
        };
        o.case(17, "affine*curve", cat(&[&ma, &enc_seg(&sg)]), enc_seg(&conc), !ident(&ma), seg_kind(&sg));
        let els: Vec<PathEl> = gen_path(r).into_iter().map(|e| scale_el(e, fl)).collect();
        let bp = BezPath::from_vec(els.clone());
        let tag = format!("els={}", els.len().min(9));
        o.case(18, "affine*path", cat(&[&ma, &enc_els(&els)]), enc_els((a * &bp).elements()), els.len() > 1, &tag);
        let mut bp2 = bp.clone();
        bp2.apply_affine(a);
        o.case(18, "apply_affine", cat(&[&ma, &enc_els(&els)]), enc_els(bp2.elements()), els.len() > 1, &tag);
        let byel: Vec<PathEl> = els.iter().map(|&e| a * e).collect();
        o.case(18, "affine*el", cat(&[&ma, &enc_els(&els)]), enc_els(&byel), els.len() > 1, &tag);
        o.case(19, "affine*ellipse", cat(&[&ma, &mb]), ellipse_inner(&(a * Ellipse::from_affine(b))), !ident(&ma), det_tag(a));
        let rad = Ellipse::from_affine(a).radii();
        o.case(20, "svd-radii", ma.to_vec(), vec![rad.x, rad.y], a.determinant() != 0.0, &format!("{},{}", det_tag(a), if rad.x == rad.y { "minor clamped to major" } else if rad.x == 0.0 { "zero map" } else { "minor=|det|/major" }));
        let e = Ellipse::from_affine(a);
        let mut ev = ellipse_inner(&(e + t));
        ev.extend(ellipse_inner(&(e - t)));
        ev.extend(ellipse_inner(&e.with_center(c)));
        ev.extend(pv(e.center()));
        o.case(21, "ellipse-translate", cat(&[&ma, &[t.x, t.y], &pv(c)]), ev, t != Vec2::ZERO, "");
        let rad = if r.chance(1, 5) { -r.coord().abs() * fl } else { r.coord().abs() * fl };
        o.case(22, "affine*circle", cat(&[&ma, &pv(c), &[rad]]), ellipse_inner(&(a * Circle::new(c, rad))), rad != 0.0, if rad < 0.0 { "radius<0" } else { "radius>=0" });
        let mut tv = vec![a.translation().x, a.translation().y];
        tv.extend_from_slice(&co(a.with_translation(t)));
        o.case(23, "translation", cat(&[&ma, &[t.x, t.y]]), tv, true, "");

        // ---- TranslateScale
        let ts = gen_ts(r);
        let ts2 = gen_ts(r);
        let (e1, e2) = (enc_ts(&ts), enc_ts(&ts2));
        let st = scale_tag(ts.scale);
        o.case(30, "ts*point", cat(&[&e1, &pv(p)]), pv(ts * p), ts.scale != 1.0, st);
        o.case(31, "ts*ts", cat(&[&e1, &e2]), enc_ts(&(ts * ts2)), true, st);
        o.case(32, "ts-inverse", e1.clone(), enc_ts(&ts.inverse()), ts.scale != 0.0, st);
        o.case(33, "f64*ts", cat(&[&[s], &e1]), enc_ts(&(s * ts)), true, "");
        let mut av = enc_ts(&(ts + t));
        av.extend(enc_ts(&(t + ts)));
        av.extend(enc_ts(&(ts - t)));
        o.case(34, "ts+-vec", cat(&[&e1, &[t.x, t.y]]), av, true, "");
        o.case(35, "ts-from_scale_about", cat(&[&[s], &pv(c)]), enc_ts(&TranslateScale::from_scale_about(s, c)), true, "");
        o.case(36, "ts-to-affine", e1.clone(), co(Affine::from(ts)).to_vec(), true, st);
        let ci = ts * Circle::new(c, rad);
        o.case(37, "ts*circle", cat(&[&e1, &pv(c), &[rad]]), vec![ci.center.x, ci.center.y, ci.radius], true, st);
        o.case(38, "ts*seg", cat(&[&e1, &enc_seg(&sg)]), enc_seg(&(ts * sg)), true, seg_kind(&sg));
        let conc = match sg {
            PathSeg::Line(l) => PathSeg::Line(ts * l),
            PathSeg::Quad(q) => PathSeg::Quad(ts * q),
            PathSeg::Cubic(c) => PathSeg::Cubic(ts * c),
        };
        o.case(38, "ts*curve", cat(&[&e1, &enc_seg(&sg)]), enc_seg(&conc), true, seg_kind(&sg));
        o.case(39, "ts*path", cat(&[&e1, &enc_els(&els)]), enc_els((ts * &bp).elements()), els.len() > 1, &tag);
        let byel: Vec<PathEl> = els.iter().map(|&e| ts * e).collect();
        o.case(39, "ts*el", cat(&[&e1, &enc_els(&els)]), enc_els(&byel), els.len() > 1, &tag);
        o.case(40, "ts*rect", cat(&[&e1, &enc_rect(&rc)]), enc_rect(&(ts * rc)), true, st);
        let rr = gen_rrect(r);
        let im = ts * rr;
        let clamped = {
            let m = im.rect().width().min(im.rect().height()) / 2.0;
            let q = im.radii();
            [q.top_left, q.top_right, q.bottom_right, q.bottom_left].iter().any(|x| *x == m)
        };
        let rtag = format!("{},{}", st, if clamped { "clamped" } else { "unclamped" });
        o.case(41, "ts*rounded-rect", cat(&[&e1, &enc_rect(&rr.rect()), &enc_radii(&rr.radii())]), cat(&[&enc_rect(&im.rect()), &enc_radii(&im.radii())]), true, &rtag);
        o.case(42, "ts*radii", cat(&[&e1, &enc_radii(&rr.radii())]), enc_radii(&(ts * rr.radii())), true, st);
        let mut cv = enc_ts(&TranslateScale::scale(s));
        cv.extend(enc_ts(&TranslateScale::translate(t)));
        cv.extend(enc_ts(&TranslateScale::default()));
        o.case(43, "ts-constructors", vec![s, t.x, t.y], cv, true, "");
        let raw = RoundedRectRadii::new(r.coord(), r.coord(), r.coord(), r.coord());
        let fr = RoundedRect::from_rect(rc, raw);
        o.case(44, "rounded-rect-from_rect", cat(&[&enc_rect(&rc), &enc_radii(&raw)]), cat(&[&enc_rect(&fr.rect()), &enc_radii(&fr.radii())]), true, "");
    }

    // ---- operations through sin/cos/atan2/hypot: generic inputs, tolerance
    let n2 = if thorough { 2500 } else { 150 };
    for _ in 0..n2 {
        let a = gen_affine_generic(r);
        let ma = co(a);
        let th = r.uniform(-7.0, 7.0);
        let c = Point::new(r.uniform(-20.0, 20.0), r.uniform(-20.0, 20.0));
        o.case(50, "rotate", vec![th], co(Affine::rotate(th)).to_vec(), true, "");
        o.case(51, "rotate_about", cat(&[&[th], &pv(c)]), co(Affine::rotate_about(th, c)).to_vec(), true, "");
        o.case(52, "pre_rotate", cat(&[&ma, &[th]]), co(a.pre_rotate(th)).to_vec(), true, "");
        o.case(53, "pre_rotate_about", cat(&[&ma, &[th], &pv(c)]), co(a.pre_rotate_about(th, c)).to_vec(), true, "");
        o.case(54, "then_rotate", cat(&[&ma, &[th]]), co(a.then_rotate(th)).to_vec(), true, "");
        o.case(55, "then_rotate_about", cat(&[&ma, &[th], &pv(c)]), co(a.then_rotate_about(th, c)).to_vec(), true, "");
        // reflect depends on the direction of its axis only: the magnitude is swept over the whole
        // exponent range (the model's hypot rescales as libm's does)
        let fd = sweep(r, 1000, 1, 2);
        let d = Vec2::new(r.generic(-3, 3) * fd, r.generic(-3, 3) * fd);
        let fc = sweep(r, 40, 1, 3);
        let cr = scale_pt(c, fc);
        o.case(56, "reflect", cat(&[&pv(cr), &[d.x, d.y]]), co(Affine::reflect(cr, d)).to_vec(), true, if fd == 1.0 { "|dir|~1" } else if fd < 1.0 { "|dir| tiny" } else { "|dir| huge" });
        // svd: the rotation does not depend on the magnitude of the matrix
        let fm = sweep(r, 200, 1, 3);
        let am = scale_all(a, fm);
        let (rad, rot) = Ellipse::from_affine(am).radii_and_rotation();
        if well_conditioned_ellipse(Vec2::new(rad.x / fm, rad.y / fm), rot) {
            o.case(57, "svd-angle", co(am).to_vec(), vec![rot], true, if fm == 1.0 { "|M|~1" } else { "|M| swept" });
        }
        // lengths of the arc / ellipse cases: centre, radii and the map's translation at 2^k
        let fl = sweep(r, 40, 1, 3);
        let a = scale_tr(a, fl);
        let ma = co(a);
        let arc = scale_arc(gen_arc(r), fl);
        let el = Ellipse::new(arc.center, arc.radii, arc.x_rotation);
        let (erad, erot) = el.radii_and_rotation();
        if well_conditioned_ellipse(Vec2::new(erad.x / fl, erad.y / fl), erot) {
            let mut ev = ellipse_inner(&el);
            ev.extend([erad.x, erad.y, erot]);
            o.case(58, "ellipse-new", vec![arc.center.x, arc.center.y, arc.radii.x, arc.radii.y, arc.x_rotation], ev, true, "");
        }
        let im = a * arc;
        if well_conditioned_ellipse(Vec2::new(im.radii.x / fl, im.radii.y / fl), im.x_rotation) {
            let in_range = arc.x_rotation > -FRAC_PI_2 && arc.x_rotation <= FRAC_PI_2;
            let tag = format!("{},{}", det_tag(a), if in_range { "x_rotation in (-pi/2,pi/2]" } else { "x_rotation outside" });
            let args = cat(&[&ma, &enc_arc(&arc)]);
            o.case(60, "affine*arc-ellipse", args.clone(), vec![im.center.x, im.center.y, im.radii.x, im.radii.y, im.x_rotation], true, &tag);
            // start and sweep angle, away from the branch cut of atan2
            if im.start_angle.abs() < PI - 0.02 {
                o.case(61, "affine*arc-angles", args, vec![im.start_angle, im.sweep_angle], true, &tag);
            }
        }
        if let Some(PathEl::MoveTo(p0)) = arc.path_elements(0.1).next() {
            o.case(63, "arc-start-point", enc_arc(&arc), pv(p0), true, "");
        }
    }
}

// ------------------------------------------------------------------ laws on the implementation

fn g_abc(r: &mut Rng) -> Vec<f64> {
    let mut v = Vec::new();
    for _ in 0..3 {
        v.extend_from_slice(&co(gen_affine_reg(r)));
    }
    v.extend(pv(Point::new(r.uniform(-50.0, 50.0), r.uniform(-50.0, 50.0))));
    // all lengths (translations, the point) at 2^k
    let fl = sweep(r, 40, 1, 3);
    for i in [4, 5, 10, 11, 16, 17, 18, 19] {
        v[i] *= fl;
    }
    v
}

/// (A*B)*p = A*(B*p); (A*B)*C = A*(B*C); det(A*B) = det A det B; the product is the documented matrix product
fn law_product(a: &[f64]) -> Option<(String, String)> {
    let (ma, mb, mc) = (dec_aff(&a[0..6]), dec_aff(&a[6..12]), dec_aff(&a[12..18]));
    let p = Point::new(a[18], a[19]);
    let (ca, cb, cc) = (co(ma), co(mb), co(mc));
    // tolerances: dimensionless for linear coefficients, relative to the length scale for translations and points
    let tl = 64.0 * EPS * (1.0 + lin_max(&ca)) * (1.0 + lin_max(&cb)) * (1.0 + lin_max(&cc));
    let tol = tl * len_of(&[tr_max(&ca), tr_max(&cb), tr_max(&cc), p.x, p.y]);
    let ab = ma * mb;
    if !near_m2(&co(ab), &own_mul(&ca, &cb), tl, tol) {
        return fail("product:matrix", format!("{:?} * {:?} = {:?}, documented product {:?}", ma, mb, ab, own_mul(&ca, &cb)));
    }
    if !near_p(ma * p, own_apply(&ca, p), tol) {
        return fail("product:point-action", format!("{:?} * {:?} = {:?}", ma, p, ma * p));
    }
    let (l, rr) = (ab * p, ma * (mb * p));
    if !near_p(l, rr, tol) {
        return fail("product:assoc-point", format!("(A*B)*p = {:?} but A*(B*p) = {:?} for A={:?} B={:?} p={:?}", l, rr, ma, mb, p));
    }
    let (l, rr) = (co((ma * mb) * mc), co(ma * (mb * mc)));
    if !near_m2(&l, &rr, tl, tol) {
        return fail("product:assoc", format!("(A*B)*C = {:?} but A*(B*C) = {:?}", l, rr));
    }
    let (d1, d2) = (ab.determinant(), ma.determinant() * mb.determinant());
    let dsc = (1.0 + lin_max(&ca)).powi(2) * (1.0 + lin_max(&cb)).powi(2);
    if (d1 - d2).abs() > 64.0 * EPS * dsc || (ma.determinant() - own_det(&ca)).abs() > 8.0 * EPS * dsc {
        return fail("product:determinant", format!("det(A*B) = {} but det A * det B = {} for A={:?} B={:?}", d1, d2, ma, mb));
    }
    // f64 * Affine scales every coefficient
    let k = a[0] - 0.25;
    let ka = co(k * ma);
    for i in 0..6 {
        if (ka[i] - k * ca[i]).abs() > 4.0 * EPS * (k * ca[i]).abs() {
            return fail("product:scalar", format!("{} * {:?} = {:?}", k, ma, ka));
        }
    }
    let mut am = ma;
    am *= mb;
    if co(am) != co(ab) {
        return fail("product:mul_assign", format!("{:?} *= {:?}", ma, mb));
    }
    None
}

fn g_a_p(r: &mut Rng) -> Vec<f64> {
    let mut v = co(gen_affine_reg(r)).to_vec();
    v.extend(pv(Point::new(r.uniform(-50.0, 50.0), r.uniform(-50.0, 50.0))));
    let fl = sweep(r, 40, 1, 3);
    for i in [4, 5, 6, 7] {
        v[i] *= fl;
    }
    v
}

/// A * inverse(A) = inverse(A) * A = identity, for |det| in [1e-3, 1e3]
fn law_inverse(a: &[f64]) -> Option<(String, String)> {
    let m = dec_aff(&a[0..6]);
    let p = Point::new(a[6], a[7]);
    let c = co(m);
    let inv = m.inverse();
    let ci = co(inv);
    let id: M = [1.0, 0.0, 0.0, 1.0, 0.0, 0.0];
    // forward error of the products: |A| |A^-1| eps
    let tol = 64.0 * EPS * (1.0 + lin_max(&c)) * (1.0 + lin_max(&ci));
    let len = len_of(&[tr_max(&c), tr_max(&ci), p.x, p.y]);
    let (r1, r2) = (co(m * inv), co(inv * m));
    if !near_m2(&r1, &id, tol, tol * len) {
        return fail("inverse:right", format!("A * inverse(A) = {:?} for A = {:?}", r1, m));
    }
    if !near_m2(&r2, &id, tol, tol * len) {
        return fail("inverse:left", format!("inverse(A) * A = {:?} for A = {:?}", r2, m));
    }
    let back = inv * (m * p);
    if !near_p(back, p, tol * len) {
        return fail("inverse:point", format!("inverse(A) * (A * p) = {:?} for p = {:?}, A = {:?}", back, p, m));
    }
    let (d, di) = (m.determinant(), inv.determinant());
    if (d * di - 1.0).abs() > tol {
        return fail("inverse:determinant", format!("det A = {}, det inverse(A) = {}", d, di));
    }
    None
}

fn g_pre_then(r: &mut Rng) -> Vec<f64> {
    let mut v = co(gen_affine_reg(r)).to_vec();
    v.push(r.uniform(-7.0, 7.0)); // th
    v.push(if r.bool() { r.uniform(-4.0, 4.0) } else { r.grid(8, 2.0) }); // s
    v.push(r.uniform(-4.0, 4.0)); // sx
    v.push(r.uniform(-4.0, 4.0)); // sy
    v.push(r.uniform(-30.0, 30.0)); // tx
    v.push(r.uniform(-30.0, 30.0)); // ty
    v.push(r.uniform(-30.0, 30.0)); // cx
    v.push(r.uniform(-30.0, 30.0)); // cy
    let fl = sweep(r, 40, 1, 3);
    for i in [4, 5, 10, 11, 12, 13] {
        v[i] *= fl;
    }
    v
}

/// every pre_* method is self * T, every then_* method is T * self, T the documented elementary
/// map written out here coefficient by coefficient
fn law_pre_then(a: &[f64]) -> Option<(String, String)> {
    let m = dec_aff(&a[0..6]);
    let cm = co(m);
    let (th, s, sx, sy, tx, ty, cx, cy) = (a[6], a[7], a[8], a[9], a[10], a[11], a[12], a[13]);
    let (sn, cs) = th.sin_cos();
    let rot: M = [cs, sn, -sn, cs, 0.0, 0.0];
    // rotation about (cx, cy): x -> R (x - c) + c
    let rot_about: M = [cs, sn, -sn, cs, cx - (cs * cx - sn * cy), cy - (sn * cx + cs * cy)];
    let scale: M = [s, 0.0, 0.0, s, 0.0, 0.0];
    let scale_nu: M = [sx, 0.0, 0.0, sy, 0.0, 0.0];
    let scale_about: M = [s, 0.0, 0.0, s, cx - s * cx, cy - s * cy];
    let trans: M = [1.0, 0.0, 0.0, 1.0, tx, ty];
    let c = Point::new(cx, cy);
    let t = Vec2::new(tx, ty);
    let tl = 64.0 * EPS * (1.0 + lin_max(&cm)) * (1.0 + s.abs().max(sx.abs()).max(sy.abs()));
    let tol = tl * len_of(&[tr_max(&cm), cx, cy, tx, ty]);
    let checks: Vec<(&str, M, M)> = vec![
        ("pre_rotate", co(m.pre_rotate(th)), own_mul(&cm, &rot)),
        ("pre_rotate_about", co(m.pre_rotate_about(th, c)), own_mul(&cm, &rot_about)),
        ("pre_scale", co(m.pre_scale(s)), own_mul(&cm, &scale)),
        ("pre_scale_non_uniform", co(m.pre_scale_non_uniform(sx, sy)), own_mul(&cm, &scale_nu)),
        ("pre_translate", co(m.pre_translate(t)), own_mul(&cm, &trans)),
        ("then_rotate", co(m.then_rotate(th)), own_mul(&rot, &cm)),
        ("then_rotate_about", co(m.then_rotate_about(th, c)), own_mul(&rot_about, &cm)),
        ("then_scale", co(m.then_scale(s)), own_mul(&scale, &cm)),
        ("then_scale_non_uniform", co(m.then_scale_non_uniform(sx, sy)), own_mul(&scale_nu, &cm)),
        ("then_scale_about", co(m.then_scale_about(s, c)), own_mul(&scale_about, &cm)),
        ("then_translate", co(m.then_translate(t)), own_mul(&trans, &cm)),
        ("rotate", co(Affine::rotate(th)), rot),
        ("rotate_about", co(Affine::rotate_about(th, c)), rot_about),
        ("scale", co(Affine::scale(s)), scale),
        ("scale_non_uniform", co(Affine::scale_non_uniform(sx, sy)), scale_nu),
        ("scale_about", co(Affine::scale_about(s, c)), scale_about),
        ("translate", co(Affine::translate(t)), trans),
        ("skew", co(Affine::skew(sx, sy)), [1.0, sy, sx, 1.0, 0.0, 0.0]),
    ];
    for (name, got, want) in checks {
        if !near_m2(&got, &want, tl, tol) {
            let how = if name.starts_with("pre_") { "self * T" } else if name.starts_with("then_") { "T * self" } else { "the documented matrix" };
            return fail(&format!("pre_then:{}", name), format!("{} of {:?} (th={} s={} sx={} sy={} t=({},{}) c=({},{})) = {:?}, but {} = {:?}", name, m, th, s, sx, sy, tx, ty, cx, cy, got, how, want));
        }
    }
    None
}

fn g_about(r: &mut Rng) -> Vec<f64> {
    let mut v = vec![r.uniform(-4.0, 4.0), r.uniform(-7.0, 7.0)];
    v.extend(pv(Point::new(r.uniform(-30.0, 30.0), r.uniform(-30.0, 30.0)))); // centre / axis point
    v.extend(pv(Point::new(r.uniform(-30.0, 30.0), r.uniform(-30.0, 30.0)))); // p
    // only the direction of reflect's axis matters: its magnitude is swept over the exponent range
    let fd = sweep(r, 1000, 1, 2);
    v.push(r.generic(-4, 4) * fd);
    v.push(r.generic(-4, 4) * fd);
    v.push(r.uniform(-3.0, 3.0)); // t
    // centre and point at 2^k
    let fl = sweep(r, 40, 1, 3);
    for i in 2..6 {
        v[i] *= fl;
    }
    v
}

/// scale_about / rotate_about fix their centre; reflect fixes its axis pointwise, is an involution, det -1
fn law_about(a: &[f64]) -> Option<(String, String)> {
    let (s, th) = (a[0], a[1]);
    let c = Point::new(a[2], a[3]);
    let p = Point::new(a[4], a[5]);
    let d = Vec2::new(a[6], a[7]);
    let t = a[8];
    // all tolerances are relative to the length scale of the inputs
    let sc = f64::MIN_POSITIVE.max(c.x.abs()).max(c.y.abs()).max(p.x.abs()).max(p.y.abs());
    let tol = 64.0 * EPS * sc * (1.0 + s.abs());
    let sa = Affine::scale_about(s, c);
    if !near_p(sa * c, c, tol) {
        return fail("about:scale_about-centre", format!("scale_about({}, {:?}) * centre = {:?}", s, c, sa * c));
    }
    let want = Point::new(c.x + s * (p.x - c.x), c.y + s * (p.y - c.y));
    if !near_p(sa * p, want, tol) {
        return fail("about:scale_about", format!("scale_about({}, {:?}) * {:?} = {:?}, want {:?}", s, c, p, sa * p, want));
    }
    let ra = Affine::rotate_about(th, c);
    if !near_p(ra * c, c, tol) {
        return fail("about:rotate_about-centre", format!("rotate_about({}, {:?}) * centre = {:?}", th, c, ra * c));
    }
    let (sn, cs) = th.sin_cos();
    let want = Point::new(c.x + cs * (p.x - c.x) - sn * (p.y - c.y), c.y + sn * (p.x - c.x) + cs * (p.y - c.y));
    if !near_p(ra * p, want, tol) {
        return fail("about:rotate_about", format!("rotate_about({}, {:?}) * {:?} = {:?}, want {:?}", th, c, p, ra * p, want));
    }
    if (ra.determinant() - 1.0).abs() > 16.0 * EPS || (sa.determinant() - s * s).abs() > 16.0 * EPS * (1.0 + s * s) {
        return fail("about:determinant", format!("det rotate_about = {}, det scale_about({}) = {}", ra.determinant(), s, sa.determinant()));
    }
    // reflection about the line through c with direction d (any finite non-zero magnitude):
    // the unit direction, computed here by rescaling first so that nothing under- or overflows
    let rf = Affine::reflect(c, d);
    let big = d.x.abs().max(d.y.abs());
    let (ex, ey) = (d.x / big, d.y / big);
    let el = (ex * ex + ey * ey).sqrt();
    let (ux, uy) = (ex / el, ey / el);
    let on = Point::new(c.x + t * sc * ux, c.y + t * sc * uy);
    let rtol = 256.0 * EPS * sc * (1.0 + t.abs());
    let crf = co(rf);
    if !crf.iter().all(|x| x.is_finite()) {
        return fail("about:reflect-finite", format!("reflect({:?}, {:?}) = {:?}", c, d, rf));
    }
    if !near_p(rf * on, on, rtol) {
        return fail("about:reflect-axis", format!("reflect({:?}, {:?}) moves the axis point {:?} to {:?}", c, d, on, rf * on));
    }
    let nrm = Vec2::new(uy, -ux);
    let k = (p.x - c.x) * nrm.x + (p.y - c.y) * nrm.y;
    let want = Point::new(p.x - 2.0 * k * nrm.x, p.y - 2.0 * k * nrm.y);
    if !near_p(rf * p, want, rtol) {
        return fail("about:reflect-mirror", format!("reflect({:?}, {:?}) * {:?} = {:?}, mirror image {:?}", c, d, p, rf * p, want));
    }
    // the linear part is the Householder matrix of the unit normal, whatever the magnitude of d
    let hh = [1.0 - 2.0 * nrm.x * nrm.x, -2.0 * nrm.x * nrm.y, -2.0 * nrm.x * nrm.y, 1.0 - 2.0 * nrm.y * nrm.y];
    if (0..4).any(|i| (crf[i] - hh[i]).abs() > 64.0 * EPS) {
        return fail("about:reflect-matrix", format!("reflect({:?}, {:?}) has linear part {:?}, the reflection in that direction is {:?}", c, d, &crf[..4], hh));
    }
    let twice = co(rf * rf);
    let id: M = [1.0, 0.0, 0.0, 1.0, 0.0, 0.0];
    if (0..4).any(|i| (twice[i] - id[i]).abs() > 256.0 * EPS) || twice[4].abs() > rtol || twice[5].abs() > rtol {
        return fail("about:reflect-involution", format!("reflect({:?}, {:?}) squared = {:?}", c, d, twice));
    }
    if (rf.determinant() + 1.0).abs() > 64.0 * EPS {
        return fail("about:reflect-determinant", format!("det reflect({:?}, {:?}) = {}", c, d, rf.determinant()));
    }
    None
}

fn g_a_seg_t(r: &mut Rng) -> Vec<f64> {
    let mut v = co(gen_affine_reg(r)).to_vec();
    v.push(match r.below(5) {
        0 => 0.0,
        1 => 1.0,
        2 => 0.5,
        _ => r.unit(),
    });
    let fl = sweep(r, 40, 1, 3);
    v[4] *= fl;
    v[5] *= fl;
    v.extend(enc_seg(&scale_seg(gen_seg(r), fl)));
    v
}

/// transforming a segment and evaluating it = evaluating it and transforming the point
fn law_commute_eval(a: &[f64]) -> Option<(String, String)> {
    let m = dec_aff(&a[0..6]);
    let t = a[6];
    let (s, _) = dec_seg(&a[7..]);
    let cb = s.to_cubic();
    let sc = [cb.p0, cb.p1, cb.p2, cb.p3].iter().fold(len_of(&[tr_max(&co(m))]), |x, p| x.max(p.x.abs()).max(p.y.abs()));
    let tol = 128.0 * EPS * (1.0 + lin_max(&co(m))) * sc;
    let k = seg_kind(&s);
    let im = m * s;
    let (l, rr) = (im.eval(t), m * s.eval(t));
    if !near_p(l, rr, tol) {
        return fail(&format!("commute-eval:{}", k), format!("(A*seg).eval({}) = {:?} but A*(seg.eval) = {:?}; A={:?} seg={:?}", t, l, rr, m, s));
    }
    // the concrete types, and the image's stored end points are the images of the end points
    let conc = match s {
        PathSeg::Line(x) => PathSeg::Line(m * x),
        PathSeg::Quad(x) => PathSeg::Quad(m * x),
        PathSeg::Cubic(x) => PathSeg::Cubic(m * x),
    };
    if conc != im {
        return fail(&format!("commute-eval:dispatch-{}", k), format!("A * PathSeg differs from A * concrete curve: {:?} vs {:?}", im, conc));
    }
    if im.start() != m * s.start() || im.end() != m * s.end() {
        return fail(&format!("commute-eval:endpoints-{}", k), format!("end points of A*seg are not the images of the end points: {:?}", im));
    }
    // TranslateScale on the same segment
    None
}

fn g_a_path(r: &mut Rng) -> Vec<f64> {
    let fl = sweep(r, 40, 1, 3);
    let mut v = co(scale_tr(gen_affine_reg(r), fl)).to_vec();
    let els: Vec<PathEl> = gen_path(r).into_iter().map(|e| scale_el(e, fl)).collect();
    v.extend(enc_els(&els));
    v
}

fn drop_null_lines(v: Vec<PathSeg>) -> Vec<PathSeg> {
    v.into_iter().filter(|s| !matches!(s, PathSeg::Line(l) if l.p0 == l.p1)).collect()
}

/// the segments of the image path are the images of the segments (zero-length closing lines aside);
/// the three ways of transforming a path agree; element kinds are preserved
fn law_path(a: &[f64]) -> Option<(String, String)> {
    let m = dec_aff(&a[0..6]);
    let els = dec_els(&a[6..]);
    let bp = BezPath::from_vec(els.clone());
    let im = m * &bp;
    let mut im2 = bp.clone();
    im2.apply_affine(m);
    let im3 = m * bp.clone();
    if im.elements() != im2.elements() || im.elements() != im3.elements() {
        return fail("path:apply_affine", format!("A * &path, A * path and apply_affine disagree for {:?}", els));
    }
    if im.elements().len() != els.len() {
        return fail("path:length", format!("{} elements became {}", els.len(), im.elements().len()));
    }
    for (e, f) in els.iter().zip(im.elements()) {
        let ok = match (e, f) {
            (PathEl::MoveTo(p), PathEl::MoveTo(q)) | (PathEl::LineTo(p), PathEl::LineTo(q)) => *q == m * *p,
            (PathEl::QuadTo(p1, p2), PathEl::QuadTo(q1, q2)) => *q1 == m * *p1 && *q2 == m * *p2,
            (PathEl::CurveTo(p1, p2, p3), PathEl::CurveTo(q1, q2, q3)) => *q1 == m * *p1 && *q2 == m * *p2 && *q3 == m * *p3,
            (PathEl::ClosePath, PathEl::ClosePath) => true,
            _ => false,
        };
        if !ok {
            return fail("path:element", format!("element {:?} became {:?} under {:?}", e, f, m));
        }
    }
    let s1 = drop_null_lines(im.segments().collect());
    let s2 = drop_null_lines(bp.segments().map(|s| m * s).collect());
    if s1 != s2 {
        return fail("path:segments", format!("segments of A*path {:?} differ from A*segments {:?} (A={:?})", s1, s2, m));
    }
    None
}

fn g_ellipse(r: &mut Rng) -> Vec<f64> {
    let mut v = co(gen_affine_reg(r)).to_vec();
    v.extend_from_slice(&co(gen_affine_reg(r)));
    v.extend(pv(Point::new(r.uniform(-20.0, 20.0), r.uniform(-20.0, 20.0))));
    v.push(r.uniform(0.1, 10.0)); // circle radius / rx
    v.push(r.uniform(0.1, 10.0)); // ry
    v.push(r.uniform(-7.0, 7.0)); // rotation
    v.push(r.uniform(-7.0, 7.0)); // theta
    // lengths: both translations, the centre, the radii
    let fl = sweep(r, 40, 1, 3);
    for i in [4, 5, 10, 11, 12, 13, 14, 15] {
        v[i] *= fl;
    }
    v
}

/// is `p` on the ellipse described by (centre, radii, rotation)? returns the defect of the implicit equation
fn on_ellipse(center: Point, radii: Vec2, rot: f64, p: Point) -> f64 {
    let (sn, cs) = rot.sin_cos();
    let (dx, dy) = (p.x - center.x, p.y - center.y);
    let (u, v) = (cs * dx + sn * dy, -sn * dx + cs * dy);
    ((u / radii.x).powi(2) + (v / radii.y).powi(2) - 1.0).abs()
}

/// images of circles and ellipses: the inner map of A*ellipse is the product; the decomposition
/// (centre, radii, rotation) describes the ellipse through the image points; svd invariants
fn law_ellipse(a: &[f64]) -> Option<(String, String)> {
    let (m, b) = (dec_aff(&a[0..6]), dec_aff(&a[6..12]));
    let c = Point::new(a[12], a[13]);
    let (rx, ry, rot, th) = (a[14], a[15], a[16], a[17]);
    if m * Ellipse::from_affine(b) != Ellipse::from_affine(m * b) {
        return fail("ellipse:inner-product", format!("A * Ellipse::from_affine(B) != Ellipse::from_affine(A*B) for A={:?} B={:?}", m, b));
    }
    let cm = co(m);
    let (sn, cs) = th.sin_cos();
    // svd invariants of the linear part
    let (rad, ang) = Ellipse::from_affine(m).radii_and_rotation();
    let fro = cm[0] * cm[0] + cm[1] * cm[1] + cm[2] * cm[2] + cm[3] * cm[3];
    let det = own_det(&cm);
    let aspect2 = (rad.x / rad.y).powi(2);
    if !(rad.x * (1.0 + 4.0 * EPS) >= rad.y && rad.y >= 0.0) || (rad.x * rad.x + rad.y * rad.y - fro).abs() > 64.0 * EPS * fro || (rad.x * rad.y - det.abs()).abs() > 64.0 * EPS * fro * aspect2.sqrt().max(1.0) {
        return fail("ellipse:svd-invariants", format!("svd of {:?}: radii {:?}, a^2+b^2+c^2+d^2 = {}, |det| = {}", m, rad, fro, det.abs()));
    }
    if !(ang > -FRAC_PI_2 - 1e-12 && ang <= FRAC_PI_2 + 1e-12) {
        return fail("ellipse:svd-angle-range", format!("svd angle {} of {:?}", ang, m));
    }
    // implicit-equation defect allowed: svd conditioning, plus the cancellation in (point - centre) when the
    // centre is far away compared with the minor radius
    let etol = |rad: Vec2, ctr: Point| 1e-9 + 1e-12 * (rad.x / rad.y).powi(2) + 64.0 * EPS * (ctr.x.abs().max(ctr.y.abs()) / rad.y) * (rad.x / rad.y);
    // the unit circle's image under m is the ellipse (centre, radii, angle)
    let e0 = Ellipse::from_affine(m);
    let d = on_ellipse(e0.center(), rad, ang, m * Point::new(cs, sn));
    if !(d <= etol(rad, e0.center())) {
        return fail("ellipse:from_affine-decomposition", format!("image of the unit circle point at {} is off the ellipse (centre {:?}, radii {:?}, rotation {}) by {}; map {:?}", th, e0.center(), rad, ang, d, m));
    }
    // A * circle
    let circle = Circle::new(c, rx);
    let e1 = m * circle;
    let (r1, a1) = e1.radii_and_rotation();
    let q = m * Point::new(c.x + rx * cs, c.y + rx * sn);
    let d = on_ellipse(e1.center(), r1, a1, q);
    if !(d <= etol(r1, e1.center())) || !near_p(e1.center(), m * c, 64.0 * EPS * (1.0 + lin_max(&cm)) * len_of(&[tr_max(&cm), c.x, c.y])) {
        return fail("ellipse:circle-image", format!("A*circle: image point {:?} is off the ellipse (centre {:?}, radii {:?}, rotation {}) by {}; A={:?} circle={:?}", q, e1.center(), r1, a1, d, m, circle));
    }
    let (ar, want) = (e1.area(), det.abs() * PI * rx * rx);
    if (ar - want).abs() > 1e-9 * want * aspect2.sqrt().max(1.0) {
        return fail("ellipse:circle-image-area", format!("area of A*circle = {}, |det| pi r^2 = {}", ar, want));
    }
    // Ellipse::new(c, (rx, ry), rot) is the curve c + R(rot) (rx cos, ry sin); and its image under A
    let e2 = Ellipse::new(c, (rx, ry), rot);
    let (srot, crot) = rot.sin_cos();
    let on2 = Point::new(c.x + crot * rx * cs - srot * ry * sn, c.y + srot * rx * cs + crot * ry * sn);
    let (r2, a2) = e2.radii_and_rotation();
    let d = on_ellipse(e2.center(), r2, a2, on2);
    if !(d <= etol(r2, e2.center())) || !near_p(e2.center(), c, 0.0) {
        return fail("ellipse:new", format!("Ellipse::new({:?}, ({}, {}), {}): point at {} is off the reported ellipse (radii {:?}, rotation {}) by {}", c, rx, ry, rot, th, r2, a2, d));
    }
    let (big, small) = (rx.max(ry), rx.min(ry));
    if (r2.x - big).abs() > 1e-9 * big || (r2.y - small).abs() > 1e-9 * big * (big / small) {
        return fail("ellipse:new-radii", format!("Ellipse::new with radii ({}, {}) reports {:?}", rx, ry, r2));
    }
    // Ellipse +/- Vec2 and with_center move the centre and nothing else
    let v = Vec2::new(rot * 3.0 * rx, (th - 1.0) * rx);
    let base = ellipse_inner(&e2);
    for (name, got, cx, cy) in [("add", e2 + v, base[4] + v.x, base[5] + v.y), ("sub", e2 - v, base[4] - v.x, base[5] - v.y), ("with_center", e2.with_center(v.to_point()), v.x, v.y)] {
        let g = ellipse_inner(&got);
        if g[..4] != base[..4] || (g[4] - cx).abs() > 4.0 * EPS * cx.abs() || (g[5] - cy).abs() > 4.0 * EPS * cy.abs() {
            return fail(&format!("ellipse:translate-{}", name), format!("{:?} moved by {:?} ({}) = {:?}", e2, v, name, got));
        }
    }
    let e3 = m * e2;
    let (r3, a3) = e3.radii_and_rotation();
    let d = on_ellipse(e3.center(), r3, a3, m * on2);
    if !(d <= etol(r3, e3.center())) {
        return fail("ellipse:image", format!("A*ellipse: image point {:?} is off the ellipse (centre {:?}, radii {:?}, rotation {}) by {}", m * on2, e3.center(), r3, a3, d));
    }
    // the outline of the image shape: every knot, pulled back by the inverse map, lies on the original ellipse
    let inv = m.inverse();
    let mut knots = 0;
    for el in e3.path_elements(0.1) {
        if let Some(q) = el.end_point() {
            knots += 1;
            let back = inv * q;
            let (u, v) = (back.x - c.x, back.y - c.y);
            let (lu, lv) = (crot * u + srot * v, -srot * u + crot * v);
            let d = ((lu / rx).powi(2) + (lv / ry).powi(2) - 1.0).abs();
            let cond = (1.0 + lin_max(&cm)) * (1.0 + lin_max(&co(inv))) * (big / small).powi(2) * (1.0 + len_of(&[tr_max(&cm), c.x, c.y]) / small);
            if !(d <= 1e-9 + 1e-12 * (r3.x / r3.y).powi(2) + 1e-13 * cond) {
                return fail("ellipse:image-outline", format!("outline knot {:?} of A*ellipse pulls back to {:?}, off the original ellipse by {}; A={:?} ellipse: centre {:?} radii ({}, {}) rotation {}", q, back, d, m, c, rx, ry, rot));
            }
        }
    }
    if knots < 5 {
        return fail("ellipse:image-outline", format!("outline of A*ellipse has {} knots", knots));
    }
    None
}

fn g_arc(r: &mut Rng) -> Vec<f64> {
    let m = match r.below(5) {
        0 => *r.pick(&[Affine::IDENTITY, Affine::FLIP_X, Affine::FLIP_Y]),
        1 => Affine::rotate(r.uniform(-7.0, 7.0)),
        _ => gen_affine_reg(r),
    };
    let mut v = co(m).to_vec();
    let mut arc = gen_arc(r);
    match r.below(6) {
        0 => arc.radii.y = arc.radii.x,                           // circular arc: the decomposition's rotation is arbitrary
        1 => arc.radii.y = arc.radii.x * (1.0 + r.uniform(-1e-6, 1e-6)), // nearly circular
        2 => arc.x_rotation = *r.pick(&[0.0, FRAC_PI_2, -FRAC_PI_2, PI, -PI, 2.0 * PI]),
        _ => {}
    }
    let fl = sweep(r, 40, 1, 3);
    v[4] *= fl;
    v[5] *= fl;
    v.extend(enc_arc(&scale_arc(arc, fl)));
    v.push(match r.below(4) {
        0 => 0.0,
        1 => 1.0,
        _ => r.unit(),
    });
    v
}

/// the point of an arc at parameter t in [0,1], written out from the definition of the fields
fn arc_point(a: &Arc, t: f64) -> Point {
    let th = a.start_angle + t * a.sweep_angle;
    let (sn, cs) = th.sin_cos();
    let (srot, crot) = a.x_rotation.sin_cos();
    let (u, v) = (a.radii.x * cs, a.radii.y * sn);
    Point::new(a.center.x + crot * u - srot * v, a.center.y + srot * u + crot * v)
}

/// the image of an arc is the arc through the image points, traversed in the image direction
fn law_arc(a: &[f64]) -> Option<(String, String)> {
    let m = dec_aff(&a[0..6]);
    let arc = dec_arc(&a[6..13]);
    let t = a[13];
    let im = m * arc;
    let cm = co(m);
    let aspect2 = (im.radii.x / im.radii.y).powi(2);
    let sc = (1.0 + lin_max(&cm)) * len_of(&[tr_max(&cm), arc.center.x, arc.center.y, arc.radii.x, arc.radii.y]);
    let tol = sc * (1e-9 + 1e-12 * aspect2);
    // the ellipse carrying the image arc
    if !near_p(im.center, m * arc.center, 64.0 * EPS * sc) {
        return fail("arc-image:centre", format!("centre of A*arc = {:?}, A*centre = {:?}", im.center, m * arc.center));
    }
    let q = m * arc_point(&arc, t);
    let d = on_ellipse(im.center, im.radii, im.x_rotation, q);
    if !(d <= 1e-9 + 1e-12 * aspect2 + 64.0 * EPS * (im.center.x.abs().max(im.center.y.abs()) / im.radii.y) * aspect2.sqrt()) {
        return fail("arc-image:ellipse", format!("image point {:?} is off the image arc's ellipse (centre {:?}, radii {:?}, rotation {}) by {}; A={:?} arc={:?}", q, im.center, im.radii, im.x_rotation, d, m, arc));
    }
    // the same parameter gives the image point
    for tt in [t, 0.0, 1.0, 0.5] {
        let (l, rr) = (arc_point(&im, tt), m * arc_point(&arc, tt));
        if !near_p(l, rr, tol) {
            let copied = im.start_angle == arc.start_angle && im.sweep_angle == arc.sweep_angle;
            let class = if copied { "affine-arc:angles-copied" } else { "arc-image:eval" };
            return fail(class, format!("(A*arc) at t={} is {:?} but A*(arc at t) is {:?}; A={:?} arc={:?} image={:?}", tt, l, rr, m, arc, im));
        }
    }
    // the outline of the image arc starts and ends at the images of the end points
    let path: Vec<PathEl> = im.path_elements(0.1).collect();
    if let (Some(PathEl::MoveTo(p0)), Some(last)) = (path.first(), path.last()) {
        let pe = last.end_point().unwrap_or(*p0);
        if !near_p(*p0, m * arc_point(&arc, 0.0), tol) || !near_p(pe, m * arc_point(&arc, 1.0), 16.0 * tol) {
            return fail("arc-image:outline-endpoints", format!("outline of A*arc runs {:?} -> {:?}, want {:?} -> {:?}", p0, pe, m * arc_point(&arc, 0.0), m * arc_point(&arc, 1.0)));
        }
    } else {
        return fail("arc-image:outline", "path_elements of A*arc does not start with MoveTo".into());
    }
    None
}

fn g_ts(r: &mut Rng) -> Vec<f64> {
    let mut v = enc_ts(&gen_ts_reg(r));
    v.extend(enc_ts(&gen_ts_reg(r)));
    v.extend(pv(gen_point(r)));
    v.extend(enc_rect(&gen_rect(r)));
    let rr = gen_rrect(r);
    v.extend(enc_rect(&rr.rect()));
    v.extend(enc_radii(&rr.radii()));
    v.push(r.uniform(0.0, 10.0)); // circle radius
    v.push(r.uniform(-7.0, 7.0)); // theta
    v.extend(enc_seg(&gen_seg(r)));
    // lengths: translations, point, rectangles, radii, circle radius, control points
    let fl = sweep(r, 40, 1, 3);
    for i in (0..v.len()).filter(|i| ![2, 5, 21, 22].contains(i)) {
        v[i] *= fl;
    }
    v
}

/// every TranslateScale action equals the action of the Affine it converts to (also for negative scales)
fn law_ts(a: &[f64]) -> Option<(String, String)> {
    let (ts, ts2) = (dec_ts(&a[0..3]), dec_ts(&a[3..6]));
    let p = Point::new(a[6], a[7]);
    let rect = Rect::new(a[8], a[9], a[10], a[11]);
    let rr = RoundedRect::from_rect(Rect::new(a[12], a[13], a[14], a[15]), RoundedRectRadii::new(a[16], a[17], a[18], a[19]));
    let (rad, th) = (a[20], a[21]);
    let (seg, _) = dec_seg(&a[22..]);
    let af = Affine::from(ts);
    let af2 = Affine::from(ts2);
    let s = ts.scale;
    if co(af) != [s, 0.0, 0.0, s, ts.translation.x, ts.translation.y] {
        return fail("ts:conversion", format!("Affine::from({:?}) = {:?}", ts, af));
    }
    // points, curves: numerically identical (s*x + 0*y + t)
    if ts * p != af * p {
        return fail("ts:point", format!("{:?} * {:?} = {:?}, affine gives {:?}", ts, p, ts * p, af * p));
    }
    if ts * seg != af * seg {
        return fail(&format!("ts:{}", seg_kind(&seg)), format!("{:?} * {:?} = {:?}, affine gives {:?}", ts, seg, ts * seg, af * seg));
    }
    let conc_ok = match seg {
        PathSeg::Line(x) => ts * x == af * x,
        PathSeg::Quad(x) => ts * x == af * x,
        PathSeg::Cubic(x) => ts * x == af * x,
    };
    if !conc_ok {
        return fail(&format!("ts:curve-{}", seg_kind(&seg)), format!("{:?} * {:?}", ts, seg));
    }
    // products and inverses
    if co(Affine::from(ts * ts2)) != co(af * af2) {
        return fail("ts:product", format!("{:?} * {:?} = {:?}, affine product {:?}", ts, ts2, ts * ts2, af * af2));
    }
    let (i1, i2) = (co(Affine::from(ts.inverse())), co(af.inverse()));
    let itol = 16.0 * EPS * (1.0 + mmax(&i2));
    if !near_m(&i1, &i2, itol) {
        return fail("ts:inverse", format!("inverse of {:?} = {:?}, affine inverse {:?}", ts, ts.inverse(), af.inverse()));
    }
    let idm = co(Affine::from(ts * ts.inverse()));
    if !near_m(&idm, &[1.0, 0.0, 0.0, 1.0, 0.0, 0.0], 16.0 * EPS * (1.0 + mmax(&co(af))) * (1.0 + mmax(&i2))) {
        return fail("ts:inverse-product", format!("{:?} * inverse = {:?}", ts, idm));
    }
    let k = th;
    if co(Affine::from(k * ts)) != co(Affine::scale(k) * af) || co(Affine::from(ts + ts2.translation)) != co(af.then_translate(ts2.translation)) || co(Affine::from(ts2.translation + ts)) != co(af.then_translate(ts2.translation)) {
        return fail("ts:scalar-or-translate", format!("{} * {:?}, {:?} + {:?}", k, ts, ts, ts2.translation));
    }
    if !near_m(&co(Affine::from(ts - ts2.translation)), &co(af.then_translate(-ts2.translation)), 0.0) {
        return fail("ts:sub-translate", format!("{:?} - {:?}", ts, ts2.translation));
    }
    let (mut t1, mut t2, mut t3) = (ts, ts, ts);
    t1 *= ts2;
    t2 += ts2.translation;
    t3 -= ts2.translation;
    let same_ts = |x: TranslateScale, y: TranslateScale| x.translation == y.translation && x.scale == y.scale;
    if !same_ts(t1, ts * ts2) || !same_ts(t2, ts + ts2.translation) || !same_ts(t3, ts - ts2.translation) || co(Affine::default()) != [1.0, 0.0, 0.0, 1.0, 0.0, 0.0] || !same_ts(TranslateScale::default(), TranslateScale::new(Vec2::ZERO, 1.0)) {
        return fail("ts:assign-ops", format!("*=, +=, -= on {:?} with {:?}", ts, ts2));
    }
    let fsa = TranslateScale::from_scale_about(s, p);
    let ftol = 16.0 * EPS * (1.0 + s.abs()) * len_of(&[p.x, p.y]);
    if !near_p(fsa * p, p, ftol) || !near_m2(&co(Affine::from(fsa)), &co(Affine::scale_about(s, p)), 0.0, ftol) {
        return fail("ts:from_scale_about", format!("from_scale_about({}, {:?}) = {:?}", s, p, fsa));
    }
    // rectangles: the image rectangle (normalised), i.e. the bounding box of the affine image
    let (r1, r2) = (ts * rect, af.transform_rect_bbox(rect));
    if r1 != r2 {
        return fail("ts:rect", format!("{:?} * {:?} = {:?}, affine image {:?}", ts, rect, r1, r2));
    }
    // circles: centre and radius; the same angle gives the same point as on the affine image
    let ci = ts * Circle::new(p, rad);
    let (sn, cs) = th.sin_cos();
    let onc = Point::new(ci.center.x + ci.radius * cs, ci.center.y + ci.radius * sn);
    let want = af * Point::new(p.x + rad * cs, p.y + rad * sn);
    let ctol = 64.0 * EPS * (1.0 + s.abs()) * len_of(&[p.x, p.y, rad, ts.translation.x, ts.translation.y]);
    if ci.center != af * p || !near_p(onc, want, ctol) {
        return fail("ts:circle", format!("{:?} * Circle({:?}, {}) = {:?}: point at {} is {:?}, affine image {:?}", ts, p, rad, ci, th, onc, want));
    }
    let el = af * Circle::new(p, rad);
    let er = el.radii();
    if (er.x - ci.radius.abs()).abs() > 1e-9 * ci.radius.abs() || !near_p(el.center(), ci.center, ctol) {
        return fail("ts:circle-vs-ellipse", format!("{:?} * circle has radius {}, the affine image has radii {:?}", ts, ci.radius, er));
    }
    // rounded rectangles: the rectangle is the image; each corner takes its radius to its image corner
    let im = ts * rr;
    if im.rect() != ts * rr.rect() {
        return fail("ts:rounded-rect-rect", format!("{:?} * {:?} = {:?}", ts, rr, im));
    }
    let (q, w) = (rr.rect(), im.rect());
    let lim = w.width().min(w.height()) / 2.0;
    // a point is in the image shape iff its pre-image is in the shape: probes in the corner squares
    if w.width() > 0.0 && w.height() > 0.0 && s != 0.0 {
        let rmax = [rr.radii().top_left, rr.radii().top_right, rr.radii().bottom_right, rr.radii().bottom_left].iter().fold(0.0f64, |a, b| a.max(*b));
        let m = 1e-9 * len_of(&[q.x0, q.x1, q.y0, q.y1]);
        for (cp, sx, sy) in [(Point::new(q.x0, q.y0), 1.0, 1.0), (Point::new(q.x1, q.y0), -1.0, 1.0), (Point::new(q.x1, q.y1), -1.0, -1.0), (Point::new(q.x0, q.y1), 1.0, -1.0)] {
            for (fu, fv) in [(0.05, 0.05), (0.15, 0.15), (0.3, 0.1), (0.1, 0.3), (0.25, 0.25), (0.6, 0.6)] {
                let probe = Point::new(cp.x + sx * fu * rmax, cp.y + sy * fv * rmax);
                if let Some(want) = rr_inside(&rr, probe, m) {
                    let got = im.contains(ts * probe);
                    // the image of the probe must not sit on the image boundary either
                    let im_want = rr_inside(&im, ts * probe, m * (1.0 + s.abs()) + 1e-9 * ts.translation.x.abs().max(ts.translation.y.abs()));
                    if im_want.is_some() && got != want {
                        let class = if s < 0.0 { "ts-rounded-rect:negative-scale" } else { "ts:rounded-rect-contains" };
                        return fail(class, format!("{:?} * {:?}: the point {:?} is {} the shape but its image {:?} is {} the image {:?}", ts, rr, probe, if want { "inside" } else { "outside" }, ts * probe, if got { "inside" } else { "outside" }, im));
                    }
                }
            }
        }
    }
    let corners = [(Point::new(q.x0, q.y0), rr.radii().top_left), (Point::new(q.x1, q.y0), rr.radii().top_right), (Point::new(q.x1, q.y1), rr.radii().bottom_right), (Point::new(q.x0, q.y1), rr.radii().bottom_left)];
    let got = [(Point::new(w.x0, w.y0), im.radii().top_left), (Point::new(w.x1, w.y0), im.radii().top_right), (Point::new(w.x1, w.y1), im.radii().bottom_right), (Point::new(w.x0, w.y1), im.radii().bottom_left)];
    if w.width() > 0.0 && w.height() > 0.0 {
        for (cp, cr) in corners {
            let ip = af * cp;
            let want = (s.abs() * cr).min(lim);
            let Some((_, gr)) = got.iter().find(|(gp, _)| *gp == ip) else {
                return fail("ts:rounded-rect-corner", format!("image {:?} of corner {:?} is not a corner of {:?}", ip, cp, w));
            };
            if (gr - want).abs() > 8.0 * EPS * want.abs() {
                let class = if s < 0.0 { "ts-rounded-rect:negative-scale" } else { "ts:rounded-rect-radii" };
                return fail(class, format!("{:?} * {:?}: the corner {:?} (radius {}) maps to {:?}, which gets radius {} instead of {}", ts, rr, cp, cr, ip, gr, want));
            }
        }
    }
    None
}

/// membership in a rounded rectangle written out from its definition; `None` within `m` of the boundary
fn rr_inside(rr: &RoundedRect, p: Point, m: f64) -> Option<bool> {
    let q = rr.rect();
    if p.x < q.x0 - m || p.x > q.x1 + m || p.y < q.y0 - m || p.y > q.y1 + m {
        return Some(false);
    }
    if (p.x - q.x0).abs() <= m || (p.x - q.x1).abs() <= m || (p.y - q.y0).abs() <= m || (p.y - q.y1).abs() <= m {
        return None;
    }
    let d = rr.radii();
    for (cx, cy, sx, sy, r) in [(q.x0, q.y0, 1.0, 1.0, d.top_left), (q.x1, q.y0, -1.0, 1.0, d.top_right), (q.x1, q.y1, -1.0, -1.0, d.bottom_right), (q.x0, q.y1, 1.0, -1.0, d.bottom_left)] {
        // centre of the corner circle, and the position of p relative to it, pointing towards the corner
        let (ox, oy) = (cx + sx * r, cy + sy * r);
        let (u, v) = ((ox - p.x) * sx, (oy - p.y) * sy);
        if (u.abs() <= m || v.abs() <= m) && u > -m && v > -m {
            return None;
        }
        if u > 0.0 && v > 0.0 {
            let dist = (u * u + v * v).sqrt();
            if (dist - r).abs() <= m {
                return None;
            }
            return Some(dist < r);
        }
    }
    Some(true)
}

fn g_rect(r: &mut Rng) -> Vec<f64> {
    let mut v = co(gen_affine_reg(r)).to_vec();
    let fl = sweep(r, 40, 1, 3);
    v[4] *= fl;
    v[5] *= fl;
    v.extend(enc_rect(&scale_rect(gen_rect(r), fl)));
    v.push(r.unit());
    v.push(r.unit());
    v
}

/// transform_rect_bbox is the smallest rectangle containing the images of the four corners (hence of
/// the whole rectangle); map_unit_square takes the unit square's corners to the rectangle's
fn law_rect(a: &[f64]) -> Option<(String, String)> {
    let m = dec_aff(&a[0..6]);
    let rect = Rect::new(a[6], a[7], a[8], a[9]);
    let (u, v) = (a[10], a[11]);
    let bb = m.transform_rect_bbox(rect);
    let cs = [m * Point::new(rect.x0, rect.y0), m * Point::new(rect.x0, rect.y1), m * Point::new(rect.x1, rect.y0), m * Point::new(rect.x1, rect.y1)];
    let (mut x0, mut y0, mut x1, mut y1) = (f64::INFINITY, f64::INFINITY, f64::NEG_INFINITY, f64::NEG_INFINITY);
    for c in cs {
        x0 = x0.min(c.x);
        y0 = y0.min(c.y);
        x1 = x1.max(c.x);
        y1 = y1.max(c.y);
    }
    if (bb.x0, bb.y0, bb.x1, bb.y1) != (x0, y0, x1, y1) {
        return fail("rect:transform_rect_bbox", format!("{:?}.transform_rect_bbox({:?}) = {:?}, the corners' images span ({}, {}, {}, {})", m, rect, bb, x0, y0, x1, y1));
    }
    let inside = m * Point::new(rect.x0 + u * (rect.x1 - rect.x0), rect.y0 + v * (rect.y1 - rect.y0));
    let tol = 16.0 * EPS * (1.0 + lin_max(&co(m))) * len_of(&[tr_max(&co(m)), rect.x0, rect.x1, rect.y0, rect.y1]);
    if inside.x < bb.x0 - tol || inside.x > bb.x1 + tol || inside.y < bb.y0 - tol || inside.y > bb.y1 + tol {
        return fail("rect:transform_rect_bbox-contains", format!("image {:?} of a point of {:?} lies outside {:?}", inside, rect, bb));
    }
    let sq = Affine::map_unit_square(rect);
    let stol = 8.0 * EPS * (rect.x0.abs().max(rect.x1.abs()).max(rect.y0.abs()).max(rect.y1.abs()));
    if sq * Point::new(0.0, 0.0) != Point::new(rect.x0, rect.y0) || !near_p(sq * Point::new(1.0, 1.0), Point::new(rect.x1, rect.y1), stol) || !near_p(sq * Point::new(1.0, 0.0), Point::new(rect.x1, rect.y0), stol) {
        return fail("rect:map_unit_square", format!("map_unit_square({:?}) = {:?}", rect, sq));
    }
    None
}

fn g_ts_path(r: &mut Rng) -> Vec<f64> {
    let fl = sweep(r, 40, 1, 3);
    let mut v = enc_ts(&gen_ts_reg(r));
    v[0] *= fl;
    v[1] *= fl;
    let els: Vec<PathEl> = gen_path(r).into_iter().map(|e| scale_el(e, fl)).collect();
    v.extend(enc_els(&els));
    v
}

fn law_ts_path(a: &[f64]) -> Option<(String, String)> {
    let ts = dec_ts(&a[0..3]);
    let af = Affine::from(ts);
    let els = dec_els(&a[3..]);
    let bp = BezPath::from_vec(els.clone());
    let (p1, p2) = (ts * &bp, af * &bp);
    if p1.elements() != p2.elements() || (ts * bp.clone()).elements() != p1.elements() {
        return fail("ts:path", format!("{:?} * path differs from the affine image: {:?} vs {:?}", ts, p1, p2));
    }
    for e in &els {
        if ts * *e != af * *e {
            return fail("ts:element", format!("{:?} * {:?}", ts, e));
        }
    }
    None
}

fn g_sweep(r: &mut Rng) -> Vec<f64> {
    let nz = |r: &mut Rng, kmax: i64| loop {
        let k = r.range_i(-kmax, kmax);
        if k != 0 {
            return k as f64;
        }
    };
    let mut v = vec![nz(r, 40), nz(r, 1000), nz(r, 200)];
    v.extend_from_slice(&co(gen_affine_reg(r))); // 3..9
    v.extend_from_slice(&co(gen_affine_reg(r))); // 9..15
    v.extend(pv(Point::new(r.uniform(-50.0, 50.0), r.uniform(-50.0, 50.0)))); // p 15,16
    v.extend(pv(Point::new(r.uniform(-30.0, 30.0), r.uniform(-30.0, 30.0)))); // c 17,18
    v.push(r.generic(-3, 3)); // d 19,20
    v.push(r.generic(-3, 3));
    v.push(r.uniform(-7.0, 7.0)); // th 21
    v.push(r.uniform(-4.0, 4.0)); // s 22
    v.extend(enc_arc(&gen_arc(r))); // 23..30
    v.extend(enc_ts(&gen_ts_reg(r))); // 30..33
    v.extend(enc_ts(&gen_ts_reg(r))); // 33..36
    v.extend(enc_rect(&gen_rect(r))); // 36..40
    let rr = gen_rrect(r);
    v.extend(enc_rect(&rr.rect())); // 40..44
    v.extend(enc_radii(&rr.radii())); // 44..48
    v.push(r.uniform(0.1, 10.0)); // circle radius 48
    v.extend(enc_seg(&gen_seg(r)));
    v.extend(enc_els(&gen_path(r)));
    v
}

/// `got` must be `base` with every entry multiplied by `f` (a power of two: exact unless something
/// under- or overflows), up to `tol` relative to the largest entry
fn covariant(got: &[f64], base: &[f64], f: f64, tol: f64) -> bool {
    let n = base.iter().fold(0.0f64, |a, b| a.max(b.abs())) * f;
    got.len() == base.len() && got.iter().zip(base).all(|(g, b)| (g - b * f).abs() <= tol * n || (g.is_nan() && b.is_nan()))
}

/// Scale sweep. Every operation of the property is homogeneous: multiplying all lengths (points,
/// centres, radii, translations) by 2^k multiplies the lengths of the result by 2^k and leaves its
/// dimensionless parts (linear coefficients, angles) alone; the magnitude of reflect's axis direction
/// and of the matrix handed to the svd does not affect directions at all. The reference is the same
/// operation at k = 0, which the other laws check against independent formulas.
fn law_sweep(a: &[f64]) -> Option<(String, String)> {
    let (f, fd, fm) = (pow2(a[0] as i64), pow2(a[1] as i64), pow2(a[2] as i64));
    let (ma, mb) = (dec_aff(&a[3..9]), dec_aff(&a[9..15]));
    let (p, c) = (Point::new(a[15], a[16]), Point::new(a[17], a[18]));
    let d = Vec2::new(a[19], a[20]);
    let (th, s) = (a[21], a[22]);
    let arc = dec_arc(&a[23..30]);
    let (ts, ts2) = (dec_ts(&a[30..33]), dec_ts(&a[33..36]));
    let rect = Rect::new(a[36], a[37], a[38], a[39]);
    let rr = RoundedRect::from_rect(Rect::new(a[40], a[41], a[42], a[43]), RoundedRectRadii::new(a[44], a[45], a[46], a[47]));
    let rad = a[48];
    let (seg, rest) = dec_seg(&a[49..]);
    let els = dec_els(rest);
    let (maf, mbf, pf, cf) = (scale_tr(ma, f), scale_tr(mb, f), scale_pt(p, f), scale_pt(c, f));
    let tol = 8.0 * EPS;
    // an affine result: linear part unchanged, translation times f
    let aff_cov = |got: Affine, base: Affine| covariant(&co(got)[..4], &co(base)[..4], 1.0, tol) && covariant(&co(got)[4..], &co(base)[4..], f, tol);
    let bad = |op: &str, got: String, base: String| fail(&format!("scale-sweep:{}", op), format!("{} with all lengths times 2^{} = {}, but at the original scale it is {} (A={:?} B={:?} p={:?} c={:?})", op, a[0], got, base, ma, mb, p, c));
    macro_rules! chk_aff {
        ($op:expr, $got:expr, $base:expr) => {
            let (g, b): (Affine, Affine) = ($got, $base);
            if !aff_cov(g, b) {
                return bad($op, format!("{:?}", g), format!("{:?}", b));
            }
        };
    }
    if !covariant(&pv(maf * pf), &pv(ma * p), f, tol) {
        return bad("apply", format!("{:?}", maf * pf), format!("{:?}", ma * p));
    }
    let t = p.to_vec2();
    let tf = pf.to_vec2();
    chk_aff!("mul", maf * mbf, ma * mb);
    chk_aff!("inverse", maf.inverse(), ma.inverse());
    chk_aff!("pre_translate", maf.pre_translate(tf), ma.pre_translate(t));
    chk_aff!("then_translate", maf.then_translate(tf), ma.then_translate(t));
    chk_aff!("pre_rotate", maf.pre_rotate(th), ma.pre_rotate(th));
    chk_aff!("then_rotate", maf.then_rotate(th), ma.then_rotate(th));
    chk_aff!("pre_rotate_about", maf.pre_rotate_about(th, cf), ma.pre_rotate_about(th, c));
    chk_aff!("then_rotate_about", maf.then_rotate_about(th, cf), ma.then_rotate_about(th, c));
    chk_aff!("pre_scale", maf.pre_scale(s), ma.pre_scale(s));
    chk_aff!("then_scale", maf.then_scale(s), ma.then_scale(s));
    chk_aff!("then_scale_about", maf.then_scale_about(s, cf), ma.then_scale_about(s, c));
    chk_aff!("scale_about", Affine::scale_about(s, cf), Affine::scale_about(s, c));
    chk_aff!("rotate_about", Affine::rotate_about(th, cf), Affine::rotate_about(th, c));
    chk_aff!("translate", Affine::translate(tf), Affine::translate(t));
    // reflect: the axis direction at any magnitude, the axis point at 2^k
    let rbase = Affine::reflect(c, d);
    for dd in [Vec2::new(d.x * fd, d.y * fd), Vec2::new(d.x / fd, d.y / fd)] {
        let g = Affine::reflect(cf, dd);
        if !(covariant(&co(g)[..4], &co(rbase)[..4], 1.0, 64.0 * EPS) && (0..2).all(|i| (co(g)[4 + i] - co(rbase)[4 + i] * f).abs() <= 256.0 * EPS * f * c.x.abs().max(c.y.abs()))) {
            return fail("scale-sweep:reflect", format!("reflect({:?}, {:?}) = {:?}, but reflect({:?}, {:?}) = {:?}: the map must not depend on the magnitude of the direction", cf, dd, g, c, d, rbase));
        }
    }
    // curves and paths
    let (sf, elf): (PathSeg, Vec<PathEl>) = (scale_seg(seg, f), els.iter().map(|e| scale_el(*e, f)).collect());
    if !covariant(&enc_seg(&(maf * sf))[1..], &enc_seg(&(ma * seg))[1..], f, tol) {
        return bad("affine*seg", format!("{:?}", maf * sf), format!("{:?}", ma * seg));
    }
    let (pg, pb) = (maf * &BezPath::from_vec(elf.clone()), ma * &BezPath::from_vec(els.clone()));
    for (g, b) in pg.elements().iter().zip(pb.elements()) {
        if scale_el(*b, f) != *g && !covariant(&enc_els(&[*g])[1..], &enc_els(&[*b])[1..], f, tol) {
            return bad("affine*path", format!("{:?}", g), format!("{:?}", b));
        }
    }
    // ellipses and arcs: centre and radii are lengths, rotations and angles are not
    let shape = |e: &Ellipse| {
        let (r, rot) = e.radii_and_rotation();
        (vec![e.center().x, e.center().y], vec![r.x, r.y], rot)
    };
    let ell_cov = |g: &Ellipse, b: &Ellipse, fl: f64| {
        let ((gc, gr, ga), (bc, br, ba)) = (shape(g), shape(b));
        (covariant(&gc, &bc, fl, tol) || fl != f) && covariant(&gr, &br, fl, 64.0 * EPS) && (ga - ba).abs() <= 1e-12
    };
    let (e_b, e_g) = (ma * Ellipse::new(c, arc.radii, arc.x_rotation), maf * Ellipse::new(cf, (arc.radii.x * f, arc.radii.y * f), arc.x_rotation));
    if !ell_cov(&e_g, &e_b, f) {
        return bad("affine*ellipse", format!("{:?}", shape(&e_g)), format!("{:?}", shape(&e_b)));
    }
    let (c_b, c_g) = (ma * Circle::new(c, rad), maf * Circle::new(cf, rad * f));
    if !ell_cov(&c_g, &c_b, f) {
        return bad("affine*circle", format!("{:?}", shape(&c_g)), format!("{:?}", shape(&c_b)));
    }
    // the svd of a matrix at another magnitude: radii scale, the rotation stays
    let (s_b, s_g) = (Ellipse::from_affine(ma), Ellipse::from_affine(scale_all(ma, fm)));
    if !ell_cov(&s_g, &s_b, fm) {
        return fail("scale-sweep:svd", format!("radii and rotation of {:?} are {:?}; of the same matrix times 2^{} they are {:?}", ma, shape(&s_b), a[2], shape(&s_g)));
    }
    let (a_b, a_g) = (ma * arc, maf * scale_arc(arc, f));
    let lens = |x: &Arc| vec![x.center.x, x.center.y];
    if !(covariant(&lens(&a_g), &lens(&a_b), f, tol) && covariant(&[a_g.radii.x, a_g.radii.y], &[a_b.radii.x, a_b.radii.y], f, 64.0 * EPS) && (a_g.start_angle - a_b.start_angle).abs() <= 1e-12 && a_g.sweep_angle == a_b.sweep_angle && (a_g.x_rotation - a_b.x_rotation).abs() <= 1e-12) {
        return bad("affine*arc", format!("{:?}", a_g), format!("{:?}", a_b));
    }
    // TranslateScale
    let tsc = |x: TranslateScale| TranslateScale::new(Vec2::new(x.translation.x * f, x.translation.y * f), x.scale);
    let ts_cov = |g: TranslateScale, b: TranslateScale| covariant(&[g.translation.x, g.translation.y], &[b.translation.x, b.translation.y], f, tol) && g.scale == b.scale;
    let (tsf, ts2f) = (tsc(ts), tsc(ts2));
    if !covariant(&pv(tsf * pf), &pv(ts * p), f, tol) || !ts_cov(tsf * ts2f, ts * ts2) || !ts_cov(tsf.inverse(), ts.inverse()) || !ts_cov(TranslateScale::from_scale_about(s, pf), TranslateScale::from_scale_about(s, p)) || !aff_cov(Affine::from(tsf), Affine::from(ts)) {
        return bad("translate-scale", format!("{:?} {:?} {:?}", tsf * pf, tsf * ts2f, tsf.inverse()), format!("{:?} {:?} {:?}", ts * p, ts * ts2, ts.inverse()));
    }
    let (rf_, rrf) = (scale_rect(rect, f), RoundedRect::from_rect(scale_rect(rr.rect(), f), RoundedRectRadii::new(rr.radii().top_left * f, rr.radii().top_right * f, rr.radii().bottom_right * f, rr.radii().bottom_left * f)));
    if !covariant(&enc_rect(&(tsf * rf_)), &enc_rect(&(ts * rect)), f, tol) || !covariant(&enc_rect(&maf.transform_rect_bbox(rf_)), &enc_rect(&ma.transform_rect_bbox(rect)), f, tol) || !covariant(&co(Affine::map_unit_square(rf_)), &co(Affine::map_unit_square(rect)), f, tol) {
        return bad("rect", format!("{:?} {:?}", tsf * rf_, maf.transform_rect_bbox(rf_)), format!("{:?} {:?}", ts * rect, ma.transform_rect_bbox(rect)));
    }
    let (ig, ib) = (tsf * rrf, ts * rr);
    if !covariant(&enc_rect(&ig.rect()), &enc_rect(&ib.rect()), f, tol) || !covariant(&enc_radii(&ig.radii()), &enc_radii(&ib.radii()), f, tol) {
        return bad("ts*rounded-rect", format!("{:?}", ig), format!("{:?}", ib));
    }
    let (cg, cb) = (tsf * Circle::new(pf, rad * f), ts * Circle::new(p, rad));
    if !covariant(&[cg.center.x, cg.center.y], &[cb.center.x, cb.center.y], f, tol) || !covariant(&[cg.radius], &[cb.radius], f, tol) {
        return bad("ts*circle", format!("{:?}", cg), format!("{:?}", cb));
    }
    if !covariant(&enc_seg(&(tsf * sf))[1..], &enc_seg(&(ts * seg))[1..], f, tol) {
        return bad("ts*seg", format!("{:?}", tsf * sf), format!("{:?}", ts * seg));
    }
    None
}

fn lim_sweep(a: &[f64]) -> Option<(String, String)> {
    limited(law_sweep(a))
}
fn lim_product(a: &[f64]) -> Option<(String, String)> {
    limited(law_product(a))
}
fn lim_inverse(a: &[f64]) -> Option<(String, String)> {
    limited(law_inverse(a))
}
fn lim_pre_then(a: &[f64]) -> Option<(String, String)> {
    limited(law_pre_then(a))
}
fn lim_about(a: &[f64]) -> Option<(String, String)> {
    limited(law_about(a))
}
fn lim_commute_eval(a: &[f64]) -> Option<(String, String)> {
    limited(law_commute_eval(a))
}
fn lim_path(a: &[f64]) -> Option<(String, String)> {
    limited(law_path(a))
}
fn lim_ellipse(a: &[f64]) -> Option<(String, String)> {
    limited(law_ellipse(a))
}
fn lim_arc(a: &[f64]) -> Option<(String, String)> {
    limited(law_arc(a))
}
fn lim_ts(a: &[f64]) -> Option<(String, String)> {
    limited(law_ts(a))
}
fn lim_rect(a: &[f64]) -> Option<(String, String)> {
    limited(law_rect(a))
}
fn lim_ts_path(a: &[f64]) -> Option<(String, String)> {
    limited(law_ts_path(a))
}

fn laws() -> Vec<Law> {
    vec![
        Law { name: "product", gen: g_abc, check: lim_product, weight: 2 },
        Law { name: "inverse", gen: g_a_p, check: lim_inverse, weight: 2 },
        Law { name: "pre_then", gen: g_pre_then, check: lim_pre_then, weight: 3 },
        Law { name: "about", gen: g_about, check: lim_about, weight: 2 },
        Law { name: "commute_eval", gen: g_a_seg_t, check: lim_commute_eval, weight: 2 },
        Law { name: "path", gen: g_a_path, check: lim_path, weight: 1 },
        Law { name: "ellipse", gen: g_ellipse, check: lim_ellipse, weight: 2 },
        Law { name: "arc", gen: g_arc, check: lim_arc, weight: 3 },
        Law { name: "translate_scale", gen: g_ts, check: lim_ts, weight: 3 },
        Law { name: "translate_scale_path", gen: g_ts_path, check: lim_ts_path, weight: 1 },
        Law { name: "rect", gen: g_rect, check: lim_rect, weight: 1 },
        Law { name: "scale_sweep", gen: g_sweep, check: lim_sweep, weight: 3 },
    ]
}

// ------------------------------------------------------------------ extra: exact sweep, fixed witnesses

fn extra(_r: &mut Rng, thorough: bool, o: &mut Out) {
    let run = |name: &str, f: fn(&[f64]) -> Option<(String, String)>, args: &[f64], o: &mut Out| {
        o.oracle_eval(name);
        if let Some((class, desc)) = f(args) {
            o.violation(&class, desc, format!("{{\"law\":{},\"args\":{}}}", crate::util::json_str(name), crate::util::fmt_fs(args)));
        }
    };
    // integer matrices: every product below is exact, so pre_*/then_* must equal self*T / T*self bit for bit
    let k: i64 = if thorough { 2 } else { 1 };
    let vals: Vec<f64> = (-k..=k).map(|x| x as f64).collect();
    let mut n = 0u64;
    for &a0 in &vals {
        for &a1 in &vals {
            for &a2 in &vals {
                for &a3 in &vals {
                    for &a4 in &vals {
                        for &a5 in &vals {
                            let m = Affine::new([a0, a1, a2, a3, a4 * 3.0, a5 * 5.0]);
                            let (s, sx, sy) = (a5 + 2.0, a4 - 3.0, a3 + 0.5);
                            let t = Vec2::new(a2 + 1.0, a1 - 2.0);
                            let c = Point::new(a0 + 3.0, a5 - 1.0);
                            n += 1;
                            o.oracle_eval("exact_sweep");
                            let checks = [
                                ("pre_scale", m.pre_scale(s), m * Affine::scale(s)),
                                ("pre_scale_non_uniform", m.pre_scale_non_uniform(sx, sy), m * Affine::scale_non_uniform(sx, sy)),
                                ("pre_translate", m.pre_translate(t), m * Affine::translate(t)),
                                ("then_scale", m.then_scale(s), Affine::scale(s) * m),
                                ("then_scale_non_uniform", m.then_scale_non_uniform(sx, sy), Affine::scale_non_uniform(sx, sy) * m),
                                ("then_translate", m.then_translate(t), Affine::translate(t) * m),
                                ("then_scale_about", m.then_scale_about(s, c), Affine::scale_about(s, c) * m),
                                ("scale_about", Affine::scale_about(s, c), Affine::translate(c.to_vec2()) * Affine::scale(s) * Affine::translate(-c.to_vec2())),
                            ];
                            for (name, got, want) in checks {
                                if co(got) != co(want) {
                                    o.violation(&format!("pre_then:{}", name), format!("{} of {:?} = {:?}, want {:?} (exact integer arithmetic)", name, m, got, want), format!("{{\"sweep\":{}}}", crate::util::fmt_fs(&co(m))));
                                }
                            }
                        }
                    }
                }
            }
        }
    }
    o.notes.push(format!("exact sweep: {} integer matrices, 8 methods each", n));

    // reflect depends on the axis direction only: (3,4) at every power of two (hypot is exactly 5 * 2^j)
    let want: M = [-0.28, 0.96, 0.96, 0.28, 1.28, -0.96];
    for j in -1000..=1000 {
        let f = pow2(j);
        let got = co(Affine::reflect((1.0, 0.0), (3.0 * f, 4.0 * f)));
        o.oracle_eval("reflect_direction_sweep");
        if !near_m(&got, &want, 16.0 * EPS) {
            o.violation("about:reflect-direction-magnitude", format!("reflect((1,0), 2^{} * (3,4)) = {:?}, want {:?} for every magnitude of the direction", j, got, want), format!("{{\"law\":\"about\",\"args\":{}}}", crate::util::fmt_fs(&[1.0, 0.0, 1.0, 0.0, 2.0, 1.0, 3.0 * f, 4.0 * f, 0.5])));
            break;
        }
    }
    // quarter turns about integer centres: rotate_about's coefficients are within rounding of integers
    for q in 0..4 {
        let th = q as f64 * FRAC_PI_2;
        run("pre_then", law_pre_then, &[2.0, 1.0, -1.0, 3.0, 5.0, -7.0, th, 2.0, 3.0, -0.5, 4.0, 6.0, 8.0, -3.0], o);
    }
    // the witnesses of the defects found on the pinned tree
    run("pre_then", law_pre_then, &[2.0, 0.0, 0.0, 3.0, 0.0, 0.0, FRAC_PI_2, 1.0, 1.0, 1.0, 0.0, 0.0, 1.0, 0.0], o);
    run("translate_scale", law_ts, &cat(&[&[0.0, 0.0, -1.0], &[0.0, 0.0, 1.0], &[1.0, 2.0], &[0.0, 0.0, 10.0, 10.0], &[0.0, 0.0, 10.0, 10.0], &[1.0, 2.0, 3.0, 4.0], &[2.0, 0.7], &enc_seg(&PathSeg::Line(Line::new((0.0, 0.0), (1.0, 1.0))))]), o);
    // Affine * Arc: the identity moves an arc whose x_rotation is outside (-pi/2, pi/2];
    // a reflection keeps the direction of traversal
    let w1 = cat(&[&[1.0, 0.0, 0.0, 1.0, 0.0, 0.0], &[0.0, 0.0, 2.0, 1.0, 0.0, 1.0, 2.5], &[0.0]]);
    let w2 = cat(&[&[1.0, 0.0, 0.0, -1.0, 0.0, 0.0], &[0.0, 0.0, 2.0, 1.0, 0.0, 1.0, 0.25], &[1.0]]);
    let f1 = law_arc(&w1);
    let f2 = law_arc(&w2);
    o.oracle_eval("arc");
    o.oracle_eval("arc");
    let still = f1.is_some() || f2.is_some();
    o.known(
        "C12-affine-arc",
        still,
        format!(
            "Affine::IDENTITY * Arc(centre (0,0), radii (2,1), start 0, sweep 1, x_rotation 2.5): {}; Affine::FLIP_Y * Arc(.., x_rotation 0.25) at t=1: {}",
            f1.as_ref().map(|x| x.1.clone()).unwrap_or_else(|| "holds".into()),
            f2.as_ref().map(|x| x.1.clone()).unwrap_or_else(|| "holds".into())
        ),
    );
    for (w, f) in [(&w1, f1), (&w2, f2)] {
        if let Some((class, desc)) = f {
            o.violation(&class, desc, format!("{{\"law\":\"arc\",\"args\":{}}}", crate::util::fmt_fs(w)));
        }
    }
    let _ = (QuadBez::new((0.0, 0.0), (1.0, 1.0), (2.0, 0.0)), CubicBez::new((0.0, 0.0), (1.0, 1.0), (2.0, 0.0), (3.0, 1.0)));
}
