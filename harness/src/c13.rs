//! C13 — dashing conserves length and follows the pattern.
//!
//! Correspondence: `dash(els, offset, pattern).collect()` and the number of iterations of
//! `DashIterator::next`'s loop (hook `kurbo::verif::{reset,work}`) against model/Dash.v (ops 1-3)
//! and against the structural specification spec/DashSpec.v (ops 11-13) at F64.
//! Laws: an independent oracle (the pattern as intervals on the half-line, the source
//! sub-paths parametrised by arc length) decides what has to come out.
use crate::geom::*;
use crate::util::{Out, Rng};
use crate::{Law, Prop};
use kurbo::{dash, CubicBez, Line, ParamCurve, ParamCurveArclen, ParamCurveNearest, PathEl, PathSeg, Point, QuadBez};

/// stroke.rs DASH_ACCURACY
const ACC: f64 = 1e-6;

pub fn prop() -> Prop {
    Prop { id: "C13", corr, laws, extra, law_budget: (300, 6000) }
}

fn run_dash(els: &[PathEl], off: f64, pat: &[f64]) -> (Vec<PathEl>, u64) {
    kurbo::verif::reset();
    let out: Vec<PathEl> = dash(els.iter().copied(), off, pat).take(100_000).collect();
    (out, kurbo::verif::work())
}

fn enc_args(pat: &[f64], off: f64, els: &[PathEl]) -> Vec<f64> {
    let mut v = vec![pat.len() as f64];
    v.extend_from_slice(pat);
    v.push(off);
    v.extend(enc_els(els));
    v
}
fn dec_args(a: &[f64]) -> (Vec<f64>, f64, Vec<PathEl>) {
    let n = a[0] as usize;
    (a[1..1 + n].to_vec(), a[1 + n], dec_els(&a[2 + n..]))
}

// ------------------------------------------------------------------ generators

/// 1..6 positive dyadic intervals (multiples of 1/4 up to 3)
fn dyadic_pattern(r: &mut Rng) -> Vec<f64> {
    let n = 1 + r.below(6) as usize;
    (0..n).map(|_| r.range_i(1, 12) as f64 / 4.0).collect()
}
/// offset in [0, 3 periods]: a multiple of 1/8, or exactly on a boundary of the pattern
fn dyadic_offset(r: &mut Rng, pat: &[f64]) -> f64 {
    let period: f64 = pat.iter().sum();
    match r.below(8) {
        0 => 0.0,
        1 => 3.0 * period,
        2 | 3 => {
            // exactly on a boundary: sum of the first k intervals (cyclically)
            let k = r.below(3 * pat.len() as u64 + 1) as usize;
            (0..k).map(|i| pat[i % pat.len()]).sum()
        }
        _ => r.below((3.0 * period * 8.0) as u64 + 1) as f64 / 8.0,
    }
}
fn generic_pattern(r: &mut Rng) -> Vec<f64> {
    let n = 1 + r.below(6) as usize;
    (0..n).map(|_| r.uniform(0.3, 6.0)).collect()
}
fn generic_offset(r: &mut Rng, pat: &[f64]) -> f64 {
    let period: f64 = pat.iter().sum();
    if r.chance(1, 10) {
        0.0
    } else {
        r.uniform(0.0, 3.0 * period)
    }
}

/// Axis-aligned "staircase" paths on the half-integer grid: every segment, including the
/// line a ClosePath draws, is horizontal or vertical, so every arc length is an exact float.
/// Arbitrary interleavings: consecutive MoveTos, ClosePath right after MoveTo or ClosePath,
/// segments after ClosePath without a MoveTo, zero-length segments.
fn stair_path(r: &mut Rng, lead_move: bool) -> Vec<PathEl> {
    let g = |r: &mut Rng| r.range_i(-8, 8) as f64 / 2.0;
    let mut els = Vec::new();
    let (mut start, mut cur) = (Point::ORIGIN, Point::ORIGIN);
    if lead_move {
        start = Point::new(g(r), g(r));
        cur = start;
        els.push(PathEl::MoveTo(start));
    }
    let n = 1 + r.below(9);
    let mut subs = 1;
    for _ in 0..n {
        match r.below(12) {
            0 | 1 if subs < 3 => {
                start = Point::new(g(r), g(r));
                cur = start;
                subs += 1;
                els.push(PathEl::MoveTo(start));
            }
            2 | 3 => {
                // close; first make the closing line axis-aligned
                if cur.x != start.x && cur.y != start.y {
                    cur = if r.bool() { Point::new(start.x, cur.y) } else { Point::new(cur.x, start.y) };
                    els.push(PathEl::LineTo(cur));
                }
                if r.chance(1, 3) && cur != start {
                    cur = start;
                    els.push(PathEl::LineTo(cur));
                }
                els.push(PathEl::ClosePath);
                cur = start;
            }
            4 => {
                els.push(PathEl::LineTo(cur)); // zero-length segment
            }
            _ => {
                let d = r.range_i(-6, 6) as f64 / 2.0;
                cur = if r.bool() { Point::new(cur.x + d, cur.y) } else { Point::new(cur.x, cur.y + d) };
                els.push(PathEl::LineTo(cur));
            }
        }
    }
    els
}

/// the alphabet of the exhaustive enumeration: everything on one axis
fn axis_alphabet(vertical: bool) -> Vec<PathEl> {
    let p = |x: f64| if vertical { Point::new(0.0, x) } else { Point::new(x, 0.0) };
    vec![
        PathEl::MoveTo(p(0.0)),
        PathEl::MoveTo(p(2.5)),
        PathEl::LineTo(p(0.0)),
        PathEl::LineTo(p(1.5)),
        PathEl::LineTo(p(4.0)),
        PathEl::ClosePath,
    ]
}

fn generic_point(r: &mut Rng) -> Point {
    Point::new(r.uniform(-10.0, 10.0), r.uniform(-10.0, 10.0))
}

/// 1..3 sub-paths of generic segments; `kinds` = 1: lines only, 3: lines/quadratics/cubics
fn generic_path(r: &mut Rng, kinds: u64, wild: bool) -> Vec<PathEl> {
    let mut els = Vec::new();
    let nsub = 1 + r.below(3);
    for _ in 0..nsub {
        let start = generic_point(r);
        els.push(PathEl::MoveTo(start));
        if wild && r.chance(1, 12) {
            els.push(PathEl::MoveTo(generic_point(r))); // consecutive MoveTos
        }
        let n = if wild && r.chance(1, 12) { 0 } else { 1 + r.below(4) };
        for i in 0..n {
            let back = i + 1 == n && r.chance(1, 5);
            let end = if back { start } else { generic_point(r) };
            match r.below(kinds) {
                0 => els.push(PathEl::LineTo(end)),
                // not back to its own start: a quadratic with p0 = p2 is a doubled-back line with a
                // cusp, on which `inv_arclen` itself goes wrong (property C03's business)
                1 if !(back && n == 1) => els.push(PathEl::QuadTo(generic_point(r), end)),
                _ => els.push(PathEl::CurveTo(generic_point(r), generic_point(r), end)),
            }
        }
        if r.bool() {
            els.push(PathEl::ClosePath);
            if wild && r.chance(1, 10) {
                els.push(PathEl::ClosePath); // ClosePath after ClosePath
            }
            if wild && r.chance(1, 6) {
                // a further sub-path from the start point, without a MoveTo
                els.push(PathEl::LineTo(generic_point(r)));
                if r.bool() {
                    els.push(PathEl::LineTo(generic_point(r)));
                }
            }
        }
    }
    els
}

// ------------------------------------------------------------------ the oracle's view of the source

struct Sub {
    start: Point,
    segs: Vec<PathSeg>,
    closed: bool,
}

/// How an element list falls into sub-paths (re-implemented here, independently of the crate):
/// MoveTo opens one; ClosePath ends one (drawing a line back to the start if needed) and leaves
/// the current point at its start; the current point starts at the origin.
fn split(els: &[PathEl]) -> Vec<Sub> {
    let mut subs = Vec::new();
    let (mut start, mut last) = (Point::ORIGIN, Point::ORIGIN);
    let mut cur: Vec<PathSeg> = Vec::new();
    for e in els {
        match *e {
            PathEl::MoveTo(p) => {
                subs.push(Sub { start, segs: std::mem::take(&mut cur), closed: false });
                start = p;
                last = p;
            }
            PathEl::LineTo(p) => {
                cur.push(PathSeg::Line(Line::new(last, p)));
                last = p;
            }
            PathEl::QuadTo(a, p) => {
                cur.push(PathSeg::Quad(QuadBez::new(last, a, p)));
                last = p;
            }
            PathEl::CurveTo(a, b, p) => {
                cur.push(PathSeg::Cubic(CubicBez::new(last, a, b, p)));
                last = p;
            }
            PathEl::ClosePath => {
                if last != start {
                    cur.push(PathSeg::Line(Line::new(last, start)));
                    last = start;
                }
                subs.push(Sub { start, segs: std::mem::take(&mut cur), closed: true });
            }
        }
    }
    subs.push(Sub { start, segs: cur, closed: false });
    subs.retain(|s| !s.segs.is_empty());
    subs
}

fn is_line(s: &PathSeg) -> bool {
    matches!(s, PathSeg::Line(_))
}

fn seg_len(s: &PathSeg) -> f64 {
    match s {
        PathSeg::Line(l) => (l.p1 - l.p0).hypot(),
        _ => s.arclen(1e-9),
    }
}

/// parameter at arc length `u` of a curve, by bisection on `arclen` of the initial piece
/// (kurbo's own `inv_arclen` is what the iterator uses; the oracle does not)
fn inv_len(seg: &PathSeg, u: f64) -> f64 {
    let (mut lo, mut hi) = (0.0f64, 1.0f64);
    for _ in 0..36 {
        let mid = 0.5 * (lo + hi);
        if seg.subsegment(0.0..mid).arclen(1e-9) < u {
            lo = mid;
        } else {
            hi = mid;
        }
    }
    0.5 * (lo + hi)
}

/// the point of the sub-path at arc length `s` from its start
fn point_at(segs: &[PathSeg], lens: &[f64], s: f64) -> Point {
    let mut acc = 0.0;
    for (i, seg) in segs.iter().enumerate() {
        let l = lens[i];
        if s <= acc + l || i + 1 == segs.len() {
            let u = (s - acc).max(0.0).min(l);
            if l == 0.0 {
                return seg.start();
            }
            return match seg {
                PathSeg::Line(ln) => ln.p0.lerp(ln.p1, u / l),
                _ => seg.eval(inv_len(seg, u)),
            };
        }
        acc += l;
    }
    Point::ORIGIN
}

fn dist_to_sub(segs: &[PathSeg], p: Point) -> f64 {
    segs.iter().map(|s| s.nearest(p, 1e-9).distance_sq).fold(f64::INFINITY, f64::min).max(0.0).sqrt()
}

/// The "on" intervals of the pattern, shifted by the offset, inside [0, len] (positions along the
/// sub-path).  Interval number k of the cyclically repeated pattern is "on" for even k.
fn on_intervals(pat: &[f64], off: f64, len: f64) -> Vec<(f64, f64)> {
    let n = pat.len();
    let mut v = Vec::new();
    let end = off + len;
    let mut lo = 0.0f64;
    let mut k = 0usize;
    loop {
        let hi = lo + pat[k % n];
        if k % 2 == 0 && hi >= off && lo <= end {
            v.push((lo.max(off) - off, (hi.min(end) - off).min(len)));
        }
        if hi > end || k > 50_000_000 {
            break;
        }
        lo = hi;
        k += 1;
    }
    v
}

/// one emitted dash: MoveTo, segments, maybe ClosePath
struct Group {
    start: Point,
    segs: Vec<PathSeg>,
    closed: bool,
}

fn fail(class: &str, d: String) -> Option<(String, String)> {
    Some((class.to_string(), d))
}

/// the emitted elements as dashes; an element sequence that is not MoveTo (seg)* [ClosePath] repeated
/// is reported
fn groups(out: &[PathEl]) -> Result<Vec<Group>, (String, String)> {
    let mut gs: Vec<Group> = Vec::new();
    let mut cur: Option<Point> = None;
    for (i, e) in out.iter().enumerate() {
        match *e {
            PathEl::MoveTo(p) => {
                gs.push(Group { start: p, segs: Vec::new(), closed: false });
                cur = Some(p);
            }
            PathEl::ClosePath => {
                match gs.last_mut() {
                    Some(g) if cur.is_some() => g.closed = true,
                    _ => return Err(("wellformed:closepath-without-dash".into(), format!("output element {} is a ClosePath outside a dash: {:?}", i, out))),
                }
                cur = None;
            }
            _ => {
                let Some(p0) = cur else {
                    return Err(("wellformed:segment-without-moveto".into(), format!("output element {} ({:?}) is not preceded by a MoveTo of its dash: {:?}", i, e, out)));
                };
                let (seg, p1) = match *e {
                    PathEl::LineTo(p) => (PathSeg::Line(Line::new(p0, p)), p),
                    PathEl::QuadTo(a, p) => (PathSeg::Quad(QuadBez::new(p0, a, p)), p),
                    PathEl::CurveTo(a, b, p) => (PathSeg::Cubic(CubicBez::new(p0, a, b, p)), p),
                    _ => unreachable!(),
                };
                gs.last_mut().unwrap().segs.push(seg);
                cur = Some(p1);
            }
        }
    }
    Ok(gs)
}

struct Want {
    /// pieces (a, b) along the sub-path, in order: one, or two when the last dash is joined to the first
    parts: Vec<(f64, f64)>,
    looped: bool,
    sub: usize,
}

fn pdist(a: Point, b: Point) -> f64 {
    (a - b).hypot()
}

/// The main law: the emitted dashes are exactly the "on" intervals of every sub-path, in path order
/// with the first dash last, joined across the start of a closed sub-path when both are on, lying on
/// the source, with the right lengths, starting and ending at the switch points.
fn law_intervals(a: &[f64]) -> Option<(String, String)> {
    let (pat, off, els) = dec_args(a);
    let (out, _) = run_dash(&els, off, &pat);
    let subs = split(&els);
    let all_lines = subs.iter().all(|s| s.segs.iter().all(is_line));
    let lens: Vec<Vec<f64>> = subs.iter().map(|s| s.segs.iter().map(seg_len).collect()).collect();
    let total: f64 = lens.iter().map(|l| l.iter().sum::<f64>()).sum();
    let dmin = pat.iter().cloned().fold(f64::INFINITY, f64::min);
    let nsw = total / dmin + 2.0;
    let scale = els.iter().filter_map(|e| e.end_point()).fold(1.0f64, |m, p| m.max(p.x.abs()).max(p.y.abs()));
    // polylines: rounding only; curves: the iterator works at accuracy 1e-6 per switch
    let tol = if all_lines { 1e-9 * (scale + total + off + 1.0) } else { 2e-5 * (nsw + 4.0) + 1e-9 * (scale + total + off) };
    let describe = || format!("dash({:?}, offset {:?}, pattern {:?}) = {:?}", els, off, pat, out);

    let gs = match groups(&out) {
        Ok(g) => g,
        Err((c, d)) => return fail(&c, format!("{}; {}", d, describe())),
    };

    // zero-length dashes (a switch exactly at a vertex or at the start of a sub-path) carry nothing
    let glen = |g: &Group| -> f64 { g.segs.iter().map(seg_len).sum() };
    let got: Vec<&Group> = gs.iter().filter(|g| glen(g) > tol).collect();

    let attempt = |mask: u32| -> Option<(String, String)> {
    // what has to come out
    let mut want: Vec<Want> = Vec::new();
    let mut oj = 0u32;
    for (si, s) in subs.iter().enumerate() {
        let len: f64 = lens[si].iter().sum();
        let raw = on_intervals(&pat, off, len);
        // a switch point within rounding distance of either end of a sub-path, or a sliver of an
        // interval: whether the iterator sees it is decided by the last bit; no verdict
        for &(x, y) in &raw {
            let l = y - x;
            if (l > tol && l <= 50.0 * tol) || (x > 0.0 && x <= 50.0 * tol) || (len - y > 0.0 && len - y <= 50.0 * tol) {
                return None;
            }
        }
        let iv: Vec<(f64, f64)> = raw.into_iter().filter(|&(x, y)| y - x > tol).collect();
        if iv.is_empty() {
            continue;
        }
        let first_on = iv[0].0 <= tol;
        let last_on = iv[iv.len() - 1].1 >= len - tol;
        if s.closed && first_on && last_on {
            if iv.len() == 1 {
                want.push(Want { parts: vec![iv[0]], looped: true, sub: si });
            } else {
                for k in 1..iv.len() - 1 {
                    want.push(Want { parts: vec![iv[k]], looped: false, sub: si });
                }
                want.push(Want { parts: vec![iv[iv.len() - 1], iv[0]], looped: false, sub: si });
            }
        } else if first_on {
            // The iterator withholds the first dash of a sub-path and emits it after the others (it
            // cannot know yet whether the sub-path will close).  On an open sub-path a first dash
            // emitted first is just as much "in path order": both orders are accepted.
            let natural = iv.len() > 1 && !s.closed && {
                oj += 1;
                (mask >> (oj - 1)) & 1 == 1
            };
            if natural {
                for k in 0..iv.len() {
                    want.push(Want { parts: vec![iv[k]], looped: false, sub: si });
                }
            } else {
                for k in 1..iv.len() {
                    want.push(Want { parts: vec![iv[k]], looped: false, sub: si });
                }
                want.push(Want { parts: vec![iv[0]], looped: false, sub: si });
            }
        } else {
            for k in 0..iv.len() {
                want.push(Want { parts: vec![iv[k]], looped: false, sub: si });
            }
        }
    }

    let kind = |w: &Want| -> &'static str {
        if subs[w.sub].closed {
            if w.looped {
                "closed-loop"
            } else if w.parts.len() == 2 {
                "closed-joined"
            } else {
                "closed"
            }
        } else {
            "open"
        }
    };
    if got.len() != want.len() {
        // name the first place where the two sequences part
        let mut cls = "count".to_string();
        for (g, w) in got.iter().zip(want.iter()) {
            let wl: f64 = w.parts.iter().map(|p| p.1 - p.0).sum();
            if (glen(g) - wl).abs() > tol {
                cls = format!("count:{}", kind(w));
                break;
            }
        }
        if cls == "count" {
            if let Some(w) = want.get(got.len().min(want.len().saturating_sub(1))) {
                cls = format!("count:{}", kind(w));
            }
        }
        return fail(&format!("intervals:{}", cls), format!("{} dashes of positive length emitted, {} 'on' intervals expected; {}", got.len(), want.len(), describe()));
    }
    for (g, w) in got.iter().zip(want.iter()) {
        let s = &subs[w.sub];
        let ls = &lens[w.sub];
        let k = kind(w);
        let wl: f64 = w.parts.iter().map(|p| p.1 - p.0).sum();
        let p_start = point_at(&s.segs, ls, w.parts[0].0);
        let p_end = point_at(&s.segs, ls, w.parts[w.parts.len() - 1].1);
        if g.closed != w.looped {
            return fail(&format!("closed-join:{}", k), format!("dash starting at {:?}: ClosePath emitted = {}, expected = {}; {}", g.start, g.closed, w.looped, describe()));
        }
        if (glen(g) - wl).abs() > tol {
            return fail(&format!("length:{}", k), format!("dash starting at {:?} has length {:?}, the 'on' interval {:?} has {:?}; {}", g.start, glen(g), w.parts, wl, describe()));
        }
        if pdist(g.start, p_start) > tol {
            return fail(&format!("switch-point:start:{}", k), format!("dash starts at {:?}, the pattern switches on at {:?} (arc length {:?}); {}", g.start, p_start, w.parts[0].0, describe()));
        }
        let g_end = g.segs.last().map(|x| x.end()).unwrap_or(g.start);
        if pdist(g_end, p_end) > tol {
            return fail(&format!("switch-point:end:{}", k), format!("dash ends at {:?}, the pattern switches off at {:?}; {}", g_end, p_end, describe()));
        }
        // every piece lies on the source sub-path
        for seg in &g.segs {
            let probes: Vec<Point> = if is_line(seg) { vec![seg.end()] } else { vec![seg.eval(0.25), seg.eval(0.5), seg.eval(0.75), seg.end()] };
            for p in probes {
                let d = dist_to_sub(&s.segs, p);
                if d > tol {
                    return fail(&format!("on-source:{}", k), format!("point {:?} of an emitted piece is {:?} away from its sub-path; {}", p, d, describe()));
                }
            }
        }
        // pieces inside a dash are in path order: each one ends further along the sub-path
        if all_lines && g.segs.len() > 1 && !w.looped {
            let mut pos = w.parts[0].0;
            let mut acc = 0.0;
            for seg in &g.segs {
                acc += seg_len(seg);
                let mut want_pos = w.parts[0].0 + acc;
                let first_len = w.parts[0].1 - w.parts[0].0;
                if w.parts.len() == 2 && acc > first_len + tol {
                    want_pos = acc - first_len; // wrapped around the start of the closed sub-path
                }
                let q = point_at(&s.segs, ls, want_pos);
                if pdist(seg.end(), q) > tol {
                    return fail(&format!("order:{}", k), format!("piece ending at {:?} should end at arc length {:?} = {:?}; {}", seg.end(), want_pos, q, describe()));
                }
                pos = want_pos;
            }
            let _ = pos;
        }
    }
    None
    };
    // open sub-paths that start "on": either order of the first dash (see above)
    let m = subs.iter().filter(|s| !s.closed).count().min(5) as u32;
    let first = attempt(0);
    if first.is_none() {
        return None;
    }
    for mask in 1..(1u32 << m) {
        if attempt(mask).is_none() {
            return None;
        }
    }
    first
}

/// The pattern restarts at every sub-path: dashing a path is dashing its sub-paths one by one
/// (compared exactly).  Sub-paths here all begin with a MoveTo.
fn law_restart(a: &[f64]) -> Option<(String, String)> {
    let (pat, off, els) = dec_args(a);
    let (whole, _) = run_dash(&els, off, &pat);
    let mut parts: Vec<Vec<PathEl>> = Vec::new();
    for e in &els {
        if matches!(e, PathEl::MoveTo(_)) || parts.is_empty() {
            parts.push(Vec::new());
        }
        parts.last_mut().unwrap().push(*e);
    }
    let mut cat: Vec<PathEl> = Vec::new();
    for p in &parts {
        cat.extend(run_dash(p, off, &pat).0);
    }
    if cat != whole {
        return fail("restart-per-subpath", format!("dash of {:?} (offset {:?}, pattern {:?}) = {:?}, but its sub-paths dashed one by one give {:?}", els, off, pat, whole, cat));
    }
    None
}

/// Bounded work: the number of iterations of `next`'s loop is at most
/// 2 * (emitted elements) + 5 * (input elements) + 2 (theorem C13_machine_is_spec).
fn law_work(a: &[f64]) -> Option<(String, String)> {
    let (pat, off, els) = dec_args(a);
    // the counter is shared with solve_itp / arclen_rec, which curved segments reach
    if els.iter().any(|e| matches!(e, PathEl::QuadTo(..) | PathEl::CurveTo(..))) {
        return None;
    }
    let (out, ticks) = run_dash(&els, off, &pat);
    let bound = 2 * out.len() as u64 + 5 * els.len() as u64 + 2;
    if ticks > bound {
        return fail("work-bound", format!("{} iterations of next() for {} input and {} output elements (bound {}): {:?} offset {:?} pattern {:?}", ticks, els.len(), out.len(), bound, els, off, pat));
    }
    None
}

fn g_stair(r: &mut Rng) -> Vec<f64> {
    let pat = dyadic_pattern(r);
    let off = dyadic_offset(r, &pat);
    enc_args(&pat, off, &stair_path(r, true))
}
fn g_lines(r: &mut Rng) -> Vec<f64> {
    let pat = generic_pattern(r);
    let off = generic_offset(r, &pat);
    enc_args(&pat, off, &generic_path(r, 1, true))
}
fn g_curves(r: &mut Rng) -> Vec<f64> {
    let pat = generic_pattern(r);
    let off = generic_offset(r, &pat);
    enc_args(&pat, off, &generic_path(r, 3, true))
}
fn g_mixed(r: &mut Rng) -> Vec<f64> {
    match r.below(3) {
        0 => g_stair(r),
        1 => g_lines(r),
        _ => g_curves(r),
    }
}

fn g_polys(r: &mut Rng) -> Vec<f64> {
    if r.bool() {
        g_stair(r)
    } else {
        g_lines(r)
    }
}

/// The property's second observable: `stroke()` with a non-empty dash pattern must be the stroke of the dashed
/// path — same elements, bit for bit (that is how the dispatch is written; every pattern length >= 1 counts).
/// (Added after a seeded change in the dispatch of `stroke()` — single-interval patterns stroked solid — was missed.)
fn law_stroke_dispatch(a: &[f64]) -> Option<(String, String)> {
    use kurbo::{stroke, Cap, Join, Stroke, StrokeOpts};
    let (pat, off, els) = dec_args(a);
    if pat.is_empty() || els.is_empty() {
        return None;
    }
    // width/tolerance derived from the input so that the law stays a pure function of its arguments
    let width = 0.5 + (a.len() % 7) as f64 * 0.25;
    let base = Stroke::new(width).with_join(Join::Bevel).with_caps(Cap::Butt);
    let dashed_style = base.clone().with_dashes(off, pat.clone());
    let got = std::panic::catch_unwind(|| stroke(els.iter().cloned(), &dashed_style, &StrokeOpts::default(), 0.1));
    let pieces: Vec<PathEl> = dash(els.iter().cloned(), off, &pat).collect();
    let want = std::panic::catch_unwind(|| stroke(pieces.iter().cloned(), &base, &StrokeOpts::default(), 0.1));
    match (got, want) {
        (Ok(g), Ok(w)) => {
            let same = g.elements().len() == w.elements().len()
                && enc_els(g.elements()).iter().zip(enc_els(w.elements()).iter()).all(|(x, y)| x.to_bits() == y.to_bits() || (x.is_nan() && y.is_nan()));
            if !same {
                return fail(
                    &format!("stroke-dispatch:pattern-len-{}", pat.len().min(3)),
                    format!("stroke() with dash pattern {:?} offset {} differs from the stroke of dash(): {} vs {} elements; path {:?}", pat, off, g.elements().len(), w.elements().len(), els),
                );
            }
            None
        }
        (Err(_), Ok(_)) | (Ok(_), Err(_)) => fail("stroke-dispatch:panic", format!("pattern {:?} path {:?}", pat, els)),
        _ => None,
    }
}

fn g_dispatch(r: &mut Rng) -> Vec<f64> {
    // patterns of 1..4 intervals (single-interval ones in a third of the cases), polylines and curves
    let n = if r.chance(1, 3) { 1 } else { 1 + r.below(4) as usize };
    let pat: Vec<f64> = (0..n).map(|_| r.range_i(1, 12) as f64 * 0.25).collect();
    let off = generic_offset(r, &pat);
    let kinds = if r.chance(1, 3) { 3 } else { 1 };
    enc_args(&pat, off, &generic_path(r, kinds, true))
}

fn laws() -> Vec<Law> {
    vec![
        Law { name: "stroke_dispatch", gen: g_dispatch, check: law_stroke_dispatch, weight: 1 },
        Law { name: "intervals_stair", gen: g_stair, check: law_intervals, weight: 6 },
        Law { name: "intervals_lines", gen: g_lines, check: law_intervals, weight: 4 },
        Law { name: "intervals_curves", gen: g_curves, check: law_intervals, weight: 2 },
        Law { name: "restart", gen: g_mixed, check: law_restart, weight: 3 },
        Law { name: "work", gen: g_polys, check: law_work, weight: 2 },
    ]
}

// ------------------------------------------------------------------ correspondence

fn tag_of(pat: &[f64], off: f64, els: &[PathEl], out: &[PathEl]) -> String {
    let closed = els.iter().filter(|e| matches!(e, PathEl::ClosePath)).count();
    let loops = out.iter().filter(|e| matches!(e, PathEl::ClosePath)).count();
    let moves = out.iter().filter(|e| matches!(e, PathEl::MoveTo(_))).count();
    // phase at the offset, from the pattern alone
    let (mut k, mut acc) = (0usize, 0.0);
    while acc + pat[k % pat.len()] < off && k < 10000 {
        acc += pat[k % pat.len()];
        k += 1;
    }
    let boundary = acc + pat[k % pat.len()] == off;
    format!(
        "{}{}{}{}",
        if closed > 0 { "closed" } else { "open" },
        if loops > 0 { "+loop" } else if closed > 0 && moves < closed + split(els).len() { "+join?" } else { "" },
        if k % 2 == 0 { "/init-on" } else { "/init-off" },
        if boundary { "/offset-on-boundary" } else { "" }
    )
}

fn emit_case(o: &mut Out, op: i64, group: &'static str, spec_group: &'static str, pat: &[f64], off: f64, els: &[PathEl], extra_args: &[f64], kinds_only: bool) {
    let (out, ticks) = run_dash(els, off, pat);
    let mut args = enc_args(pat, off, els);
    args.extend_from_slice(extra_args);
    let body: Vec<f64> = if kinds_only {
        out.iter()
            .map(|e| match e {
                PathEl::MoveTo(_) => 0.0,
                PathEl::LineTo(_) => 1.0,
                PathEl::QuadTo(..) => 2.0,
                PathEl::CurveTo(..) => 3.0,
                PathEl::ClosePath => 4.0,
            })
            .collect()
    } else {
        enc_els(&out)
    };
    // the work counter is shared with solve_itp/arclen_rec: it counts next() alone only on polylines
    let mut exp = if kinds_only { vec![out.len() as f64] } else { vec![ticks as f64, out.len() as f64] };
    exp.extend_from_slice(&body);
    let mut exp_spec = vec![out.len() as f64];
    exp_spec.extend_from_slice(&body);
    let nontrivial = out.len() > 2 || els.iter().any(|e| matches!(e, PathEl::ClosePath));
    let tag = tag_of(pat, off, els, &out);
    o.case(op, group, args.clone(), exp, nontrivial, &tag);
    o.case(op + 10, spec_group, args, exp_spec, nontrivial, &tag);
}

fn corr(r: &mut Rng, thorough: bool, o: &mut Out) {
    // 1. exhaustive: every interleaving of the 6-letter alphabet up to a length, on one axis
    let maxlen = if thorough { 5 } else { 4 };
    let pats: [(&[f64], f64); 8] = [(&[1.0, 0.5], 0.0), (&[1.0, 0.5], 1.5), (&[0.75], 0.25), (&[8.0, 1.0], 0.0), (&[0.5, 0.25, 1.0], 1.75), (&[2.0, 1.0], 2.0), (&[1.0, 0.5], 1.25), (&[0.5, 0.25, 1.0], 0.625)];
    let mut count = 0u64;
    for len in 0..=maxlen {
        let alpha_h = axis_alphabet(false);
        let alpha_v = axis_alphabet(true);
        let total = 6u64.pow(len as u32);
        for code in 0..total {
            // quick tier: all sequences up to length 3, every 5th of length 4
            if !thorough && len == 4 && code % 5 != (count % 5) {
                continue;
            }
            let vertical = (code + len as u64) % 3 == 0;
            let alpha = if vertical { &alpha_v } else { &alpha_h };
            let mut c = code;
            let els: Vec<PathEl> = (0..len)
                .map(|_| {
                    let e = alpha[(c % 6) as usize];
                    c /= 6;
                    e
                })
                .collect();
            let np = if thorough { 2 } else { 1 };
            for j in 0..np {
                let (p, off) = pats[((count as usize) + j * 3) % pats.len()];
                emit_case(o, 1, "axis-exhaustive", "axis-exhaustive-spec", p, off, &els, &[], false);
            }
            count += 1;
        }
    }
    // 2. random staircases, dyadic patterns and offsets: bit-exact
    let n = if thorough { 10000 } else { 600 };
    for i in 0..n {
        let pat = dyadic_pattern(r);
        let off = dyadic_offset(r, &pat);
        let els = stair_path(r, i % 16 != 0);
        emit_case(o, 1, "stair", "stair-spec", &pat, off, &els, &[], false);
    }
    // 3. generic lines (hypot through libm): tolerance
    let n = if thorough { 3000 } else { 250 };
    for _ in 0..n {
        let pat = generic_pattern(r);
        let off = generic_offset(r, &pat);
        let els = generic_path(r, 1, true);
        emit_case(o, 2, "generic-lines", "generic-lines-spec", &pat, off, &els, &[], false);
    }
    // 4. curved paths: the decisions of the machine given the arc lengths the implementation computed
    let n = if thorough { 3000 } else { 250 };
    for _ in 0..n {
        let pat = generic_pattern(r);
        let off = generic_offset(r, &pat);
        let els = generic_path(r, 3, true);
        let mut tbl = vec![9.0];
        for s in split(&els) {
            for seg in &s.segs {
                match seg {
                    PathSeg::Line(_) => {}
                    PathSeg::Quad(q) => {
                        tbl.extend(enc_seg(seg));
                        tbl.push(q.arclen(ACC));
                    }
                    PathSeg::Cubic(c) => {
                        tbl.extend(enc_seg(seg));
                        tbl.push(c.arclen(ACC));
                    }
                }
            }
        }
        emit_case(o, 3, "curves-structure", "curves-structure-spec", &pat, off, &els, &tbl, true);
    }
}

// ------------------------------------------------------------------ extra: witnesses of the repaired defects

fn extra(_r: &mut Rng, _thorough: bool, o: &mut Out) {
    use PathEl::*;
    let p = |x: f64, y: f64| Point::new(x, y);
    // every witness must satisfy the main law on the current tree
    let witnesses: Vec<(&str, &str, Vec<PathEl>, f64, Vec<f64>)> = vec![
        ("C13-closepath-order", "closed sub-path inside one dash", vec![MoveTo(p(0., 0.)), LineTo(p(4., 0.)), LineTo(p(4., 4.)), ClosePath], 0.0, vec![100.0, 2.0]),
        ("C13-empty-close", "ClosePath right after MoveTo", vec![MoveTo(p(5., 5.)), ClosePath], 0.0, vec![2.0, 1.0]),
        ("C13-empty-close-2", "ClosePath after ClosePath", vec![MoveTo(p(0., 0.)), LineTo(p(4., 0.)), LineTo(p(4., 4.)), ClosePath, ClosePath], 0.0, vec![3.0, 2.0]),
        ("C13-lost-moveto", "empty closed sub-path after an open one", vec![MoveTo(p(0., 0.)), LineTo(p(4., 0.)), MoveTo(p(5., 5.)), ClosePath], 0.0, vec![3.0, 2.0]),
        ("C13-period-offset-join", "offset of one whole period on a closed sub-path", vec![MoveTo(p(0., 0.)), LineTo(p(4., 0.)), LineTo(p(4., 4.)), LineTo(p(0., 4.)), ClosePath], 5.0, vec![3.0, 2.0]),
    ];
    for (id, name, els, off, pat) in witnesses {
        let args = enc_args(&pat, off, &els);
        o.oracle_eval("witness");
        let res = law_intervals(&args);
        // reported as a replayed finding (matters only if the id is listed in known_findings.txt) ...
        o.known(id, res.is_some(), format!("{}: dash({:?}, {:?}, {:?})", name, els, off, pat));
        // ... and, as long as it fails, as a violation of the property
        if let Some((class, desc)) = res {
            o.violation(&class, format!("[{}] {}", name, desc), format!("{{\"law\":\"intervals_stair\",\"args\":{}}}", crate::util::fmt_fs(&args)));
        }
    }
}
