//! C01 — winding number and containment.
//!
//! corr: extrema / extrema_ranges / monotone pieces / winding_inner (hook) / PathSeg::winding (through a
//! one-segment path) / Shape::winding and Shape::contains on element lists, with the query points
//! over-sampled on the rows through vertices, end points and extrema and on the columns through control points.
//! laws: exact integer oracle for polygons, finely refined polyline for curved paths, outside-the-box,
//! reversal, affine maps, splitting, degree raising, contains <=> non-zero, slice/array/BezPath agreement.
use crate::geom::*;
use crate::util::{Out, Rng};
use crate::{Law, Prop};
use kurbo::common::{solve_cubic, solve_quadratic};
use kurbo::{BezPath, CubicBez, Line, ParamCurve, ParamCurveExtrema, PathEl, PathSeg, Point, QuadBez, Shape};

pub fn prop() -> Prop {
    Prop { id: "C01", corr, laws, extra, law_budget: (250, 6000) }
}

// ------------------------------------------------------------------------------------------------
// helpers

fn ctrl(s: &PathSeg) -> Vec<Point> {
    match s {
        PathSeg::Line(l) => vec![l.p0, l.p1],
        PathSeg::Quad(q) => vec![q.p0, q.p1, q.p2],
        PathSeg::Cubic(c) => vec![c.p0, c.p1, c.p2, c.p3],
    }
}
fn seg_ends(s: &PathSeg) -> (Point, Point) {
    let c = ctrl(s);
    (c[0], c[c.len() - 1])
}
fn kind(s: &PathSeg) -> &'static str {
    match s {
        PathSeg::Line(_) => "line",
        PathSeg::Quad(_) => "quad",
        PathSeg::Cubic(_) => "cubic",
    }
}
/// extrema_ranges + subsegment
fn pieces(s: &PathSeg) -> Vec<PathSeg> {
    s.extrema_ranges().into_iter().map(|r| s.subsegment(r)).collect()
}
/// the monotone pieces `PathSeg::winding` is required to use: a segment without interior extrema as it is
fn pieces_req(s: &PathSeg) -> Vec<PathSeg> {
    if s.extrema_ranges().len() == 1 {
        vec![*s]
    } else {
        pieces(s)
    }
}
/// development aid: KV_C01_PINNED=1 emits the operation numbers of the pinned-tree model (see C01_corr.v)
fn op_shift() -> i64 {
    if std::env::var("KV_C01_PINNED").map(|v| v == "1").unwrap_or(false) {
        10
    } else {
        0
    }
}
fn path_segs(els: &[PathEl]) -> Option<Vec<PathSeg>> {
    std::panic::catch_unwind(|| kurbo::segments(els.iter().copied()).collect::<Vec<_>>()).ok()
}
/// (extent, min x, max x, min y, max y) of all control points
fn extent(els: &[PathEl]) -> (f64, f64, f64, f64, f64) {
    let mut pts = Vec::new();
    for e in els {
        match e {
            PathEl::MoveTo(p) | PathEl::LineTo(p) => pts.push(*p),
            PathEl::QuadTo(a, b) => pts.extend([*a, *b]),
            PathEl::CurveTo(a, b, c) => pts.extend([*a, *b, *c]),
            PathEl::ClosePath => {}
        }
    }
    let (mut x0, mut x1, mut y0, mut y1) = (f64::INFINITY, f64::NEG_INFINITY, f64::INFINITY, f64::NEG_INFINITY);
    let mut mag = 0f64;
    for p in &pts {
        x0 = x0.min(p.x);
        x1 = x1.max(p.x);
        y0 = y0.min(p.y);
        y1 = y1.max(p.y);
        mag = mag.max(p.x.abs()).max(p.y.abs());
    }
    if pts.is_empty() {
        return (1.0, 0.0, 0.0, 0.0, 0.0);
    }
    ((x1 - x0).max(y1 - y0).max(mag).max(1e-300), x0, x1, y0, y1)
}

/// the rows and columns the property singles out: ordinates (abscissae) of control points and of extrema
fn special_rows_cols(els: &[PathEl]) -> (Vec<f64>, Vec<f64>) {
    let (mut ys, mut xs) = (Vec::new(), Vec::new());
    if let Some(segs) = path_segs(els) {
        for s in &segs {
            for c in ctrl(s) {
                ys.push(c.y);
                xs.push(c.x);
            }
            for t in s.extrema() {
                let e = s.eval(t);
                ys.push(e.y);
                xs.push(e.x);
            }
        }
    }
    for e in els {
        if let PathEl::MoveTo(p) = e {
            ys.push(p.y);
            xs.push(p.x);
        }
    }
    (ys, xs)
}

fn gen_query(r: &mut Rng, els: &[PathEl]) -> Point {
    let (ext, x0, x1, y0, y1) = extent(els);
    let (ys, xs) = special_rows_cols(els);
    let y = if !ys.is_empty() && r.chance(1, 2) {
        let y = *r.pick(&ys);
        // mostly the row itself; sometimes the rows a few units in the last place next to it
        if r.chance(1, 6) {
            let k = r.range_i(-3, 3);
            f64::from_bits((y.to_bits() as i64 + if y == 0.0 { 0 } else { k }) as u64)
        } else {
            y
        }
    } else if r.chance(1, 8) {
        r.uniform(y0 - 0.5 * ext, y1 + 0.5 * ext)
    } else {
        r.uniform(y0, y1)
    };
    let x = match r.below(10) {
        0 | 1 if !xs.is_empty() => *r.pick(&xs),
        2 | 3 => x1 + r.pick(&[0.0, 0.5, 2.0, 1e-9])* ext.max(1.0),
        4 => x0 - r.pick(&[0.5, 2.0, 1e-9]) * ext.max(1.0),
        _ => r.uniform(x0, x1),
    };
    Point::new(x, y)
}

// ---- an independent evaluation of the per-piece ray cast: same half-open rule, root by bisection -------------

fn poly_y(s: &PathSeg, t: f64) -> f64 {
    s.eval(t).y
}
/// reference contribution of a *monotone* piece (no solver) and the horizontal distance of p from the crossing
/// (infinite when only comparisons decide)
fn ref_piece_margin(s: &PathSeg, p: Point) -> (i32, f64) {
    let (st, en) = seg_ends(s);
    let sign = if en.y > st.y {
        if p.y < st.y || p.y >= en.y {
            return (0, f64::INFINITY);
        }
        -1
    } else if en.y < st.y {
        if p.y < en.y || p.y >= st.y {
            return (0, f64::INFINITY);
        }
        1
    } else {
        return (0, f64::INFINITY);
    };
    let cs = ctrl(s);
    let minx = cs.iter().fold(f64::INFINITY, |m, c| m.min(c.x));
    let maxx = cs.iter().fold(f64::NEG_INFINITY, |m, c| m.max(c.x));
    if p.x < minx {
        return (0, f64::INFINITY);
    }
    if p.x >= maxx {
        return (sign, f64::INFINITY);
    }
    // y(t) - p.y changes sign on [0,1] (weakly): bisection
    let up = en.y > st.y;
    let (mut lo, mut hi) = (0.0f64, 1.0f64);
    for _ in 0..80 {
        let mid = 0.5 * (lo + hi);
        let v = poly_y(s, mid) - p.y;
        if (v <= 0.0) == up {
            lo = mid;
        } else {
            hi = mid;
        }
    }
    let t = 0.5 * (lo + hi);
    let x = s.eval(t).x;
    (if p.x >= x { sign } else { 0 }, (p.x - x).abs())
}
fn ref_piece(s: &PathSeg, p: Point) -> Option<i32> {
    Some(ref_piece_margin(s, p).0)
}
/// y is monotone along the piece on 64 samples (pieces cut at the computed extrema are, up to rounding)
fn sampled_monotone(s: &PathSeg) -> bool {
    let ys: Vec<f64> = (0..=64).map(|i| s.eval(i as f64 / 64.0).y).collect();
    ys.windows(2).all(|w| w[0] <= w[1]) || ys.windows(2).all(|w| w[0] >= w[1])
}

/// the coefficients the code hands to the cubic solver for a cubic piece
fn cubic_coeffs(c: &CubicBez, p: Point) -> (f64, f64, f64, f64) {
    let (start, end, p1, p2) = (c.p0, c.p3, c.p1, c.p2);
    let a = end.y - 3.0 * p2.y + 3.0 * p1.y - start.y;
    let b = 3.0 * (p2.y - 2.0 * p1.y + start.y);
    let cc = 3.0 * (p1.y - start.y);
    let d = start.y - p.y;
    (a, b, cc, d)
}
fn tiny_leading(c: &CubicBez, p: Point) -> bool {
    let (a, b, cc, d) = cubic_coeffs(c, p);
    a != 0.0 && a.abs() < 1e-9 * b.abs().max(cc.abs()).max(d.abs())
}

/// replicate winding_inner's branch structure to get a tag; for cubic pieces that reach the solver also say
/// whether a 1e-12 perturbation of the solver's roots could change the answer (then the case is not used
/// for the bit-level correspondence: the F64 instance only approximates cbrt/atan2/sin/cos).
fn wi_tag(s: &PathSeg, p: Point) -> (String, bool) {
    let (st, en) = seg_ends(s);
    let k = kind(s);
    let dir = if en.y > st.y {
        if p.y < st.y || p.y >= en.y {
            return (format!("{}:up:out-of-rows", k), true);
        }
        "up"
    } else if en.y < st.y {
        if p.y < en.y || p.y >= st.y {
            return (format!("{}:down:out-of-rows", k), true);
        }
        "down"
    } else {
        return (format!("{}:flat", k), true);
    };
    let cs = ctrl(s);
    let minx = cs.iter().fold(f64::INFINITY, |m, c| m.min(c.x));
    let maxx = cs.iter().fold(f64::NEG_INFINITY, |m, c| m.max(c.x));
    if p.x < minx {
        return (format!("{}:{}:left-out", k, dir), true);
    }
    if p.x >= maxx {
        return (format!("{}:{}:right-out", k, dir), true);
    }
    match s {
        PathSeg::Line(_) => (format!("line:{}:equation", dir), true),
        PathSeg::Quad(q) => {
            let a = en.y - 2.0 * q.p1.y + st.y;
            let b = 2.0 * (q.p1.y - st.y);
            let c = st.y - p.y;
            let roots = solve_quadratic(c, b, a);
            let hit = roots.iter().position(|t| (0.0..=1.0).contains(t));
            (format!("quad:{}:roots{}:{}", dir, roots.len(), match hit { Some(i) => format!("hit{}", i), None => "nohit".into() }), true)
        }
        PathSeg::Cubic(c) => {
            let (a, b, cc, d) = cubic_coeffs(c, p);
            let roots = solve_cubic(d, cc, b, a);
            let hit = roots.iter().position(|t| (0.0..=1.0).contains(t));
            let sc = cs.iter().fold(1e-300f64, |m, c| m.max(c.x.abs()));
            let mut safe = !tiny_leading(c, p);
            // which solver branch: quadratic fallback is exact
            let c3r = 1.0 / a;
            let fallback = !((d * c3r).is_finite() && (cc * (1.0 / 3.0 * c3r)).is_finite() && (b * (1.0 / 3.0 * c3r)).is_finite());
            if fallback {
                safe = true;
            } else {
                for t in roots.iter() {
                    if !t.is_finite() || t.abs() < 1e-6 || (t - 1.0).abs() < 1e-6 {
                        safe = false;
                    }
                    if (0.0..=1.0).contains(t) && (p.x - c.eval(*t).x).abs() < 1e-6 * sc {
                        safe = false;
                    }
                }
            }
            (
                format!("cubic:{}:{}roots{}:{}", dir, if fallback { "quadratic-fallback:" } else { "" }, roots.len(), match hit { Some(i) => format!("hit{}", i), None => "nohit".into() }),
                safe,
            )
        }
    }
}

fn path_safe_for_corr(els: &[PathEl], p: Point) -> bool {
    match path_segs(els) {
        None => true,
        Some(segs) => segs.iter().all(|s| match s {
            PathSeg::Cubic(_) => pieces(s).iter().chain(pieces_req(s).iter()).all(|pc| wi_tag(pc, p).1),
            _ => true,
        }),
    }
}

fn winding_of(els: &[PathEl], p: Point) -> Vec<f64> {
    let v = els.to_vec();
    match std::panic::catch_unwind(move || v.as_slice().winding(p)) {
        Ok(w) => vec![1.0, w as f64],
        Err(_) => vec![0.0],
    }
}
fn contains_of(els: &[PathEl], p: Point) -> Vec<f64> {
    let v = els.to_vec();
    match std::panic::catch_unwind(move || Shape::contains(&v.as_slice(), p)) {
        Ok(w) => vec![1.0, if w { 1.0 } else { 0.0 }],
        Err(_) => vec![0.0],
    }
}

// ------------------------------------------------------------------------------------------------
// generators

/// generic double with magnitude in [2^-2, 2^6) and a full mantissa (exact integer oracle applies)
fn gen53(r: &mut Rng) -> f64 {
    r.generic(-2, 5)
}

fn gen_polygon_pts(r: &mut Rng) -> Vec<Point> {
    let n = 3 + r.below(6) as usize;
    match r.below(8) {
        0 | 1 => (0..n).map(|_| Point::new(r.grid(16, 2.0), r.grid(16, 2.0))).collect(),
        2 => (0..n).map(|_| Point::new(r.grid(3, 1.0), r.grid(3, 1.0))).collect(),
        3 => {
            // regular polygon / star: generic doubles from cos/sin
            let rad = r.uniform(1.0, 20.0);
            let (cx, cy) = (r.uniform(-5.0, 5.0), r.uniform(-5.0, 5.0));
            let step = if n >= 5 && r.bool() { 2 } else { 1 };
            let ph = if r.bool() { 0.0 } else { r.uniform(0.0, 6.28) };
            (0..n)
                .map(|i| {
                    let th = ph + 2.0 * std::f64::consts::PI * ((i * step) as f64) / (n as f64);
                    Point::new(cx + rad * th.cos(), cy + rad * th.sin())
                })
                .collect()
        }
        4 => {
            // generic with a few shared ordinates / abscissae
            let mut v: Vec<Point> = (0..n).map(|_| Point::new(gen53(r), gen53(r))).collect();
            for _ in 0..2 {
                let (i, j) = (r.below(n as u64) as usize, r.below(n as u64) as usize);
                if r.bool() {
                    v[i].y = v[j].y;
                } else {
                    v[i].x = v[j].x;
                }
            }
            v
        }
        _ => (0..n).map(|_| Point::new(gen53(r), gen53(r))).collect(),
    }
}

fn polygon_els(subs: &[Vec<Point>], close: bool) -> Vec<PathEl> {
    let mut v = Vec::new();
    for pts in subs {
        v.push(PathEl::MoveTo(pts[0]));
        for p in &pts[1..] {
            v.push(PathEl::LineTo(*p));
        }
        if close {
            v.push(PathEl::ClosePath);
        }
    }
    v
}

fn gen_polygon_path(r: &mut Rng) -> Vec<PathEl> {
    let nsub = if r.chance(1, 4) { 2 + r.below(2) as usize } else { 1 };
    let subs: Vec<Vec<Point>> = (0..nsub).map(|_| gen_polygon_pts(r)).collect();
    polygon_els(&subs, true)
}

/// closed path of the given kinds (0 line, 1 quad, 2 cubic); control points generic or on grids
fn gen_curved_path(r: &mut Rng, kinds: &[u8]) -> Vec<PathEl> {
    let nsub = if r.chance(1, 4) { 2 } else { 1 };
    let mut v = Vec::new();
    for _ in 0..nsub {
        let mode = r.below(4);
        let gp = |r: &mut Rng| match mode {
            0 => Point::new(r.grid(16, 2.0), r.grid(16, 2.0)),
            1 => Point::new(r.grid(4, 1.0), r.grid(4, 1.0)),
            _ => Point::new(gen53(r), gen53(r)),
        };
        let n = 2 + r.below(4) as usize;
        // a second sub-path may start implicitly: ClosePath followed directly by a drawing element continues from
        // the start point of the sub-path just closed (Segments::next; seed C01h)
        let implicit = match v.first() {
            Some(PathEl::MoveTo(s0)) if r.chance(1, 3) => Some(*s0),
            _ => None,
        };
        let start = match implicit {
            Some(s0) => s0,
            None => gp(r),
        };
        if implicit.is_none() {
            v.push(PathEl::MoveTo(start));
        }
        for i in 0..n {
            let end = if i + 1 == n && r.chance(1, 3) { start } else { gp(r) };
            match *r.pick(kinds) {
                0 => v.push(PathEl::LineTo(end)),
                1 => v.push(PathEl::QuadTo(gp(r), end)),
                _ => v.push(PathEl::CurveTo(gp(r), gp(r), end)),
            }
        }
        v.push(PathEl::ClosePath);
    }
    v
}

fn gen_wseg(r: &mut Rng) -> PathSeg {
    let s = match r.below(6) {
        0 => PathSeg::Line(Line::new((gen53(r), gen53(r)), (gen53(r), gen53(r)))),
        1 => PathSeg::Quad(QuadBez::new((gen53(r), gen53(r)), (gen53(r), gen53(r)), (gen53(r), gen53(r)))),
        2 => PathSeg::Cubic(CubicBez::new((gen53(r), gen53(r)), (gen53(r), gen53(r)), (gen53(r), gen53(r)), (gen53(r), gen53(r)))),
        _ => gen_seg(r),
    };
    s
}

// ------------------------------------------------------------------------------------------------
// correspondence

fn corr(r: &mut Rng, thorough: bool, o: &mut Out) {
    let mut skipped_unsafe = 0u64;
    // --- per segment: extrema, ranges, pieces; winding_inner on the segment and on its monotone pieces
    let n = if thorough { 5000 } else { 500 };
    for _ in 0..n {
        let s = gen_wseg(r);
        let e = enc_seg(&s);
        let k = kind(&s);
        let ex = s.extrema();
        let mut out = vec![ex.len() as f64];
        out.extend(ex.iter());
        o.case(2, "extrema", e.clone(), out, !ex.is_empty(), &format!("{}:{}", k, ex.len()));
        let rs = s.extrema_ranges();
        let mut out = vec![rs.len() as f64];
        for rg in rs.iter() {
            out.push(rg.start);
            out.push(rg.end);
        }
        o.case(3, "extrema_ranges", e.clone(), out, rs.len() > 1, &format!("{}:{}", k, rs.len()));
        let ps = pieces(&s);
        let mut out = vec![ps.len() as f64];
        for pc in &ps {
            out.extend(enc_seg(pc));
        }
        o.case(4, "pieces", e.clone(), out, ps.len() > 1, &format!("{}:{}", k, ps.len()));
        // winding_inner: on the raw segment (the function is total) and on every monotone piece
        let mut targets = vec![s];
        targets.extend(ps);
        for tg in targets {
            let els = [PathEl::MoveTo(seg_ends(&tg).0), tg.as_path_el()];
            for _ in 0..3 {
                let p = gen_query(r, &els);
                let (tag, safe) = wi_tag(&tg, p);
                if !safe {
                    skipped_unsafe += 1;
                    continue;
                }
                let w = tg.verif_winding_inner(p);
                let mut a = enc_seg(&tg);
                a.push(p.x);
                a.push(p.y);
                o.case(1 + op_shift(), "winding_inner", a, vec![w as f64], w != 0 || tag.contains("equation") || tag.contains("roots"), &tag);
            }
        }
        // PathSeg::winding through the one-segment path [MoveTo(start), segment]
        let els = [PathEl::MoveTo(seg_ends(&s).0), s.as_path_el()];
        for _ in 0..2 {
            let p = gen_query(r, &els);
            if !path_safe_for_corr(&els, p) {
                skipped_unsafe += 1;
                continue;
            }
            let w = els.winding(p);
            let mut a = enc_seg(&s);
            a.push(p.x);
            a.push(p.y);
            o.case(7 + op_shift(), "seg_winding", a, vec![w as f64], w != 0, &format!("{}:w={}", k, w));
        }
    }
    // --- paths
    let n = if thorough { 4000 } else { 400 };
    for i in 0..n {
        let els: Vec<PathEl> = match i % 8 {
            0 | 1 | 2 => gen_polygon_path(r),
            3 => gen_curved_path(r, &[0, 1]),
            4 => gen_curved_path(r, &[1]),
            5 => gen_curved_path(r, &[0, 1, 2]),
            6 => gen_curved_path(r, &[2]),
            _ => {
                // irregular element lists: unclosed, no leading MoveTo, leading ClosePath, ClosePath twice, empty
                let mut v = gen_curved_path(r, &[0, 1]);
                match r.below(6) {
                    0 => {
                        v.pop();
                    }
                    1 => {
                        v.remove(0);
                    }
                    2 => v.insert(0, PathEl::ClosePath),
                    3 => v.push(PathEl::ClosePath),
                    4 => v.clear(),
                    _ => v.push(PathEl::LineTo(Point::new(r.grid(16, 2.0), r.grid(16, 2.0)))),
                }
                v
            }
        };
        let group: &'static str = match i % 8 {
            0 | 1 | 2 => "path:polygon",
            3 | 4 => "path:quad",
            5 | 6 => "path:cubic",
            _ => "path:irregular",
        };
        for _ in 0..4 {
            let p = gen_query(r, &els);
            if !path_safe_for_corr(&els, p) {
                skipped_unsafe += 1;
                continue;
            }
            let (ys, _) = special_rows_cols(&els);
            let row = if ys.contains(&p.y) { "special-row" } else { "generic-row" };
            let w = winding_of(&els, p);
            let mut a = vec![p.x, p.y];
            a.extend(enc_els(&els));
            let tag = if w[0] == 0.0 { "panic".to_string() } else { format!("{}:w={}", row, w[1]) };
            o.case(5 + op_shift(), group, a.clone(), w.clone(), w.len() == 2 && w[1] != 0.0, &tag);
            if r.chance(1, 3) {
                let c = contains_of(&els, p);
                o.case(6 + op_shift(), "contains", a, c.clone(), c.len() == 2 && c[1] != 0.0, if c[0] == 0.0 { "panic" } else if c[1] != 0.0 { "inside" } else { "outside" });
            }
        }
    }
    o.notes.push(format!("C01 corr: {} cubic cases not used for the bit-level comparison (a root of the libm-based cubic solver within 1e-6 of a decision boundary, or a leading coefficient of rounding size)", skipped_unsafe));
}

// ------------------------------------------------------------------------------------------------
// oracles

/// exact integer coordinates (units of 2^-54) when representable below 2^61
fn to_int(x: f64) -> Option<i128> {
    let y = x * 2f64.powi(54);
    if y.is_finite() && y.fract() == 0.0 && y.abs() < 2f64.powi(61) {
        Some(y as i128)
    } else {
        None
    }
}
fn ipt(p: Point) -> Option<(i128, i128)> {
    Some((to_int(p.x)?, to_int(p.y)?))
}
fn quadrant(dx: i128, dy: i128) -> i32 {
    // half-open quadrants partitioning the plane minus the origin
    if dx > 0 && dy >= 0 {
        0
    } else if dx <= 0 && dy > 0 {
        1
    } else if dx < 0 && dy <= 0 {
        2
    } else {
        3
    }
}
/// closed polygons (each sub-path closed): exact winding number by quadrant counting with an exact
/// orientation predicate. `None`: p on the path or coordinates outside the exact range.
fn exact_poly_winding(subs: &[Vec<Point>], p: Point) -> Option<i32> {
    let (qx, qy) = ipt(p)?;
    let mut total = 0i32;
    for pts in subs {
        let n = pts.len();
        let mut ip = Vec::with_capacity(n);
        for v in pts {
            let (x, y) = ipt(*v)?;
            if x == qx && y == qy {
                return None;
            }
            ip.push((x - qx, y - qy));
        }
        for i in 0..n {
            let (sx, sy) = ip[i];
            let (ex, ey) = ip[(i + 1) % n];
            let d = (quadrant(ex, ey) - quadrant(sx, sy)).rem_euclid(4);
            total += match d {
                0 => 0,
                1 => 1,
                3 => -1,
                _ => {
                    let cr = sx * ey - sy * ex; // cross(s - p, e - p)
                    if cr == 0 {
                        return None; // p on the edge
                    }
                    if cr > 0 {
                        2
                    } else {
                        -2
                    }
                }
            };
        }
    }
    assert!(total % 4 == 0);
    Some(total / 4)
}

fn dist_pt_seg(p: Point, a: Point, b: Point) -> f64 {
    let (dx, dy) = (b.x - a.x, b.y - a.y);
    let l2 = dx * dx + dy * dy;
    let t = if l2 > 0.0 { (((p.x - a.x) * dx + (p.y - a.y) * dy) / l2).clamp(0.0, 1.0) } else { 0.0 };
    let (cx, cy) = (a.x + t * dx, a.y + t * dy);
    ((p.x - cx).powi(2) + (p.y - cy).powi(2)).sqrt()
}

/// refined polyline of a segment list (uniform parameters) and a bound on its distance from the curves
fn refine(segs: &[PathSeg], n: usize) -> (Vec<(Point, Point)>, f64) {
    let mut edges = Vec::new();
    let mut err = 0f64;
    for s in segs {
        match s {
            PathSeg::Line(l) => edges.push((l.p0, l.p1)),
            _ => {
                let c = ctrl(s);
                // chord error <= |second difference|_max * deg*(deg-1) / (8 n^2)
                let mut dd = 0f64;
                for w in c.windows(3) {
                    dd = dd.max(((w[0].x - 2.0 * w[1].x + w[2].x).powi(2) + (w[0].y - 2.0 * w[1].y + w[2].y).powi(2)).sqrt());
                }
                let deg = (c.len() - 1) as f64;
                err = err.max(dd * deg * (deg - 1.0) / (8.0 * (n * n) as f64));
                let mut prev = c[0];
                for i in 1..=n {
                    let q = if i == n { c[c.len() - 1] } else { s.eval(i as f64 / n as f64) };
                    edges.push((prev, q));
                    prev = q;
                }
            }
        }
    }
    (edges, err)
}

/// winding number of a closed chain of edges about p in f64 by quadrant counting; `None` when an
/// orientation test is too close to call
fn float_chain_winding(edges: &[(Point, Point)], p: Point, scale: f64) -> Option<i32> {
    let q = |v: Point| -> i32 {
        let (dx, dy) = (v.x - p.x, v.y - p.y);
        if dx > 0.0 && dy >= 0.0 {
            0
        } else if dx <= 0.0 && dy > 0.0 {
            1
        } else if dx < 0.0 && dy <= 0.0 {
            2
        } else {
            3
        }
    };
    let mut total = 0i32;
    for (s, e) in edges {
        let d = (q(*e) - q(*s)).rem_euclid(4);
        total += match d {
            0 => 0,
            1 => 1,
            3 => -1,
            _ => {
                let cr = (s.x - p.x) * (e.y - p.y) - (s.y - p.y) * (e.x - p.x);
                let len = ((e.x - s.x).powi(2) + (e.y - s.y).powi(2)).sqrt();
                if cr.abs() <= 1e-12 * scale * (len + 1e-300) + 1e-300 {
                    return None;
                }
                if cr > 0.0 {
                    2
                } else {
                    -2
                }
            }
        };
    }
    if total % 4 != 0 {
        return None; // chain not closed
    }
    Some(total / 4)
}

/// closed-ness: every sub-path's segments form a closed chain (end of last = start of first)
fn chain_closed(segs: &[PathSeg]) -> bool {
    if segs.is_empty() {
        return true;
    }
    let mut start = seg_ends(&segs[0]).0;
    let mut last = start;
    for s in segs {
        let (a, b) = seg_ends(s);
        if a != last {
            if last != start {
                return false;
            }
            start = a;
        }
        last = b;
    }
    last == start
}

/// reference winding of a closed path about p: `None` unless p is at least `delta*extent` (plus the refinement
/// error) away from the path
fn ref_winding(els: &[PathEl], p: Point, delta: f64) -> Option<i32> {
    let segs = path_segs(els)?;
    if !chain_closed(&segs) {
        return None;
    }
    let (ext, ..) = extent(els);
    let (edges, err) = refine(&segs, 512);
    let mut dmin = f64::INFINITY;
    for (a, b) in &edges {
        dmin = dmin.min(dist_pt_seg(p, *a, *b));
    }
    if !(dmin >= delta * ext + 2.0 * err) {
        return None;
    }
    float_chain_winding(&edges, p, ext)
}

/// find out which pieces the implementation counts differently from the bisection reference
fn blame(els: &[PathEl], p: Point) -> String {
    let mut out = Vec::new();
    let mut only_tiny = true;
    let mut any = false;
    if let Some(segs) = path_segs(els) {
        // the pieces the implementation used: with or without subdividing segments that have no extrema
        let w = els.winding(p);
        let sum_req: i32 = segs.iter().map(|s| pieces_req(s).iter().map(|pc| pc.verif_winding_inner(p)).sum::<i32>()).sum();
        let use_req = sum_req == w;
        for (i, s) in segs.iter().enumerate() {
            let ps = if use_req { pieces_req(s) } else { pieces(s) };
            for (j, pc) in ps.iter().enumerate() {
                let got = pc.verif_winding_inner(p);
                if let Some(want) = ref_piece(pc, p) {
                    if got != want {
                        any = true;
                        let tiny = matches!(pc, PathSeg::Cubic(c) if tiny_leading(c, p));
                        if !tiny {
                            only_tiny = false;
                        }
                        out.push(format!("seg {} piece {} ({}{}): winding_inner={} reference={} piece={:?}", i, j, kind(pc), if tiny { ", leading coefficient of rounding size" } else { "" }, got, want, pc));
                    }
                }
            }
        }
    }
    let class = if any && only_tiny { "TINY" } else if any { "PIECE" } else { "SUM" };
    format!("{}|{}", class, out.join("; "))
}

fn fail(class: &str, d: String) -> Option<(String, String)> {
    Some((class.to_string(), d))
}

/// report a winding mismatch with a class that names the root cause
fn mismatch(law: &str, els: &[PathEl], p: Point, got: i32, want: i32, what: &str) -> Option<(String, String)> {
    let b = blame(els, p);
    let (tag, detail) = b.split_once('|').unwrap();
    let (ys, _) = special_rows_cols(els);
    let row = if ys.contains(&p.y) { "special-row" } else { "generic-row" };
    let has_curve = els.iter().any(|e| matches!(e, PathEl::QuadTo(..) | PathEl::CurveTo(..)));
    let class = match tag {
        "TINY" => "winding:cubic-solver-tiny-leading-coefficient".to_string(),
        _ if !has_curve => format!("winding:polygon:{}:{}", row, law),
        "PIECE" => format!("winding:curved-piece:{}:{}", row, law),
        _ => format!("winding:curved:{}:{}", row, law),
    };
    fail(&class, format!("{}: winding({:?}) = {} but {} = {}; path {:?}; {}", law, p, got, what, want, els, detail))
}

// args layout for all laws: [k0..k5 (law parameters), p.x, p.y, elements...]
const NPAR: usize = 6;
fn unpack(a: &[f64]) -> ([f64; NPAR], Point, Vec<PathEl>) {
    let mut k = [0.0; NPAR];
    k.copy_from_slice(&a[..NPAR]);
    (k, Point::new(a[NPAR], a[NPAR + 1]), dec_els(&a[NPAR + 2..]))
}
fn pack(k: [f64; NPAR], p: Point, els: &[PathEl]) -> Vec<f64> {
    let mut v = k.to_vec();
    v.push(p.x);
    v.push(p.y);
    v.extend(enc_els(els));
    v
}

fn g_polygon(r: &mut Rng) -> Vec<f64> {
    let els = gen_polygon_path(r);
    let p = gen_query(r, &els);
    pack([0.0; NPAR], p, &els)
}

fn subs_of_polygon(els: &[PathEl]) -> Vec<Vec<Point>> {
    let mut subs: Vec<Vec<Point>> = Vec::new();
    for e in els {
        match e {
            PathEl::MoveTo(p) => subs.push(vec![*p]),
            PathEl::LineTo(p) => subs.last_mut().unwrap().push(*p),
            _ => {}
        }
    }
    subs
}

/// L1: closed polygons against the exact integer oracle, every point not on the path when all products are exact
/// (small dyadic grid), points at least 1e-6*extent from the path otherwise
fn law_polygon_exact(a: &[f64]) -> Option<(String, String)> {
    let (_, p, els) = unpack(a);
    let subs = subs_of_polygon(&els);
    let want = exact_poly_winding(&subs, p)?;
    let on_grid = |x: f64| (x * 2.0).fract() == 0.0 && x.abs() <= 64.0;
    let grid = subs.iter().flatten().all(|v| on_grid(v.x) && on_grid(v.y)) && on_grid(p.x) && on_grid(p.y);
    if !grid {
        // the orientation test of winding_inner rounds: stay away from the path, except where only
        // comparisons decide (p outside the box of the control points)
        let (ext, x0, x1, y0, y1) = extent(&els);
        let outside = p.x < x0 || p.x > x1 || p.y < y0 || p.y > y1;
        if !outside {
            let mut dmin = f64::INFINITY;
            for pts in &subs {
                for i in 0..pts.len() {
                    dmin = dmin.min(dist_pt_seg(p, pts[i], pts[(i + 1) % pts.len()]));
                }
            }
            if !(dmin >= 1e-6 * ext) {
                return None;
            }
        }
    }
    let got = els.as_slice().winding(p);
    if got != want {
        return mismatch("polygon_exact", &els, p, got, want, "the exact winding number");
    }
    let c = Shape::contains(&els.as_slice(), p);
    if c != (want != 0) {
        return fail("contains:polygon", format!("contains({:?}) = {} but the exact winding number is {}; path {:?}", p, c, want, els));
    }
    None
}

fn g_curved(r: &mut Rng) -> Vec<f64> {
    let els = match r.below(5) {
        0 => gen_curved_path(r, &[0, 1]),
        1 => gen_curved_path(r, &[1]),
        2 => gen_curved_path(r, &[2]),
        3 => gen_curved_path(r, &[0, 2]),
        _ => gen_curved_path(r, &[0, 1, 2]),
    };
    let p = gen_query(r, &els);
    let k = [r.unit(), r.unit(), r.unit(), r.unit(), r.unit(), r.unit()];
    pack(k, p, &els)
}

/// closed paths with a quadratic whose y-polynomial is linear up to a coefficient 1e-160..1e-300 times smaller:
/// (c1/c2)^2 overflows in solve_quadratic, whose overflow branch has to return the root of the linear part (seed C01g)
fn g_nearlinear(r: &mut Rng) -> Vec<f64> {
    let eps = *r.pick(&[1e-160, -1e-160, 3e-170, 1e-200, -1e-250, 1e-300]);
    let h = *r.pick(&[1.0, 0.5, 3.0, -2.0, -0.75]);
    let gx = |r: &mut Rng| r.grid(16, 2.0);
    let (x0, x1, x2) = (gx(r), gx(r), gx(r));
    let mut els = vec![PathEl::MoveTo(Point::new(x0, eps)), PathEl::QuadTo(Point::new(x1, h), Point::new(x2, 2.0 * h))];
    for _ in 0..1 + r.below(2) {
        els.push(PathEl::LineTo(Point::new(gx(r), if r.bool() { eps } else { r.grid(16, 2.0) })));
    }
    els.push(PathEl::ClosePath);
    let p = gen_query(r, &els);
    let k = [r.unit(), r.unit(), r.unit(), r.unit(), r.unit(), r.unit()];
    pack(k, p, &els)
}

/// L2: curved closed paths against the winding number of a finely refined polyline
fn law_curved_refined(a: &[f64]) -> Option<(String, String)> {
    let (_, p, els) = unpack(a);
    let want = ref_winding(&els, p, 1e-6)?;
    let got = els.as_slice().winding(p);
    if got != want {
        return mismatch("curved_refined", &els, p, got, want, "the winding number of the refined polyline");
    }
    if Shape::contains(&els.as_slice(), p) != (want != 0) {
        return fail("contains:curved", format!("contains({:?}) disagrees with winding {} on {:?}", p, want, els));
    }
    None
}

fn g_outside(r: &mut Rng) -> Vec<f64> {
    let els = if r.bool() { gen_polygon_path(r) } else { gen_curved_path(r, &[0, 1, 2]) };
    let (ext, x0, x1, y0, y1) = extent(&els);
    let (ys, xs) = special_rows_cols(&els);
    let off = *r.pick(&[2.0, 0.5, 1e-3, 1e-9]) * ext.max(1.0);
    let p = match r.below(6) {
        0 | 1 | 2 => Point::new(x1 + off, if r.chance(3, 4) { *r.pick(&ys) } else { r.uniform(y0, y1) }),
        3 => Point::new(x0 - off, if r.chance(3, 4) { *r.pick(&ys) } else { r.uniform(y0, y1) }),
        4 => Point::new(if r.bool() { *r.pick(&xs) } else { r.uniform(x0, x1) }, y1 + off),
        _ => Point::new(if r.bool() { *r.pick(&xs) } else { r.uniform(x0, x1) }, y0 - off),
    };
    pack([0.0; NPAR], p, &els)
}

/// L3: a point outside the box of all control points is outside every closed path (winding 0, not contained),
/// including on the rows and columns through vertices, end points and extrema
fn law_outside_box(a: &[f64]) -> Option<(String, String)> {
    let (_, p, els) = unpack(a);
    let segs = path_segs(&els)?;
    if !chain_closed(&segs) {
        return None;
    }
    let (_, x0, x1, y0, y1) = extent(&els);
    if !(p.x > x1 || p.x < x0 || p.y > y1 || p.y < y0) {
        return None;
    }
    let got = els.as_slice().winding(p);
    if got != 0 {
        return mismatch("outside_box", &els, p, got, 0, "a point outside the box of the control points has winding");
    }
    if Shape::contains(&els.as_slice(), p) {
        return fail("contains:outside-box", format!("contains({:?}) on {:?}", p, els));
    }
    None
}

// ---- metamorphic laws -------------------------------------------------------------------------------------

fn rebuild(segs: &[PathSeg]) -> Vec<PathEl> {
    // elements of a chain of segments, a MoveTo wherever the chain is broken, no ClosePath (chains are closed already)
    let mut v = Vec::new();
    let mut last: Option<Point> = None;
    for s in segs {
        let (a, _) = seg_ends(s);
        if last != Some(a) {
            v.push(PathEl::MoveTo(a));
        }
        v.push(s.as_path_el());
        last = Some(seg_ends(s).1);
    }
    v
}

fn far_enough(els: &[PathEl], p: Point, delta: f64) -> bool {
    ref_winding(els, p, delta).is_some()
}

/// L4: reversing the path negates the winding number
fn law_reverse(a: &[f64]) -> Option<(String, String)> {
    let (_, p, els) = unpack(a);
    if !far_enough(&els, p, 1e-6) {
        return None;
    }
    let segs = path_segs(&els)?;
    let rev: Vec<PathSeg> = segs.iter().rev().map(|s| s.reverse()).collect();
    let rels = rebuild(&rev);
    let (w, wr) = (els.as_slice().winding(p), rels.as_slice().winding(p));
    // the library's own reversal (every sub-path of these paths is closed, so the reversed path has the same trace)
    let lib = BezPath::from_vec(els.clone()).reverse_subpaths();
    let wl = lib.winding(p);
    if wl != -w && wr == -w {
        return mismatch("reverse_subpaths", lib.elements(), p, wl, -w, "minus the winding number of the original path (BezPath::reverse_subpaths)");
    }
    if wr != -w {
        // which of the two is wrong?
        let want = ref_winding(&els, p, 1e-6).unwrap();
        if w != want {
            return mismatch("reverse", &els, p, w, want, "the winding number of the refined polyline");
        }
        return mismatch("reverse", &rels, p, wr, -want, "minus the winding number of the original path");
    }
    None
}

fn apply(m: &[f64; 6], p: Point) -> Point {
    Point::new(m[0] * p.x + m[2] * p.y + m[4], m[1] * p.x + m[3] * p.y + m[5])
}
fn map_els(m: &[f64; 6], els: &[PathEl]) -> Vec<PathEl> {
    els.iter()
        .map(|e| match e {
            PathEl::MoveTo(p) => PathEl::MoveTo(apply(m, *p)),
            PathEl::LineTo(p) => PathEl::LineTo(apply(m, *p)),
            PathEl::QuadTo(a, b) => PathEl::QuadTo(apply(m, *a), apply(m, *b)),
            PathEl::CurveTo(a, b, c) => PathEl::CurveTo(apply(m, *a), apply(m, *b), apply(m, *c)),
            PathEl::ClosePath => PathEl::ClosePath,
        })
        .collect()
}

fn g_affine(r: &mut Rng) -> Vec<f64> {
    let els = if r.chance(1, 3) { gen_polygon_path(r) } else { gen_curved_path(r, &[0, 1, 2]) };
    let p = gen_query(r, &els);
    // rotation * non-uniform scale (possibly a reflection) * shear, singular values within [0.4, 2.5]
    let th = match r.below(4) {
        0 => 0.0,
        1 => std::f64::consts::FRAC_PI_2,
        _ => r.uniform(0.0, 6.28),
    };
    let (sx, sy) = (r.uniform(0.5, 2.0), r.uniform(0.5, 2.0) * if r.bool() { -1.0 } else { 1.0 });
    let sh = if r.bool() { 0.0 } else { r.uniform(-0.3, 0.3) };
    let (c, s) = (th.cos(), th.sin());
    // M = R * [[sx, sh*sy],[0, sy]]
    let m = [c * sx, s * sx, c * sh * sy - s * sy, s * sh * sy + c * sy, r.uniform(-3.0, 3.0), r.uniform(-3.0, 3.0)];
    pack(m, p, &els)
}

/// L5: a non-singular affine map multiplies the winding number by the sign of its determinant
fn law_affine(a: &[f64]) -> Option<(String, String)> {
    let (m, p, els) = unpack(a);
    let det = m[0] * m[3] - m[1] * m[2];
    if !(det.abs() > 0.1) {
        return None;
    }
    if !far_enough(&els, p, 1e-5) {
        return None;
    }
    let mels = map_els(&m, &els);
    let mp = apply(&m, p);
    if !far_enough(&mels, mp, 1e-6) {
        return None;
    }
    let (w, wm) = (els.as_slice().winding(p), mels.as_slice().winding(mp));
    let sg = if det > 0.0 { 1 } else { -1 };
    if wm != sg * w {
        let want = ref_winding(&els, p, 1e-6).unwrap();
        if w != want {
            return mismatch("affine", &els, p, w, want, "the winding number of the refined polyline");
        }
        return mismatch("affine", &mels, mp, wm, sg * want, "sign(det) times the winding number of the original path");
    }
    None
}

fn raise_seg(s: &PathSeg) -> PathSeg {
    match s {
        PathSeg::Line(l) => PathSeg::Quad(QuadBez::new(l.p0, l.p0.midpoint(l.p1), l.p1)),
        PathSeg::Quad(q) => PathSeg::Cubic(q.raise()),
        PathSeg::Cubic(c) => PathSeg::Cubic(*c),
    }
}

/// chain of segments -> elements, keeping the chain connected: each segment is re-based on the previous end point
fn chain_els(chains: &[Vec<PathSeg>]) -> Vec<PathEl> {
    let mut v = Vec::new();
    for ch in chains {
        if ch.is_empty() {
            continue;
        }
        v.push(PathEl::MoveTo(seg_ends(&ch[0]).0));
        for s in ch {
            v.push(s.as_path_el());
        }
        v.push(PathEl::ClosePath);
    }
    v
}
fn sub_chains(segs: &[PathSeg]) -> Vec<Vec<PathSeg>> {
    let mut out: Vec<Vec<PathSeg>> = Vec::new();
    let mut last: Option<Point> = None;
    for s in segs {
        let (a, b) = seg_ends(s);
        if last != Some(a) || out.is_empty() {
            out.push(Vec::new());
        }
        out.last_mut().unwrap().push(*s);
        last = Some(b);
    }
    out
}

/// L6: splitting every segment at an interior parameter leaves the winding number unchanged
fn law_split(a: &[f64]) -> Option<(String, String)> {
    let (k, p, els) = unpack(a);
    if !far_enough(&els, p, 1e-6) {
        return None;
    }
    let segs = path_segs(&els)?;
    let ts = [0.5, 0.25 + 0.5 * k[0], 0.05 + 0.9 * k[1], 0.125];
    let chains: Vec<Vec<PathSeg>> = sub_chains(&segs)
        .iter()
        .map(|ch| {
            let mut o = Vec::new();
            for (i, s) in ch.iter().enumerate() {
                let t = ts[(i + (k[2] * 4.0) as usize) % 4];
                o.push(s.subsegment(0.0..t));
                o.push(s.subsegment(t..1.0));
            }
            o
        })
        .collect();
    let sels = chain_els(&chains);
    if !far_enough(&sels, p, 1e-6) {
        return None;
    }
    let (w, ws) = (els.as_slice().winding(p), sels.as_slice().winding(p));
    if w != ws {
        let want = ref_winding(&els, p, 1e-6).unwrap();
        if w != want {
            return mismatch("split", &els, p, w, want, "the winding number of the refined polyline");
        }
        return mismatch("split", &sels, p, ws, want, "the winding number of the unsplit path");
    }
    None
}

/// L7: degree raising (line -> quadratic -> cubic, quadratic -> cubic) leaves the winding number unchanged
fn law_raise(a: &[f64]) -> Option<(String, String)> {
    let (k, p, els) = unpack(a);
    if !far_enough(&els, p, 1e-6) {
        return None;
    }
    let segs = path_segs(&els)?;
    let twice = k[3] < 0.5;
    let chains: Vec<Vec<PathSeg>> = sub_chains(&segs)
        .iter()
        .map(|ch| ch.iter().map(|s| if twice { raise_seg(&raise_seg(s)) } else { raise_seg(s) }).collect())
        .collect();
    let rels = chain_els(&chains);
    if !far_enough(&rels, p, 1e-6) {
        return None;
    }
    let (w, wr) = (els.as_slice().winding(p), rels.as_slice().winding(p));
    if w != wr {
        let want = ref_winding(&els, p, 1e-6).unwrap();
        if w != want {
            return mismatch("raise", &els, p, w, want, "the winding number of the refined polyline");
        }
        return mismatch("raise", &rels, p, wr, want, "the winding number of the path before degree raising");
    }
    None
}

fn g_any(r: &mut Rng) -> Vec<f64> {
    let els = match r.below(4) {
        0 => gen_polygon_path(r),
        1 => {
            let mut v = gen_curved_path(r, &[0, 1, 2]);
            if r.bool() {
                v.pop(); // unclosed
            }
            v
        }
        _ => gen_curved_path(r, &[0, 1, 2]),
    };
    let p = gen_query(r, &els);
    pack([0.0; NPAR], p, &els)
}

/// L8: contains <=> winding != 0, and BezPath / &[PathEl] / [PathEl; N] / Segments agree — for every point and path
fn law_contains_views(a: &[f64]) -> Option<(String, String)> {
    let (_, p, els) = unpack(a);
    path_segs(&els)?;
    let w = els.as_slice().winding(p);
    let c = Shape::contains(&els.as_slice(), p);
    if c != (w != 0) {
        return fail("contains:iff-nonzero", format!("slice: contains({:?}) = {}, winding = {}; {:?}", p, c, w, els));
    }
    let bp = BezPath::from_vec(els.clone());
    if bp.winding(p) != w || bp.contains(p) != c {
        return fail("views:bezpath-vs-slice", format!("BezPath winding {} contains {} vs slice {} {}; p={:?} {:?}", bp.winding(p), bp.contains(p), w, c, p, els));
    }
    if els.len() == 4 {
        let arr: [PathEl; 4] = [els[0], els[1], els[2], els[3]];
        if arr.winding(p) != w || Shape::contains(&arr, p) != c {
            return fail("views:array-vs-slice", format!("[PathEl; 4] winding {} vs slice {}; p={:?} {:?}", arr.winding(p), w, p, els));
        }
    }
    if els.len() == 5 {
        let arr: [PathEl; 5] = [els[0], els[1], els[2], els[3], els[4]];
        if arr.winding(p) != w || Shape::contains(&arr, p) != c {
            return fail("views:array-vs-slice", format!("[PathEl; 5] winding {} vs slice {}; p={:?} {:?}", arr.winding(p), w, p, els));
        }
    }
    // sum of the per-piece ray casts (hook) over the monotone pieces: either the required pieces (a segment
    // without interior extrema used as it is) or, on the tree before the repair, extrema_ranges + subsegment
    let segs = path_segs(&els)?;
    let s1: i32 = segs.iter().map(|s| pieces_req(s).iter().map(|pc| pc.verif_winding_inner(p)).sum::<i32>()).sum();
    let s2: i32 = segs.iter().map(|s| pieces(s).iter().map(|pc| pc.verif_winding_inner(p)).sum::<i32>()).sum();
    if s1 != w && s2 != w {
        return fail("views:sum-of-pieces", format!("sum of winding_inner over the monotone pieces = {} (or {}) but winding = {}; p={:?} {:?}", s1, s2, w, p, els));
    }
    None
}

/// L9: the monotone pieces of a segment share their end points bit for bit, start at the segment's start and end
/// at its end (what makes the half-open rule count every row exactly once)
fn g_seg_only(r: &mut Rng) -> Vec<f64> {
    enc_seg(&gen_wseg(r))
}
fn law_pieces_share_endpoints(a: &[f64]) -> Option<(String, String)> {
    let (s, _) = dec_seg(a);
    if let PathSeg::Line(_) = s {
        // PathSeg::winding must use a line as it is; checked through the vertex-row laws
        return None;
    }
    let ps = pieces(&s);
    let (s0, s1) = seg_ends(&s);
    if seg_ends(&ps[0]).0 != s0 || seg_ends(&ps[ps.len() - 1]).1 != s1 {
        return fail(&format!("pieces:outer-endpoints:{}", kind(&s)), format!("{:?}: pieces {:?}", s, ps));
    }
    for w in ps.windows(2) {
        if seg_ends(&w[0]).1 != seg_ends(&w[1]).0 {
            return fail(&format!("pieces:shared-endpoint:{}", kind(&s)), format!("{:?}: pieces {:?}", s, ps));
        }
    }
    None
}

/// L10: the per-piece ray cast (hook) on the implementation's monotone pieces against the bisection reference,
/// query points over the whole x-extent of the control polygon (between end points and control points included)
fn g_piece(r: &mut Rng) -> Vec<f64> {
    let s = match r.below(4) {
        0 => {
            // bulging quadratic: control point beyond both end points in x
            let (a, b) = (Point::new(gen53(r), gen53(r)), Point::new(gen53(r), gen53(r)));
            let cx = a.x.max(b.x) + r.uniform(0.5, 30.0) * if r.bool() { 1.0 } else { -1.0 };
            PathSeg::Quad(QuadBez::new(a, Point::new(cx, r.uniform(a.y.min(b.y), a.y.max(b.y))), b))
        }
        1 => {
            let (a, b) = (Point::new(gen53(r), gen53(r)), Point::new(gen53(r), gen53(r)));
            let (c1x, c2x) = (a.x.max(b.x) + r.uniform(-10.0, 40.0), a.x.min(b.x) - r.uniform(-10.0, 40.0));
            let (lo, hi) = (a.y.min(b.y), a.y.max(b.y));
            PathSeg::Cubic(CubicBez::new(a, Point::new(c1x, r.uniform(lo, hi)), Point::new(c2x, r.uniform(lo, hi)), b))
        }
        _ => gen_wseg(r),
    };
    let ps = pieces_req(&s);
    let pc = *r.pick(&ps);
    let cs = ctrl(&pc);
    let (st, en) = seg_ends(&pc);
    let minx = cs.iter().fold(f64::INFINITY, |m, c| m.min(c.x));
    let maxx = cs.iter().fold(f64::NEG_INFINITY, |m, c| m.max(c.x));
    let y = match r.below(8) {
        0 => st.y,
        1 => en.y,
        _ => r.uniform(st.y.min(en.y), st.y.max(en.y)),
    };
    let x = match r.below(6) {
        0 => cs[r.below(cs.len() as u64) as usize].x,
        1 => maxx + 1.0,
        2 => minx - 1.0,
        _ => r.uniform(minx, maxx),
    };
    let mut v = enc_seg(&pc);
    v.push(x);
    v.push(y);
    v
}
fn law_piece_reference(a: &[f64]) -> Option<(String, String)> {
    let (pc, rest) = dec_seg(a);
    let p = Point::new(rest[0], rest[1]);
    if !sampled_monotone(&pc) {
        return None;
    }
    let (want, margin) = ref_piece_margin(&pc, p);
    let sc = ctrl(&pc).iter().fold(1e-300f64, |m, c| m.max(c.x.abs()).max(c.y.abs()));
    if margin < 1e-6 * sc {
        return None;
    }
    let got = pc.verif_winding_inner(p);
    if got != want {
        let tiny = matches!(pc, PathSeg::Cubic(c) if tiny_leading(&c, p));
        let class = if tiny { "winding:cubic-solver-tiny-leading-coefficient".to_string() } else { format!("winding:piece:{}", kind(&pc)) };
        return fail(&class, format!("winding_inner({:?}, {:?}) = {} but the crossing found by bisection gives {} (horizontal distance {:e})", pc, p, got, want, margin));
    }
    None
}

fn laws() -> Vec<Law> {
    vec![
        Law { name: "polygon_exact", gen: g_polygon, check: law_polygon_exact, weight: 8 },
        Law { name: "curved_refined", gen: g_curved, check: law_curved_refined, weight: 4 },
        Law { name: "curved_refined_nearlinear", gen: g_nearlinear, check: law_curved_refined, weight: 1 },
        Law { name: "outside_box", gen: g_outside, check: law_outside_box, weight: 6 },
        Law { name: "reverse", gen: g_curved, check: law_reverse, weight: 2 },
        Law { name: "affine", gen: g_affine, check: law_affine, weight: 2 },
        Law { name: "split", gen: g_curved, check: law_split, weight: 2 },
        Law { name: "raise", gen: g_curved, check: law_raise, weight: 3 },
        Law { name: "contains_views", gen: g_any, check: law_contains_views, weight: 3 },
        Law { name: "pieces_share_endpoints", gen: g_seg_only, check: law_pieces_share_endpoints, weight: 3 },
        Law { name: "piece_reference", gen: g_piece, check: law_piece_reference, weight: 6 },
    ]
}

// ------------------------------------------------------------------------------------------------
// extra: witnesses

fn extra(_r: &mut Rng, _thorough: bool, o: &mut Out) {
    // the hexagon of the property text: a point 2 units outside on a vertex row
    let hexagon: Vec<Point> = (0..6)
        .map(|i| {
            let th = std::f64::consts::PI / 3.0 * i as f64;
            Point::new(10.0 * th.cos(), 10.0 * th.sin())
        })
        .collect();
    let els = polygon_els(&[hexagon.clone()], true);
    let mut bad = Vec::new();
    for v in &hexagon {
        for px in [12.0, 11.0, 10.5] {
            let p = Point::new(px, v.y);
            let w = els.as_slice().winding(p);
            if w != 0 {
                bad.push(format!("{:?} -> {}", p, w));
            }
        }
    }
    if !bad.is_empty() {
        o.violation(
            "winding:polygon:special-row:hexagon",
            format!("regular hexagon of radius 10: points outside it on vertex rows have non-zero winding: {}", bad.join(", ")),
            format!("{{\"law\":\"outside_box\",\"args\":{}}}", crate::util::fmt_fs(&pack([0.0; NPAR], Point::new(12.0, hexagon[1].y), &els))),
        );
    }
    // degree-raised quadratic as a cubic: the cubic solver's cancellation (C15) — known finding replay
    let q = QuadBez::new((0.1, 0.2), (0.7, 1.3), (1.9, 0.4));
    let quad_path = vec![PathEl::MoveTo(q.p0), PathEl::QuadTo(q.p1, q.p2), PathEl::ClosePath];
    let c = q.raise();
    let cub_path = vec![PathEl::MoveTo(c.p0), PathEl::CurveTo(c.p1, c.p2, c.p3), PathEl::ClosePath];
    let mut n = 0;
    let mut bad = 0;
    let mut first = String::new();
    for i in 1..40 {
        for j in 1..40 {
            let p = Point::new(0.1 + 1.8 * i as f64 / 40.0, 0.2 + 0.6 * j as f64 / 40.0 + 1e-3);
            if !far_enough(&quad_path, p, 1e-4) {
                continue;
            }
            n += 1;
            if quad_path.as_slice().winding(p) != cub_path.as_slice().winding(p) {
                bad += 1;
                if first.is_empty() {
                    first = format!("{:?}: quadratic {} degree-raised {}", p, quad_path.as_slice().winding(p), cub_path.as_slice().winding(p));
                }
            }
        }
    }
    o.known(
        "C01-degree-raised-cubic",
        bad > 0,
        format!("quadratic (0.1,0.2)(0.7,1.3)(1.9,0.4) closed by a line vs its degree-raised cubic: {} of {} grid points disagree; {}", bad, n, first),
    );
}
